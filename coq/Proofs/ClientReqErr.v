(* The "cannot happen" branches of Model/ClientReq.v (outputs OErr k) are unreachable: in every run from a fresh client
   over events whose reply frames fit the length limit, no OErr is ever emitted except OErr 30 (a metadata response
   whose abstract payload does not parse reached _handleMetadataResponse - outside the event alphabet: the driver only
   builds well-formed metadata responses).  Props/C11.v: C11_no_anomaly.
   Invariants used: TInvC (ClientReqBase), PB (ClientReqBt) and XInv below - an unresolved request made for an
   operation is the one that operation is waiting for; self.clients points at distinct open broker clients. *)
From AV Require Import Base.Util Proofs.UtilFacts Model.Framing Proofs.FramingFacts
  Proofs.BrokerClientTbl Proofs.BrokerClientInv Proofs.BrokerClientC06 Proofs.BrokerClientC10.
From AV Require Model.BrokerClient.
From AV Require Import Model.ClientReq Proofs.ClientReqBase Proofs.ClientReqStep Proofs.ClientReqC11 Proofs.ClientReqC11d
  Proofs.ClientReqMono Proofs.ClientReqMono2 Proofs.ClientReqStruct Proofs.ClientReqBt Proofs.ClientReqClosed Proofs.ClientReqC20b.
From Coq Require Import Lia FinFun Sorting.Sorted.

(* ------------------------------------------------------------------ M7: outputs that are neither exceptions nor anomalies *)
Definition clean_out (o : BrokerClient.output) : bool :=
  match o with BrokerClient.ORaised _ | BrokerClient.OErr _ _ => false | _ => true end.
Definition clean (os : list BrokerClient.output) : Prop := forallb clean_out os = true.

Lemma clean_app a b : clean a -> clean b -> clean (a ++ b).
Proof. unfold clean. intros A B. rewrite forallb_app, A, B. reflexivity. Qed.

Lemma clean_in os o : clean os -> In o os -> clean_out o = true.
Proof. unfold clean. rewrite forallb_forall. auto. Qed.

(* no exception of kind 1..4 *)
Definition nr_out (o : BrokerClient.output) : bool :=
  match o with BrokerClient.ORaised k => k =? 5 | _ => true end.
Definition nr (os : list BrokerClient.output) : Prop := forallb nr_out os = true.
Lemma nr_app a b : nr a -> nr b -> nr (a ++ b).
Proof. unfold nr. intros A B. rewrite forallb_app, A, B. reflexivity. Qed.

Lemma fire_nr t h o : nr (snd (BrokerClient.fire t h o)).
Proof. unfold BrokerClient.fire. destruct (BrokerClient.is_fired t h); reflexivity. Qed.
Lemma cancel_nr t h : nr (snd (BrokerClient.cancel t h)).
Proof.
  unfold BrokerClient.cancel. destruct (nth_error _ h); [|reflexivity]. destruct (BrokerClient.is_fired t h); [reflexivity|].
  destruct (BrokerClient.lookup _ _); [|reflexivity]. apply fire_nr.
Qed.
Lemma send_request_nr t r : nr (snd (BrokerClient.send_request t r)).
Proof.
  unfold BrokerClient.send_request. destruct (BrokerClient.r_expect r); [reflexivity|].
  match goal with |- context [BrokerClient.fire ?a ?b ?c] => pose proof (fire_nr a b c) as H; destruct (BrokerClient.fire a b c) end.
  cbn [snd] in *. apply (nr_app [_]); [reflexivity | exact H].
Qed.
Lemma send_each_nr : forall snap t, nr (snd (BrokerClient.send_each t snap)).
Proof.
  induction snap as [|r rest IH]; intro t; cbn [BrokerClient.send_each]; [reflexivity|].
  destruct (BrokerClient.r_sent r); [apply IH|].
  pose proof (send_request_nr t r) as H1. destruct (BrokerClient.send_request t r) as [t1 o1].
  pose proof (IH t1) as H2. destruct (BrokerClient.send_each t1 rest). cbn [snd] in *. apply nr_app; assumption.
Qed.
Lemma fail_all_nr : forall rs t, nr (snd (BrokerClient.fail_all t rs)).
Proof.
  induction rs as [|r rs IH]; intro t; cbn [BrokerClient.fail_all]; [reflexivity|].
  destruct (BrokerClient.r_cancelled r); [apply IH|].
  pose proof (fire_nr t (BrokerClient.r_h r) BrokerClient.FailClosed) as H1. destruct (BrokerClient.fire t _ _) as [t1 o1].
  pose proof (IH t1) as H2. destruct (BrokerClient.fail_all t1 rs). cbn [snd] in *. apply nr_app; assumption.
Qed.
Lemma fire_down_nr s : nr (snd (BrokerClient.fire_down s)).
Proof. unfold BrokerClient.fire_down. destruct (BrokerClient.s_down s); reflexivity. Qed.

Lemma handle_response_nr t f cid : corr_id f = Some cid -> nr (snd (BrokerClient.handle_response t f)).
Proof.
  intro E. unfold BrokerClient.handle_response. rewrite E. destruct (BrokerClient.lookup _ _); [|reflexivity].
  destruct (BrokerClient.r_cancelled r); [reflexivity | apply fire_nr].
Qed.

(* the events the client layer sends to a broker client, with what it knows when it sends them *)
Definition ev_ok (s : BrokerClient.state) (e : BrokerClient.event) : Prop :=
  match e with
  | BrokerClient.EMake rid _ => BrokerClient.lookup rid (BrokerClient.t_reqs (BrokerClient.s_t s)) = None
  | BrokerClient.EClose => BrokerClient.s_down s = BrokerClient.DNone
  | BrokerClient.EUpdate same _ => same = true
  | BrokerClient.EFrame body => BrokerClient.s_rxbuf s = [] /\ frame_ok ok4 body
  | BrokerClient.EData _ => False
  | _ => True
  end.

Lemma m7_nr s e s' mo : ev_ok s e -> BrokerClient.step s e = (s', mo) -> nr mo.
Proof.
  intros K H. destruct e; cbn [BrokerClient.step ev_ok] in *.
  - unfold BrokerClient.make_request in H. cbv zeta in H. rewrite K in H.
    destruct (BrokerClient.s_down s).
    + destruct (BrokerClient.s_proto s).
      * unfold BrokerClient.lift in H. injection H as _ <-. apply send_request_nr.
      * destruct (BrokerClient.s_connector s); injection H as _ <-; reflexivity.
    + unfold BrokerClient.lift in H. injection H as _ <-. apply fire_nr.
    + unfold BrokerClient.lift in H. injection H as _ <-. apply fire_nr.
  - unfold BrokerClient.lift in H. injection H as _ <-. apply cancel_nr.
  - destruct (BrokerClient.s_connector s); try (injection H as _ <-; reflexivity).
    cbn [BrokerClient.s_down BrokerClient.with_rxbuf BrokerClient.with_proto BrokerClient.with_connector BrokerClient.with_failures] in H.
    destruct (BrokerClient.s_down s); [unfold BrokerClient.lift in H; injection H as _ <-; apply send_each_nr | |]; injection H as _ <-; reflexivity.
  - destruct (BrokerClient.s_connector s); try (injection H as _ <-; reflexivity).
    destruct (BrokerClient.s_down s); [injection H as _ <-; reflexivity | |];
      (pose proof (fire_down_nr (BrokerClient.with_connector s BrokerClient.CStale)) as X; rewrite H in X; exact X).
  - destruct (BrokerClient.s_proto s); [|injection H as _ <-; reflexivity].
    cbn [BrokerClient.s_down BrokerClient.with_t BrokerClient.with_rxbuf BrokerClient.with_proto] in H.
    destruct (BrokerClient.s_down s).
    + destruct (map _ _); injection H as _ <-; reflexivity.
    + match type of H with BrokerClient.fire_down ?x = _ => pose proof (fire_down_nr x) as X end. rewrite H in X. exact X.
    + match type of H with BrokerClient.fire_down ?x = _ => pose proof (fire_down_nr x) as X end. rewrite H in X. exact X.
  - destruct K.
  - destruct K as [B F]. destruct (BrokerClient.s_proto s) eqn:P; [|injection H as _ <-; reflexivity].
    pose proof (step_frame s body P B F) as X. cbn [BrokerClient.step] in X. rewrite P in X. rewrite X in H. injection H as _ <-.
    destruct F as [Ok _]. unfold ok4 in Ok. destruct (corr_id body) as [cid|] eqn:E; [|discriminate].
    exact (handle_response_nr _ _ cid E).
  - destruct (BrokerClient.s_connector s); injection H as _ <-; reflexivity.
  - rewrite K in H. cbn [BrokerClient.s_proto BrokerClient.with_down BrokerClient.s_connector] in H.
    set (s0 := BrokerClient.with_down s BrokerClient.DPending) in *.
    assert (nr (snd (if BrokerClient.s_proto s then (s0, [BrokerClient.OLose]) else
            match BrokerClient.s_connector s with
            | BrokerClient.CNone => BrokerClient.fire_down s0
            | BrokerClient.CAttempt => let (s', o') := BrokerClient.fire_down (BrokerClient.with_connector s0 BrokerClient.CStale) in (s', BrokerClient.OCancelAttempt :: o')
            | BrokerClient.CTimer => let (s', o') := BrokerClient.fire_down (BrokerClient.with_connector s0 BrokerClient.CStale) in (s', BrokerClient.OCancelTimer :: o')
            | BrokerClient.CStale => (s0, [])
            end))) as N1.
    { destruct (BrokerClient.s_proto s); [reflexivity|]. destruct (BrokerClient.s_connector s); try apply fire_down_nr; reflexivity. }
    destruct (if BrokerClient.s_proto s then _ else _) as [s1 o1]. cbn [snd] in N1.
    match type of H with context [BrokerClient.fail_all ?a ?b] => pose proof (fail_all_nr b a) as F; destruct (BrokerClient.fail_all a b) as [t2 o2] end.
    injection H as _ <-. apply nr_app; assumption.
  - destruct (BrokerClient.s_proto s); injection H as _ <-; reflexivity.
  - subst same. injection H as _ <-. reflexivity.
Qed.

Lemma m7_clean s e s' mo : CInv s -> ev_ok s e -> BrokerClient.step s e = (s', mo) -> clean mo.
Proof.
  intros I K H. pose proof (m7_nr _ _ _ _ K H) as N. destruct (step_inv _ _ _ _ I H) as (_ & _ & Sc).
  pose proof (scan_no_anomaly _ _ _ _ Sc) as A. unfold clean. apply forallb_forall. intros o Ho.
  destruct (A o Ho) as [A1 A2]. unfold nr in N. rewrite forallb_forall in N. specialize (N o Ho).
  destruct o; try reflexivity.
  - cbn in N. apply Z.eqb_eq in N. subst k. exfalso. apply A2. reflexivity.
  - exfalso. exact (A1 k h eq_refl).
Qed.

Lemma m7_open_stays s e : e <> BrokerClient.EClose -> BrokerClient.s_down s = BrokerClient.DNone ->
  BrokerClient.s_down (fst (BrokerClient.step s e)) = BrokerClient.DNone.
Proof.
  intros NE D. destruct e; cbn [BrokerClient.step]; try congruence.
  - unfold BrokerClient.make_request. cbv zeta. destruct (BrokerClient.lookup rid _); [exact D|]. rewrite D.
    destruct (BrokerClient.s_proto s); [exact D|]. destruct (BrokerClient.s_connector s); exact D.
  - exact D.
  - destruct (BrokerClient.s_connector s); try exact D. cbn. rewrite D. exact D.
  - destruct (BrokerClient.s_connector s); try exact D. rewrite D. exact D.
  - destruct (BrokerClient.s_proto s); [|exact D]. cbn. rewrite D. destruct (map _ _); exact D.
  - destruct (BrokerClient.s_proto s); [|exact D]. unfold BrokerClient.data_in. destruct (data_received _ _ _). destruct (BrokerClient.deliver _ _).
    destruct r; exact D.
  - destruct (BrokerClient.s_proto s); [|exact D]. unfold BrokerClient.data_in. destruct (data_received _ _ _). destruct (BrokerClient.deliver _ _).
    destruct r; exact D.
  - destruct (BrokerClient.s_connector s); exact D.
  - destruct (BrokerClient.s_proto s); exact D.
  - destruct same; exact D.
Qed.

(* the receive buffer of a broker client stays empty: only whole, admissible frames are delivered *)
Lemma m7_rx_stays s e : ev_ok s e -> BrokerClient.s_rxbuf s = [] -> BrokerClient.s_rxbuf (fst (BrokerClient.step s e)) = [].
Proof.
  intros K B. destruct e; cbn [BrokerClient.step ev_ok] in *.
  - unfold BrokerClient.make_request. cbv zeta. rewrite K. destruct (BrokerClient.s_down s); try exact B.
    destruct (BrokerClient.s_proto s); [exact B|]. destruct (BrokerClient.s_connector s); exact B.
  - exact B.
  - destruct (BrokerClient.s_connector s); try exact B. cbn. destruct (BrokerClient.s_down s); reflexivity.
  - destruct (BrokerClient.s_connector s); try exact B. destruct (BrokerClient.s_down s); [exact B | |];
      unfold BrokerClient.fire_down; cbn; destruct (BrokerClient.s_down s); exact B.
  - destruct (BrokerClient.s_proto s); [|exact B]. cbn. destruct (BrokerClient.s_down s); [destruct (map _ _); reflexivity | |];
      unfold BrokerClient.fire_down; cbn; destruct (BrokerClient.s_down s); reflexivity.
  - destruct K.
  - destruct K as [_ F]. destruct (BrokerClient.s_proto s) eqn:P; [|exact B].
    pose proof (step_frame s body P B F) as X. cbn [BrokerClient.step] in X. rewrite P in X. rewrite X. reflexivity.
  - destruct (BrokerClient.s_connector s); exact B.
  - rewrite K. cbn [BrokerClient.s_proto BrokerClient.with_down BrokerClient.s_connector].
    set (s0 := BrokerClient.with_down s BrokerClient.DPending).
    assert (BrokerClient.s_rxbuf (fst (if BrokerClient.s_proto s then (s0, [BrokerClient.OLose]) else
            match BrokerClient.s_connector s with
            | BrokerClient.CNone => BrokerClient.fire_down s0
            | BrokerClient.CAttempt => let (s', o') := BrokerClient.fire_down (BrokerClient.with_connector s0 BrokerClient.CStale) in (s', BrokerClient.OCancelAttempt :: o')
            | BrokerClient.CTimer => let (s', o') := BrokerClient.fire_down (BrokerClient.with_connector s0 BrokerClient.CStale) in (s', BrokerClient.OCancelTimer :: o')
            | BrokerClient.CStale => (s0, [])
            end)) = []) as N1.
    { destruct (BrokerClient.s_proto s); [exact B|]. destruct (BrokerClient.s_connector s); unfold BrokerClient.fire_down; cbn; exact B. }
    destruct (if BrokerClient.s_proto s then _ else _) as [s1 o1]. cbn [fst] in N1.
    destruct (BrokerClient.fail_all _ _). exact N1.
  - destruct (BrokerClient.s_proto s); exact B.
  - destruct same; exact B.
Qed.

(* ------------------------------------------------------------------ outputs without anomaly *)
Definition okout (os : list output) : Prop := forall k, In (OErr k) os -> k = 30.
Lemma okout_nil : okout []. Proof. intros k []. Qed.
Lemma okout_app a b : okout a -> okout b -> okout (a ++ b).
Proof. intros A B k H. apply in_app_or in H. destruct H; auto. Qed.
Ltac ok_list := solve [let k := fresh "k" in let H := fresh "H" in unfold okout; intros k H; cbn [In app] in H;
  repeat (destruct H as [H|H]; [discriminate H|]); contradiction].

(* ------------------------------------------------------------------ the structural invariant
   [pend]: Deferreds M7 has fired in this reactor turn whose callbacks the client model has not run yet (as in TInvC);
   [ex]: broker clients already popped from self.clients, about to be closed. *)
Definition free (pend : list (nat * nat)) (C : cstate) (p : nat) : Prop :=
  forall i n s qs h q, nth_error (cores C) i = Some (n, s, qs) -> nth_error qs h = Some q -> q_owner q = OfOp p ->
    sfired s h /\ ~ In (i, h) pend.

Definition open_at (C : cstate) (i : nat) : Prop := exists n s qs, nth_error (cores C) i = Some (n, s, qs) /\ is_open s.

Record XInv (pend : list (nat * nat)) (ex : list nat) (C : cstate) : Prop := {
  x_conv : forall i n s qs h q p, nth_error (cores C) i = Some (n, s, qs) -> nth_error qs h = Some q -> q_owner q = OfOp p ->
             (~ sfired s h \/ In (i, h) pend) ->
             exists o rest, nth_error (c_ops C) p = Some o /\ o_phase o = PKnown rest i h;
  x_own : forall i n s qs h q p, nth_error (cores C) i = Some (n, s, qs) -> nth_error qs h = Some q -> q_owner q = OfOp p ->
            (p < length (c_ops C))%nat;
  x_cl : forall cl, c_clients C = Some cl ->
           NoDup (map snd cl) /\ forall n i, In (n, i) cl -> ~ In i ex /\ open_at C i;
  x_ex : NoDup ex /\ forall i, In i ex -> open_at C i;
  x_dir : forall d i h, nth_error (c_direct C) d = Some (i, h) -> (i < length (cores C))%nat;
  x_boot : forall a p rid st, nth_error (c_boots C) a = Some (p, rid, st) -> (p < length (c_ops C))%nat;
  x_rx : forall i n s qs, nth_error (cores C) i = Some (n, s, qs) -> BrokerClient.s_rxbuf s = []
}.

Lemma XInv_frame pend ex C C' : cores C' = cores C -> c_clients C' = c_clients C -> c_ops C' = c_ops C ->
  c_direct C' = c_direct C -> c_boots C' = c_boots C -> XInv pend ex C -> XInv pend ex C'.
Proof.
  intros E Ec Eo Ed Eb [A B D F G H R]. unfold open_at in *. constructor; unfold open_at; rewrite ?E, ?Ec, ?Eo, ?Ed, ?Eb; assumption.
Qed.

Lemma XInv_core pend ex C C' : same_core C C' -> same_rest C C' -> XInv pend ex C -> XInv pend ex C'.
Proof. intros [E _] (_ & E2 & _ & _ & _ & E6 & E7 & E8). apply XInv_frame; assumption. Qed.

Lemma free_frame pend C C' p : cores C' = cores C -> free pend C p -> free pend C' p.
Proof. intros E F. unfold free. rewrite E. exact F. Qed.

(* fewer pending Deferreds: fewer obligations *)
Lemma XInv_drop pend pend' ex C : incl pend' pend -> XInv pend ex C -> XInv pend' ex C.
Proof.
  intros I [A B D F G H R]. constructor; auto.
  intros i n s qs h q p Hc Hq Ow [Ob|Ob]; apply (A i n s qs h q p Hc Hq Ow); [left; exact Ob | right; apply I; exact Ob].
Qed.

(* ------------------------------------------------------------------ one M7 step of broker client i (not makeRequest) *)
Lemma NoDup_app_l_notin {A} (a b : list A) x : NoDup (a ++ b) -> In x a -> ~ In x b.
Proof.
  induction a as [|y a IH]; cbn; [tauto|]. intros N [->|H] Hb.
  - inversion N as [|? ? Nin _]; subst. apply Nin. apply in_or_app. right. exact Hb.
  - inversion N; subst. exact (IH H3 H Hb).
Qed.

Lemma apply_bc_X pend ex ex' C i e C' mo :
  AllCInv C -> XInv pend ex C -> is_make e = false ->
  (forall b, nth_error (c_bcs C) i = Some b -> ev_ok (b_st b) e) ->
  (e <> BrokerClient.EClose /\ ex' = ex \/ e = BrokerClient.EClose /\ ex = i :: ex') ->
  apply_bc C i e = (C', mo) -> XInv (tag i (def_handles mo) ++ pend) ex' C' /\ clean mo.
Proof.
  intros T [A B D F G H R] M K Kx Ap. unfold apply_bc in Ap. destruct (nth_error (c_bcs C) i) as [b|] eqn:Eb.
  2:{ injection Ap as <- <-. cbn [def_handles flat_map tag map app]. split; [|reflexivity].
      destruct Kx as [[_ ->]|[-> ->]]; [constructor; assumption|].
      exfalso. destruct F as [_ F2]. destruct (F2 i (or_introl eq_refl)) as (n & s & qs & Hc & _).
      destruct (cores_nth_inv _ _ _ _ _ Hc) as (b & Hb & _). congruence. }
  destruct (BrokerClient.step (b_st b) e) as [s' mo'] eqn:Es. injection Ap as <- <-.
  pose proof (T i b Eb) as I.
  destruct (fired_after_step _ _ _ _ I Es) as (I' & _ & Fi).
  split; [|exact (m7_clean _ _ _ _ I (K b eq_refl) Es)].
  pose proof (cores_nth _ _ _ Eb) as Ec.
  assert (forall j n s qs, nth_error (cores (upd_bc C i (set_st s'))) j = Some (n, s, qs) ->
            (j = i /\ n = b_node b /\ s = s' /\ qs = b_reqs b) \/ (j <> i /\ nth_error (cores C) j = Some (n, s, qs))) as Inv.
  { intros j n s qs Hj. rewrite cores_set_st in Hj. apply nth_upd_inv in Hj.
    destruct Hj as [[<- (x & Hx & E)]|[N Hj]]; [left | right; split; [congruence | exact Hj]].
    rewrite Ec in Hx. injection Hx as <-. unfold core_st in E. cbn [fst snd] in E. injection E as -> -> ->. auto. }
  assert (forall j, j <> i -> nth_error (cores (upd_bc C i (set_st s'))) j = nth_error (cores C) j) as Oth
    by (intros j N; rewrite cores_set_st; apply nth_upd_other; congruence).
  assert (nth_error (cores (upd_bc C i (set_st s'))) i = Some (b_node b, s', b_reqs b)) as Ec'
    by (rewrite cores_set_st, (nth_upd_same _ _ _ _ Ec); reflexivity).
  assert (is_open (b_st b) -> e <> BrokerClient.EClose -> is_open s') as Op.
  { intros Ho Ne. pose proof (m7_open_stays (b_st b) e Ne Ho) as X. rewrite Es in X. exact X. }
  assert (forall j, open_at C j -> (j <> i \/ e <> BrokerClient.EClose) -> open_at (upd_bc C i (set_st s')) j) as Opa.
  { intros j (n & s & qs & Hc & Ho) Hne. destruct (Nat.eq_dec j i) as [->|Nj].
    - rewrite Ec in Hc. injection Hc as <- <- <-. exists (b_node b), s', (b_reqs b). split; [exact Ec'|]. apply Op; [exact Ho|]. destruct Hne; congruence.
    - exists n, s, qs. split; [rewrite Oth by exact Nj; exact Hc | exact Ho]. }
  constructor.
  - intros j n s qs h q p Hj Hq Ow Ob. change (c_ops (upd_bc C i (set_st s'))) with (c_ops C).
    destruct (Inv j n s qs Hj) as [(-> & -> & -> & ->)|[N Hj0]].
    + apply (A i _ _ _ h q p Ec Hq Ow).
      destruct Ob as [Ob|Ob].
      * left. intro X. apply Ob. unfold sfired. rewrite Fi. apply in_or_app. right. exact X.
      * apply in_app_or in Ob. destruct Ob as [Ob|Ob]; [|right; exact Ob]. left.
        unfold tag in Ob. apply in_map_iff in Ob. destruct Ob as (h' & E & Hh). injection E as ->.
        pose proof (ti_fired_nodup _ (ci_t _ I')) as ND. rewrite Fi in ND.
        apply (NoDup_app_l_notin _ _ h ND). apply in_rev in Hh. exact Hh.
    + apply (A j n s qs h q p Hj0 Hq Ow). destruct Ob as [Ob|Ob]; [left; exact Ob|].
      apply in_app_or in Ob. destruct Ob as [Ob|Ob]; [|right; exact Ob]. apply pend_of_in' in Ob. congruence.
  - intros j n s qs h q p Hj Hq Ow. change (c_ops (upd_bc C i (set_st s'))) with (c_ops C).
    destruct (Inv j n s qs Hj) as [(-> & -> & -> & ->)|[N Hj0]]; [exact (B i _ _ _ h q p Ec Hq Ow) | exact (B j n s qs h q p Hj0 Hq Ow)].
  - intros cl Hc. change (c_clients (upd_bc C i (set_st s'))) with (c_clients C) in Hc.
    destruct (D cl Hc) as [N Kc]. split; [exact N|]. intros n j Hj. destruct (Kc n j Hj) as (X & Ho).
    split; [destruct Kx as [[_ ->]|[_ ->]]; [exact X | intro Y; apply X; right; exact Y]|].
    apply Opa; [exact Ho|]. destruct Kx as [[Ne _]|[_ ->]]; [right; exact Ne | left; intros ->; apply X; left; reflexivity].
  - destruct F as [N Kc]. destruct Kx as [[Ne ->]|[-> ->]].
    + split; [exact N|]. intros j Hj. apply Opa; [exact (Kc j Hj) | right; exact Ne].
    + inversion N as [|? ? Ni N']; subst. split; [exact N'|]. intros j Hj. apply Opa; [exact (Kc j (or_intror Hj))|].
      left. intros ->. exact (Ni Hj).
  - intros d j h Hd. change (c_direct (upd_bc C i (set_st s'))) with (c_direct C) in Hd. rewrite cores_set_st, nth_upd_length.
    exact (G d j h Hd).
  - exact H.
  - intros j n s qs Hj. destruct (Inv j n s qs Hj) as [(-> & -> & -> & ->)|[N Hj0]]; [|exact (R j n s qs Hj0)].
    pose proof (m7_rx_stays (b_st b) e (K b eq_refl) (R i _ _ _ Ec)) as X. rewrite Es in X. exact X.
Qed.

(* ------------------------------------------------------------------ the translation of the other M7 outputs *)
Lemma tr_out_ok C i o : clean_out o = true -> is_tm o = false -> is_def o = false -> okout (snd (tr_out C i o)).
Proof.
  destruct o; try discriminate; intros _ _ _; cbn [tr_out snd]; try ok_list.
  unfold dl_refresh. destruct (c_dl C) as [l|]; [|ok_list]. destruct (filter (bc_pending C) l); [|ok_list].
  destruct (c_wait _); ok_list.
Qed.

Lemma tr_list_ok : forall os C i, clean os -> no_tm os -> (forall o, In o os -> is_def o = false) -> okout (snd (tr_list C i os)).
Proof.
  induction os as [|o os IH]; intros C i Cl N D; cbn [tr_list]; [apply okout_nil|].
  unfold clean in Cl. cbn [forallb] in Cl. apply andb_prop in Cl. destruct Cl as [C1 C2].
  destruct (no_tm_cons _ _ N) as [N1 N2].
  pose proof (tr_out_ok C i o C1 N1 (D o (or_introl eq_refl))) as H1. destruct (tr_out C i o) as [Ca o1]. cbn [snd] in H1.
  pose proof (IH Ca i C2 N2 (fun x Hx => D x (or_intror Hx))) as H2. destruct (tr_list Ca i os). cbn [snd] in *.
  apply okout_app; assumption.
Qed.

Lemma clean_filter p os : clean os -> clean (filter p os).
Proof.
  unfold clean. induction os as [|o os IH]; cbn [filter forallb]; [auto|]. intro H. apply andb_prop in H. destruct H as [A B].
  destruct (p o); cbn [forallb]; [rewrite A, (IH B); reflexivity | exact (IH B)].
Qed.

(* ------------------------------------------------------------------ _make_request_to_broker *)
Lemma make_req_X pend ex C i rid expect mint ow C' r out :
  TInvC pend C -> XInv pend ex C -> (i < length (cores C))%nat ->
  (forall p, ow = OfOp p -> (p < length (c_ops C))%nat /\ free pend C p) ->
  make_req C i rid expect mint ow = (C', r, out) ->
  okout out /\ c_ops C' = c_ops C /\ c_clients C' = c_clients C /\ c_boots C' = c_boots C /\ c_direct C' = c_direct C
  /\ length (cores C') = length (cores C)
  /\ match r with
     | MPending h => (forall p, ow = OfOp p -> forall rest, XInv pend ex (set_phase C' p (PKnown rest i h)))
                     /\ ((forall p, ow <> OfOp p) -> XInv pend ex C')
     | _ => XInv pend ex C' /\ (forall p, ow = OfOp p -> free pend C' p)
            /\ (forall h r0, r = MFired h r0 -> r0 = RNone \/ r0 = RClosed)
     end.
Proof.
  intros T X Li Ow H. unfold make_req in H.
  destruct (nth_error (c_bcs C) i) as [b|] eqn:Eb; [|apply nth_error_None in Eb; unfold cores in Li; rewrite map_length in Li; lia].
  unfold apply_bc in H. rewrite Eb in H.
  destruct (BrokerClient.step (b_st b) (BrokerClient.EMake rid expect)) as [s' mo] eqn:Es.
  destruct (TInvC_bc _ _ _ _ T Eb) as (I & L & A & U & P).
  destruct (fired_after_step _ _ _ _ I Es) as (I' & _ & F).
  pose proof (dlog_is_make_log (b_st b) (BrokerClient.EMake rid expect)) as D. rewrite Es in D. cbn [fst] in D.
  pose proof (cores_nth _ _ _ Eb) as Ec.
  pose proof X as [Xa Xb Xc Xe Xd Xf Xr].
  destruct (BrokerClient.lookup rid (BrokerClient.t_reqs (BrokerClient.s_t (b_st b)))) as [r0|] eqn:Lk.
  - (* DuplicateRequestError: nothing changes *)
    assert (s' = b_st b /\ mo = [BrokerClient.ORaised 1]) as [-> ->].
    { cbn [BrokerClient.step] in Es. unfold BrokerClient.make_request in Es. cbv zeta in Es. rewrite Lk in Es. injection Es as <- <-. auto. }
    cbn in H. injection H as <- <- <-.
    assert (cores (upd_bc C i (set_st (b_st b))) = cores C) as E1.
    { rewrite cores_set_st. apply nth_upd_fix with (x := (b_node b, b_st b, b_reqs b)); [exact Ec | reflexivity]. }
    split; [apply okout_nil|]. split; [reflexivity|]. split; [reflexivity|]. split; [reflexivity|]. split; [reflexivity|].
    split; [rewrite E1; reflexivity|].
    split; [apply (XInv_frame pend ex C); auto|]. split; [|intros; discriminate].
    intros p E. apply (free_frame pend C); [exact E1 | exact (proj2 (Ow p E))].
  - assert (ev_ok (b_st b) (BrokerClient.EMake rid expect)) as Ok by exact Lk.
    pose proof (m7_clean _ _ _ _ I Ok Es) as Cl.
    destruct (make_quiet (b_st b) rid expect I) as [Nt _]. rewrite Es in Nt. cbn [snd] in Nt.
    pose proof (m7_open_stays (b_st b) (BrokerClient.EMake rid expect) ltac:(discriminate)) as Op. rewrite Es in Op. cbn [fst] in Op.
    pose proof (m7_rx_stays (b_st b) (BrokerClient.EMake rid expect) Ok) as Rx. rewrite Es in Rx. cbn [fst] in Rx.
    cbn [BrokerClient.step] in Es. destruct (make_cases _ _ _ _ _ Es) as [[-> ->] | (R & K)]; [discriminate Cl|].
    rewrite R in H.
    assert (sdlog s' = sdlog (b_st b) ++ [rid]) as D'.
    { destruct D as [D|D]; [|exact D]. injection D as _ D. rewrite D in R. discriminate. }
    set (C1 := upd_bc C i (set_st s')) in *.
    pose proof (tr_list_core (filter (fun o => negb (is_def o)) mo) C1 i) as SC.
    pose proof (tr_list_rest (filter (fun o => negb (is_def o)) mo) C1 i) as SR.
    assert (okout (snd (tr_list C1 i (filter (fun o => negb (is_def o)) mo)))) as Ok2.
    { apply tr_list_ok; [apply clean_filter; exact Cl | apply no_tm_filter; exact Nt|].
      intros o Ho. apply filter_In in Ho. destruct Ho as [_ Ho]. destruct (is_def o); [discriminate | reflexivity]. }
    destruct (tr_list C1 i (filter (fun o => negb (is_def o)) mo)) as [C2 o2]. cbn [fst snd] in SC, SR, Ok2.
    destruct SC as [SC1 _]. destruct SR as (_ & SR2 & _ & _ & _ & SR6 & SR7 & SR8).
    unfold new_timer in H.
    set (h := length (BrokerClient.t_dlog (BrokerClient.s_t (b_st b)))) in *.
    assert (length (b_reqs b) = h) as Lh by (unfold h; exact L).
    (* the state with the new closure q appended: its cores *)
    assert (forall q, let C3 := upd_bc (with_timers C2 (c_timers C2 ++ [TReq i h])) i (fun b0 => set_reqs (b_reqs b0 ++ [q]) b0) in
              (c_ops C3 = c_ops C /\ c_clients C3 = c_clients C /\ c_boots C3 = c_boots C /\ c_direct C3 = c_direct C)
              /\ length (cores C3) = length (cores C)
              /\ nth_error (cores C3) i = Some (b_node b, s', b_reqs b ++ [q])
              /\ (forall j, j <> i -> nth_error (cores C3) j = nth_error (cores C) j)) as G.
    { intros q C3.
      assert (cores C3 = nth_upd (nth_upd (cores C) i (core_st s')) i (core_reqs (fun l => l ++ [q]))) as E3.
      { unfold C3. rewrite (cores_set_reqs _ i (fun l => l ++ [q])).
        change (cores (with_timers C2 (c_timers C2 ++ [TReq i h]))) with (cores C2). rewrite SC1. unfold C1. rewrite cores_set_st. reflexivity. }
      split; [split; [|split; [|split]]; cbn; [rewrite SR6 | rewrite SR2 | rewrite SR8 | rewrite SR7]; reflexivity|].
      split; [rewrite E3, !nth_upd_length; reflexivity|]. split.
      - rewrite E3. rewrite (nth_upd_same _ _ _ (core_st s' (b_node b, b_st b, b_reqs b))); [reflexivity|]. apply nth_upd_same. exact Ec.
      - intros j Nj. rewrite E3, !nth_upd_other by congruence. reflexivity. }
    assert (forall hh, sfired s' hh -> (hh < h)%nat -> sfired (b_st b) hh) as Fold.
    { intros hh Z Lt. unfold sfired in Z. rewrite F in Z. apply in_app_or in Z. destruct Z as [Z|Z]; [|exact Z].
      apply in_rev in Z. destruct K as [[K1 _]|(oc & K1 & _)]; rewrite K1 in Z; cbn in Z; [contradiction|]. destruct Z as [Z|[]]. unfold sdlog in Z. fold h in Z. lia. }
    (* everything but the obligation of the new closure *)
    assert (forall q (Hq : forall p, q_owner q = OfOp p -> (p < length (c_ops C))%nat),
              let C3 := upd_bc (with_timers C2 (c_timers C2 ++ [TReq i h])) i (fun b0 => set_reqs (b_reqs b0 ++ [q]) b0) in
              forall ops', length ops' = length (c_ops C) ->
                (forall j n s qs hh q0 p, nth_error (cores C3) j = Some (n, s, qs) -> nth_error qs hh = Some q0 -> q_owner q0 = OfOp p ->
                   (~ sfired s hh \/ In (j, hh) pend) -> exists o rest, nth_error ops' p = Some o /\ o_phase o = PKnown rest j hh) ->
                XInv pend ex (with_ops C3 ops')) as Mk.
    { intros q Hq C3 ops' Lo Conv. destruct (G q) as ((E1 & E2 & E3 & E4) & E5 & E6 & E7). fold C3 in E1, E2, E3, E4, E5, E6, E7.
      assert (forall j, open_at C j -> open_at (with_ops C3 ops') j) as Opa.
      { intros j (n & s & qs & Hc & Ho). unfold open_at. change (cores (with_ops C3 ops')) with (cores C3). destruct (Nat.eq_dec j i) as [->|Nj].
        - rewrite Ec in Hc. injection Hc as <- <- <-. eexists _, _, _. split; [exact E6 | exact (Op Ho)].
        - exists n, s, qs. split; [rewrite (E7 j Nj); exact Hc | exact Ho]. }
      constructor; change (cores (with_ops C3 ops')) with (cores C3); change (c_ops (with_ops C3 ops')) with ops';
        change (c_clients (with_ops C3 ops')) with (c_clients C3); change (c_direct (with_ops C3 ops')) with (c_direct C3);
        change (c_boots (with_ops C3 ops')) with (c_boots C3).
      - exact Conv.
      - intros j n s qs hh q0 p Hj Hq0 Ow0. rewrite Lo. destruct (Nat.eq_dec j i) as [->|Nj].
        + rewrite E6 in Hj. injection Hj as <- <- <-. apply nth_error_snoc_inv in Hq0. destruct Hq0 as [Hq0|[_ ->]].
          * exact (Xb i _ _ _ hh q0 p Ec Hq0 Ow0).
          * exact (Hq p Ow0).
        + rewrite (E7 j Nj) in Hj. exact (Xb j n s qs hh q0 p Hj Hq0 Ow0).
      - intros cl Hc. rewrite E2 in Hc. destruct (Xc cl Hc) as [N Kc]. split; [exact N|]. intros n j Hj. destruct (Kc n j Hj) as [Y Ho].
        split; [exact Y | exact (Opa j Ho)].
      - destruct Xe as [N Kc]. split; [exact N|]. intros j Hj. exact (Opa j (Kc j Hj)).
      - intros d j hh Hd. rewrite E4 in Hd. rewrite E5. exact (Xd d j hh Hd).
      - intros a p rid0 st Ha. rewrite E3 in Ha. rewrite Lo. exact (Xf a p rid0 st Ha).
      - intros j n s qs Hj. destruct (Nat.eq_dec j i) as [->|Nj].
        + rewrite E6 in Hj. injection Hj as <- <- <-. exact (Rx (Xr i _ _ _ Ec)).
        + rewrite (E7 j Nj) in Hj. exact (Xr j n s qs Hj). }
    assert (~ In (i, h) pend) as Np.
    { intro Z. pose proof (fired_lt _ _ I (P h Z)) as Y. unfold sdlog in Y. fold h in Y. lia. }
    (* obligations of the old closures are as before *)
    assert (forall q, let C3 := upd_bc (with_timers C2 (c_timers C2 ++ [TReq i h])) i (fun b0 => set_reqs (b_reqs b0 ++ [q]) b0) in
              forall j n s qs hh q0 p, nth_error (cores C3) j = Some (n, s, qs) -> nth_error qs hh = Some q0 -> q_owner q0 = OfOp p ->
                (~ sfired s hh \/ In (j, hh) pend) -> (j = i /\ hh = h /\ q0 = q /\ s = s') \/
                exists n0 s0 qs0, nth_error (cores C) j = Some (n0, s0, qs0) /\ nth_error qs0 hh = Some q0 /\ (~ sfired s0 hh \/ In (j, hh) pend)) as Old.
    { intros q C3 j n s qs hh q0 p Hj Hq0 Ow0 Ob. destruct (G q) as (_ & _ & E6 & E7). fold C3 in E6, E7.
      destruct (Nat.eq_dec j i) as [->|Nj].
      - rewrite E6 in Hj. injection Hj as <- <- <-. apply nth_error_snoc_inv in Hq0. destruct Hq0 as [Hq0|[E ->]].
        + right. exists (b_node b), (b_st b), (b_reqs b). split; [exact Ec|]. split; [exact Hq0|].
          destruct Ob as [Ob|Ob]; [left|right; exact Ob]. intro Z. apply Ob. unfold sfired. rewrite F. apply in_or_app. right. exact Z.
        + left. rewrite Lh in E. auto.
      - rewrite (E7 j Nj) in Hj. right. exists n, s, qs. auto. }
    destruct K as [[K1 K2] | (oc & K1 & K2)]; rewrite K2 in H; injection H as <- <- <-.
    + (* pending *)
      destruct (G (mkCreq ow (Some (length (c_timers C2))) false)) as ((E1 & E2 & E3 & E4) & E5 & E6 & E7).
      split; [apply okout_app; [exact Ok2 | ok_list]|]. split; [exact E1|]. split; [exact E2|]. split; [exact E3|]. split; [exact E4|]. split; [exact E5|].
      set (q := mkCreq ow (Some (length (c_timers C2))) false) in *.
      set (C3 := upd_bc (with_timers C2 (c_timers C2 ++ [TReq i h])) i (fun b0 => set_reqs (b_reqs b0 ++ [q]) b0)) in *.
      split.
      * intros p -> rest. destruct (Ow p eq_refl) as [Lp Fr].
        pose proof (Mk q (fun p0 E => ltac:(cbn in E; injection E as <-; exact Lp)) (nth_upd (c_ops C3) p (fun o => mkOp (o_kind o) (o_all o) (o_rid o) (PKnown rest i h)))) as M.
        unfold set_phase. apply M; [rewrite nth_upd_length, E1; reflexivity|].
        intros j n s qs hh q0 p0 Hj Hq0 Ow0 Ob. destruct (Old q j n s qs hh q0 p0 Hj Hq0 Ow0 Ob) as [(-> & -> & -> & ->)|(n0 & s0 & qs0 & Hc0 & Hq00 & Ob0)].
        -- cbn in Ow0. injection Ow0 as <-. rewrite E1. destruct (nth_error (c_ops C) p) as [o|] eqn:Eo; [|apply nth_error_None in Eo; lia].
           eexists _, rest. split; [apply nth_upd_same; exact Eo | reflexivity].
        -- destruct (Nat.eq_dec p0 p) as [->|Np0].
           ++ exfalso. destruct (Fr j n0 s0 qs0 hh q0 Hc0 Hq00 Ow0) as [Z1 Z2]. destruct Ob0 as [Z|Z]; [exact (Z Z1) | exact (Z2 Z)].
           ++ rewrite nth_upd_other by congruence. rewrite E1. exact (Xa j n0 s0 qs0 hh q0 p0 Hc0 Hq00 Ow0 Ob0).
      * intros Nop. assert (XInv pend ex (with_ops C3 (c_ops C3))) as M.
        { apply (Mk q); [intros p0 E; exfalso; exact (Nop p0 E) | rewrite E1; reflexivity|].
          intros j n s qs hh q0 p0 Hj Hq0 Ow0 Ob. destruct (Old q j n s qs hh q0 p0 Hj Hq0 Ow0 Ob) as [(-> & -> & -> & ->)|(n0 & s0 & qs0 & Hc0 & Hq00 & Ob0)].
          - exfalso. exact (Nop p0 Ow0).
          - rewrite E1. exact (Xa j n0 s0 qs0 hh q0 p0 Hc0 Hq00 Ow0 Ob0). }
        eapply XInv_frame; [| | | | |exact M]; reflexivity.
    + (* fired at once *)
      destruct (G (mkCreq ow None false)) as ((E1 & E2 & E3 & E4) & E5 & E6 & E7).
      split; [apply okout_app; [exact Ok2 | ok_list]|]. split; [exact E1|]. split; [exact E2|]. split; [exact E3|]. split; [exact E4|]. split; [exact E5|].
      set (q := mkCreq ow None false) in *.
      set (C3 := upd_bc (with_timers C2 (c_timers C2 ++ [TReq i h])) i (fun b0 => set_reqs (b_reqs b0 ++ [q]) b0)) in *.
      assert (sfired s' h) as Fh by (unfold sfired; rewrite F, K1; cbn; left; reflexivity).
      split.
      * assert (XInv pend ex (with_ops C3 (c_ops C3))) as M.
        { apply (Mk q); [intros p0 E; exact (proj1 (Ow p0 E)) | rewrite E1; reflexivity|].
          intros j n s qs hh q0 p0 Hj Hq0 Ow0 Ob. destruct (Old q j n s qs hh q0 p0 Hj Hq0 Ow0 Ob) as [(-> & -> & -> & ->)|(n0 & s0 & qs0 & Hc0 & Hq00 & Ob0)].
          - exfalso. destruct Ob as [Z|Z]; [exact (Z Fh) | exact (Np Z)].
          - rewrite E1. exact (Xa j n0 s0 qs0 hh q0 p0 Hc0 Hq00 Ow0 Ob0). }
        eapply XInv_frame; [| | | | |exact M]; reflexivity.
      * split; [|intros h0 r0 E; injection E as _ <-; destruct (make_def_kind _ _ _ _ _ _ Es K2) as [-> | ->]; cbn; auto].
        intros p -> j n s qs hh q0 Hj Hq0 Ow0. destruct (Ow p eq_refl) as [_ Fr]. destruct (Nat.eq_dec j i) as [->|Nj].
        -- rewrite E6 in Hj. injection Hj as <- <- <-. apply nth_error_snoc_inv in Hq0. destruct Hq0 as [Hq0|[E ->]].
           ++ destruct (Fr i _ _ _ hh q0 Ec Hq0 Ow0) as [Z1 Z2]. split; [unfold sfired; rewrite F; apply in_or_app; right; exact Z1 | exact Z2].
           ++ rewrite Lh in E. subst hh. split; [exact Fh | exact Np].
        -- rewrite (E7 j Nj) in Hj. exact (Fr j n s qs hh q0 Hj Hq0 Ow0).
Qed.

(* ------------------------------------------------------------------ _get_brokerclient *)
Lemma open_at_lt C i : open_at C i -> (i < length (cores C))%nat.
Proof. intros (n & s & qs & H & _). apply nth_error_Some. congruence. Qed.

Lemma get_client_X pend ex C cl node C1 i : XInv pend ex C -> c_clients C = Some cl -> get_client C cl node = Some (C1, i) ->
  XInv pend ex C1 /\ (i < length (cores C1))%nat /\ c_ops C1 = c_ops C /\ (exists cl1, c_clients C1 = Some cl1)
  /\ (forall p, free pend C p -> free pend C1 p).
Proof.
  intros X Ec H. pose proof X as [A B D F G Hb R]. unfold get_client in H. destruct (assoc node cl) as [i0|] eqn:As.
  { injection H as <- <-. split; [exact X|]. split; [|split; [reflexivity | split; [eauto | auto]]].
    apply open_at_lt. exact (proj2 (proj2 (D cl Ec) node i0 (assoc_in _ _ _ As))). }
  destruct (assoc node (c_brokers C)) as [a|]; [|discriminate]. injection H as <- <-.
  set (C1 := with_clients (with_bcs C (c_bcs C ++ [mkBc node (BrokerClient.with_addr BrokerClient.init a) [] None])) (Some (cl ++ [(node, length (c_bcs C))]))).
  assert (cores C1 = cores C ++ [(node, BrokerClient.with_addr BrokerClient.init a, [])]) as E
    by (unfold C1, cores; cbn; rewrite map_app; reflexivity).
  assert (length (c_bcs C) = length (cores C)) as Lc by (unfold cores; rewrite map_length; reflexivity).
  assert (forall j, open_at C j -> open_at C1 j) as Opa.
  { intros j (n & s & qs & Hc & Ho). exists n, s, qs. split; [rewrite E; apply nth_error_app_l; exact Hc | exact Ho]. }
  split; [|split; [rewrite E, app_length; cbn; lia | split; [reflexivity | split; [eexists; reflexivity|]]]].
  - constructor; change (c_ops C1) with (c_ops C); change (c_direct C1) with (c_direct C); change (c_boots C1) with (c_boots C).
    + intros j n s qs h q p Hj Hq Ow Ob. rewrite E in Hj. apply nth_error_snoc_inv in Hj. destruct Hj as [Hj|[_ Hj]].
      * exact (A j n s qs h q p Hj Hq Ow Ob).
      * injection Hj as -> -> ->. destruct h; discriminate.
    + intros j n s qs h q p Hj Hq Ow. rewrite E in Hj. apply nth_error_snoc_inv in Hj. destruct Hj as [Hj|[_ Hj]].
      * exact (B j n s qs h q p Hj Hq Ow).
      * injection Hj as -> -> ->. destruct h; discriminate.
    + intros cl1 Hc. cbn [C1 c_clients with_clients] in Hc. injection Hc as <-. destruct (D cl Ec) as [N Kc]. split.
      * rewrite map_app. cbn [map snd]. apply NoDup_app_intro; [exact N | constructor; [intros [] | constructor]|].
        intros x Hx [<-|[]]. apply in_map_iff in Hx. destruct Hx as ([n0 j] & E0 & Hin). cbn in E0. subst j.
        pose proof (open_at_lt _ _ (proj2 (Kc n0 _ Hin))) as Y. lia.
      * intros n j Hj. apply in_app_or in Hj. destruct Hj as [Hj|[Hj|[]]].
        -- destruct (Kc n j Hj) as [Y Ho]. split; [exact Y | exact (Opa j Ho)].
        -- injection Hj as <- <-. split.
           ++ intro Y. pose proof (open_at_lt _ _ (proj2 F _ Y)) as Z. lia.
           ++ exists node, (BrokerClient.with_addr BrokerClient.init a), []. split; [rewrite E, Lc; apply nth_error_snoc | reflexivity].
    + destruct F as [N Kc]. split; [exact N|]. intros j Hj. exact (Opa j (Kc j Hj)).
    + intros d j h Hd. rewrite E, app_length. pose proof (G d j h Hd). lia.
    + exact Hb.
    + intros j n s qs Hj. rewrite E in Hj. apply nth_error_snoc_inv in Hj. destruct Hj as [Hj|[_ Hj]]; [exact (R j n s qs Hj)|].
      injection Hj as -> -> ->. reflexivity.
  - intros p Fr j n s qs h q Hj Hq Ow. rewrite E in Hj. apply nth_error_snoc_inv in Hj. destruct Hj as [Hj|[_ Hj]].
    + exact (Fr j n s qs h q Hj Hq Ow).
    + injection Hj as -> -> ->. destruct h; discriminate.
Qed.

(* ------------------------------------------------------------------ ending / moving an operation *)
Lemma set_phase_X pend ex C p ph : XInv pend ex C -> (p < length (c_ops C))%nat ->
  (forall i n s qs h q, nth_error (cores C) i = Some (n, s, qs) -> nth_error qs h = Some q -> q_owner q = OfOp p ->
     (~ sfired s h \/ In (i, h) pend) -> exists rest, ph = PKnown rest i h) ->
  XInv pend ex (set_phase C p ph).
Proof.
  intros [A B D F G H R] Lp K. constructor; change (cores (set_phase C p ph)) with (cores C);
    change (c_clients (set_phase C p ph)) with (c_clients C); change (c_direct (set_phase C p ph)) with (c_direct C);
    change (c_boots (set_phase C p ph)) with (c_boots C); try assumption.
  - intros i n s qs h q p0 Hc Hq Ow Ob. unfold set_phase. cbn [c_ops with_ops]. destruct (Nat.eq_dec p0 p) as [->|N].
    + destruct (K i n s qs h q Hc Hq Ow Ob) as [rest ->]. destruct (nth_error (c_ops C) p) as [o|] eqn:Eo; [|apply nth_error_None in Eo; lia].
      eexists _, rest. split; [apply nth_upd_same; exact Eo | reflexivity].
    + rewrite nth_upd_other by congruence. exact (A i n s qs h q p0 Hc Hq Ow Ob).
  - intros i n s qs h q p0 Hc Hq Ow. unfold set_phase. cbn [c_ops with_ops]. rewrite nth_upd_length. exact (B i n s qs h q p0 Hc Hq Ow).
  - intros a p0 rid st Ha. unfold set_phase. cbn [c_ops with_ops]. rewrite nth_upd_length. exact (H a p0 rid st Ha).
Qed.

Lemma set_phase_X_free pend ex C p ph : XInv pend ex C -> free pend C p -> XInv pend ex (set_phase C p ph).
Proof.
  intros [A B D F G H R] Fr. constructor; change (cores (set_phase C p ph)) with (cores C);
    change (c_clients (set_phase C p ph)) with (c_clients C); change (c_direct (set_phase C p ph)) with (c_direct C);
    change (c_boots (set_phase C p ph)) with (c_boots C); try assumption.
  - intros i n s qs h q p0 Hc Hq Ow Ob. unfold set_phase. cbn [c_ops with_ops]. destruct (Nat.eq_dec p0 p) as [->|N].
    + exfalso. destruct (Fr i n s qs h q Hc Hq Ow) as [Z1 Z2]. destruct Ob as [Z|Z]; auto.
    + rewrite nth_upd_other by congruence. exact (A i n s qs h q p0 Hc Hq Ow Ob).
  - intros i n s qs h q p0 Hc Hq Ow. unfold set_phase. cbn [c_ops with_ops]. rewrite nth_upd_length. exact (B i n s qs h q p0 Hc Hq Ow).
  - intros a p0 rid st Ha. unfold set_phase. cbn [c_ops with_ops]. rewrite nth_upd_length. exact (H a p0 rid st Ha).
Qed.

Lemma restart_op_X pend ex C p rid : XInv pend ex C -> free pend C p -> XInv pend ex (restart_op C p rid).
Proof.
  intros [A B D F G H R] Fr. constructor; change (cores (restart_op C p rid)) with (cores C);
    change (c_clients (restart_op C p rid)) with (c_clients C); change (c_direct (restart_op C p rid)) with (c_direct C);
    change (c_boots (restart_op C p rid)) with (c_boots C); try assumption.
  - intros i n s qs h q p0 Hc Hq Ow Ob. unfold restart_op. cbn [c_ops with_ops]. destruct (Nat.eq_dec p0 p) as [->|N].
    + exfalso. destruct (Fr i n s qs h q Hc Hq Ow) as [Z1 Z2]. destruct Ob as [Z|Z]; auto.
    + rewrite nth_upd_other by congruence. exact (A i n s qs h q p0 Hc Hq Ow Ob).
  - intros i n s qs h q p0 Hc Hq Ow. unfold restart_op. cbn [c_ops with_ops]. rewrite nth_upd_length. exact (B i n s qs h q p0 Hc Hq Ow).
  - intros a p0 rid0 st Ha. unfold restart_op. cbn [c_ops with_ops]. rewrite nth_upd_length. exact (H a p0 rid0 st Ha).
Qed.

Lemma free_no_obl pend C p ph : free pend C p ->
  forall i n s qs h q, nth_error (cores C) i = Some (n, s, qs) -> nth_error qs h = Some q -> q_owner q = OfOp p ->
     (~ sfired s h \/ In (i, h) pend) -> exists rest, ph = PKnown rest i h.
Proof. intros Fr i n s qs h q Hc Hq Ow Ob. exfalso. destruct (Fr i n s qs h q Hc Hq Ow) as [Z1 Z2]. destruct Ob as [Z|Z]; auto. Qed.

Lemma op_fail_X pend ex C p r : XInv pend ex C -> (p < length (c_ops C))%nat -> free pend C p ->
  XInv pend ex (fst (op_fail C p r)) /\ okout (snd (op_fail C p r)).
Proof.
  intros X Lp Fr. unfold op_fail. destruct (nth_error (c_ops C) p) eqn:Eo; [|apply nth_error_None in Eo; lia]. cbn [fst snd].
  split; [apply set_phase_X; [exact X | exact Lp | apply free_no_obl; exact Fr] | ok_list].
Qed.

Lemma boot_next_X pend ex C p hosts : XInv pend ex C -> (p < length (c_ops C))%nat -> free pend C p ->
  XInv pend ex (fst (boot_next C p hosts)) /\ okout (snd (boot_next C p hosts)).
Proof.
  intros X Lp Fr. unfold boot_next. destruct (closing C); [apply op_fail_X; assumption|].
  destruct hosts as [|hst rest]; [apply op_fail_X; assumption|]. cbn [fst snd]. split; [|ok_list].
  set (C1 := with_boots C _).
  assert (XInv pend ex C1) as X1.
  { destruct X as [A B D F G H R]. constructor; try assumption.
    intros a p0 rid st Ha. cbn [C1 c_boots with_boots] in Ha. apply nth_error_snoc_inv in Ha. destruct Ha as [Ha|[_ Ha]].
    - exact (H a p0 rid st Ha).
    - injection Ha as <- _ _. exact Lp. }
  apply set_phase_X; [exact X1 | exact Lp | apply free_no_obl; exact Fr].
Qed.

Lemma op_known_X : forall nodes pend ex C p rid, TInvC pend C -> XInv pend ex C -> (p < length (c_ops C))%nat -> free pend C p ->
  XInv pend ex (fst (op_known C p rid nodes)) /\ okout (snd (op_known C p rid nodes)).
Proof.
  induction nodes as [|nd rest IH]; intros pend ex C p rid T X Lp Fr; cbn [op_known]; [apply boot_next_X; assumption|].
  destruct (c_clients C) as [cl|] eqn:Ec; [|apply op_fail_X; assumption].
  destruct (get_client C cl nd) as [[C1 i]|] eqn:G; [|apply op_fail_X; assumption].
  destruct (get_client_X _ _ _ _ _ _ _ X Ec G) as (X1 & Li & O1 & _ & Fr1).
  pose proof (get_client_wf _ _ _ _ _ _ T G) as T1.
  destruct (make_req C1 i rid true (-1) (OfOp p)) as [[C2 r] o2] eqn:M.
  assert (forall p0, OfOp p = OfOp p0 -> (p0 < length (c_ops C1))%nat /\ free pend C1 p0) as Ow
    by (intros p0 E; injection E as <-; split; [rewrite O1; exact Lp | exact (Fr1 p Fr)]).
  destruct (make_req_X _ _ _ _ _ _ _ _ _ _ _ T1 X1 Li Ow M) as (Ok2 & O2 & _ & _ & _ & _ & Res).
  pose proof (make_req_wf _ _ _ _ _ _ _ _ _ _ T1 M) as T2.
  assert ((p < length (c_ops C2))%nat) as Lp2 by (rewrite O2, O1; exact Lp).
  destruct r as [|h|h r]; cbn [fst snd].
  - destruct Res as (X2 & Fr2 & _). destruct (IH pend ex C2 p rid T2 X2 Lp2 (Fr2 p eq_refl)) as [Xr Okr].
    destruct (op_known C2 p rid rest). cbn [fst snd] in *. split; [exact Xr | apply okout_app; assumption].
  - destruct Res as [Rp _]. split; [exact (Rp p eq_refl rest) | exact Ok2].
  - destruct Res as (X2 & Fr2 & Kr). destruct (Kr h r eq_refl) as [-> | ->].
    + destruct (IH pend ex C2 p rid T2 X2 Lp2 (Fr2 p eq_refl)) as [Xr Okr].
      destruct (op_known C2 p rid rest). cbn [fst snd] in *. split; [exact Xr | apply okout_app; assumption].
    + destruct (IH pend ex C2 p rid T2 X2 Lp2 (Fr2 p eq_refl)) as [Xr Okr].
      destruct (op_known C2 p rid rest). cbn [fst snd] in *. split; [exact Xr | apply okout_app; assumption].
Qed.

(* ------------------------------------------------------------------ self.clients stays a dict (only close() sets it to None) *)
Ltac rs := unfold Rsome; first
  [ solve [auto]
  | solve [intros C0 C' _ _ E _ _ H; congruence]
  | solve [intros C0 H; rewrite dl_refresh_clients; exact H]
  | solve [intros C0 i e0 H; pose proof (apply_bc_rest C0 i e0) as (_ & X & _); congruence]
  | solve [intros; cbn; discriminate]
  | solve [intros; cbn; assumption] ].

Lemma Rsome_tr_out C i o : Rsome C (fst (tr_out C i o)).
Proof. apply (g2_tr_out Rsome); rs. Qed.
Lemma Rsome_on_def succ : (forall C p f, Rsome C (fst (succ C p f))) -> forall C i h oc, Rsome C (fst (on_def succ C i h oc)).
Proof. intro Hs. apply (g2_on_def Rsome); try rs; exact Hs. Qed.
Lemma Rsome_succ1 C p f : Rsome C (fst (succ1 C p f)).
Proof. apply (g2_succ1 Rsome); rs. Qed.

(* ------------------------------------------------------------------ disarming the timer of a closure *)
Lemma upd_creq_inv C i h f j n s qs : nth_error (cores (upd_creq C i h f)) j = Some (n, s, qs) ->
  (j <> i /\ nth_error (cores C) j = Some (n, s, qs))
  \/ (j = i /\ exists qs0, nth_error (cores C) i = Some (n, s, qs0) /\ qs = nth_upd qs0 h f).
Proof.
  intro H. rewrite cores_upd_creq in H. apply nth_upd_inv in H. destruct H as [[<- (c & Hc & E)]|[N H]].
  - right. split; [reflexivity|]. destruct c as [[n0 s0] qs0]. unfold core_reqs in E. cbn [fst snd] in E. injection E as -> -> ->. eauto.
  - left. split; [congruence | exact H].
Qed.

Lemma XInv_upd_creq pend ex C i h f : (forall q, q_owner (f q) = q_owner q) -> XInv pend ex C -> XInv pend ex (upd_creq C i h f).
Proof.
  intros Fo [A B D F G H R].
  assert (forall j n s qs hh q, nth_error (cores (upd_creq C i h f)) j = Some (n, s, qs) -> nth_error qs hh = Some q ->
            exists qs0 q0, nth_error (cores C) j = Some (n, s, qs0) /\ nth_error qs0 hh = Some q0 /\ q_owner q0 = q_owner q) as Inv.
  { intros j n s qs hh q Hj Hq. destruct (upd_creq_inv _ _ _ _ _ _ _ _ Hj) as [[N Hj0]|[-> (qs0 & Hj0 & ->)]].
    - exists qs, q. auto.
    - apply nth_upd_inv in Hq. destruct Hq as [[<- (q0 & Hq0 & ->)]|[N Hq]]; [exists qs0, q0; rewrite Fo; auto | exists qs0, q; auto]. }
  assert (forall j, open_at C j -> open_at (upd_creq C i h f) j) as Opa.
  { intros j (n & s & qs & Hc & Ho). unfold open_at. rewrite cores_upd_creq. destruct (Nat.eq_dec j i) as [->|N].
    - rewrite (nth_upd_same _ _ _ _ Hc). unfold core_reqs. cbn [fst snd]. eauto.
    - rewrite nth_upd_other by congruence. eauto. }
  constructor; change (c_ops (upd_creq C i h f)) with (c_ops C); change (c_clients (upd_creq C i h f)) with (c_clients C);
    change (c_direct (upd_creq C i h f)) with (c_direct C); change (c_boots (upd_creq C i h f)) with (c_boots C).
  - intros j n s qs hh q p Hj Hq Ow Ob. destruct (Inv j n s qs hh q Hj Hq) as (qs0 & q0 & Hj0 & Hq0 & Eo).
    apply (A j n s qs0 hh q0 p Hj0 Hq0); [congruence | exact Ob].
  - intros j n s qs hh q p Hj Hq Ow. destruct (Inv j n s qs hh q Hj Hq) as (qs0 & q0 & Hj0 & Hq0 & Eo).
    apply (B j n s qs0 hh q0 p Hj0 Hq0). congruence.
  - intros cl Hc. destruct (D cl Hc) as [N Kc]. split; [exact N|]. intros n j Hj. destruct (Kc n j Hj) as [Y Ho]. split; [exact Y | exact (Opa j Ho)].
  - destruct F as [N Kc]. split; [exact N|]. intros j Hj. exact (Opa j (Kc j Hj)).
  - intros d j hh Hd. rewrite cores_upd_creq, nth_upd_length. exact (G d j hh Hd).
  - exact H.
  - intros j n s qs Hj. destruct (upd_creq_inv _ _ _ _ _ _ _ _ Hj) as [[N Hj0]|[-> (qs0 & Hj0 & ->)]]; [exact (R j n s qs Hj0) | exact (R i n s qs0 Hj0)].
Qed.

Lemma in_dec_pair (x : nat * nat) l : {In x l} + {~ In x l}.
Proof. apply in_dec. decide equality; apply Nat.eq_dec. Qed.

Lemma PB_fix C i b s' bt : PB C -> nth_error (c_bcs C) i = Some b -> CInv s' -> (bt <> None <-> tmr s') ->
  PB (upd_bc (upd_bc C i (set_st s')) i (set_btimer bt)).
Proof.
  intros [A B] Eb I' K.
  assert (nth_error (c_bcs (upd_bc C i (set_st s'))) i = Some (set_st s' b)) as E1 by (cbn; apply nth_upd_same; exact Eb).
  split; intros j b' Hb'; cbn [upd_bc with_bcs c_bcs] in Hb'; apply nth_upd_inv in Hb'; destruct Hb' as [[<- (x & Hx & ->)]|[N Hb']].
  - cbn [upd_bc with_bcs c_bcs] in E1. rewrite E1 in Hx. injection Hx as <-. exact I'.
  - rewrite nth_upd_other in Hb' by exact N. exact (A j b' Hb').
  - cbn [upd_bc with_bcs c_bcs] in E1. rewrite E1 in Hx. injection Hx as <-. exact K.
  - rewrite nth_upd_other in Hb' by exact N. exact (B j b' Hb').
Qed.

Lemma NoDup_app_left {A} (a b : list A) : NoDup (a ++ b) -> NoDup a.
Proof.
  induction a as [|x a IH]; cbn; intro N; [constructor|]. inversion N as [|? ? Nin N']; subst. constructor; [|exact (IH N')].
  intro H. apply Nin. apply in_or_app. left. exact H.
Qed.

Lemma nodup_pend pend C i b e s' mo : TInvC pend C -> NoDup pend -> nth_error (c_bcs C) i = Some b ->
  BrokerClient.step (b_st b) e = (s', mo) -> NoDup (tag i (def_handles mo) ++ pend).
Proof.
  intros T ND Eb Es. destruct (TInvC_bc _ _ _ _ T Eb) as (I & _ & _ & _ & P).
  destruct (fired_after_step _ _ _ _ I Es) as (I' & _ & Fi).
  pose proof (ti_fired_nodup _ (ci_t _ I')) as N. rewrite Fi in N.
  apply NoDup_app_intro.
  - unfold tag. apply FinFun.Injective_map_NoDup; [intros x y E; congruence|].
    apply NoDup_app_left in N. apply NoDup_rev in N. rewrite rev_involutive in N. exact N.
  - exact ND.
  - intros [j h] Hin Hp. pose proof (pend_of_in' _ _ _ _ Hin) as ->. unfold tag in Hin. apply in_map_iff in Hin.
    destruct Hin as (h' & E & Hh). injection E as ->. apply (NoDup_app_l_notin _ _ h N); [apply in_rev in Hh; exact Hh | exact (P h Hp)].
Qed.

Section LevelX.
Variable succ : cstate -> nat -> list Z -> cstate * list output.
Variable allow : bool.
Hypothesis succ_wf : forall pend C p f, TInvC pend C -> TInvC pend (fst (succ C p f)).
Hypothesis succ_PB : forall C p f, PB C -> PB (fst (succ C p f)).
Hypothesis succ_some : forall C p f, Rsome C (fst (succ C p f)).
Hypothesis succ_X : allow = true -> forall pend ex C p f, TInvC pend C -> NoDup pend -> PB C -> XInv pend ex C ->
  (p < length (c_ops C))%nat -> free pend C p -> c_clients C <> None ->
  XInv pend ex (fst (succ C p f)) /\ okout (snd (succ C p f)).

Lemma on_def_X pend ex C i h oc :
  TInvC ((i, h) :: pend) C -> NoDup ((i, h) :: pend) -> PB C -> XInv ((i, h) :: pend) ex C ->
  (allow = false -> forall f, oc <> BrokerClient.Succ f) -> (allow = true -> c_clients C <> None) ->
  XInv pend ex (fst (on_def succ C i h oc)) /\ okout (snd (on_def succ C i h oc)).
Proof.
  intros T ND P X Hoc Hcl. unfold on_def.
  assert ((i < length (cores C))%nat) as Li by (apply (proj1 T i h); left; reflexivity).
  destruct (nth_error (c_bcs C) i) as [b|] eqn:Eb; [|apply nth_error_None in Eb; unfold cores in Li; rewrite map_length in Li; lia].
  destruct (TInvC_bc _ _ _ _ T Eb) as (I & L & _ & _ & Pf).
  assert (sfired (b_st b) h) as Fh by (apply Pf; left; reflexivity).
  destruct (nth_error (b_reqs b) h) as [q|] eqn:Eq; [|apply nth_error_None in Eq; pose proof (fired_lt _ _ I Fh); lia].
  inversion ND as [|? ? Nin ND']; subst.
  set (C1o1 := match q_timer q with
               | Some t => (upd_creq C i h (fun q0 => mkCreq (q_owner q0) None (q_to q0)), [OCancelTimer t])
               | None => (C, []) end).
  assert (TInvC pend (fst C1o1) /\ PB (fst C1o1) /\ XInv ((i, h) :: pend) ex (fst C1o1) /\ okout (snd C1o1)
          /\ c_clients (fst C1o1) = c_clients C /\ c_ops (fst C1o1) = c_ops C
          /\ exists qs1 q1, nth_error (cores (fst C1o1)) i = Some (b_node b, b_st b, qs1) /\ nth_error qs1 h = Some q1 /\ q_owner q1 = q_owner q)
    as (T1 & P1 & X1 & Ok1 & Ecl & Eop & qs1 & q1 & Hc1 & Hq1 & Eo1).
  { unfold C1o1. destruct (q_timer q) as [t|] eqn:Et; cbn [fst snd].
    - split; [|split; [|split; [|split; [ok_list | split; [reflexivity | split; [reflexivity|]]]]]].
      + apply (TInvC_drop _ _ i h).
        * apply upd_creq_clear; [reflexivity | intros b' Hb'; rewrite Eb in Hb'; injection Hb' as <-; exact Fh | exact T].
        * intros b' q' t' Hb' Hq' Ht'. unfold upd_creq, upd_bc in Hb'. cbn [c_bcs with_bcs] in Hb'.
          rewrite (nth_upd_same _ _ _ _ Eb) in Hb'. injection Hb' as <-. cbn [set_reqs b_reqs] in Hq'.
          rewrite (nth_upd_same _ _ _ _ Eq) in Hq'. injection Hq' as <-. cbn in Ht'. discriminate.
      + unfold upd_creq. apply PB_upd_keep; [intros; split; reflexivity | exact P].
      + apply XInv_upd_creq; [reflexivity | exact X].
      + rewrite cores_upd_creq, (nth_upd_same _ _ _ _ (cores_nth _ _ _ Eb)). unfold core_reqs. cbn [fst snd].
        eexists _, _. split; [reflexivity|]. split; [apply nth_upd_same; exact Eq | reflexivity].
    - split; [|split; [exact P | split; [exact X | split; [apply okout_nil | split; [reflexivity | split; [reflexivity|]]]]]].
      + apply (TInvC_drop _ _ _ _ T). intros b' q' t' Hb' Hq'. congruence.
      + exists (b_reqs b), q. split; [apply cores_nth; exact Eb | auto]. }
  destruct C1o1 as [C1 o1]. cbn [fst snd] in *.
  assert (XInv pend ex C1) as X1' by (apply (XInv_drop ((i, h) :: pend)); [intros x Hx; right; exact Hx | exact X1]).
  destruct (q_owner q) as [d|p] eqn:Eo.
  { cbn [fst snd]. split; [exact X1' | apply okout_app; [exact Ok1 | ok_list]]. }
  destruct (x_conv _ _ _ X1 i _ _ _ h q1 p Hc1 Hq1 Eo1 (or_intror (or_introl eq_refl))) as (o & rest & Ho & Hph).
  destruct o as [k al rid ph]. cbn [o_phase] in Hph. subst ph. rewrite Ho. rewrite !Nat.eqb_refl. cbn [andb].
  assert ((p < length (c_ops C1))%nat) as Lp by (apply nth_error_Some; congruence).
  assert (free pend C1 p) as Fr.
  { intros j n s qs hh q0 Hj Hq0 Ow0.
    assert (~ (~ sfired s hh \/ In (j, hh) pend)) as No.
    { intro Ob. destruct (x_conv _ _ _ X1 j n s qs hh q0 p Hj Hq0 Ow0) as (o' & rest' & Ho' & Hph').
      { destruct Ob as [Ob|Ob]; [left; exact Ob | right; right; exact Ob]. }
      rewrite Ho in Ho'. injection Ho' as <-. cbn [o_phase] in Hph'. injection Hph' as _ -> ->.
      rewrite Hc1 in Hj. injection Hj as <- <- <-. destruct Ob as [Ob|Ob]; [exact (Ob Fh) | exact (Nin Ob)]. }
    split.
    - destruct (in_dec Nat.eq_dec hh (BrokerClient.t_fired (BrokerClient.s_t s))) as [Y|Y]; [exact Y | exfalso; apply No; left; exact Y].
    - intro Y. apply No. right. exact Y. }
  destruct (if q_to q then RTimedOut else res_of oc) eqn:Er;
    try (destruct (op_known_X rest pend ex C1 p rid T1 X1' Lp Fr) as [Xr Okr]; destruct (op_known C1 p rid rest); cbn [fst snd] in *;
         split; [exact Xr | apply okout_app; assumption]).
  - (* a response *)
    destruct allow eqn:Al.
    + destruct (succ_X eq_refl pend ex C1 p frame T1 ND' P1 X1' Lp Fr) as [Xr Okr]; [rewrite Ecl; exact (Hcl eq_refl)|].
      destruct (succ C1 p frame). cbn [fst snd] in *. split; [exact Xr | apply okout_app; assumption].
    + exfalso. destruct (q_to q); [discriminate|]. destruct oc; try discriminate. exact (Hoc eq_refl frame0 eq_refl).
  - destruct (op_fail_X pend ex C1 p RCancelled X1' Lp Fr) as [Xr Okr]. destruct (op_fail C1 p RCancelled). cbn [fst snd] in *.
    split; [exact Xr | apply okout_app; assumption].
Qed.

Lemma proc_X : forall os pend ex C i, clean os -> no_tm os ->
  TInvC (tag i (def_handles os) ++ pend) C -> NoDup (tag i (def_handles os) ++ pend) -> PB C ->
  XInv (tag i (def_handles os) ++ pend) ex C ->
  (allow = false -> forall h f, ~ In (BrokerClient.ODef h (BrokerClient.Succ f)) os) -> (allow = true -> c_clients C <> None) ->
  XInv pend ex (fst (proc succ C i os)) /\ okout (snd (proc succ C i os)).
Proof.
  induction os as [|o os IH]; intros pend ex C i Cl Nt T ND P X Hs Hcl; cbn [proc]; [split; [exact X | apply okout_nil]|].
  unfold clean in Cl. cbn [forallb] in Cl. apply andb_prop in Cl. destruct Cl as [Cl1 Cl2].
  destruct (no_tm_cons _ _ Nt) as [Nt1 Nt2].
  assert (forall h f, allow = false -> ~ In (BrokerClient.ODef h (BrokerClient.Succ f)) os) as Hs2
    by (intros h f Al Hin; apply (Hs Al h f); right; exact Hin).
  destruct o as [a|h0 rid0|k0| | | |h oc| |k0|k0 h0]; try discriminate;
    try (cbn [def_handles flat_map app] in T, ND, X;
         match goal with |- context [tr_out C i ?o] =>
           pose proof (tr_out_core C i o) as SC; pose proof (tr_out_rest C i o) as SR;
           pose proof (tr_out_ok C i o Cl1 Nt1 eq_refl) as Ok1; pose proof (tr_out_PB C i o Nt1 P) as P1;
           destruct (tr_out C i o) as [C1 o1] end; cbn [fst snd] in *;
         destruct (IH pend ex C1 i Cl2 Nt2 (TInvC_same_core _ _ _ T SC) ND P1 (XInv_core _ _ _ _ SC SR X) (fun Al h f => Hs2 h f Al)) as [Xr Okr];
           [intro Al; destruct SR as (_ & E2 & _); rewrite E2; exact (Hcl Al)|];
         destruct (proc succ C1 i os); cbn [fst snd] in *; split; [exact Xr | apply okout_app; assumption]).
  (* a Deferred fired *)
  cbn [def_handles flat_map app tag map] in T, ND, X. change (flat_map _ os) with (def_handles os) in T, ND, X. fold (tag i (def_handles os)) in T, ND, X.
  destruct (on_def_X (tag i (def_handles os) ++ pend) ex C i h oc T ND P X) as [X1 Ok1].
  { intros Al f ->. apply (Hs Al h f). left. reflexivity. }
  { exact Hcl. }
  pose proof (on_def_wf succ succ_wf _ C i h oc T) as T1. pose proof (on_def_PB succ succ_PB C i h oc P) as P1.
  pose proof (Rsome_on_def succ succ_some C i h oc) as Rs.
  destruct (on_def succ C i h oc) as [C1 o1]. cbn [fst snd] in *.
  inversion ND as [|? ? _ ND']; subst.
  destruct (IH pend ex C1 i Cl2 Nt2 T1 ND' P1 X1 (fun Al h0 f => Hs2 h0 f Al)) as [Xr Okr]; [intro Al; exact (Rs (Hcl Al))|].
  destruct (proc succ C1 i os). cbn [fst snd] in *. split; [exact Xr | apply okout_app; assumption].
Qed.

Lemma bc_event_X pend ex ex' C i e :
  TInvC pend C -> NoDup pend -> PB C -> XInv pend ex C -> is_make e = false -> not_fire e = true ->
  (forall b, nth_error (c_bcs C) i = Some b -> ev_ok (b_st b) e) ->
  (e <> BrokerClient.EClose /\ ex' = ex \/ e = BrokerClient.EClose /\ ex = i :: ex') ->
  (allow = false -> forall b h f, nth_error (c_bcs C) i = Some b ->
     ~ In (BrokerClient.ODef h (BrokerClient.Succ f)) (snd (BrokerClient.step (b_st b) e))) ->
  (allow = true -> c_clients C <> None) ->
  XInv pend ex' (fst (bc_event succ C i e)) /\ okout (snd (bc_event succ C i e)).
Proof.
  intros T ND P X M NF K Kx Hs Hcl. unfold bc_event. destruct (apply_bc C i e) as [C1 mo] eqn:Ap.
  destruct (apply_bc_X _ _ _ _ _ _ _ _ (TInvC_all _ _ T) X M K Kx Ap) as [X1 Cl].
  destruct (apply_bc_wf _ _ _ _ _ _ T M Ap) as [T1 _].
  pose proof (apply_bc_rest C i e) as SR. rewrite Ap in SR. cbn [fst] in SR.
  assert (allow = true -> c_clients C1 <> None) as Hcl1 by (intro Al; destruct SR as (_ & E2 & _); rewrite E2; exact (Hcl Al)).
  unfold apply_bc in Ap. destruct (nth_error (c_bcs C) i) as [b|] eqn:Eb.
  2:{ injection Ap as <- <-. cbn [proc fst snd def_handles flat_map tag map app] in *. split; [exact X1 | apply okout_nil]. }
  destruct (BrokerClient.step (b_st b) e) as [s' mo'] eqn:Es. injection Ap as <- <-.
  pose proof (nodup_pend _ _ _ _ _ _ _ T ND Eb Es) as ND1.
  assert (allow = false -> forall h f, ~ In (BrokerClient.ODef h (BrokerClient.Succ f)) mo') as Hs1.
  { intros Al h f. pose proof (Hs Al b h f eq_refl) as Y. rewrite Es in Y. exact Y. }
  destruct P as [A B]. pose proof (A i b Eb) as I. destruct (fired_after_step _ _ _ _ I Es) as (I' & _ & _).
  pose proof (B i b Eb) as Ok. unfold bt_ok in Ok.
  destruct (tm_step _ _ _ _ I Es) as [(Nt & _ & Kt)|[(rest & -> & Nt & Tm1 & Tm2)|(k & -> & Tm1 & Tm2)]].
  - (* no timer output *)
    apply proc_X; try assumption.
    assert (PB (fst (apply_bc C i e))) as P1.
    { apply (apply_bc_PB C i e (conj A B)). intros b0 Hb0. rewrite Eb in Hb0. injection Hb0 as <-. rewrite Es. cbn [fst snd]. split; [exact Nt | exact (Kt NF)]. }
    unfold apply_bc in P1. rewrite Eb, Es in P1. exact P1.
  - (* the back-off timer is cancelled first *)
    cbn [proc tr_out].
    assert (nth_error (c_bcs (upd_bc C i (set_st s'))) i = Some (set_st s' b)) as Eb1 by (cbn; apply nth_upd_same; exact Eb).
    rewrite Eb1. cbn [set_st b_timer]. destruct (b_timer b) as [t|] eqn:Et; [|exfalso; apply (proj2 Ok Tm1); reflexivity].
    set (C2 := upd_bc (upd_bc C i (set_st s')) i (set_btimer None)).
    assert (same_core (upd_bc C i (set_st s')) C2) as SC by (apply upd_bc_core; intros; reflexivity).
    assert (same_rest (upd_bc C i (set_st s')) C2) as SR2 by (repeat split).
    assert (PB C2) as P2.
    { apply (PB_fix C i b s' None (conj A B) Eb I'). split; [intro Z; exfalso; apply Z; reflexivity | intro Z; exfalso; exact (Tm2 Z)]. }
    cbn [def_handles flat_map app] in T1, ND1, X1. change (flat_map _ rest) with (def_handles rest) in T1, ND1, X1.
    unfold clean in Cl. cbn [forallb clean_out andb] in Cl.
    destruct (proc_X rest pend ex' C2 i Cl Nt (TInvC_same_core _ _ _ T1 SC) ND1 P2 (XInv_core _ _ _ _ SC SR2 X1)) as [Xr Okr].
    { intros Al h f Hin. apply (Hs1 Al h f). right. exact Hin. }
    { exact Hcl1. }
    destruct (proc succ C2 i rest). cbn [fst snd] in *. split; [exact Xr | apply okout_app; [ok_list | exact Okr]].
  - (* the back-off timer is armed *)
    cbn [proc tr_out]. unfold new_timer. cbn [fst snd app def_handles flat_map tag map] in *. split; [|ok_list].
    eapply XInv_core; [| |exact X1].
    + eapply same_core_trans; [|apply upd_bc_core; intros; reflexivity]. split; [reflexivity | eexists; reflexivity].
    + repeat split.
Qed.
End LevelX.

(* ------------------------------------------------------------------ an operation none of whose requests is unresolved stays so while
   OTHER operations move (used for _load_topic_partitions: nothing that happens while its response is merged gives it a
   request back) *)
Lemma free_cores pend C C' q : cores C' = cores C -> free pend C q -> free pend C' q.
Proof. apply free_frame. Qed.

Lemma free_less pend pend' C q : incl pend' pend -> free pend C q -> free pend' C q.
Proof. intros I F i n s qs h q0 Hc Hq Ow. destruct (F i n s qs h q0 Hc Hq Ow) as [A B]. split; [exact A | intro Z; exact (B (I _ Z))]. Qed.

Lemma apply_bc_free pend C i e q : AllCInv C -> is_make e = false -> free pend C q ->
  free (tag i (def_handles (snd (apply_bc C i e))) ++ pend) (fst (apply_bc C i e)) q.
Proof.
  intros A M F. unfold apply_bc. destruct (nth_error (c_bcs C) i) as [b|] eqn:Eb; [|exact F].
  destruct (BrokerClient.step (b_st b) e) as [s' mo] eqn:Es. cbn [fst snd].
  destruct (fired_after_step _ _ _ _ (A i b Eb) Es) as (I' & _ & Fi).
  pose proof (cores_nth _ _ _ Eb) as Ec.
  intros j n s qs h q0 Hj Hq Ow. rewrite cores_set_st in Hj. apply nth_upd_inv in Hj.
  destruct Hj as [[<- (x & Hx & E)]|[N Hj]].
  - rewrite Ec in Hx. injection Hx as <-. unfold core_st in E. cbn [fst snd] in E. injection E as -> -> ->.
    destruct (F i _ _ _ h q0 Ec Hq Ow) as [Z1 Z2]. split; [unfold sfired; rewrite Fi; apply in_or_app; right; exact Z1|].
    intro Z. apply in_app_or in Z. destruct Z as [Z|Z]; [|exact (Z2 Z)].
    unfold tag in Z. apply in_map_iff in Z. destruct Z as (h' & E & Hh). injection E as ->.
    pose proof (ti_fired_nodup _ (ci_t _ I')) as ND. rewrite Fi in ND. apply (NoDup_app_l_notin _ _ h ND); [apply in_rev in Hh; exact Hh | exact Z1].
  - destruct (F j n s qs h q0 Hj Hq Ow) as [Z1 Z2]. split; [exact Z1|]. intro Z. apply in_app_or in Z. destruct Z as [Z|Z]; [|exact (Z2 Z)].
    apply pend_of_in' in Z. congruence.
Qed.

Lemma make_req_free pend C i rid expect mint ow q : AllCInv C -> (forall p, ow = OfOp p -> p <> q) -> free pend C q ->
  free pend (fst (fst (make_req C i rid expect mint ow))) q.
Proof.
  intros A Ow F. unfold make_req. destruct (nth_error (c_bcs C) i) as [b|] eqn:Eb; [|exact F].
  unfold apply_bc. rewrite Eb. destruct (BrokerClient.step (b_st b) (BrokerClient.EMake rid expect)) as [s' mo] eqn:Es.
  destruct (fired_after_step _ _ _ _ (A i b Eb) Es) as (I' & _ & Fi). pose proof (cores_nth _ _ _ Eb) as Ec.
  set (C1 := upd_bc C i (set_st s')).
  assert (free pend C1 q) as F1.
  { intros j n s qs h q0 Hj Hq Ow0. unfold C1 in Hj. rewrite cores_set_st in Hj. apply nth_upd_inv in Hj.
    destruct Hj as [[<- (x & Hx & E)]|[N Hj]]; [|exact (F j n s qs h q0 Hj Hq Ow0)].
    rewrite Ec in Hx. injection Hx as <-. unfold core_st in E. cbn [fst snd] in E. injection E as -> -> ->.
    destruct (F i _ _ _ h q0 Ec Hq Ow0) as [Z1 Z2]. split; [unfold sfired; rewrite Fi; apply in_or_app; right; exact Z1 | exact Z2]. }
  destruct (raised_dup mo); [exact F1|].
  pose proof (tr_list_core (filter (fun o => negb (is_def o)) mo) C1 i) as [SC _].
  destruct (tr_list C1 i (filter (fun o => negb (is_def o)) mo)) as [C2 o2]. cbn [fst] in SC.
  assert (free pend C2 q) as F2 by (apply (free_cores pend C1); assumption).
  unfold new_timer.
  assert (forall q1, q_owner q1 = ow -> free pend (upd_bc (with_timers C2 (c_timers C2 ++ [TReq i (length (BrokerClient.t_dlog (BrokerClient.s_t (b_st b))))])) i
                                        (fun b0 => set_reqs (b_reqs b0 ++ [q1]) b0)) q) as G.
  { intros q1 Eo j n s qs h q0 Hj Hq Ow0. rewrite (cores_set_reqs _ i (fun l => l ++ [q1])) in Hj.
    change (cores (with_timers C2 _)) with (cores C2) in Hj. apply nth_upd_inv in Hj.
    destruct Hj as [[<- (x & Hx & E)]|[N Hj]]; [|exact (F2 j n s qs h q0 Hj Hq Ow0)].
    destruct x as [[n0 s0] qs0]. unfold core_reqs in E. cbn [fst snd] in E. injection E as -> -> ->.
    apply nth_error_snoc_inv in Hq. destruct Hq as [Hq|[_ ->]]; [exact (F2 i _ _ _ h q0 Hx Hq Ow0)|].
    exfalso. rewrite Eo in Ow0. exact (Ow q Ow0 eq_refl). }
  destruct (first_def mo); cbn [fst]; apply G; reflexivity.
Qed.

Lemma get_client_free pend C cl n C1 i q : get_client C cl n = Some (C1, i) -> free pend C q -> free pend C1 q.
Proof.
  intros H F. unfold get_client in H. destruct (assoc n cl); [injection H as <- _; exact F|].
  destruct (assoc n (c_brokers C)) as [a|]; [|discriminate]. injection H as <- _.
  intros j n0 s qs h q0 Hj Hq Ow. unfold cores in Hj. cbn [with_clients with_bcs c_bcs] in Hj. rewrite map_app in Hj.
  apply nth_error_snoc_inv in Hj. destruct Hj as [Hj|[_ Hj]]; [exact (F j n0 s qs h q0 Hj Hq Ow)|].
  cbn in Hj. injection Hj as -> -> ->. destruct h; discriminate.
Qed.

Lemma op_fail_free pend C p r q : free pend C q -> free pend (fst (op_fail C p r)) q.
Proof. apply free_cores. unfold op_fail. destruct (nth_error (c_ops C) p); reflexivity. Qed.
Lemma boot_next_free pend C p hosts q : free pend C q -> free pend (fst (boot_next C p hosts)) q.
Proof. apply free_cores. unfold boot_next. destruct (closing C); [|destruct hosts; [|reflexivity]]; unfold op_fail; destruct (nth_error (c_ops C) p); reflexivity. Qed.

Lemma op_known_free : forall nodes pend C p rid q, q <> p -> AllCInv C -> free pend C q -> free pend (fst (op_known C p rid nodes)) q.
Proof.
  induction nodes as [|nd rest IH]; intros pend C p rid q N A F; cbn [op_known]; [apply boot_next_free; exact F|].
  destruct (c_clients C) as [cl|] eqn:Ec; [|apply op_fail_free; exact F].
  destruct (get_client C cl nd) as [[C1 i]|] eqn:G; [|apply op_fail_free; exact F].
  pose proof (get_client_free _ _ _ _ _ _ q G F) as F1. pose proof (proj1 (Rmono_get_client _ _ _ _ _ Ec G A)) as A1.
  pose proof (make_req_free pend C1 i rid true (-1) (OfOp p) q A1 ltac:(intros p0 E; injection E as <-; congruence) F1) as F2.
  pose proof (proj1 (Rmono_make_req C1 i rid true (-1) (OfOp p) A1)) as A2.
  destruct (make_req C1 i rid true (-1) (OfOp p)) as [[C2 r] o2]. cbn [fst] in F2, A2.
  destruct r as [|h|h r]; cbn [fst].
  - pose proof (IH pend C2 p rid q N A2 F2) as X. destruct (op_known C2 p rid rest). exact X.
  - apply (free_cores pend C2); [reflexivity | exact F2].
  - destruct r; try (pose proof (IH pend C2 p rid q N A2 F2) as X; destruct (op_known C2 p rid rest); exact X).
    + exact F2.
    + pose proof (op_fail_free pend C2 p RCancelled q F2) as X. destruct (op_fail C2 p RCancelled). exact X.
Qed.

Lemma on_def0_free pend C i h oc q : AllCInv C -> free ((i, h) :: pend) C q -> free pend (fst (on_def succ0 C i h oc)) q.
Proof.
  intros A F. assert (free pend C q) as F0 by (apply (free_less ((i, h) :: pend)); [intros x Hx; right; exact Hx | exact F]).
  unfold on_def. destruct (nth_error (c_bcs C) i) as [b|] eqn:Eb; [|exact F0].
  destruct (nth_error (b_reqs b) h) as [q0|] eqn:Eq; [|exact F0].
  set (C1o1 := match q_timer q0 with
               | Some t => (upd_creq C i h (fun q1 => mkCreq (q_owner q1) None (q_to q1)), [OCancelTimer t])
               | None => (C, []) end).
  assert (free pend (fst C1o1) q /\ AllCInv (fst C1o1) /\ c_ops (fst C1o1) = c_ops C) as (F1 & A1 & Eo).
  { unfold C1o1. destruct (q_timer q0) as [tq|]; cbn [fst]; [|auto]. split; [|split; [|reflexivity]].
    - intros j n s qs hh q1 Hj Hq Ow. destruct (upd_creq_inv _ _ _ _ _ _ _ _ Hj) as [[N Hj0]|[-> (qs0 & Hj0 & ->)]]; [exact (F0 j n s qs hh q1 Hj0 Hq Ow)|].
      apply nth_upd_inv in Hq. destruct Hq as [[<- (q2 & Hq2 & ->)]|[N Hq]]; [exact (F0 i n s qs0 h q2 Hj0 Hq2 Ow) | exact (F0 i n s qs0 hh q1 Hj0 Hq Ow)].
    - apply (Rmono_creq C i h); [intro; repeat split; auto | exact A]. }
  destruct C1o1 as [C1 o1]. cbn [fst] in F1, A1, Eo.
  destruct (q_owner q0) as [d|p] eqn:Ow0; [exact F1|].
  assert (q <> p) as N.
  { intros ->. destruct (F i _ _ _ h q0 (cores_nth _ _ _ Eb) Eq Ow0) as [_ Z]. apply Z. left. reflexivity. }
  destruct (nth_error (c_ops C1) p) as [[k al rid ph]|]; [|exact F1].
  destruct ph as [rest i' h'| | | |]; try exact F1.
  destruct (Nat.eqb i i' && Nat.eqb h h'); [|exact F1].
  destruct (if q_to q0 then RTimedOut else res_of oc);
    try (pose proof (op_known_free rest pend C1 p rid q N A1 F1) as X; destruct (op_known C1 p rid rest); exact X).
  - exact F1.
  - pose proof (op_fail_free pend C1 p RCancelled q F1) as X. destruct (op_fail C1 p RCancelled). exact X.
Qed.

Lemma Rmono_succ0 C p f : Rmono C (fst (succ0 C p f)).
Proof. apply Rmono_refl. Qed.

Lemma proc0_free : forall os pend C i q, AllCInv C -> free (tag i (def_handles os) ++ pend) C q -> free pend (fst (proc succ0 C i os)) q.
Proof.
  induction os as [|o os IH]; intros pend C i q A F; cbn [proc]; [exact F|].
  assert (free (tag i (def_handles os) ++ pend) (fst (match o with BrokerClient.ODef h oc => on_def succ0 C i h oc | _ => tr_out C i o end)) q
          /\ AllCInv (fst (match o with BrokerClient.ODef h oc => on_def succ0 C i h oc | _ => tr_out C i o end))) as [F1 A1].
  { destruct o; try (split; [apply (free_cores _ C); [apply (proj1 (tr_out_core C i _)) | exact F]
                                | apply (proj1 (mono_cores C _ (proj1 (tr_out_core C i _)) A))]).
    split; [apply on_def0_free; [exact A | exact F] | exact (proj1 (Rmono_on_def succ0 Rmono_succ0 C i h o A))]. }
  destruct (match o with BrokerClient.ODef h oc => on_def succ0 C i h oc | _ => tr_out C i o end) as [C1 o1]. cbn [fst] in F1, A1.
  pose proof (IH pend C1 i q A1 F1) as X. destruct (proc succ0 C1 i os). exact X.
Qed.

Lemma close_each_free : forall l pend C q, AllCInv C -> free pend C q -> free pend (fst (close_each C l)) q.
Proof.
  induction l as [|i l IH]; intros pend C q A F; cbn [close_each]; [exact F|].
  assert (free pend (fst (bc_event succ0 C i BrokerClient.EClose)) q) as F1.
  { unfold bc_event. pose proof (apply_bc_free pend C i BrokerClient.EClose q A eq_refl F) as X.
    pose proof (proj1 (Rmono_apply C i BrokerClient.EClose A)) as A1.
    destruct (apply_bc C i BrokerClient.EClose) as [C1 mo]. cbn [fst snd] in X, A1. apply proc0_free; assumption. }
  pose proof (proj1 (Rmono_bc_event succ0 Rmono_succ0 C i BrokerClient.EClose A)) as A1.
  destruct (bc_event succ0 C i BrokerClient.EClose) as [C1 o1]. cbn [fst] in *.
  pose proof (IH pend C1 q A1 F1) as X. destruct (close_each C1 l). exact X.
Qed.

Lemma merge_free pend C payload all q : AllCInv C -> free pend C q -> free pend (fst (merge C payload all)) q.
Proof.
  intros A F. unfold merge. destruct (parse_meta payload) as [[brokers topics]|]; [|exact F].
  set (rm := all && _).
  assert (free pend (fst (update_brokers C brokers rm)) q) as F1.
  { unfold update_brokers. set (C1 := with_brokers C _).
    assert (free pend C1 q) as Fa by (apply (free_cores pend C); [reflexivity | exact F]).
    assert (AllCInv C1) as Aa by (apply (proj1 (mono_cores C C1 eq_refl A))).
    destruct (c_clients C1) as [cl|]; [|destruct (dict_update [] brokers); [destruct rm|]; exact Fa].
    assert (forall bs C0, AllCInv C0 -> free pend C0 q -> free pend (update_each C0 cl bs) q /\ AllCInv (update_each C0 cl bs)) as Ue.
    { induction bs as [|[n a] bs IH]; intros C0 A0 F0; cbn [update_each]; [auto|]. destruct (assoc n cl) as [i|]; [|apply IH; assumption].
      apply IH; [exact (proj1 (Rmono_apply C0 i (BrokerClient.EUpdate true a) A0))|].
      pose proof (apply_bc_free pend C0 i (BrokerClient.EUpdate true a) q A0 eq_refl F0) as X.
      assert (snd (apply_bc C0 i (BrokerClient.EUpdate true a)) = []) as E
        by (unfold apply_bc; destruct (nth_error (c_bcs C0) i); reflexivity).
      rewrite E in X. exact X. }
    destruct (Ue (dict_update [] brokers) C1 Aa Fa) as [F2 A2].
    destruct rm; [|exact F2]. destruct (flat_map _ _) as [|i0 idx]; [exact F2|].
    unfold close_brokerclients.
    set (C2 := with_clients (update_each C1 cl (dict_update [] brokers)) _).
    assert (free pend C2 q) as F3 by (apply (free_cores pend (update_each C1 cl (dict_update [] brokers))); [reflexivity | exact F2]).
    assert (AllCInv C2) as A3 by (apply (proj1 (mono_cores _ C2 eq_refl A2))).
    pose proof (close_each_free (i0 :: idx) pend C2 q A3 F3) as F4. destruct (close_each C2 (i0 :: idx)) as [C3 o3]. cbn [fst] in F4.
    set (C3' := with_dl C3 _). pose proof (dl_refresh_core C3') as [SC _]. destruct (dl_refresh C3') as [C4 o4]. cbn [fst] in *.
    apply (free_cores pend C3'); [exact SC|]. apply (free_cores pend C3); [reflexivity | exact F4]. }
  destruct (update_brokers C brokers rm) as [C1 o1]. cbn [fst] in *. apply (free_cores pend C1); [reflexivity | exact F1].
Qed.

(* ------------------------------------------------------------------ closing broker clients (level 0) *)
Lemma succ0_some C p f : Rsome C (fst (succ0 C p f)).
Proof. intro H. exact H. Qed.

Lemma succ0_X : false = true -> forall pend ex C p f, TInvC pend C -> NoDup pend -> PB C -> XInv pend ex C ->
  (p < length (c_ops C))%nat -> free pend C p -> c_clients C <> None ->
  XInv pend ex (fst (succ0 C p f)) /\ okout (snd (succ0 C p f)).
Proof. discriminate. Qed.

Lemma open_at_bc C i : open_at C i -> exists b, nth_error (c_bcs C) i = Some b /\ is_open (b_st b).
Proof. intros (n & s & qs & Hc & Ho). destruct (cores_nth_inv _ _ _ _ _ Hc) as (b & Hb & _ & <- & _). eauto. Qed.

Lemma close_each_X : forall l pend ex C, TInvC pend C -> NoDup pend -> PB C -> XInv pend (l ++ ex) C ->
  XInv pend ex (fst (close_each C l)) /\ okout (snd (close_each C l)).
Proof.
  induction l as [|i l IH]; intros pend ex C T ND P X; cbn [close_each]; [split; [exact X | apply okout_nil]|].
  destruct (bc_event_X succ0 false succ0_wf succ0_PB succ0_some succ0_X pend ((i :: l) ++ ex) (l ++ ex) C i BrokerClient.EClose T ND P X eq_refl eq_refl)
    as [X1 Ok1].
  { intros b Hb. cbn [ev_ok]. destruct (open_at_bc _ _ (proj2 (x_ex _ _ _ X) i (or_introl eq_refl))) as (b' & Hb' & Ho).
    rewrite Hb in Hb'. injection Hb' as <-. exact Ho. }
  { right. split; reflexivity. }
  { intros _ b h f _. apply close_no_succ. }
  { discriminate. }
  pose proof (bc_event_wf succ0 succ0_wf pend C i BrokerClient.EClose eq_refl T) as T1.
  pose proof (bc_event_PB succ0 succ0_PB C i BrokerClient.EClose eq_refl P) as P1.
  destruct (bc_event succ0 C i BrokerClient.EClose) as [C1 o1]. cbn [fst snd] in *.
  destruct (IH pend ex C1 T1 ND P1 X1) as [Xr Okr]. destruct (close_each C1 l). cbn [fst snd] in *.
  split; [exact Xr | apply okout_app; assumption].
Qed.

Lemma close_brokerclients_X pend ex C l : TInvC pend C -> NoDup pend -> PB C -> XInv pend (l ++ ex) C ->
  XInv pend ex (fst (close_brokerclients C l)) /\ okout (snd (close_brokerclients C l)).
Proof.
  intros T ND P X. unfold close_brokerclients. destruct (close_each_X l pend ex C T ND P X) as [X1 Ok1].
  destruct (close_each C l) as [C1 o1]. cbn [fst snd] in *.
  set (C1' := with_dl C1 (Some (match c_dl C with Some x => x | None => [] end ++ l))).
  assert (XInv pend ex C1') as X1' by (eapply XInv_frame; [| | | | |exact X1]; reflexivity).
  assert (XInv pend ex (fst (dl_refresh C1')) /\ okout (snd (dl_refresh C1'))) as [X2 Ok2].
  { split.
    - eapply XInv_core; [apply dl_refresh_core | | exact X1']. unfold dl_refresh. destruct (c_dl C1') as [l0|]; [|apply same_rest_refl].
      destruct (filter (bc_pending C1') l0); [|repeat split]. destruct (c_wait _); repeat split.
    - unfold dl_refresh. destruct (c_dl C1') as [l0|]; [|ok_list]. destruct (filter (bc_pending C1') l0); [|ok_list]. destruct (c_wait _); ok_list. }
  destruct (dl_refresh C1') as [C2 o2]. cbn [fst snd] in *. split; [exact X2 | apply okout_app; assumption].
Qed.

(* ------------------------------------------------------------------ refreshing the broker table *)
Lemma update_each_X : forall bs pend ex C cl, TInvC pend C -> XInv pend ex C -> XInv pend ex (update_each C cl bs).
Proof.
  induction bs as [|[n a] bs IH]; intros pend ex C cl T X; cbn [update_each]; [exact X|].
  destruct (assoc n cl) as [i|]; [|apply IH; assumption].
  destruct (apply_bc C i (BrokerClient.EUpdate true a)) as [C1 mo] eqn:Ap.
  destruct (apply_bc_wf _ _ _ (BrokerClient.EUpdate true a) _ _ T eq_refl Ap) as [T1 _].
  destruct (apply_bc_X pend ex ex C i (BrokerClient.EUpdate true a) C1 mo (TInvC_all _ _ T) X eq_refl) as [X1 _].
  { intros b _. reflexivity. }
  { left. split; [discriminate | reflexivity]. }
  { exact Ap. }
  assert (mo = []) as -> by (unfold apply_bc in Ap; destruct (nth_error (c_bcs C) i); [|congruence]; cbn in Ap; congruence).
  cbn [fst]. apply IH; assumption.
Qed.

Lemma zinsert_lb x l y : (forall z, In z l -> y < z) -> y < x -> forall z, In z (zinsert x l) -> y < z.
Proof. intros H Hx z Hz. apply zinsert_in in Hz. destruct Hz as [->|Hz]; auto. Qed.

Lemma zinsert_sorted x : forall l, StronglySorted Z.lt l -> StronglySorted Z.lt (zinsert x l).
Proof.
  induction l as [|y l IH]; intro S; cbn [zinsert]; [constructor; constructor|].
  inversion S as [|? ? S' F]; subst. rewrite Forall_forall in F.
  destruct (x <? y) eqn:E1; [apply Z.ltb_lt in E1; constructor; [exact S|]; rewrite Forall_forall; intros z [<-|Hz]; [exact E1 | specialize (F z Hz); lia]|].
  destruct (x =? y) eqn:E2; [exact S|]. apply Z.ltb_ge in E1. apply Z.eqb_neq in E2.
  constructor; [exact (IH S')|]. rewrite Forall_forall. apply zinsert_lb; [exact F | lia].
Qed.

Lemma zsort_set_nodup l : NoDup (zsort_set l).
Proof.
  assert (StronglySorted Z.lt (zsort_set l)) as S.
  { unfold zsort_set. induction l as [|x l IH]; cbn [fold_right]; [constructor | apply zinsert_sorted; exact IH]. }
  induction S as [|a r S IH F]; constructor; [|exact IH]. intro Hin. rewrite Forall_forall in F. specialize (F a Hin). lia.
Qed.

Lemma snd_inj (cl : list (Z * nat)) n m i : NoDup (map snd cl) -> In (n, i) cl -> In (m, i) cl -> n = m.
Proof.
  induction cl as [|[k j] cl IH]; cbn [map snd In]; [tauto|]. intros N [E1|H1] [E2|H2]; inversion N as [|? ? Nin N']; subst.
  - congruence.
  - injection E1 as -> ->. exfalso. apply Nin. change i with (snd (m, i)). apply in_map. exact H2.
  - injection E2 as -> ->. exfalso. apply Nin. change i with (snd (n, i)). apply in_map. exact H1.
  - exact (IH N' H1 H2).
Qed.

Lemma has_key_in {B} k (l : list (Z * B)) : has_key k l = true -> exists v, In (k, v) l.
Proof. unfold has_key. destruct (assoc k l) eqn:E; [|discriminate]. intros _. exists b. apply assoc_in. exact E. Qed.

Lemma flat_map_nodup {A B} (f : A -> list B) : forall l, NoDup l -> (forall x, In x l -> NoDup (f x)) ->
  (forall x y z, In x l -> In y l -> In z (f x) -> In z (f y) -> x = y) -> NoDup (flat_map f l).
Proof.
  induction l as [|a l IH]; intros N F D; cbn [flat_map]; [constructor|]. inversion N as [|? ? Nin N']; subst.
  apply NoDup_app_intro.
  - apply F. left. reflexivity.
  - apply IH; [exact N' | intros x Hx; apply F; right; exact Hx|]. intros x y z Hx Hy. apply D; right; assumption.
  - intros z Hz Hz'. apply in_flat_map in Hz'. destruct Hz' as (y & Hy & Hzy).
    assert (a = y) as -> by (apply (D a y z); [left; reflexivity | right; exact Hy | exact Hz | exact Hzy]). exact (Nin Hy).
Qed.

Lemma update_brokers_X pend ex C brokers remove : TInvC pend C -> NoDup pend -> PB C -> XInv pend ex C ->
  XInv pend ex (fst (update_brokers C brokers remove)) /\ okout (snd (update_brokers C brokers remove)).
Proof.
  intros T ND P X. unfold update_brokers.
  set (by_id := dict_update [] brokers). set (C1 := with_brokers C _).
  assert (TInvC pend C1) as T1 by (eapply TInvC_same_core; [exact T | unfold C1; score]).
  assert (PB C1) as P1 by (eapply PB_bcs; [|exact P]; reflexivity).
  assert (XInv pend ex C1) as X1 by (eapply XInv_frame; [| | | | |exact X]; reflexivity).
  destruct (c_clients C1) as [cl|] eqn:Ec.
  2:{ destruct by_id; [destruct remove|]; cbn [fst snd]; (split; [exact X1 | ok_list]). }
  pose proof (update_each_X by_id pend ex C1 cl T1 X1) as X2.
  pose proof (update_each_wf by_id pend C1 cl T1) as T2.
  pose proof (update_each_PB by_id C1 cl P1) as P2.
  pose proof (update_each_clients by_id C1 cl) as Ec2. rewrite Ec in Ec2.
  destruct remove; [|cbn [fst snd]; split; [exact X2 | apply okout_nil]].
  set (gone := zsort_set (map fst (filter (fun kv => negb (has_key (fst kv) by_id)) cl))).
  set (idx := flat_map (fun n => match assoc n cl with Some i => [i] | None => [] end) gone).
  set (cl' := filter (fun kv => has_key (fst kv) by_id) cl).
  destruct idx as [|i0 idx0] eqn:Ei; [cbn [fst snd]; split; [exact X2 | apply okout_nil]|]. rewrite <- Ei.
  apply close_brokerclients_X; [eapply TInvC_same_core; [exact T2 | score] | exact ND | eapply PB_bcs; [|exact P2]; reflexivity|].
  destruct X2 as [A B D F G H R]. destruct (D cl Ec2) as [Ncl Kcl].
  assert (forall i, In i idx -> exists m, In (m, i) cl /\ has_key m by_id = false) as Idx.
  { intros i Hi. unfold idx in Hi. apply in_flat_map in Hi. destruct Hi as (m & Hm & Hi).
    destruct (assoc m cl) as [j|] eqn:As; [|destruct Hi]. destruct Hi as [<-|[]]. exists m. split; [apply assoc_in; exact As|].
    unfold gone in Hm. apply (proj1 (zsort_set_in _ _)) in Hm. apply in_map_iff in Hm. destruct Hm as ([m' j'] & E & Hf). cbn in E. subst m'.
    apply filter_In in Hf. destruct Hf as [_ Hf]. cbn in Hf. destruct (has_key m by_id); [discriminate | reflexivity]. }
  constructor; change (cores (with_clients (update_each C1 cl by_id) (Some cl'))) with (cores (update_each C1 cl by_id));
    change (c_ops (with_clients (update_each C1 cl by_id) (Some cl'))) with (c_ops (update_each C1 cl by_id));
    change (c_direct (with_clients (update_each C1 cl by_id) (Some cl'))) with (c_direct (update_each C1 cl by_id));
    change (c_boots (with_clients (update_each C1 cl by_id) (Some cl'))) with (c_boots (update_each C1 cl by_id)); try assumption.
  - intros cl0 Hc. cbn [c_clients with_clients] in Hc. injection Hc as <-. split.
    + unfold cl'. apply NoDup_map_filter. exact Ncl.
    + intros n i Hi. unfold cl' in Hi. apply filter_In in Hi. destruct Hi as [Hi Hk]. cbn in Hk. destruct (Kcl n i Hi) as [Y Ho].
      split; [|exact Ho]. intro Z. apply in_app_or in Z. destruct Z as [Z|Z]; [|exact (Y Z)].
      destruct (Idx i Z) as (m & Hm & Hk'). rewrite (snd_inj cl n m i Ncl Hi Hm) in Hk. congruence.
  - destruct F as [Nex Kex]. split.
    + apply NoDup_app_intro; [|exact Nex|].
      * unfold idx. apply flat_map_nodup; [apply zsort_set_nodup | intros x _; destruct (assoc x cl); repeat constructor; intros []|].
        intros x y z _ _ Hx Hy. destruct (assoc x cl) as [jx|] eqn:Ax; [|destruct Hx]. destruct (assoc y cl) as [jy|] eqn:Ay; [|destruct Hy].
        destruct Hx as [->|[]]. destruct Hy as [->|[]]. exact (snd_inj cl x y z Ncl (assoc_in _ _ _ Ax) (assoc_in _ _ _ Ay)).
      * intros i Hi Hx. destruct (Idx i Hi) as (m & Hm & _). exact (proj1 (Kcl m i Hm) Hx).
    + intros i Hi. apply in_app_or in Hi. destruct Hi as [Hi|Hi]; [|exact (Kex i Hi)]. destruct (Idx i Hi) as (m & Hm & _). exact (proj2 (Kcl m i Hm)).
Qed.

Lemma merge_X pend ex C payload all : TInvC pend C -> NoDup pend -> PB C -> XInv pend ex C ->
  XInv pend ex (fst (merge C payload all)) /\ okout (snd (merge C payload all)).
Proof.
  intros T ND P X. unfold merge. destruct (parse_meta payload) as [[brokers topics]|].
  2:{ cbn [fst snd]. split; [exact X|]. intros k [E|[]]. injection E as <-. reflexivity. }
  set (rm := all && _). destruct (update_brokers_X pend ex C brokers rm T ND P X) as [X1 Ok1].
  destruct (update_brokers C brokers rm) as [C1 o1]. cbn [fst snd] in *.
  split; [eapply XInv_frame; [| | | | |exact X1]; reflexivity | exact Ok1].
Qed.

(* level 1: operation p obtained its response *)
Lemma succ1_X : true = true -> forall pend ex C p f, TInvC pend C -> NoDup pend -> PB C -> XInv pend ex C ->
  (p < length (c_ops C))%nat -> free pend C p -> c_clients C <> None ->
  XInv pend ex (fst (succ1 C p f)) /\ okout (snd (succ1 C p f)).
Proof.
  intros _ pend ex C p f T ND P X Lp Fr Hc. unfold succ1.
  destruct (nth_error (c_ops C) p) as [o|] eqn:Eo; [|apply nth_error_None in Eo; lia].
  assert (XInv pend ex (set_phase C p PDone)) as X1 by (apply set_phase_X; [exact X | exact Lp | apply free_no_obl; exact Fr]).
  assert (TInvC pend (set_phase C p PDone)) as T1 by (eapply TInvC_same_core; [exact T | apply set_phase_core]).
  assert (PB (set_phase C p PDone)) as P1 by (eapply PB_bcs; [|exact P]; reflexivity).
  assert (free pend (set_phase C p PDone) p) as Fr1 by (apply (free_cores pend C); [reflexivity | exact Fr]).
  unfold closing. change (c_clients (set_phase C p PDone)) with (c_clients C). destruct (c_clients C); [|congruence].
  destruct (o_kind o =? 1).
  - destruct (merge_X pend ex _ (drop 4 f) (o_all o) T1 ND P1 X1) as [X2 Ok2].
    destruct (merge (set_phase C p PDone) (drop 4 f) (o_all o)). cbn [fst snd] in *. split; [exact X2 | apply okout_app; [exact Ok2 | ok_list]].
  - destruct (is_ltp (o_kind o)); [|cbn [fst snd]; split; [exact X1 | ok_list]].
    destruct (merge_X pend ex _ (drop 4 f) false T1 ND P1 X1) as [X2 Ok2].
    pose proof (merge_free pend _ (drop 4 f) false p (proj1 P1) Fr1) as Fr2.
    destruct (merge (set_phase C p PDone) (drop 4 f) false) as [C2 o2]. cbn [fst snd] in *.
    destruct (missing (drop 4 f)); [|cbn [fst snd]; split; [exact X2 | apply okout_app; [exact Ok2 | ok_list]]].
    unfold new_timer. cbn [fst snd]. split; [|apply okout_app; [exact Ok2 | ok_list]].
    apply set_phase_X_free; [eapply XInv_frame; [| | | | |exact X2]; reflexivity | apply (free_cores pend C2); [reflexivity | exact Fr2]].
Qed.

(* an event of broker client i in an open client *)
Lemma ev_bc_X pend ex C i e : TInvC pend C -> NoDup pend -> PB C -> XInv pend ex C -> is_make e = false -> not_fire e = true ->
  e <> BrokerClient.EClose -> (forall b, nth_error (c_bcs C) i = Some b -> ev_ok (b_st b) e) -> c_clients C <> None ->
  XInv pend ex (fst (ev_bc C i e)) /\ okout (snd (ev_bc C i e)).
Proof.
  intros T ND P X M NF NE K Hc.
  apply (bc_event_X succ1 true succ1_wf succ1_PB Rsome_succ1 succ1_X pend ex ex C i e T ND P X M NF K); auto. discriminate.
Qed.

(* ... and in a closed one: no Deferred fires any more *)
Lemma ev_bc_X_closed ex C i e : ClosedInv C -> PB C -> XInv [] ex C -> is_make e = false -> not_fire e = true ->
  e <> BrokerClient.EClose -> (forall b, nth_error (c_bcs C) i = Some b -> ev_ok (b_st b) e) ->
  XInv [] ex (fst (ev_bc C i e)) /\ okout (snd (ev_bc C i e)).
Proof.
  intros Kc P X M NF NE K. pose proof Kc as [Cc T D Dn Tp].
  apply (bc_event_X succ1 false succ1_wf succ1_PB Rsome_succ1 (fun H => match Bool.diff_false_true H with end) [] ex ex C i e T (NoDup_nil _) P X M NF K); auto.
  - intros _ b h f Hb Hin. destruct (BrokerClient.step (b_st b) e) as [s' mo] eqn:Es. cbn [snd] in Hin.
    destruct (TInvC_bc _ _ _ _ T Hb) as (I & _).
    destruct (closed_mo _ _ _ _ I (D i b Hb) M Es) as [_ In]. rewrite forallb_forall in In. specialize (In _ Hin). discriminate.
  - discriminate.
Qed.

(* the reactor fired the back-off DelayedCall (b_timer already cleared): M7's EFire only connects *)
Lemma ev_bc_fire_X ex C i : AllCInv C -> XInv [] ex C ->
  XInv [] ex (fst (ev_bc C i BrokerClient.EFire)) /\ okout (snd (ev_bc C i BrokerClient.EFire)).
Proof.
  intros A X. unfold ev_bc, bc_event. destruct (apply_bc C i BrokerClient.EFire) as [C1 mo] eqn:Ap.
  destruct (apply_bc_X [] ex ex C i BrokerClient.EFire C1 mo A X eq_refl) as [X1 _].
  { intros b _. exact I. } { left. split; [discriminate | reflexivity]. } { exact Ap. }
  unfold apply_bc in Ap. destruct (nth_error (c_bcs C) i) as [b|]; [|injection Ap as <- <-; cbn; split; [exact X1 | apply okout_nil]].
  cbn [BrokerClient.step] in Ap. destruct (BrokerClient.s_connector (b_st b)); injection Ap as <- <-; cbn [proc tr_out fst snd app] in *;
    (split; [exact X1 | ok_list]).
Qed.

(* ------------------------------------------------------------------ bootstrap steps *)
Lemma free_of_phase pend ex C p o : XInv pend ex C -> nth_error (c_ops C) p = Some o ->
  (forall rest i h, o_phase o <> PKnown rest i h) -> free pend C p.
Proof.
  intros X Ho Np i n s qs h q Hc Hq Ow.
  assert (~ (~ sfired s h \/ In (i, h) pend)) as No.
  { intro Ob. destruct (x_conv _ _ _ X i n s qs h q p Hc Hq Ow Ob) as (o' & rest & Ho' & Hph). rewrite Ho in Ho'. injection Ho' as <-.
    exact (Np rest i h Hph). }
  split.
  - destruct (in_dec Nat.eq_dec h (BrokerClient.t_fired (BrokerClient.s_t s))) as [Y|Y]; [exact Y | exfalso; apply No; left; exact Y].
  - intro Y. apply No. right. exact Y.
Qed.

Lemma XInv_set_boot pend ex C a st : XInv pend ex C -> XInv pend ex (set_boot C a st).
Proof.
  intros [A B D F G H R]. constructor; try assumption.
  intros a0 p rid st0 Ha. unfold set_boot in Ha. cbn [c_boots with_boots] in Ha. change (c_ops (set_boot C a st)) with (c_ops C).
  apply nth_upd_inv in Ha. destruct Ha as [[<- (x & Hx & E)]|[N Ha]]; [|exact (H a0 p rid st0 Ha)].
  destruct x as [[p0 rid0] st1]. cbn [fst] in E. injection E as -> -> _. exact (H a _ _ st1 Hx).
Qed.

Lemma cancel_boots_X : forall n ex C p, XInv [] ex C -> XInv [] ex (fst (cancel_boots C n p)) /\ okout (snd (cancel_boots C n p)).
Proof.
  induction n as [|n IH]; intros ex C p X; cbn [cancel_boots]; [split; [exact X | apply okout_nil]|].
  set (Y := match nth_error (c_ops C) p with
            | Some (mkOp _ _ _ (PBootConn a rest)) => let (C', o') := boot_next (set_boot C a KDead) p rest in (C', OBootCancel a :: o')
            | Some (mkOp _ _ _ (PBootReq a t rest)) => let (C', o') := boot_next C p rest in (C', OCancelTimer t :: OBootLose a :: o')
            | Some (mkOp _ _ _ (PWait t)) => let (C', o') := op_fail C p RCancelled in (C', OCancelTimer t :: o')
            | _ => (C, []) end).
  assert (XInv [] ex (fst Y) /\ okout (snd Y)) as [X1 Ok1].
  { unfold Y. destruct (nth_error (c_ops C) p) as [[k al rid ph]|] eqn:Eo; [|split; [exact X | apply okout_nil]].
    assert ((p < length (c_ops C))%nat) as Lp by (apply nth_error_Some; congruence).
    destruct ph; try (split; [exact X | apply okout_nil]).
    - pose proof (XInv_set_boot [] ex C a KDead X) as X0.
      assert (free [] (set_boot C a KDead) p) as Fr by (apply (free_of_phase [] ex _ p _ X0 Eo); intros; discriminate).
      destruct (boot_next_X [] ex (set_boot C a KDead) p rest X0 Lp Fr) as [Xr Okr].
      destruct (boot_next (set_boot C a KDead) p rest). cbn [fst snd] in *. split; [exact Xr | apply (okout_app [_]); [ok_list | exact Okr]].
    - assert (free [] C p) as Fr by (apply (free_of_phase [] ex _ p _ X Eo); intros; discriminate).
      destruct (boot_next_X [] ex C p rest X Lp Fr) as [Xr Okr].
      destruct (boot_next C p rest). cbn [fst snd] in *. split; [exact Xr | apply (okout_app [_; _]); [ok_list | exact Okr]].
    - assert (free [] C p) as Fr by (apply (free_of_phase [] ex _ p _ X Eo); intros; discriminate).
      destruct (op_fail_X [] ex C p RCancelled X Lp Fr) as [Xr Okr].
      destruct (op_fail C p RCancelled). cbn [fst snd] in *. split; [exact Xr | apply (okout_app [_]); [ok_list | exact Okr]]. }
  destruct Y as [C1 o1]. cbn [fst snd] in *. destruct (IH ex C1 (S p) X1) as [Xr Okr]. destruct (cancel_boots C1 n (S p)). cbn [fst snd] in *.
  split; [exact Xr | apply okout_app; assumption].
Qed.

(* ------------------------------------------------------------------ every step *)
Definition sized (e : event) : Prop :=
  match e with EReply _ rid pl => Z.of_nat (length (id4 rid ++ pl)) <= MAX_LENGTH | _ => True end.

Lemma ev_bc_X_any C i e : TInvC [] C -> PB C -> XInv [] [] C -> (c_clients C = None -> ClosedInv C) ->
  is_make e = false -> not_fire e = true -> e <> BrokerClient.EClose ->
  (forall b, nth_error (c_bcs C) i = Some b -> ev_ok (b_st b) e) ->
  XInv [] [] (fst (ev_bc C i e)) /\ okout (snd (ev_bc C i e)).
Proof.
  intros T P X Kc M NF NE K. destruct (c_clients C) eqn:Ec.
  - apply ev_bc_X; auto; [constructor | congruence].
  - apply ev_bc_X_closed; auto.
Qed.

Lemma cancel_quiet s h : no_tm (snd (BrokerClient.step s (BrokerClient.ECancel h)))
  /\ (tmr (fst (BrokerClient.step s (BrokerClient.ECancel h))) <-> tmr s).
Proof. cbn [BrokerClient.step]. unfold BrokerClient.lift. cbn [fst snd]. split; [apply cancel_no_tm | unfold tmr; reflexivity]. Qed.

Lemma Rsome_proc succ : (forall C p f, Rsome C (fst (succ C p f))) -> forall os C i, Rsome C (fst (proc succ C i os)).
Proof. intro Hs. apply (g2_proc Rsome); try rs; exact Hs. Qed.

Lemma id4_ok rid pl : ok4 (id4 rid ++ pl) = true.
Proof. unfold ok4, id4, enc32. reflexivity. Qed.

Lemma XInv_new_op pend ex C o : XInv pend ex C -> o_phase o = PDone ->
  XInv pend ex (with_ops C (c_ops C ++ [o])) /\ free pend (with_ops C (c_ops C ++ [o])) (length (c_ops C)).
Proof.
  intros [A B D F G H R] Ho. split.
  - constructor; change (cores (with_ops C (c_ops C ++ [o]))) with (cores C); cbn [c_ops with_ops c_clients c_direct c_boots]; try assumption.
    + intros i n s qs h q p Hc Hq Ow Ob. destruct (A i n s qs h q p Hc Hq Ow Ob) as (o' & rest & Ho' & Hph). exists o', rest.
      split; [apply nth_error_app_l; exact Ho' | exact Hph].
    + intros i n s qs h q p Hc Hq Ow. rewrite app_length. pose proof (B i n s qs h q p Hc Hq Ow). lia.
    + intros a p rid st Ha. rewrite app_length. pose proof (H a p rid st Ha). lia.
  - intros i n s qs h q Hc Hq Ow. change (cores (with_ops C (c_ops C ++ [o]))) with (cores C) in Hc.
    pose proof (B i n s qs h q _ Hc Hq Ow). lia.
Qed.

Lemma direct_X pend ex C3 i h : XInv pend ex C3 -> (i < length (cores C3))%nat -> XInv pend ex (with_direct C3 (c_direct C3 ++ [(i, h)])).
Proof.
  intros [A B D F G H R] Li. constructor; try assumption.
  intros d j hh Hd. cbn [c_direct with_direct] in Hd. change (cores (with_direct C3 (c_direct C3 ++ [(i, h)]))) with (cores C3).
  apply nth_error_snoc_inv in Hd. destruct Hd as [Hd|[_ Hd]]; [exact (G d j hh Hd) | injection Hd as -> _; exact Li].
Qed.

Lemma send_X C i rid expect mint :
  TInvC [] C -> XInv [] [] C -> (i < length (cores C))%nat ->
  let d := length (c_direct C) in
  forall R, R = (match make_req C i rid expect mint (Direct d) with
                 | (C3, MRaised, o3) => (C3, o3 ++ [ORaised 1])
                 | (C3, MPending h, o3) => (with_direct C3 (c_direct C3 ++ [(i, h)]), o3)
                 | (C3, MFired h r, o3) => (with_direct C3 (c_direct C3 ++ [(i, h)]), o3 ++ [OReq d r])
                 end) -> XInv [] [] (fst R) /\ okout (snd R).
Proof.
  intros T X Li d R ->. destruct (make_req C i rid expect mint (Direct d)) as [[C3 r] o3] eqn:M.
  assert (forall p, Direct d = OfOp p -> (p < length (c_ops C))%nat /\ free [] C p) as Ow by (intros p E; discriminate).
  destruct (make_req_X _ _ _ _ _ _ _ _ _ _ _ T X Li Ow M) as (Ok & _ & _ & _ & _ & Ll & Res).
  destruct r as [|h|h r]; cbn [fst snd].
  - destruct Res as (X3 & _). split; [exact X3 | apply okout_app; [exact Ok | ok_list]].
  - destruct Res as [_ X3]. split; [apply direct_X; [apply X3; intros p E; discriminate | rewrite Ll; exact Li] | exact Ok].
  - destruct Res as (X3 & _). split; [apply direct_X; [exact X3 | rewrite Ll; exact Li] | apply okout_app; [exact Ok | ok_list]].
Qed.

Theorem step_X C e : TInvC [] C -> PB C -> XInv [] [] C -> (c_clients C = None -> ClosedInv C) -> sized e ->
  XInv [] [] (fst (step C e)) /\ okout (snd (step C e)).
Proof.
  intros T P X Kc Sz. destruct e; cbn [step].
  - (* ESend *)
    destruct (c_clients C) as [cl|] eqn:Ec; [|split; [exact X | ok_list]].
    destruct (get_client C cl node) as [[C1 i]|] eqn:G; [|split; [exact X | ok_list]].
    destruct (get_client_X _ _ _ _ _ _ _ X Ec G) as (X1 & Li & _).
    pose proof (get_client_wf _ _ _ _ _ _ T G) as T1. unfold next_id.
    set (C2 := with_corr C1 _).
    assert (TInvC [] C2) as T2 by (eapply TInvC_same_core; [exact T1 | unfold C2; score]).
    assert (XInv [] [] C2) as X2 by (eapply XInv_frame; [| | | | |exact X1]; reflexivity).
    exact (send_X C2 i _ expect mint T2 X2 Li _ eq_refl).
  - (* ECancelReq *)
    destruct (nth_error (c_direct C) d) as [[i h]|]; [|split; [exact X | apply okout_nil]].
    apply ev_bc_X_any; auto; try discriminate; intros; exact I.
  - (* EOp *)
    unfold next_id. cbn [fst snd]. set (C1 := with_corr C _). set (op0 := mkOp kind all _ PDone).
    set (C2 := with_ops C1 (c_ops C1 ++ [op0])).
    assert (XInv [] [] C1) as X1 by (eapply XInv_frame; [| | | | |exact X]; reflexivity).
    destruct (XInv_new_op [] [] C1 op0 X1 eq_refl) as [X2 Fr]. fold C2 in X2, Fr.
    assert (TInvC [] C2) as T2 by (eapply TInvC_same_core; [exact T | unfold C2, C1; score]).
    assert ((length (c_ops C1) < length (c_ops C2))%nat) as Lp by (unfold C2; cbn [c_ops with_ops]; rewrite app_length; cbn; lia).
    destruct (c_clients C2); [apply op_known_X; assumption | apply op_fail_X; assumption].
  - (* EUpdate *) apply update_brokers_X; auto. constructor.
  - (* EClose *)
    destruct (c_clients C) as [cl|] eqn:Ec; [|split; [exact X | ok_list]].
    assert (TInvC [] (with_clients C None)) as T0 by (eapply TInvC_same_core; [exact T | score]).
    assert (PB (with_clients C None)) as P0 by (eapply PB_bcs; [|exact P]; reflexivity).
    assert (XInv [] (map snd cl ++ []) (with_clients C None)) as X0.
    { destruct X as [A B D F G H R]. destruct (D cl Ec) as [N Kcl]. rewrite app_nil_r.
      constructor; try assumption; [intros cl0 Hc; discriminate|].
      split; [exact N|]. intros i Hi. apply in_map_iff in Hi. destruct Hi as ([n j] & E & Hin). cbn in E. subst j. exact (proj2 (Kcl n i Hin)). }
    destruct (close_brokerclients_X [] [] _ (map snd cl) T0 (NoDup_nil _) P0 X0) as [X1 Ok1].
    destruct (close_brokerclients (with_clients C None) (map snd cl)) as [C1 o1]. cbn [fst snd] in *.
    destruct (cancel_boots_X (length (c_ops C1)) [] C1 0 X1) as [X2 Ok2].
    destruct (cancel_boots C1 (length (c_ops C1)) 0) as [C2 o2]. cbn [fst snd] in *.
    destruct (c_dl (with_topics C2 [])); cbn [fst snd].
    + split; [eapply XInv_frame; [| | | | |exact X2]; reflexivity | apply okout_app; assumption].
    + split; [eapply XInv_frame; [| | | | |exact X2]; reflexivity | apply okout_app; [exact Ok1 | apply okout_app; [exact Ok2 | ok_list]]].
  - (* EReset *) split; [eapply XInv_frame; [| | | | |exact X]; reflexivity | apply okout_nil].
  - apply ev_bc_X_any; auto; try discriminate; intros; exact I.
  - apply ev_bc_X_any; auto; try discriminate; intros; exact I.
  - apply ev_bc_X_any; auto; try discriminate; intros; exact I.
  - (* EReply *) apply ev_bc_X_any; auto; try discriminate. intros b Hb. cbn [ev_ok]. split.
    + exact (x_rx _ _ _ X i _ _ _ (cores_nth _ _ _ Hb)).
    + split; [apply id4_ok | exact Sz].
  - (* ETimer *)
    destruct (nth_error (c_timers C) t) as [[i h|i|p a|p]|]; [| | | |split; [exact X | apply okout_nil]].
    + unfold creq_at. destruct (nth_error (c_bcs C) i) as [b|] eqn:Eb; [|split; [exact X | apply okout_nil]].
      destruct (nth_error (b_reqs b) h) as [[ow [t'|] to]|] eqn:Eq; try (split; [exact X | apply okout_nil]).
      destruct (Nat.eqb t t'); [|split; [exact X | apply okout_nil]].
      destruct (c_clients C) as [cl|] eqn:Ec.
      2:{ exfalso. pose proof (Kc eq_refl) as [_ _ D _ _]. destruct (TInvC_bc _ _ _ _ T Eb) as (I & L & A & _).
          destruct (A h _ t' Eq eq_refl) as [_ [Z|[]]]. apply Z. apply closed_all_fired; [exact I | exact (D i b Eb)|].
          rewrite <- L. apply nth_error_Some. congruence. }
      destruct (timeout_wf C i h b ow t' to T Eb Eq) as [Mo T2].
      set (f := fun q => mkCreq (q_owner q) None true) in *. set (C1 := upd_creq C i h f) in *.
      assert (PB C1) as P1 by (apply PB_upd_keep; [intros; split; reflexivity | exact P]).
      assert (ev_bc C1 i (BrokerClient.ECancel h)
              = proc succ1 (fst (apply_bc C1 i (BrokerClient.ECancel h))) i (snd (apply_bc C1 i (BrokerClient.ECancel h)))) as Eev
        by (unfold ev_bc, bc_event; destruct (apply_bc C1 i (BrokerClient.ECancel h)); reflexivity).
      rewrite Eev. clear Eev.
      assert (XInv [(i, h)] [] (fst (apply_bc C1 i (BrokerClient.ECancel h)))) as X2.
      { unfold C1. rewrite apply_bc_upd_creq. cbn [fst]. apply XInv_upd_creq; [reflexivity|].
        destruct (apply_bc C i (BrokerClient.ECancel h)) as [Ca moa] eqn:Ap.
        assert (moa = [BrokerClient.ODef h BrokerClient.FailCancelled]) as Em.
        { unfold C1 in Mo. rewrite apply_bc_upd_creq, Ap in Mo. exact Mo. }
        destruct (apply_bc_X [] [] [] C i (BrokerClient.ECancel h) Ca moa (TInvC_all _ _ T) X eq_refl) as [Xa _].
        { intros; exact I. } { left. split; [discriminate | reflexivity]. } { exact Ap. }
        rewrite Em in Xa. exact Xa. }
      assert (PB (fst (apply_bc C1 i (BrokerClient.ECancel h)))) as P2.
      { apply (apply_bc_PB C1 i (BrokerClient.ECancel h) P1). intros b0 _. apply cancel_quiet. }
      pose proof (apply_bc_rest C1 i (BrokerClient.ECancel h)) as SR.
      destruct (apply_bc C1 i (BrokerClient.ECancel h)) as [C2 mo]. cbn [fst snd] in *. subst mo.
      assert (c_clients C2 <> None) as Hc2 by (destruct SR as (_ & E2 & _); rewrite E2; cbn; rewrite Ec; discriminate).
      destruct (proc_X succ1 true succ1_wf succ1_PB Rsome_succ1 succ1_X [BrokerClient.ODef h BrokerClient.FailCancelled] [] [] C2 i) as [X3 Ok3];
        try reflexivity; try assumption; try discriminate; [repeat constructor; intros [] | intros _; exact Hc2|].
      pose proof (proc_wf succ1 succ1_wf [BrokerClient.ODef h BrokerClient.FailCancelled] [] C2 i) as T3.
      cbn [def_handles flat_map app tag map] in T3. specialize (T3 T2).
      pose proof (proc_PB succ1 succ1_PB [BrokerClient.ODef h BrokerClient.FailCancelled] C2 i eq_refl P2) as P3.
      pose proof (Rsome_proc succ1 Rsome_succ1 [BrokerClient.ODef h BrokerClient.FailCancelled] C2 i Hc2) as Hc3.
      destruct (proc succ1 C2 i [BrokerClient.ODef h BrokerClient.FailCancelled]) as [C3 o3]. cbn [fst snd] in *.
      destruct (g_dot (c_cfg C3)); [|cbn [fst snd]; split; assumption].
      destruct (ev_bc_X [] [] C3 i BrokerClient.EDisconnect T3 (NoDup_nil _) P3 X3 eq_refl eq_refl) as [X4 Ok4];
        [discriminate | intros; exact I | exact Hc3|].
      destruct (ev_bc C3 i BrokerClient.EDisconnect). cbn [fst snd] in *. split; [exact X4 | apply okout_app; assumption].
    + destruct (nth_error (c_bcs C) i) as [b|] eqn:Eb; [|split; [exact X | apply okout_nil]].
      destruct (match b_timer b with Some t' => Nat.eqb t t' | None => false end); [|split; [exact X | apply okout_nil]].
      apply ev_bc_fire_X.
      * destruct P as [A _]. intros j b' Hb'. cbn [upd_bc with_bcs c_bcs] in Hb'. apply nth_upd_inv in Hb'.
        destruct Hb' as [[<- (x & Hx & ->)]|[Nj Hb']]; [exact (A _ _ Hx) | exact (A j b' Hb')].
      * eapply XInv_core; [apply upd_bc_core; intros; reflexivity | repeat split | exact X].
    + unfold phase_of. destruct (nth_error (c_ops C) p) as [[k al rid ph]|] eqn:Eo; [|split; [exact X | apply okout_nil]]. cbn [o_phase].
      destruct ph; try (split; [exact X | apply okout_nil]). destruct (Nat.eqb a a0 && Nat.eqb t t0); [|split; [exact X | apply okout_nil]].
      assert ((p < length (c_ops C))%nat) as Lp by (apply nth_error_Some; congruence).
      assert (free [] C p) as Fr by (apply (free_of_phase [] [] _ p _ X Eo); intros; discriminate).
      destruct (boot_next_X [] [] C p rest X Lp Fr) as [Xr Okr]. destruct (boot_next C p rest). cbn [fst snd] in *.
      split; [exact Xr | apply (okout_app [_]); [ok_list | exact Okr]].
    + unfold phase_of. destruct (nth_error (c_ops C) p) as [[k al rid0 ph]|] eqn:Eo; [|split; [exact X | apply okout_nil]]. cbn [o_phase].
      destruct ph; try (split; [exact X | apply okout_nil]). destruct (Nat.eqb t t0); [|split; [exact X | apply okout_nil]].
      unfold next_id. cbn [fst snd]. set (C1 := with_corr C _). set (C2 := restart_op C1 p _).
      assert ((p < length (c_ops C))%nat) as Lp by (apply nth_error_Some; congruence).
      assert (free [] C p) as Fr by (apply (free_of_phase [] [] _ p _ X Eo); intros; discriminate).
      assert (XInv [] [] C1) as X1 by (eapply XInv_frame; [| | | | |exact X]; reflexivity).
      assert (free [] C1 p) as Fr1 by (apply (free_cores [] C); [reflexivity | exact Fr]).
      pose proof (restart_op_X [] [] C1 p ((c_corr C + 1) mod 2147483648) X1 Fr1) as X2. fold C2 in X2.
      assert (free [] C2 p) as Fr2 by (apply (free_cores [] C1); [reflexivity | exact Fr1]).
      assert (TInvC [] C2) as T2 by (eapply TInvC_same_core; [exact T | unfold C2, C1; score]).
      assert ((p < length (c_ops C2))%nat) as Lp2 by (unfold C2, restart_op; cbn [c_ops with_ops with_corr]; rewrite nth_upd_length; exact Lp).
      destruct (c_clients C2); [apply op_known_X; assumption | apply op_fail_X; assumption].
  - (* EBootOk *)
    destruct (nth_error (c_boots C) a) as [[[p rid] [| |]]|] eqn:Ea; try (split; [exact X | apply okout_nil]).
    unfold phase_of. destruct (nth_error (c_ops C) p) as [[k al rid0 ph]|] eqn:Eo; [|split; [exact X | apply okout_nil]]. cbn [o_phase].
    destruct ph; try (split; [exact X | apply okout_nil]). destruct (Nat.eqb a a0); [|split; [exact X | apply okout_nil]].
    unfold new_timer. cbn [fst snd]. split; [|ok_list].
    assert ((p < length (c_ops C))%nat) as Lp by (apply nth_error_Some; congruence).
    assert (free [] C p) as Fr by (apply (free_of_phase [] [] _ p _ X Eo); intros; discriminate).
    set (C1 := set_boot (with_timers C (c_timers C ++ [TBoot p a])) a (KLive true)).
    assert (XInv [] [] C1) as X1 by (apply XInv_set_boot; eapply XInv_frame; [| | | | |exact X]; reflexivity).
    apply set_phase_X; [exact X1 | exact Lp|]. apply free_no_obl. exact Fr.
  - (* EBootFail *)
    destruct (nth_error (c_boots C) a) as [[[p rid] [| |]]|] eqn:Ea; try (split; [exact X | apply okout_nil]).
    unfold phase_of. destruct (nth_error (c_ops C) p) as [[k al rid0 ph]|] eqn:Eo; [|split; [exact X | apply okout_nil]]. cbn [o_phase].
    destruct ph; try (split; [exact X | apply okout_nil]). destruct (Nat.eqb a a0); [|split; [exact X | apply okout_nil]].
    assert ((p < length (c_ops C))%nat) as Lp by (apply nth_error_Some; congruence).
    pose proof (XInv_set_boot [] [] C a KDead X) as X0.
    assert (free [] (set_boot C a KDead) p) as Fr by (apply (free_of_phase [] [] _ p _ X0 Eo); intros; discriminate).
    apply boot_next_X; assumption.
  - (* EBootReply *)
    destruct (nth_error (c_boots C) a) as [[[p rid'] [|pend|]]|] eqn:Ea; try (split; [exact X | apply okout_nil]).
    destruct (pend && zlist_eqb (id4 rid) (id4 rid')); [|split; [exact X | ok_list]].
    pose proof (XInv_set_boot [] [] C a (KLive false) X) as X0.
    unfold phase_of. change (c_ops (set_boot C a (KLive false))) with (c_ops C).
    destruct (nth_error (c_ops C) p) as [[k al rid0 ph]|] eqn:Eo; [|split; [exact X0 | apply okout_nil]]. cbn [o_phase].
    destruct ph; try (split; [exact X0 | apply okout_nil]). destruct (Nat.eqb a a0); [|split; [exact X0 | apply okout_nil]].
    assert ((p < length (c_ops C))%nat) as Lp by (apply nth_error_Some; congruence).
    assert (free [] (set_boot C a (KLive false)) p) as Fr by (apply (free_of_phase [] [] _ p _ X0 Eo); intros; discriminate).
    assert (c_clients C <> None) as Hc.
    { intro Ec. pose proof (Kc Ec) as [_ _ _ Dn _]. pose proof (Dn p _ Eo) as Z. discriminate Z. }
    assert (TInvC [] (set_boot C a (KLive false))) as T0 by (eapply TInvC_same_core; [exact T | apply set_boot_core]).
    assert (PB (set_boot C a (KLive false))) as P0 by (eapply PB_bcs; [|exact P]; reflexivity).
    destruct (succ1_X eq_refl [] [] (set_boot C a (KLive false)) p (id4 rid ++ payload) T0 (NoDup_nil _) P0 X0 Lp Fr Hc) as [Xr Okr].
    destruct (succ1 (set_boot C a (KLive false)) p (id4 rid ++ payload)). cbn [fst snd] in *.
    split; [exact Xr | apply (okout_app [_; _]); [ok_list | exact Okr]].
  - (* EBootLost *)
    destruct (nth_error (c_boots C) a) as [[[p rid'] [|pend|]]|] eqn:Ea; try (split; [exact X | apply okout_nil]).
    pose proof (XInv_set_boot [] [] C a KDead X) as X0.
    destruct pend; [|split; [exact X0 | apply okout_nil]].
    unfold phase_of. change (c_ops (set_boot C a KDead)) with (c_ops C).
    destruct (nth_error (c_ops C) p) as [[k al rid0 ph]|] eqn:Eo; [|split; [exact X0 | apply okout_nil]]. cbn [o_phase].
    destruct ph; try (split; [exact X0 | apply okout_nil]). destruct (Nat.eqb a a0); [|split; [exact X0 | apply okout_nil]].
    assert ((p < length (c_ops C))%nat) as Lp by (apply nth_error_Some; congruence).
    assert (free [] (set_boot C a KDead) p) as Fr by (apply (free_of_phase [] [] _ p _ X0 Eo); intros; discriminate).
    destruct (boot_next_X [] [] (set_boot C a KDead) p rest X0 Lp Fr) as [Xr Okr]. destruct (boot_next (set_boot C a KDead) p rest). cbn [fst snd] in *.
    split; [exact Xr | apply (okout_app [_; _]); [ok_list | exact Okr]].
  - (* EResend *)
    destruct (c_clients C) as [cl|] eqn:Ec; [|split; [exact X | apply okout_nil]].
    destruct (nth_error (c_direct C) d) as [[i h0]|] eqn:Ed; [|split; [exact X | apply okout_nil]].
    exact (send_X C i _ expect mint T X (x_dir _ _ _ X d i h0 Ed) _ eq_refl).
Qed.

Lemma XInv_init g : XInv [] [] (init g).
Proof.
  constructor.
  - intros i n s qs h q p H. destruct i; discriminate.
  - intros i n s qs h q p H. destruct i; discriminate.
  - intros cl H. cbn in H. injection H as <-. split; [constructor | intros n i []].
  - split; [constructor | intros i []].
  - intros d i h H. destruct d; discriminate.
  - intros a p rid st H. destruct a; discriminate.
  - intros i n s qs H. destruct i; discriminate.
Qed.

(* ------------------------------------------------------------------ the statement of Props/C11.v *)
Theorem run_X g evs : Forall sized evs ->
  XInv [] [] (fst (run (init g) evs)) /\ okout (snd (run (init g) evs)).
Proof.
  induction evs as [|e evs IH] using rev_ind; intro Sz.
  - cbn. split; [apply XInv_init | apply okout_nil].
  - apply Forall_app in Sz. destruct Sz as [Sz1 Sz2]. inversion Sz2 as [|? ? Se _]; subst.
    destruct (IH Sz1) as [X Ok]. rewrite run_app. cbn [fst snd run].
    pose proof (step_X (fst (run (init g) evs)) e (reachable_wf g evs) (reachable_PB g evs) X
                       (fun Hc => proj1 (reachable_closed evs g Hc)) Se) as [X1 Ok1].
    destruct (step (fst (run (init g) evs)) e) as [C1 o1]. cbn [fst snd] in *. rewrite app_nil_r.
    split; [exact X1 | apply okout_app; assumption].
Qed.

Theorem c11_no_anomaly g evs k :
  (forall i rid pl, In (EReply i rid pl) evs -> Z.of_nat (length (id4 rid ++ pl)) <= MAX_LENGTH) ->
  In (OErr k) (snd (run (init g) evs)) -> k = 30.
Proof.
  intros Sz. assert (Forall sized evs) as F.
  { apply Forall_forall. intros e He. destruct e; try exact I. unfold sized. exact (Sz _ _ _ He). }
  exact (proj2 (run_X g evs F) k).
Qed.

(* an unresolved request made on behalf of an operation is the one that operation is waiting for (the converse of
   SInv.s_ops): exactly one request is outstanding per operation *)
Theorem c11_operation_request g evs i b h q p :
  (forall i rid pl, In (EReply i rid pl) evs -> Z.of_nat (length (id4 rid ++ pl)) <= MAX_LENGTH) ->
  nth_error (c_bcs (fst (run (init g) evs))) i = Some b -> nth_error (b_reqs b) h = Some q -> q_owner q = OfOp p ->
  ~ In h (BrokerClient.t_fired (BrokerClient.s_t (b_st b))) ->
  exists o rest, nth_error (c_ops (fst (run (init g) evs))) p = Some o /\ o_phase o = PKnown rest i h.
Proof.
  intros Sz Hb Hq Ow Nf. assert (Forall sized evs) as F.
  { apply Forall_forall. intros e He. destruct e; try exact I. unfold sized. exact (Sz _ _ _ He). }
  destruct (run_X g evs F) as [X _]. apply (x_conv _ _ _ X i _ _ _ h q p (cores_nth _ _ _ Hb) Hq Ow). left. exact Nf.
Qed.

(* self.clients points at distinct broker clients, none of which is closing *)
Theorem c11_clients_open g evs cl :
  (forall i rid pl, In (EReply i rid pl) evs -> Z.of_nat (length (id4 rid ++ pl)) <= MAX_LENGTH) ->
  c_clients (fst (run (init g) evs)) = Some cl ->
  NoDup (map snd cl) /\ forall n i, In (n, i) cl -> exists b, nth_error (c_bcs (fst (run (init g) evs))) i = Some b
                                                          /\ BrokerClient.s_down (b_st b) = BrokerClient.DNone.
Proof.
  intros Sz Hc. assert (Forall sized evs) as F.
  { apply Forall_forall. intros e He. destruct e; try exact I. unfold sized. exact (Sz _ _ _ He). }
  destruct (run_X g evs F) as [X _]. destruct (x_cl _ _ _ X cl Hc) as [N K]. split; [exact N|].
  intros n i Hi. exact (open_at_bc _ _ (proj2 (K n i Hi))).
Qed.
