(* Lemmas behind Props/C16.v: generation fencing in the consumer group (Model/Group.v). *)
From Coq Require Import Lia.
From AV Require Import Base.Util Model.Group Model.GroupObs Proofs.GroupInv Proofs.GroupInvH Proofs.GroupOut Proofs.GroupC17.

Lemma len_cnt : forall A (p : A -> bool) l, length (filter p l) = cnt p l.
Proof. reflexivity. Qed.

(* ---------- consumers only for the current generation / assignment ---------- *)
Lemma consumers_current : forall grp evs c, let s := state_after grp evs in
  In c (consumers s) -> c_gen c = generation s /\ c_mem c = member s /\ In (c_topic c, c_part c) (cur_assign s).
Proof.
  intros grp evs c s Hin. pose proof (j12 _ _ (i_core _ (reachable_Inv grp evs))) as F. fold s in F.
  rewrite Forall_forall in F. exact (F c Hin).
Qed.

(* ---------- at most one join/sync exchange; no consumer while one is in progress ---------- *)
Lemma single_join : forall grp evs, let s := state_after grp evs in
  (length (filter adv (gens s)) <= 1)%nat /\
  (stopping s = false -> (gens s = [] /\ rejoin_d s = None) \/ (exists g, gens s = [g] /\ rejoin_d s = Some (g_id g))).
Proof.
  intros grp evs s. pose proof (i_core _ (reachable_Inv grp evs)) as H. fold s in H. split.
  - pose proof (j7 _ _ H) as X. cbn [radv] in X. rewrite len_cnt. lia.
  - exact (j8 _ _ H).
Qed.

Lemma in_cnt_pos : forall A (p : A -> bool) l x, In x l -> p x = true -> (1 <= cnt p l)%nat.
Proof.
  induction l as [|y l IH]; intros x Hin Hp; [destruct Hin|]. rewrite cnt_cons. destruct Hin as [->|Hin].
  - rewrite Hp. cbn. lia.
  - specialize (IH x Hin Hp). lia.
Qed.

Lemma prepared_before_join : forall grp evs g, let s := state_after grp evs in
  In g (gens s) -> adv g = true ->
  consumers s = [] /\ (forall g', In g' (gens s) -> adv g' = true -> g' = g \/ (2 <= cnt adv (gens s))%nat).
Proof.
  intros grp evs g s Hin Ha. pose proof (i_core _ (reachable_Inv grp evs)) as H. fold s in H. split.
  - destruct (j2 _ _ H) as [X|X]; auto. pose proof (in_cnt_pos _ adv _ _ Hin Ha). cbn [radv] in X. lia.
  - intros g' Hin' Ha'. left. pose proof (j7 _ _ H) as X. cbn [radv] in X.
    (* two distinct advanced generators would count twice *)
    clear - Hin Hin' Ha Ha' X. revert Hin Hin' X. generalize (gens s). intros l. induction l as [|y l IH]; intros Hin Hin' X; [destruct Hin|].
    rewrite cnt_cons in X. destruct Hin as [->|Hin]; destruct Hin' as [->|Hin']; auto.
    + rewrite Ha in X. cbn [b2n] in X. pose proof (in_cnt_pos _ adv _ _ Hin' Ha'). lia.
    + rewrite Ha' in X. cbn [b2n] in X. pose proof (in_cnt_pos _ adv _ _ Hin Ha). lia.
    + apply IH; auto. lia.
Qed.

Lemma only_one_adv : forall grp evs g g', let s := state_after grp evs in
  In g (gens s) -> In g' (gens s) -> adv g = true -> adv g' = true -> g' = g.
Proof.
  intros grp evs g g' s Hin Hin' Ha Ha'. destruct (prepared_before_join grp evs g Hin Ha) as [_ X].
  destruct (X g' Hin' Ha') as [E|E]; auto. pose proof (j7 _ _ (i_core _ (reachable_Inv grp evs))) as Y. unfold s in *. cbn [radv] in Y. lia.
Qed.

(* ---------- once stop() has been called no partition consumer is registered (none can be started) ---------- *)
Lemma stop_no_consumers : forall grp evs, let s := state_after grp evs in
  stop_requested s = true \/ stopping s = true -> consumers s = [].
Proof. intros grp evs s. exact (j3 _ _ (i_core _ (reachable_Inv grp evs))). Qed.

Lemma nongroup_no_consumers : forall evs grp, let s := state_after grp evs in is_group s = false -> consumers s = [].
Proof. intros evs grp s. exact (j1 _ _ (i_core _ (reachable_Inv grp evs))). Qed.

(* ---------- heartbeats only while a stable member ---------- *)
Lemma heartbeat_only_stable : forall gk evs rid g m, let s := state_after gk evs in
  In (OHeartbeat rid g m) (snd (step s ETick)) ->
  stopping s = false /\ rejoin_needed s = false /\ hb_running s = true /\ hb_req s = None /\ gens s = [] /\
  g = generation s /\ m = member s /\ rid = next_rid s.
Proof.
  intros gk evs rid g m s Hin. pose proof (i_core _ (reachable_Inv gk evs)) as H. fold s in H. clearbody s.
  assert (L : stopping s = false /\ rejoin_needed s = false /\ hb_running s = true /\ hb_req s = None /\
              g = generation s /\ m = member s /\ rid = next_rid s).
  { clear - Hin. cbn [step] in Hin. unfold on_tick in Hin. destruct s as [grp mem gn ck sd ns nst rn stp sr dc0 rd hbr hbq gs ng sts tms nt nr cs nc ca esc scl td].
    destruct hbr; [|destruct Hin]. destruct stp; [cbn in Hin; intuition discriminate|].
    destruct rn; [cbn in Hin; intuition discriminate|]. destruct hbq; [cbn in Hin; intuition discriminate|].
    cbn in Hin. destruct Hin as [X|[X|[]]]; [|discriminate]. inversion X. cbn. repeat split; reflexivity. }
  destruct L as (A & B & C & D & E & F & G). repeat split; auto.
  destruct (gens s) eqn:Gs; auto. pose proof (j13 _ _ H A) as X. rewrite Gs in X.
  assert (rejoin_needed s = true) by (apply X; discriminate). congruence.
Qed.

(* ---------- eviction: consumers are stopped by the very call that learns of it ---------- *)
Definition evicting (k : ekind) : bool := match k with KIllGen | KInvGroup | KUnkMember | KTimeout => true | _ => false end.

Lemma evicted_local : forall k s, evicting k = true -> (is_group s = false -> consumers s = []) ->
  consumers (fst (rejoin_after_error k s)) = [] /\
  (forall c, In c (consumers s) -> In (OStopC (c_id c)) (snd (rejoin_after_error k s))) /\
  (k = KInvGroup \/ k = KUnkMember -> member (fst (rejoin_after_error k s)) = 0).
Proof.
  intros k s Ek NG. ds s. cbn in NG. destruct grp.
  - clear NG. destruct k; try discriminate; destruct stp; destruct dc0;
      cbv [rejoin_after_error resched schedule_rejoin new_timer on_group_leave seq emit upd fst snd set_escaped
           stopping rejoin_needed dc timers next_timer consumers is_group member set_consumers set_member
           set_rejoin_needed set_dc set_timers set_next_timer];
      (split; [reflexivity|split; [|intros; try reflexivity; destruct H; discriminate]]);
      intros c Hc; rewrite ?in_app_iff; left; apply in_map_iff; exists c; auto.
  - specialize (NG eq_refl). subst cs. destruct k; try discriminate; destruct stp; destruct dc0;
      cbv [rejoin_after_error resched schedule_rejoin new_timer on_group_leave seq emit upd fst snd set_escaped
           stopping rejoin_needed dc timers next_timer consumers is_group member set_consumers set_member
           set_rejoin_needed set_dc set_timers set_next_timer];
      (split; [reflexivity|split; [intros c []|intros; try reflexivity; destruct H; discriminate]]).
Qed.

Lemma evicted_stopped : forall gk evs k, let s := state_after gk evs in
  evicting k = true ->
  consumers (fst (rejoin_after_error k s)) = [] /\
  (forall c, In c (consumers s) -> In (OStopC (c_id c)) (snd (rejoin_after_error k s))) /\
  (k = KInvGroup \/ k = KUnkMember -> member (fst (rejoin_after_error k s)) = 0).
Proof.
  intros gk evs k s Ek. apply evicted_local; auto. exact (j1 _ _ (i_core _ (reachable_Inv gk evs))).
Qed.

(* ---------- consumers are created with the generation / member id of the sync they come from ---------- *)
Definition keeps_ids (a : act) : Prop := forall s, generation (fst (a s)) = generation s /\ member (fst (a s)) = member s.
Lemma ki_seq : forall a b, keeps_ids a -> keeps_ids b -> keeps_ids (a ;; b).
Proof. intros a b Ha Hb s. rewrite seq_fst. destruct (Hb (fst (a s))) as [A B]. destruct (Ha s) as [C D]. split; congruence. Qed.
Lemma ki_start_consumers : forall tps, keeps_ids (start_consumers tps).
Proof.
  intros tps s. destruct (start_consumers_spec tps s) as [SC _]. unfold same_core in SC. destruct SC as (_ & A & B & _).
  destruct (fst (start_consumers tps s)). ds s. cbn in *. auto.
Qed.
Lemma ki_join_complete : forall asg, keeps_ids (on_join_complete asg).
Proof.
  intros asg s. unfold on_join_complete. destruct (is_group s); [|split; reflexivity]. destruct (stop_requested s); [split; reflexivity|].
  apply ki_start_consumers.
Qed.
Lemma ki_gen_end : keeps_ids gen_end. Proof. intros s. ds s. split; reflexivity. Qed.
Lemma ki_gen_fail_nk : keeps_ids (gen_fail KNonKafka).
Proof. unfold gen_fail. cbn [is_kafka]. apply ki_seq; [apply ki_gen_end|]. intros s. ds s. split; reflexivity. Qed.
Lemma ki_reset_hb : keeps_ids reset_heartbeat_timer. Proof. intros s. rewrite reset_hb_fst. ds s. split; reflexivity. Qed.
Lemma ki_upd_ca : forall asg, keeps_ids (upd (set_cur_assign asg)). Proof. intros asg s. ds s. split; reflexivity. Qed.
Lemma ki_upd_rn : forall b, keeps_ids (upd (set_rejoin_needed b)). Proof. intros b s. ds s. split; reflexivity. Qed.

Lemma commit_identity : forall gk evs e cid t p g m, let s := state_after gk evs in
  In (OStartC cid t p g m) (snd (step s e)) ->
  exists rid asg, (e = ESync rid (SOk asg) \/ exists n, e = ESync rid (SOkRaise asg n)) /\ In (t, p) asg /\ g = generation s /\ m = member s /\
                  stopping s = false /\ stop_requested s = false /\ is_group s = true /\
                  (* and the new table entry is for the generation the member is in after the step *)
                  generation (fst (step s e)) = generation s /\ member (fst (step s e)) = member s.
Proof.
  intros gk evs e cid t p g m s H. pose proof (step_outputs s e _ H) as X. cbn in X.
  destruct X as (rid & asg & E & SP & G & I1 & I2 & I3). apply stop_pend_false in SP. destruct SP as [S1 S2].
  exists rid, asg. split; [exact E|]. repeat split; auto.
  all: clear - H E; clearbody s.
  all: assert (K : generation (fst (step s e)) = generation s /\ member (fst (step s e)) = member s);
    [|destruct K; assumption].
  all: destruct E as [->|[n ->]]; cbn [step] in *; unfold on_sync, with_gen in *;
    (destruct (take_first _ (gens s)) as [[g0 rest]|]; [|destruct H]);
    (destruct (stop_pend (set_gens rest s)); [destruct H|]);
    assert (G0 : generation (set_gens rest s) = generation s /\ member (set_gens rest s) = member s) by (ds s; split; reflexivity);
    destruct G0 as [G1 G2]; rewrite <- G1, <- G2.
  all: try (destruct (ctor_raises asg n (set_gens rest s))).
  all: repeat first [apply ki_seq | apply ki_upd_ca | apply ki_reset_hb | apply ki_upd_rn | apply ki_join_complete | apply ki_start_consumers
                    | apply ki_gen_end | apply ki_gen_fail_nk].
Qed.

(* ---------- after stop() ---------- *)
Definition group_request (o : output) : bool :=
  match o with OLookup _ | OJoin _ _ | OParts _ | OSync _ _ _ _ | OHeartbeat _ _ _ | OStartC _ _ _ _ _ => true | _ => false end.

Lemma after_stop_only_leave : forall grp evs e o, let s := state_after grp evs in
  In o (snd (step s e)) -> group_request o = true ->
  stopping s = false /\
  (is_group s = true -> stop_requested s = true -> exists rid g m, o = OHeartbeat rid g m).
Proof.
  intros grp evs e o s Hin Hg. pose proof (step_outputs s e o Hin) as X.
  pose proof (i_core _ (reachable_Inv grp evs)) as H. fold s in H.
  destruct o; try discriminate; cbn in X.
  - destruct X as (A & B & _). split.
    + destruct (stopping s) eqn:E; auto. rewrite (j11 _ _ H E) in A. discriminate.
    + intros G S. rewrite G, S in B. discriminate.
  - destruct X as (A & _). apply stop_pend_false in A. destruct A. split; auto. intros; congruence.
  - destruct X as (A & _). apply stop_pend_false in A. destruct A. split; auto. intros; congruence.
  - destruct X as (A & _). apply stop_pend_false in A. destruct A. split; auto. intros; congruence.
  - subst e. split; [|eauto]. unfold s in *. destruct (heartbeat_only_stable grp evs _ _ _ Hin) as (A & _). exact A.
  - destruct X as (rid & asg & _ & A & _). apply stop_pend_false in A. destruct A. split; auto. intros; congruence.
Qed.

Lemma join_only_when_prepared : forall grp evs e rid m, let s := state_after grp evs in
  In (OJoin rid m) (snd (step s e)) ->
  stopping s = false /\ stop_requested s = false /\ m = member s /\
  consumers (fst (step s e)) = [] /\ (length (filter adv (gens (fst (step s e)))) <= 1)%nat.
Proof.
  intros grp evs e rid m s Hin. pose proof (step_outputs s e _ Hin) as X. cbn in X. destruct X as (A & B & _).
  apply stop_pend_false in A. destruct A as [A1 A2]. repeat split; auto.
  - (* the step leaves a generator awaiting the join reply, hence no consumer is registered *)
    pose proof (i_core _ (reachable_Inv grp (evs ++ [e]))) as H. unfold state_after in H. rewrite fold_left_app in H. cbn [fold_left] in H.
    fold (state_after grp evs) in H. fold s in H.
    destruct (j2 _ _ H) as [C|C]; auto. exfalso. cbn [radv] in C.
    assert (G : exists g, In g (gens (fst (step s e))) /\ adv g = true /\ is_prep g = false).
    { clear - Hin. destruct e; cbn [step] in *.
      - destruct (start_d s); [destruct Hin as [X|[]]; discriminate|]. match type of Hin with context [join_and_sync ?x] => pose proof (join_and_sync_out x (OJoin rid m)) as J; destruct (join_and_sync x) end.
        cbn [snd] in *. apply in_app_or in Hin. destruct Hin as [Hin|[X|[]]]; [|discriminate]. destruct (J Hin) as (? & X & _). discriminate.
      - exfalso. match type of Hin with context [do_stop ?a ?b ?x] => pose proof (q_do_stop a b x) as J; destruct (do_stop a b x) end.
        cbn [snd] in *. unfold Q in J. rewrite Forall_forall in J.
        apply in_app_or in Hin. destruct Hin as [Hin|Hin]; [apply filter_In in Hin; destruct Hin as [Hin _]; specialize (J _ Hin); discriminate|].
        apply in_app_or in Hin. destruct Hin as [[X|[]]|Hin]; [discriminate|apply filter_In in Hin; destruct Hin as [Hin _]; specialize (J _ Hin); discriminate].
      - exfalso. pose proof (on_lookup_out _ _ _ _ Hin) as X. cbn in X. destruct X as (_ & _ & [(? & X)|(? & ? & X)]); discriminate.
      - unfold on_meta, with_gen in *. destruct (take_first _ (gens s)) as [[g0 rest]|]; [|destruct Hin].
        destruct r; [|exfalso; pose proof (q_gen_fail k (set_gens rest s)) as J; unfold Q in J; rewrite Forall_forall in J; specialize (J _ Hin); discriminate].
        destruct (stop_pend (set_gens rest s)); [destruct Hin|]. unfold prepare_and_join in *.
        destruct (is_group _).
        + destruct (consumers _).
          * eexists. split; [left; reflexivity|split; reflexivity].
          * exfalso. unfold begin_shutdown in Hin. cbn [snd] in Hin. apply in_map_iff in Hin. destruct Hin as (? & X & _). discriminate.
        + eexists. split; [left; reflexivity|split; reflexivity].
      - exfalso. pose proof (on_join_out _ _ _ _ Hin) as X. cbn in X. destruct X as (_ & _ & [(? & X)|(? & ? & X)]); discriminate.
      - exfalso. pose proof (on_parts_out _ _ _ _ Hin) as X. cbn in X. destruct X as (_ & _ & [(? & X)|(? & ? & X)]); discriminate.
      - exfalso. pose proof (on_sync_out _ _ _ _ Hin) as X. cbn in X. destruct X as (_ & _ & [(? & X)|(? & ? & X)]); discriminate.
      - exfalso. pose proof (on_tick_out _ _ Hin) as X. cbn in X. destruct X as (_ & _ & [(? & X)|(? & ? & X)]); discriminate.
      - exfalso. pose proof (on_hb_reply_out _ _ _ _ Hin) as X. cbn in X. destruct X as (_ & _ & [(? & X)|(? & ? & X)]); discriminate.
      - exfalso. pose proof (on_fire_out _ _ _ Hin) as X. cbn in X. destruct X as (_ & _ & [(? & X)|(? & ? & X)]); discriminate.
      - exfalso. pose proof (on_leave_out _ _ _ _ Hin) as X. cbn in X. destruct X as (_ & _ & [(? & X)|(? & ? & X)]); discriminate.
      - exfalso. pose proof (on_cfail_out _ _ _ _ Hin) as X. cbn in X. destruct X as (_ & _ & [(? & X)|(? & ? & X)]); discriminate.
      - unfold on_cshut in *. destruct (take_first (fun g => sh_has cid (gen_list g)) (gens s)) as [[g0 rest]|].
        + assert (J : forall l, In (OJoin rid m) (snd (after_prepare (g_id g0) (set_gens rest s))) \/ In (OJoin rid m) l -> Q l ->
                    exists g, In g (gens (fst (after_prepare (g_id g0) (set_gens rest s)))) /\ adv g = true /\ is_prep g = false).
          { intros l [X|X] Ql; [|unfold Q in Ql; rewrite Forall_forall in Ql; specialize (Ql _ X); discriminate].
            unfold after_prepare in *. destruct (stop_pend _); [destruct X|]. eexists. split; [left; reflexivity|split; reflexivity]. }
          destruct ok.
          * destruct (sh_all_done _); [apply (J []); [left; exact Hin|apply Q_nil]|destruct Hin].
          * rewrite emits_fst. apply emits_out in Hin. eapply J; [destruct Hin as [X|X]; [right; exact X|left; exact X]|apply Q_stop_pending].
        + exfalso. destruct (take_first (fun st => sh_has cid (stop_list st)) (stops s)) as [[st rest]|]; [|destruct Hin].
          destruct ok.
          * destruct (sh_all_done _); [|destruct Hin]. pose proof (q_coord_stop st (set_stops rest s)) as J. unfold Q in J; rewrite Forall_forall in J; specialize (J _ Hin); discriminate.
          * apply emits_out in Hin. destruct Hin as [X|X].
            -- pose proof (Q_stop_pending (sh_mark_done cid (stop_list st))) as J. unfold Q in J; rewrite Forall_forall in J; specialize (J _ X); discriminate.
            -- pose proof (q_coord_stop st (set_stops rest s)) as J. unfold Q in J; rewrite Forall_forall in J; specialize (J _ X); discriminate. }
    destruct G as (g & G1 & G2 & _). pose proof (in_cnt_pos _ adv _ _ G1 G2). lia.
  - pose proof (i_core _ (reachable_Inv grp (evs ++ [e]))) as H. unfold state_after in H. rewrite fold_left_app in H. cbn [fold_left] in H.
    fold (state_after grp evs) in H. fold s in H. pose proof (j7 _ _ H) as X. cbn [radv] in X. rewrite len_cnt. lia.
Qed.

Lemma prepare_before_join_state : forall grp evs g, let s := state_after grp evs in
  In g (gens s) -> adv g = true -> consumers s = [].
Proof. intros grp evs g s H1 H2. exact (proj1 (prepared_before_join grp evs g H1 H2)). Qed.

Lemma heartbeat_only_stable_step : forall grp evs e rid g m, let s := state_after grp evs in
  In (OHeartbeat rid g m) (snd (step s e)) ->
  e = ETick /\ stopping s = false /\ rejoin_needed s = false /\ hb_running s = true /\ hb_req s = None /\ gens s = [] /\
  g = generation s /\ m = member s.
Proof.
  intros grp evs e rid g m s H. assert (E : e = ETick) by exact (step_outputs s e _ H). subst e.
  destruct (heartbeat_only_stable grp evs rid g m H) as (A & B & C & D & E & F & G & _). repeat split; auto.
Qed.


(* ---------- no consumer of the previous generation is running - registered OR still shutting down - when JoinGroup goes out ---------- *)
Lemma flat_map_nil : forall A B (f : A -> list B) l, (forall x, In x l -> f x = []) -> flat_map f l = [].
Proof. induction l as [|x l IH]; intros H; cbn; auto. rewrite (H x (or_introl eq_refl)), IH; auto. intros; apply H; right; auto. Qed.

Lemma no_live_while_joining : forall grp evs g, let s := state_after grp evs in
  In g (gens s) -> adv g = true -> is_prep g = false -> live_cids s = [].
Proof.
  intros grp evs g s Hin Ha Hp. pose proof (i_core _ (reachable_Inv grp evs)) as H. fold s in H.
  pose proof (proj1 (prepared_before_join grp evs g Hin Ha)) as C0. fold s in C0.
  unfold live_cids, shutting. rewrite C0. cbn [map app].
  rewrite !flat_map_nil; auto.
  - intros st Hst. assert (C : cnt has_s1 (stops s) = 0%nat).
    { destruct (j14 _ _ H) as [X|X]; auto. pose proof (in_cnt_pos _ adv _ _ Hin Ha). cbn [radv] in X. lia. }
    pose proof (cnt_zero_in _ _ _ _ C Hst) as Z. destruct st as [i e ph]. destruct ph; [discriminate|reflexivity].
  - intros g' Hg'. destruct g' as [i ph] eqn:E. destruct ph; try reflexivity.
    assert (X : g' = g). { apply (only_one_adv grp evs g g'); subst; auto. } subst g'. rewrite <- X in Hp. discriminate.
Qed.

Lemma no_live_at_join : forall grp evs e rid m, let s := state_after grp evs in
  In (OJoin rid m) (snd (step s e)) -> live_cids (fst (step s e)) = [].
Proof.
  intros grp evs e rid m s Hin.
  assert (G : exists g, In g (gens (fst (step s e))) /\ adv g = true /\ is_prep g = false).
  { clear - Hin. destruct e; cbn [step] in *.
    - destruct (start_d s); [destruct Hin as [X|[]]; discriminate|]. match type of Hin with context [join_and_sync ?x] => pose proof (join_and_sync_out x (OJoin rid m)) as J; destruct (join_and_sync x) end.
      cbn [snd] in *. apply in_app_or in Hin. destruct Hin as [Hin|[X|[]]]; [|discriminate]. destruct (J Hin) as (? & X & _). discriminate.
    - exfalso. match type of Hin with context [do_stop ?a ?b ?x] => pose proof (q_do_stop a b x) as J; destruct (do_stop a b x) end.
      cbn [snd] in *. unfold Q in J. rewrite Forall_forall in J.
      apply in_app_or in Hin. destruct Hin as [Hin|Hin]; [apply filter_In in Hin; destruct Hin as [Hin _]; specialize (J _ Hin); discriminate|].
      apply in_app_or in Hin. destruct Hin as [[X|[]]|Hin]; [discriminate|apply filter_In in Hin; destruct Hin as [Hin _]; specialize (J _ Hin); discriminate].
    - exfalso. pose proof (on_lookup_out _ _ _ _ Hin) as X. cbn in X. destruct X as (_ & _ & [(? & X)|(? & ? & X)]); discriminate.
    - unfold on_meta, with_gen in *. destruct (take_first _ (gens s)) as [[g0 rest]|]; [|destruct Hin].
      destruct r; [|exfalso; pose proof (q_gen_fail k (set_gens rest s)) as J; unfold Q in J; rewrite Forall_forall in J; specialize (J _ Hin); discriminate].
      destruct (stop_pend (set_gens rest s)); [destruct Hin|]. unfold prepare_and_join in *.
      destruct (is_group _).
      + destruct (consumers _).
        * eexists. split; [left; reflexivity|split; reflexivity].
        * exfalso. unfold begin_shutdown in Hin. cbn [snd] in Hin. apply in_map_iff in Hin. destruct Hin as (? & X & _). discriminate.
      + eexists. split; [left; reflexivity|split; reflexivity].
    - exfalso. pose proof (on_join_out _ _ _ _ Hin) as X. cbn in X. destruct X as (_ & _ & [(? & X)|(? & ? & X)]); discriminate.
    - exfalso. pose proof (on_parts_out _ _ _ _ Hin) as X. cbn in X. destruct X as (_ & _ & [(? & X)|(? & ? & X)]); discriminate.
    - exfalso. pose proof (on_sync_out _ _ _ _ Hin) as X. cbn in X. destruct X as (_ & _ & [(? & X)|(? & ? & X)]); discriminate.
    - exfalso. pose proof (on_tick_out _ _ Hin) as X. cbn in X. destruct X as (_ & _ & [(? & X)|(? & ? & X)]); discriminate.
    - exfalso. pose proof (on_hb_reply_out _ _ _ _ Hin) as X. cbn in X. destruct X as (_ & _ & [(? & X)|(? & ? & X)]); discriminate.
    - exfalso. pose proof (on_fire_out _ _ _ Hin) as X. cbn in X. destruct X as (_ & _ & [(? & X)|(? & ? & X)]); discriminate.
    - exfalso. pose proof (on_leave_out _ _ _ _ Hin) as X. cbn in X. destruct X as (_ & _ & [(? & X)|(? & ? & X)]); discriminate.
    - exfalso. pose proof (on_cfail_out _ _ _ _ Hin) as X. cbn in X. destruct X as (_ & _ & [(? & X)|(? & ? & X)]); discriminate.
    - unfold on_cshut in *. destruct (take_first (fun g => sh_has cid (gen_list g)) (gens s)) as [[g0 rest]|].
      + assert (J : forall l, In (OJoin rid m) (snd (after_prepare (g_id g0) (set_gens rest s))) \/ In (OJoin rid m) l -> Q l ->
                  exists g, In g (gens (fst (after_prepare (g_id g0) (set_gens rest s)))) /\ adv g = true /\ is_prep g = false).
        { intros l [X|X] Ql; [|unfold Q in Ql; rewrite Forall_forall in Ql; specialize (Ql _ X); discriminate].
          unfold after_prepare in *. destruct (stop_pend _); [destruct X|]. eexists. split; [left; reflexivity|split; reflexivity]. }
        destruct ok.
        * destruct (sh_all_done _); [apply (J []); [left; exact Hin|apply Q_nil]|destruct Hin].
        * rewrite emits_fst. apply emits_out in Hin. eapply J; [destruct Hin as [X|X]; [right; exact X|left; exact X]|apply Q_stop_pending].
      + exfalso. destruct (take_first (fun st => sh_has cid (stop_list st)) (stops s)) as [[st rest]|]; [|destruct Hin].
        destruct ok.
        * destruct (sh_all_done _); [|destruct Hin]. pose proof (q_coord_stop st (set_stops rest s)) as J. unfold Q in J; rewrite Forall_forall in J; specialize (J _ Hin); discriminate.
        * apply emits_out in Hin. destruct Hin as [X|X].
          -- pose proof (Q_stop_pending (sh_mark_done cid (stop_list st))) as J. unfold Q in J; rewrite Forall_forall in J; specialize (J _ X); discriminate.
          -- pose proof (q_coord_stop st (set_stops rest s)) as J. unfold Q in J; rewrite Forall_forall in J; specialize (J _ X); discriminate. }
  destruct G as (g & G1 & G2 & G3).
  pose proof (no_live_while_joining grp (evs ++ [e]) g) as X. unfold state_after in X. rewrite fold_left_app in X. cbn [fold_left] in X.
  fold (state_after grp evs) in X. fold s in X. exact (X G1 G2 G3).
Qed.


(* ---------- eviction, step level: the reply that carries the error stops every registered consumer in that very step ---------- *)
Inductive delivers_evicting (s : state) : event -> ekind -> Prop :=
| de_join : forall rid k g rest, take_first (awaits (GJoin rid)) (gens s) = Some (g, rest) -> delivers_evicting s (EJoin rid (JFail k)) k
| de_sync : forall rid k g rest, take_first (awaits (GSync rid)) (gens s) = Some (g, rest) -> delivers_evicting s (ESync rid (SFail k)) k
| de_hb : forall rid k, hb_req s = Some rid -> hb_running s = true -> delivers_evicting s (EHbReply rid (RFail k)) k
| de_cfail : forall cid k, can_fail cid s = true -> delivers_evicting s (ECFail cid k) k
| de_meta : forall rid k g rest, take_first (awaits (GMeta rid)) (gens s) = Some (g, rest) -> delivers_evicting s (EMeta rid (RFail k)) k
| de_parts : forall rid k g rest, take_first (awaits (GParts rid)) (gens s) = Some (g, rest) -> delivers_evicting s (EParts rid (PFail k)) k.

Lemma map_cid_fail : forall cid l c, In c l -> In (c_fail cid c) (map (c_fail cid) l) /\ c_id (c_fail cid c) = c_id c.
Proof. intros cid l c H. split; [apply in_map; auto|]. unfold c_fail. destruct (c_id c =? cid); reflexivity. Qed.

Lemma evicted_step : forall grp evs e k, let s := state_after grp evs in
  delivers_evicting s e k -> evicting k = true ->
  consumers (fst (step s e)) = [] /\ (forall c, In c (consumers s) -> In (OStopC (c_id c)) (snd (step s e))).
Proof.
  intros grp evs e k s D Ek. pose proof (j1 _ _ (i_core _ (reachable_Inv grp evs))) as NG. fold s in NG. clearbody s.
  destruct D as [rid k g rest T|rid k g rest T|rid k Hq Hr|cid k CF|rid k g rest T|rid k g rest T].
  - rewrite (join_fail_step _ _ _ _ _ T). cbn [fst snd].
    destruct (evicted_local k (set_gens rest s) Ek) as (A & B & _); [destruct s; exact NG|].
    split; [destruct (fst (rejoin_after_error k (set_gens rest s))); exact A|]. intros c Hc. apply B. destruct s; exact Hc.
  - rewrite (sync_fail_step _ _ _ _ _ T). cbn [fst snd].
    destruct (evicted_local k (set_gens rest s) Ek) as (A & B & _); [destruct s; exact NG|].
    split; [destruct (fst (rejoin_after_error k (set_gens rest s))); exact A|]. intros c Hc. apply B. destruct s; exact Hc.
  - rewrite (hb_fail_step _ _ _ Hq Hr). cbn [fst snd].
    destruct (evicted_local k (set_hb_running false (set_hb_req None s)) Ek) as (A & B & _); [destruct s; exact NG|].
    split; [exact A|]. intros c Hc. right. apply B. destruct s; exact Hc.
  - cbn [step]. unfold on_cfail. rewrite CF.
    set (s1 := set_stops _ (set_gens _ (set_consumers (map (c_fail cid) (consumers s)) s))).
    assert (C1 : consumers s1 = map (c_fail cid) (consumers s)) by (subst s1; destruct s; reflexivity).
    assert (G1 : is_group s1 = is_group s) by (subst s1; destruct s; reflexivity).
    destruct (evicted_local k s1 Ek) as (A & B & _).
    { rewrite G1, C1. intros X. rewrite (NG X). reflexivity. }
    assert (R : consumers (fst (rejoin_after_error k s1)) = [] /\
                (forall c, In c (consumers s) -> In (OStopC (c_id c)) (snd (rejoin_after_error k s1)))).
    { split; [exact A|]. intros c Hc. destruct (map_cid_fail cid _ _ Hc) as [X Y]. rewrite <- Y. apply B. rewrite C1. exact X. }
    clearbody s1. destruct k; try discriminate; exact R.
  - assert (K : is_kafka k = true) by (destruct k; try discriminate; reflexivity).
    rewrite (meta_fail_step _ _ _ _ _ T K).
    destruct (evicted_local k (set_rejoin_d None (set_gens rest s)) Ek) as (A & B & _); [destruct s; exact NG|].
    split; [exact A|]. intros c Hc. apply B. destruct s; exact Hc.
  - assert (K : is_kafka k = true) by (destruct k; try discriminate; reflexivity).
    rewrite (parts_fail_step _ _ _ _ _ T K).
    destruct (evicted_local k (set_rejoin_d None (set_gens rest s)) Ek) as (A & B & _); [destruct s; exact NG|].
    split; [exact A|]. intros c Hc. apply B. destruct s; exact Hc.
Qed.

(* ---------- "starting from the group's committed position" ---------- *)
Lemma start_committed : forall o, hd 0 (enc_out o) = 10 -> nth 6 (enc_out o) 0 = 1 /\ length (enc_out o) = 7%nat.
Proof. intros o. destruct o; cbn; intros H; try discriminate; auto. Qed.

(* ---------- "shut down - committing its progress": the join's prepare uses shutdown(), never stop() ---------- *)
Lemma prepare_shuts_down : forall s rid g rest, take_first (awaits (GMeta rid)) (gens s) = Some (g, rest) -> stop_pend s = false ->
  is_group s = true -> consumers s <> [] ->
  snd (step s (EMeta rid ROk)) = map (fun c => OShutC (c_id c)) (consumers s) /\
  consumers (fst (step s (EMeta rid ROk))) = [] /\
  gens (fst (step s (EMeta rid ROk))) = mkGen (g_id g) (GPrepare (map (fun c => mkSh c false) (consumers s))) :: rest.
Proof.
  intros s rid g rest T SP G C. cbn [step]. unfold on_meta, with_gen. rewrite T.
  replace (stop_pend (set_gens rest s)) with false by (rewrite stop_pend_set_gens; auto).
  unfold prepare_and_join, begin_shutdown, add_gen. ds s. cbn in G, C. subst. destruct cs as [|c cs']; [congruence|]. cbn. auto.
Qed.

Lemma graceful_shutdown_completes : forall s gid l rest cid, gens s = mkGen gid (GPrepare l) :: rest -> sh_has cid l = true ->
  let o := snd (step s (ECShut cid true)) in
  (forall x, In x o -> exists rid m, x = OJoin rid m) /\ (o <> [] -> sh_all_done (sh_mark_done cid l) = true /\ stop_pend s = false).
Proof.
  intros s gid l rest cid G Hh. cbn [step]. unfold on_cshut. rewrite G. cbn [take_first gen_list g_ph]. rewrite Hh. cbn [gen_list g_ph g_id].
  destruct (sh_all_done (sh_mark_done cid l)) eqn:AD; cbv zeta; cbn [snd].
  - unfold after_prepare. rewrite stop_pend_set_gens. destruct (stop_pend s) eqn:SP; cbn [snd].
    + split; [intros x []|intros X; exfalso; apply X; reflexivity].
    + split; [|auto]. intros x H. apply send_join_out in H. eauto.
  - split; [intros x []|intros X; exfalso; apply X; reflexivity].
Qed.

(* ---------- a timed-out COORDINATOR LOOKUP is not an eviction: nothing is stopped, the lookup is retried; the consumers are shut
   down gracefully by the prepare of the join that eventually follows ---------- *)
Lemma lookup_timeout_keeps_consumers : forall s rid g rest k, take_first (awaits (GLookup rid)) (gens s) = Some (g, rest) -> is_kafka k = true ->
  consumers (fst (step s (ELookup rid (LFail k)))) = consumers s /\
  snd (step s (ELookup rid (LFail k))) = [OSched TCoordRetry (lookup_delay (LFail k)) (next_timer s)].
Proof.
  intros s rid g rest k T K. split.
  - cbn [step]. unfold on_lookup, with_gen. rewrite T. destruct k; try discriminate;
      rewrite seq_fst; unfold coord_retry, new_timer, gen_end, upd; ds s; reflexivity.
  - destruct (lookup_failure_retried s rid (LFail k) g rest T K) as [A _]. exact A.
Qed.
