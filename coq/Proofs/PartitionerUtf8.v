(* The UTF-8 ENCODER of the model (Partitioner.utf8, standing for CPython's str.encode("UTF-8") / bytearray(key,
   "UTF-8")) against the RFC 3629 DECODER Partitioner.utf8_decode, and the partition id on the list [0..n-1]. *)
From AV Require Import Base.Util Model.Murmur Model.Partitioner Proofs.MurmurJava Proofs.PartitionerFacts.
From Coq Require Import Lia ZifyBool.
Ltac Zify.zify_post_hook ::= Z.to_euclidean_division_equations.

Ltac split_ifs :=
  repeat match goal with
  | |- context [if ?b then _ else _] => let E := fresh "E" in destruct b eqn:E; try (exfalso; lia)
  end.

Lemma some_inj {A} (x y : A) : Some x = Some y -> x = y.
Proof. intro H. injection H as H. exact H. Qed.

Lemma decode1 b0 r : 0 <= b0 < 0x80 -> utf8_decode (b0 :: r) = option_map (cons b0) (utf8_decode r).
Proof. intro H. cbn [utf8_decode]. split_ifs. reflexivity. Qed.
Lemma decode2 b0 b1 r : 0xC2 <= b0 <= 0xDF -> 0x80 <= b1 <= 0xBF ->
  utf8_decode (b0 :: b1 :: r) = option_map (cons ((b0 - 0xC0) * 64 + (b1 - 0x80))) (utf8_decode r).
Proof. intros H0 H1. cbn [utf8_decode]. unfold is_cont. split_ifs. reflexivity. Qed.
Lemma decode3 b0 b1 b2 r c : 0xE0 <= b0 <= 0xEF -> 0x80 <= b1 <= 0xBF -> 0x80 <= b2 <= 0xBF ->
  c = (b0 - 0xE0) * 4096 + (b1 - 0x80) * 64 + (b2 - 0x80) -> 0x800 <= c -> is_scalar c = true ->
  utf8_decode (b0 :: b1 :: b2 :: r) = option_map (cons c) (utf8_decode r).
Proof. intros H0 H1 H2 -> Hc Hs. cbn [utf8_decode]. cbv zeta. rewrite Hs. unfold is_cont. split_ifs. reflexivity. Qed.
Lemma decode4 b0 b1 b2 b3 r c : 0xF0 <= b0 <= 0xF4 -> 0x80 <= b1 <= 0xBF -> 0x80 <= b2 <= 0xBF -> 0x80 <= b3 <= 0xBF ->
  c = (b0 - 0xF0) * 262144 + (b1 - 0x80) * 4096 + (b2 - 0x80) * 64 + (b3 - 0x80) -> 0x10000 <= c -> is_scalar c = true ->
  utf8_decode (b0 :: b1 :: b2 :: b3 :: r) = option_map (cons c) (utf8_decode r).
Proof. intros H0 H1 H2 H3 -> Hc Hs. cbn [utf8_decode]. cbv zeta. rewrite Hs. unfold is_cont. split_ifs. reflexivity. Qed.

Lemma utf8_cp_decode c bs rest : utf8_cp c = Some bs ->
  utf8_decode (bs ++ rest) = option_map (cons c) (utf8_decode rest).
Proof.
  unfold utf8_cp. intro H.
  destruct (c <? 0) eqn:E0; [discriminate|].
  destruct (c <? 128) eqn:E1.
  { apply some_inj in H; subst bs. apply decode1. lia. }
  destruct (c <? 2048) eqn:E2.
  { apply some_inj in H; subst bs. change ([?x; ?y] ++ rest) with (x :: y :: rest).
    rewrite decode2 by lia. do 2 f_equal. lia. }
  destruct ((c <? 55296) || (57343 <? c) && (c <? 65536)) eqn:E3.
  { apply some_inj in H; subst bs. apply decode3; try lia. unfold is_scalar. lia. }
  destruct (c <? 65536) eqn:E4; [discriminate|].
  destruct (c <? 1114112) eqn:E5; [|discriminate].
  apply some_inj in H; subst bs. apply decode4; try lia. unfold is_scalar. lia.
Qed.

Lemma utf8_roundtrip : forall cps key, utf8 cps = Some key -> utf8_decode key = Some cps.
Proof.
  induction cps as [|c r IH]; intros key H; cbn [utf8] in H.
  - injection H as <-. reflexivity.
  - destruct (utf8_cp c) as [a|] eqn:Ec; [|discriminate]. destruct (utf8 r) as [b|] eqn:Er; [|discriminate].
    injection H as <-. rewrite (utf8_cp_decode c a b Ec), (IH b eq_refl). reflexivity.
Qed.

Lemma utf8_cp_defined c : (exists bs, utf8_cp c = Some bs) <-> is_scalar c = true.
Proof.
  unfold utf8_cp, is_scalar. split.
  - intros [bs H].
    repeat match type of H with context [if ?b then _ else _] => let E := fresh "E" in destruct b eqn:E end;
      try discriminate; lia.
  - intro H. split_ifs; try (eexists; reflexivity); lia.
Qed.

Lemma utf8_defined : forall cps, (exists key, utf8 cps = Some key) <-> forallb is_scalar cps = true.
Proof.
  induction cps as [|c r IH]; cbn [utf8 forallb].
  - split; [reflexivity | intros _; eexists; reflexivity].
  - rewrite andb_true_iff, <- IH, <- utf8_cp_defined. split.
    + intros [key H]. destruct (utf8_cp c) as [a|]; [|discriminate]. destruct (utf8 r) as [b|]; [|discriminate].
      split; eexists; reflexivity.
    + intros [[a Ha] [b Hb]]. rewrite Ha, Hb. eexists; reflexivity.
Qed.

Lemma utf8_cp_bytes c bs : utf8_cp c = Some bs -> bytes_ok bs = true.
Proof.
  unfold utf8_cp. intro H.
  repeat match type of H with context [if ?b then _ else _] => let E := fresh "E" in destruct b eqn:E end;
    try discriminate; apply some_inj in H; subst bs; unfold bytes_ok, is_byte; cbn [forallb]; lia.
Qed.

Lemma bytes_ok_app a b : bytes_ok a = true -> bytes_ok b = true -> bytes_ok (a ++ b) = true.
Proof. unfold bytes_ok. rewrite forallb_app. intros -> ->. reflexivity. Qed.

Lemma utf8_bytes : forall cps key, utf8 cps = Some key -> bytes_ok key = true.
Proof.
  induction cps as [|c r IH]; intros key H; cbn [utf8] in H.
  - injection H as <-. reflexivity.
  - destruct (utf8_cp c) as [a|] eqn:Ec; [|discriminate]. destruct (utf8 r) as [b|] eqn:Er; [|discriminate].
    injection H as <-. apply bytes_ok_app; [exact (utf8_cp_bytes c a Ec) | exact (IH b eq_refl)].
Qed.

(* text keys: hashed as the byte string that RFC 3629 decodes back to the text *)
Lemma text_utf8_spec cps key parts : utf8 cps = Some key ->
  utf8_decode key = Some cps /\ bytes_ok key = true /\ hashed_partition_text cps parts = hashed_partition key parts.
Proof.
  intro H. split; [exact (utf8_roundtrip cps key H)|]. split; [exact (utf8_bytes cps key H)|].
  unfold hashed_partition_text. rewrite H. reflexivity.
Qed.

(* ---- the partition ID on the list [0; 1; ...; n-1] is the Java client's ---- *)
Lemma nth_error_iota (n i : nat) : (i < n)%nat -> nth_error (map Z.of_nat (seq 0 n)) i = Some (Z.of_nat i).
Proof.
  intro H. rewrite nth_error_map. rewrite (nth_error_nth' (seq 0 n) 0%nat) by (rewrite seq_length; exact H).
  rewrite seq_nth by exact H. reflexivity.
Qed.

Lemma partition_java_ids key (n : nat) : bytes_ok key = true -> (0 < n)%nat ->
  hashed_partition key (map Z.of_nat (seq 0 n)) = Some (java_partition (map sbyte key) (Z.of_nat n)).
Proof.
  intros Hb Hn. unfold hashed_partition.
  destruct (map Z.of_nat (seq 0 n)) as [|a r] eqn:E.
  { apply (f_equal (@length Z)) in E. rewrite map_length, seq_length in E. cbn in E. lia. }
  rewrite <- E. rewrite map_length, seq_length.
  pose proof (hashed_index_range key (Z.of_nat n) ltac:(lia)) as [H0 H1].
  rewrite nth_error_iota by lia. rewrite Z2Nat.id by lia.
  rewrite (partition_java_agree key (Z.of_nat n) Hb). reflexivity.
Qed.

Lemma text_partition_java_ids cps key (n : nat) : utf8 cps = Some key -> (0 < n)%nat ->
  hashed_partition_text cps (map Z.of_nat (seq 0 n)) = Some (java_partition (map sbyte key) (Z.of_nat n)).
Proof.
  intros H Hn. destruct (text_utf8_spec cps key (map Z.of_nat (seq 0 n)) H) as (_ & Hb & ->).
  apply partition_java_ids; assumption.
Qed.

(* java_partition is what Java computes: toPositive is non-negative, so Java's % (truncating) is the mathematical mod *)
Lemma java_partition_range data n : 0 < n -> 0 <= java_partition data n < n.
Proof. intro H. unfold java_partition. apply Z.mod_pos_bound. exact H. Qed.
Lemma java_topositive_nonneg data : 0 <= Z.land (murmur2_java data) 0x7FFFFFFF < 0x80000000.
Proof.
  change 0x7FFFFFFF with (Z.ones 31). rewrite Z.land_ones by lia. change 0x80000000 with (2 ^ 31).
  apply Z.mod_pos_bound. lia.
Qed.
Lemma java_partition_is_rem data n : 0 < n ->
  java_partition data n = Z.rem (Z.land (murmur2_java data) 0x7FFFFFFF) n.
Proof.
  intro H. unfold java_partition. pose proof (java_topositive_nonneg data) as [H0 _].
  rewrite Z.rem_mod_nonneg by lia. reflexivity.
Qed.
Lemma java_partition_java_rem data n : 0 < n ->
  java_partition data n = Z.rem (Z.land (murmur2_java data) 0x7FFFFFFF) n /\ 0 <= java_partition data n < n.
Proof. intro H. split; [exact (java_partition_is_rem data n H) | exact (java_partition_range data n H)]. Qed.
