(* Base invariant of the client request layer (Model/ClientReq.v): every broker client inside the client is an M7
   machine in a state satisfying M7's invariant, its list of request closures is aligned with M7's Deferred log, and
   a request's DelayedCall is armed exactly while its Deferred has not fired.

   Names of M7 (Model/BrokerClient.v) are written qualified (BrokerClient.step ..); unqualified step / run / init /
   OConnect .. are those of Model/ClientReq.v. *)
From AV Require Import Base.Util Proofs.UtilFacts Model.Framing
  Proofs.BrokerClientTbl Proofs.BrokerClientInv Proofs.BrokerClientC06.
From AV Require Model.BrokerClient.
From AV Require Import Model.ClientReq.
From Coq Require Import Lia.

(* ------------------------------------------------------------------ nth_upd *)
Lemma nth_upd_length {A} (f : A -> A) : forall l n, length (nth_upd l n f) = length l.
Proof. induction l as [|x l IH]; intros [|n]; cbn; auto. Qed.

Lemma nth_upd_same {A} (f : A -> A) : forall l n x, nth_error l n = Some x -> nth_error (nth_upd l n f) n = Some (f x).
Proof. induction l as [|y l IH]; intros [|n] x H; cbn in *; try discriminate; [congruence | auto]. Qed.

Lemma nth_upd_other {A} (f : A -> A) : forall l n m, n <> m -> nth_error (nth_upd l n f) m = nth_error l m.
Proof. induction l as [|y l IH]; intros [|n] [|m] H; cbn; auto; congruence. Qed.

Lemma nth_upd_none {A} (f : A -> A) : forall l n, nth_error l n = None -> nth_upd l n f = l.
Proof. induction l as [|y l IH]; intros [|n] H; cbn in *; try discriminate; auto. f_equal. auto. Qed.

Lemma nth_upd_inv {A} (f : A -> A) l n m y : nth_error (nth_upd l n f) m = Some y ->
  (n = m /\ exists x, nth_error l m = Some x /\ y = f x) \/ (n <> m /\ nth_error l m = Some y).
Proof.
  intro H. destruct (Nat.eq_dec n m) as [->|N].
  - left. split; [reflexivity|]. destruct (nth_error l m) as [x|] eqn:E.
    + rewrite (nth_upd_same f l m x E) in H. exists x. split; congruence.
    + rewrite (nth_upd_none f l m E) in H. congruence.
  - right. rewrite nth_upd_other in H by exact N. auto.
Qed.

Lemma nth_error_app_l {A} (l x : list A) n y : nth_error l n = Some y -> nth_error (l ++ x) n = Some y.
Proof. intro H. rewrite nth_error_app1; [exact H | apply nth_error_Some; congruence]. Qed.

Lemma nth_error_snoc {A} (l : list A) y : nth_error (l ++ [y]) (length l) = Some y.
Proof. rewrite nth_error_app2 by lia. rewrite Nat.sub_diag. reflexivity. Qed.

Lemma nth_error_snoc_inv {A} (l : list A) y n z : nth_error (l ++ [y]) n = Some z ->
  nth_error l n = Some z \/ (n = length l /\ z = y).
Proof.
  intro H. destruct (Nat.lt_ge_cases n (length l)) as [L|G].
  - left. rewrite nth_error_app1 in H by exact L. exact H.
  - right. rewrite nth_error_app2 in H by exact G. destruct (n - length l)%nat as [|k] eqn:E.
    + cbn in H. split; [lia | congruence].
    + cbn in H. destruct k; discriminate.
Qed.

(* ------------------------------------------------------------------ the per-broker-client invariant *)
Definition sfired (s : BrokerClient.state) (h : nat) : Prop := In h (BrokerClient.t_fired (BrokerClient.s_t s)).
Definition sdlog (s : BrokerClient.state) : list Z := BrokerClient.t_dlog (BrokerClient.s_t s).

(* [pend]: Deferreds (broker client, handle) that M7 has already fired in the current reactor turn but whose callback
   chain (_mrtb_cb and what follows) the client model has not run yet *)
Definition bc_wf (tm : list timer_of) (pend : list (nat * nat)) (i : nat) (s : BrokerClient.state) (qs : list creq) : Prop :=
  CInv s
  /\ length qs = length (sdlog s)
  /\ (forall h q t, nth_error qs h = Some q -> q_timer q = Some t ->
        nth_error tm t = Some (TReq i h) /\ (~ sfired s h \/ In (i, h) pend))
  /\ (forall h q, nth_error qs h = Some q -> ~ sfired s h -> q_timer q <> None)
  /\ (forall h, In (i, h) pend -> sfired s h).

(* the part of a broker client entry the invariant speaks about *)
Definition bcore (b : bcent) := (b_node b, b_st b, b_reqs b).
Definition cores (C : cstate) := map bcore (c_bcs C).

Definition TInvC (pend : list (nat * nat)) (C : cstate) : Prop :=
  (forall i h, In (i, h) pend -> (i < length (cores C))%nat)
  /\ forall i n s qs, nth_error (cores C) i = Some (n, s, qs) -> bc_wf (c_timers C) pend i s qs.

Lemma cores_nth C i b : nth_error (c_bcs C) i = Some b -> nth_error (cores C) i = Some (b_node b, b_st b, b_reqs b).
Proof. intro H. unfold cores. rewrite nth_error_map, H. reflexivity. Qed.

Lemma cores_nth_inv C i n s qs : nth_error (cores C) i = Some (n, s, qs) ->
  exists b, nth_error (c_bcs C) i = Some b /\ b_node b = n /\ b_st b = s /\ b_reqs b = qs.
Proof.
  unfold cores. rewrite nth_error_map. destruct (nth_error (c_bcs C) i) as [b|]; [|discriminate].
  cbn. unfold bcore. intro H. injection H as E1 E2 E3. exists b. auto.
Qed.

Lemma TInvC_bc pend C i b : TInvC pend C -> nth_error (c_bcs C) i = Some b -> bc_wf (c_timers C) pend i (b_st b) (b_reqs b).
Proof. intros T H. apply (proj2 T i (b_node b)). apply cores_nth. exact H. Qed.

Lemma bc_wf_weaken tm tm' pend i s qs :
  bc_wf tm pend i s qs -> (exists x, tm' = tm ++ x) -> bc_wf tm' pend i s qs.
Proof.
  intros (A & B & D & E & P) [x ->]. split; [exact A|]. split; [exact B|]. split; [|split; [exact E | exact P]].
  intros h q t Hq Ht. destruct (D h q t Hq Ht) as [X Y]. split; [apply nth_error_app_l; exact X | exact Y].
Qed.

(* more pending Deferreds (already fired in M7) *)
Lemma bc_wf_add tm pend extra i s qs :
  bc_wf tm pend i s qs -> (forall h, In (i, h) extra -> sfired s h) -> bc_wf tm (extra ++ pend) i s qs.
Proof.
  intros (A & B & D & E & P) X. split; [exact A|]. split; [exact B|]. split; [|split; [exact E|]].
  - intros h q t Hq Ht. destruct (D h q t Hq Ht) as [X1 Y]. split; [exact X1|]. destruct Y as [Y|Y]; auto.
    right. apply in_or_app. right. exact Y.
  - intros h Hh. apply in_app_or in Hh. destruct Hh as [Hh|Hh]; auto.
Qed.

(* a pending Deferred whose callback chain has run (its DelayedCall is no longer armed) *)
Lemma bc_wf_drop tm pend j h i s qs :
  bc_wf tm ((j, h) :: pend) i s qs ->
  (i = j -> forall q t, nth_error qs h = Some q -> q_timer q = Some t -> False) -> bc_wf tm pend i s qs.
Proof.
  intros (A & B & D & E & P) X. split; [exact A|]. split; [exact B|]. split; [|split; [exact E|]].
  - intros h' q t Hq Ht. destruct (D h' q t Hq Ht) as [X1 Y]. split; [exact X1|]. destruct Y as [Y|[Y|Y]]; auto.
    injection Y as -> ->. exfalso. exact (X eq_refl q t Hq Ht).
  - intros h' Hh. apply P. right. exact Hh.
Qed.

(* states that differ only outside the broker clients' cores and by appended timers *)
Definition same_core (C C' : cstate) : Prop :=
  cores C' = cores C /\ exists x, c_timers C' = c_timers C ++ x.

Lemma same_core_refl C : same_core C C.
Proof. split; [reflexivity | exists []; rewrite app_nil_r; reflexivity]. Qed.

Lemma same_core_trans A B C : same_core A B -> same_core B C -> same_core A C.
Proof.
  intros [E1 [x X]] [E2 [y Y]]. split; [congruence|]. exists (x ++ y). rewrite Y, X, app_assoc. reflexivity.
Qed.

Lemma TInvC_same_core pend C C' : TInvC pend C -> same_core C C' -> TInvC pend C'.
Proof.
  intros [T0 T] [E X]. split; [rewrite E; exact T0|]. intros i n s qs H. rewrite E in H. eapply bc_wf_weaken; [eapply T; exact H | exact X].
Qed.

(* ------------------------------------------------------------------ M7 facts used here *)
Lemma cinv_with_addr s a : CInv s -> CInv (BrokerClient.with_addr s a).
Proof. intros [A B D E F G H I J]. constructor; auto. Qed.

Lemma fired_after_step s e s' mo : CInv s -> BrokerClient.step s e = (s', mo) ->
  CInv s' /\ (exists x, sdlog s' = sdlog s ++ x)
  /\ BrokerClient.t_fired (BrokerClient.s_t s') = rev (def_handles mo) ++ BrokerClient.t_fired (BrokerClient.s_t s).
Proof.
  intros I H. destruct (step_inv s e s' mo I H) as (I' & X & Sc). split; [exact I'|]. split; [exact X|].
  apply (scan_fired _ _ _ _ Sc).
Qed.

Definition is_make (e : BrokerClient.event) : bool := match e with BrokerClient.EMake _ _ => true | _ => false end.

Lemma dlog_same s e : is_make e = false -> sdlog (fst (BrokerClient.step s e)) = sdlog s.
Proof. intro H. pose proof (dlog_is_make_log s e) as D. destruct e; try discriminate; exact D. Qed.

(* ------------------------------------------------------------------ updating one broker client *)
Lemma map_nth_upd {A B} (k : A -> B) (f : A -> A) (g : B -> B) : (forall b, k (f b) = g (k b)) ->
  forall l i, map k (nth_upd l i f) = nth_upd (map k l) i g.
Proof. intros F. induction l as [|b l IH]; intros [|i]; cbn; auto; rewrite ?F, ?IH; reflexivity. Qed.

Lemma nth_upd_id {A} (f : A -> A) : (forall x, f x = x) -> forall l i, nth_upd l i f = l.
Proof. intros F. induction l as [|b l IH]; intros [|i]; cbn; auto; rewrite ?F, ?IH; reflexivity. Qed.

Definition core_st (s : BrokerClient.state) (c : Z * BrokerClient.state * list creq) := (fst (fst c), s, snd c).
Definition core_reqs (f : list creq -> list creq) (c : Z * BrokerClient.state * list creq) := (fst (fst c), snd (fst c), f (snd c)).

Lemma cores_set_st C i s : cores (upd_bc C i (set_st s)) = nth_upd (cores C) i (core_st s).
Proof. unfold cores. cbn. apply map_nth_upd. intros b. reflexivity. Qed.

Lemma cores_set_reqs C i f : cores (upd_bc C i (fun b => set_reqs (f (b_reqs b)) b)) = nth_upd (cores C) i (core_reqs f).
Proof. unfold cores. cbn. apply map_nth_upd. intros b. reflexivity. Qed.

Lemma upd_bc_core C i f : (forall b, bcore (f b) = bcore b) -> same_core C (upd_bc C i f).
Proof.
  intro F. split; [|exists []; cbn; rewrite app_nil_r; reflexivity]. unfold cores. cbn.
  rewrite (map_nth_upd bcore f (fun c => c) F). apply nth_upd_id. reflexivity.
Qed.

Definition tag (j : nat) (l : list nat) : list (nat * nat) := map (fun h => (j, h)) l.

Lemma pend_of_in j l h : In (j, h) (tag j l) <-> In h l.
Proof.
  unfold tag. split; intro H.
  - apply in_map_iff in H. destruct H as (x & E & Hx). congruence.
  - apply (in_map (fun h => (j, h))). exact H.
Qed.

Lemma pend_of_in' j l i h : In (i, h) (tag j l) -> i = j.
Proof. unfold tag. intro H. apply in_map_iff in H. destruct H as (x & E & _). congruence. Qed.

Lemma apply_bc_wf pend C j e C' mo : TInvC pend C -> is_make e = false -> apply_bc C j e = (C', mo) ->
  TInvC (tag j (def_handles mo) ++ pend) C' /\ c_timers C' = c_timers C.
Proof.
  intros T M H. unfold apply_bc in H. destruct (nth_error (c_bcs C) j) as [b|] eqn:Eb.
  - destruct (BrokerClient.step (b_st b) e) as [s' o] eqn:Es. injection H as <- <-. split; [|reflexivity].
    destruct (TInvC_bc _ _ _ _ T Eb) as (I & L & A & U & P).
    destruct (fired_after_step _ _ _ _ I Es) as (I' & _ & F).
    pose proof (dlog_same (b_st b) e M) as D. rewrite Es in D. cbn [fst] in D.
    split.
    { intros i h Hh. rewrite cores_set_st, nth_upd_length. apply in_app_or in Hh. destruct Hh as [Hh|Hh]; [|exact (proj1 T i h Hh)].
      apply pend_of_in' in Hh. subst i. unfold cores. rewrite map_length. apply nth_error_Some. congruence. }
    intros i n s qs H. rewrite cores_set_st in H. cbn [upd_bc with_bcs c_timers]. apply nth_upd_inv in H.
    destruct H as [[<- (x & Hx & E)]|[N H]].
    + rewrite (cores_nth _ _ _ Eb) in Hx. injection Hx as <-. unfold core_st in E. cbn [fst snd] in E. injection E as -> -> ->.
      split; [exact I'|]. split; [congruence|]. split; [|split].
      * intros h q t Hq Ht. destruct (A h q t Hq Ht) as [X1 X]. split; [exact X1|].
        destruct X as [X|X]; [|right; apply in_or_app; right; exact X].
        destruct (in_dec Nat.eq_dec h (def_handles o)) as [Y|Y].
        -- right. apply in_or_app. left. apply pend_of_in. exact Y.
        -- left. unfold sfired. rewrite F. intro Z. apply in_app_or in Z. destruct Z as [Z|Z]; [apply Y, in_rev; exact Z | exact (X Z)].
      * intros h q Hq Hf. apply (U h q Hq). intro Z. apply Hf. unfold sfired. rewrite F. apply in_or_app. right. exact Z.
      * intros h Hh. unfold sfired. rewrite F. apply in_or_app. apply in_app_or in Hh. destruct Hh as [Hh|Hh].
        -- left. apply in_rev. rewrite rev_involutive. apply pend_of_in in Hh. exact Hh.
        -- right. apply P. exact Hh.
    + apply bc_wf_add; [eapply (proj2 T); exact H|]. intros h Hh. apply pend_of_in' in Hh. congruence.
  - injection H as <- <-. split; [|reflexivity]. cbn. exact T.
Qed.

(* ------------------------------------------------------------------ outputs that are not Deferred firings *)
Lemma new_timer_core C w : same_core C (fst (new_timer C w)) /\ snd (new_timer C w) = length (c_timers C)
  /\ c_timers (fst (new_timer C w)) = c_timers C ++ [w].
Proof. unfold new_timer. cbn. split; [split; [reflexivity | exists [w]; reflexivity] | split; reflexivity]. Qed.

Ltac score := solve [apply same_core_refl | split; [reflexivity | exists []; cbn; rewrite app_nil_r; reflexivity]].

Lemma dl_refresh_core C : same_core C (fst (dl_refresh C)).
Proof.
  unfold dl_refresh. destruct (c_dl C) as [l|]; [|score].
  destruct (filter (bc_pending C) l); [|score].
  destruct (c_wait (with_dl C None)); score.
Qed.

Lemma tr_out_core C i o : same_core C (fst (tr_out C i o)).
Proof.
  destruct o; cbn [tr_out fst]; try apply same_core_refl.
  - unfold new_timer. cbn [fst snd]. eapply same_core_trans; [|apply upd_bc_core; intros; reflexivity].
    split; [reflexivity | eexists; reflexivity].
  - destruct (nth_error (c_bcs C) i) as [b|]; [|apply same_core_refl].
    destruct (b_timer b); [|apply same_core_refl]. apply upd_bc_core. intros; reflexivity.
  - apply dl_refresh_core.
Qed.

Lemma tr_list_core : forall os C i, same_core C (fst (tr_list C i os)).
Proof.
  induction os as [|o os IH]; intros C i; cbn [tr_list]; [apply same_core_refl|].
  pose proof (tr_out_core C i o) as H1. destruct (tr_out C i o) as [C1 o1]. cbn [fst] in H1.
  pose proof (IH C1 i) as H2. destruct (tr_list C1 i os) as [C2 o2]. cbn [fst] in *.
  eapply same_core_trans; eauto.
Qed.

(* ------------------------------------------------------------------ makeRequest seen from the client *)
Lemma make_cases s rid e s' mo : BrokerClient.make_request s rid e = (s', mo) ->
  (s' = s /\ mo = [BrokerClient.ORaised 1]) \/
  (raised_dup mo = false /\
   ((def_handles mo = [] /\ first_def mo = None) \/
    (exists oc, def_handles mo = [length (sdlog s)] /\ first_def mo = Some oc))).
Proof.
  unfold BrokerClient.make_request, sdlog. destruct (BrokerClient.lookup rid _).
  - intro H. injection H as <- <-. left. split; reflexivity.
  - right. destruct (BrokerClient.s_down s).
    + destruct (BrokerClient.s_proto s).
      * unfold BrokerClient.lift, BrokerClient.send_request in H. cbn [BrokerClient.r_expect BrokerClient.r_id BrokerClient.r_h] in H.
        destruct e.
        -- injection H as <- <-. split; [reflexivity|]. left. split; reflexivity.
        -- unfold BrokerClient.fire in H. destruct (BrokerClient.is_fired _ _); cbn in H; injection H as <- <-.
           ++ split; [reflexivity|]. left. split; reflexivity.
           ++ split; [reflexivity|]. right. eexists. split; reflexivity.
      * destruct (BrokerClient.s_connector s); cbn in H; injection H as <- <-; (split; [reflexivity|]); left; split; reflexivity.
    + unfold BrokerClient.lift, BrokerClient.fire in H. destruct (BrokerClient.is_fired _ _); cbn in H; injection H as <- <-.
      * split; [reflexivity|]. left. split; reflexivity.
      * split; [reflexivity|]. right. eexists. split; reflexivity.
    + unfold BrokerClient.lift, BrokerClient.fire in H. destruct (BrokerClient.is_fired _ _); cbn in H; injection H as <- <-.
      * split; [reflexivity|]. left. split; reflexivity.
      * split; [reflexivity|]. right. eexists. split; reflexivity.
Qed.

Lemma fired_lt s h : CInv s -> sfired s h -> (h < length (sdlog s))%nat.
Proof. intros I H. exact (ti_fired_lt _ (ci_t s I) h H). Qed.

Lemma make_req_wf pend C i rid expect mint ow C' r out :
  TInvC pend C -> make_req C i rid expect mint ow = (C', r, out) -> TInvC pend C'.
Proof.
  intros T H. unfold make_req in H.
  destruct (nth_error (c_bcs C) i) as [b|] eqn:Eb; [|injection H as <- _ _; exact T].
  unfold apply_bc in H. rewrite Eb in H.
  destruct (BrokerClient.step (b_st b) (BrokerClient.EMake rid expect)) as [s' mo] eqn:Es.
  destruct (TInvC_bc _ _ _ _ T Eb) as (I & L & A & U & P).
  destruct (fired_after_step _ _ _ _ I Es) as (I' & _ & F).
  pose proof (dlog_is_make_log (b_st b) (BrokerClient.EMake rid expect)) as D. rewrite Es in D. cbn [fst] in D.
  cbn [BrokerClient.step] in Es. destruct (make_cases _ _ _ _ _ Es) as [[-> ->] | (R & K)].
  - (* DuplicateRequestError *)
    cbn in H. injection H as <- _ _.
    split; [intros j h Hh; rewrite cores_set_st, nth_upd_length; exact (proj1 T j h Hh)|].
    intros j n s qs Hj. rewrite cores_set_st in Hj. cbn [upd_bc with_bcs c_timers]. apply nth_upd_inv in Hj.
    destruct Hj as [[<- (x & Hx & E)]|[N Hj]]; [|eapply (proj2 T); exact Hj].
    rewrite (cores_nth _ _ _ Eb) in Hx. injection Hx as <-. unfold core_st in E. cbn [fst snd] in E. injection E as -> -> ->.
    split; [exact I|]. split; [exact L|]. split; [exact A | split; [exact U | exact P]].
  - rewrite R in H.
    assert (sdlog s' = sdlog (b_st b) ++ [rid]) as D'.
    { destruct D as [D|D]; [|exact D]. injection D as _ D. rewrite D in R. discriminate. }
    set (C1 := upd_bc C i (set_st s')) in *.
    pose proof (tr_list_core (filter (fun o => negb (is_def o)) mo) C1 i) as SC.
    destruct (tr_list C1 i (filter (fun o => negb (is_def o)) mo)) as [C2 o2]. cbn [fst] in SC.
    destruct SC as [SC1 [x SC2]]. unfold new_timer in H.
    set (h := length (BrokerClient.t_dlog (BrokerClient.s_t (b_st b)))) in *.
    set (t := length (c_timers C2)) in *.
    assert (forall q, (match first_def mo with None => q_timer q = Some t /\ def_handles mo = []
                                          | Some _ => q_timer q = None /\ def_handles mo = [h] end) ->
              TInvC pend (upd_bc (with_timers C2 (c_timers C2 ++ [TReq i h])) i (fun b0 => set_reqs (b_reqs b0 ++ [q]) b0))) as G.
    { intros q Hq. split.
      { intros j h' Hh. rewrite (cores_set_reqs _ i (fun l => l ++ [q])), nth_upd_length.
        change (cores (with_timers C2 (c_timers C2 ++ [TReq i h]))) with (cores C2). rewrite SC1. unfold C1.
        rewrite cores_set_st, nth_upd_length. exact (proj1 T j h' Hh). }
      intros j n s qs Hj.
      rewrite (cores_set_reqs _ i (fun l => l ++ [q])) in Hj. cbn [upd_bc with_bcs with_timers c_timers].
      change (cores (with_timers C2 (c_timers C2 ++ [TReq i h]))) with (cores C2) in Hj. rewrite SC1 in Hj.
      unfold C1 in Hj. rewrite cores_set_st in Hj. rewrite SC2. cbn [upd_bc with_bcs c_timers].
      apply nth_upd_inv in Hj. destruct Hj as [[<- (c & Hc & E)]|[N Hj]].
      - apply nth_upd_inv in Hc. destruct Hc as [[_ (c0 & Hc0 & ->)]|[N _]]; [|congruence].
        rewrite (cores_nth _ _ _ Eb) in Hc0. injection Hc0 as <-.
        unfold core_reqs, core_st in E. cbn [fst snd] in E. injection E as -> -> ->.
        assert (forall h', (h' < h)%nat -> sfired s' h' -> sfired (b_st b) h') as Fold.
        { intros h' Lt Z. unfold sfired in Z. rewrite F in Z. apply in_app_or in Z. destruct Z as [Z|Z]; [|exact Z].
          apply in_rev in Z. destruct (first_def mo); destruct Hq as [_ Hq]; rewrite Hq in Z; cbn in Z; [|contradiction].
          destruct Z as [Z|[]]. lia. }
        split; [exact I'|]. split; [rewrite app_length, D', app_length, L; reflexivity|]. split; [|split].
        + intros h' q' t' Hq' Ht'. apply nth_error_snoc_inv in Hq'. destruct Hq' as [Hq'|[-> ->]].
          * destruct (A h' q' t' Hq' Ht') as [X1 X]. split.
            -- apply nth_error_app_l. apply nth_error_app_l. exact X1.
            -- destruct X as [X|X]; [left|right; exact X]. intro Z. apply X. apply Fold; [|exact Z].
               unfold h. fold (sdlog (b_st b)). rewrite <- L. apply nth_error_Some. congruence.
          * destruct (first_def mo) eqn:Fd; destruct Hq as [Hq1 Hq2]; [congruence|].
            rewrite Hq1 in Ht'. injection Ht' as <-. split.
            -- unfold t. rewrite SC2. rewrite L. fold (sdlog (b_st b)). fold h. apply nth_error_snoc.
            -- left. unfold sfired. rewrite F, Hq2. cbn. intro Z. apply (fired_lt _ _ I) in Z. rewrite L in Z. fold (sdlog (b_st b)) in Z. lia.
        + intros h' q' Hq' Hf. apply nth_error_snoc_inv in Hq'. destruct Hq' as [Hq'|[-> ->]].
          * apply (U h' q' Hq'). intro Z. apply Hf. unfold sfired. rewrite F. apply in_or_app. right. exact Z.
          * destruct (first_def mo) eqn:Fd; destruct Hq as [Hq1 Hq2]; [|congruence].
            exfalso. apply Hf. unfold sfired. rewrite F, Hq2. cbn. left. rewrite L. reflexivity.
        + intros h' Hh. unfold sfired. rewrite F. apply in_or_app. right. apply P. exact Hh.
      - rewrite nth_upd_other in Hj by exact N.
        eapply bc_wf_weaken; [eapply (proj2 T); exact Hj | exists (x ++ [TReq i h]); rewrite app_assoc; reflexivity]. }
    destruct K as [[K1 K2] | (oc & K1 & K2)]; rewrite K2 in H; injection H as <- _ _; apply G; rewrite K2; split; auto.
Qed.

(* ------------------------------------------------------------------ pieces that leave the cores alone *)
Lemma set_phase_core C p ph : same_core C (set_phase C p ph). Proof. score. Qed.
Lemma set_boot_core C a st : same_core C (set_boot C a st). Proof. score. Qed.

Lemma op_fail_core C p r : same_core C (fst (op_fail C p r)).
Proof. unfold op_fail. destruct (nth_error (c_ops C) p); cbn [fst]; score. Qed.

Lemma boot_next_core C p hosts : same_core C (fst (boot_next C p hosts)).
Proof.
  unfold boot_next. destruct (closing C); [apply op_fail_core|]. destruct hosts; [apply op_fail_core|]. cbn [fst]. score.
Qed.

Lemma get_client_wf pend C cl node C1 i : TInvC pend C -> get_client C cl node = Some (C1, i) -> TInvC pend C1.
Proof.
  intros T H. unfold get_client in H. destruct (assoc node cl); [injection H as <- _; exact T|].
  destruct (assoc node (c_brokers C)) as [a|]; [|discriminate]. injection H as <- _.
  assert (cores (with_clients (with_bcs C (c_bcs C ++ [mkBc node (BrokerClient.with_addr BrokerClient.init a) [] None]))
                   (Some (cl ++ [(node, length (c_bcs C))])))
          = cores C ++ [(node, BrokerClient.with_addr BrokerClient.init a, [])]) as E.
  { unfold cores. cbn. rewrite map_app. reflexivity. }
  split.
  - intros j h Hh. rewrite E, app_length. pose proof (proj1 T j h Hh). lia.
  - intros j n s qs Hj. rewrite E in Hj. cbn [with_clients with_bcs c_timers].
    apply nth_error_snoc_inv in Hj. destruct Hj as [Hj|[-> Hj]]; [eapply (proj2 T); exact Hj|].
    injection Hj as -> -> ->. split; [apply cinv_with_addr, CInv_init|]. split; [reflexivity|]. split; [|split].
    + intros h q t Hq. destruct h; discriminate.
    + intros h q Hq. destruct h; discriminate.
    + intros h Hh. apply (proj1 T) in Hh. lia.
Qed.

Lemma op_known_wf : forall nodes pend C p rid, TInvC pend C -> TInvC pend (fst (op_known C p rid nodes)).
Proof.
  induction nodes as [|n rest IH]; intros pend C p rid T; cbn [op_known].
  - eapply TInvC_same_core; [exact T | apply boot_next_core].
  - destruct (c_clients C) as [cl|]; [|eapply TInvC_same_core; [exact T | apply op_fail_core]].
    destruct (get_client C cl n) as [[C1 i]|] eqn:G; [|eapply TInvC_same_core; [exact T | apply op_fail_core]].
    pose proof (get_client_wf _ _ _ _ _ _ T G) as T1.
    destruct (make_req C1 i rid true (-1) (OfOp p)) as [[C2 r] o2] eqn:M.
    pose proof (make_req_wf _ _ _ _ _ _ _ _ _ _ T1 M) as T2.
    destruct r as [|h|h r]; cbn [fst].
    + pose proof (IH pend C2 p rid T2) as X. destruct (op_known C2 p rid rest). exact X.
    + eapply TInvC_same_core; [exact T2 | apply set_phase_core].
    + destruct r; try (pose proof (IH pend C2 p rid T2) as X; destruct (op_known C2 p rid rest); exact X).
      * exact T2.
      * pose proof (op_fail_core C2 p RCancelled) as X. destruct (op_fail C2 p RCancelled). cbn [fst] in *.
        eapply TInvC_same_core; eauto.
Qed.

(* ------------------------------------------------------------------ the continuation of a fired Deferred *)
Lemma upd_creq_clear pend C i h f : (forall q, q_timer (f q) = None) ->
  (forall b, nth_error (c_bcs C) i = Some b -> sfired (b_st b) h) ->
  TInvC pend C -> TInvC pend (upd_creq C i h f).
Proof.
  intros F Fi [T0 T]. unfold upd_creq. split.
  - intros j h' Hh. rewrite (cores_set_reqs _ i (fun l => nth_upd l h f)), nth_upd_length. exact (T0 j h' Hh).
  - intros j n s qs Hj. rewrite (cores_set_reqs _ i (fun l => nth_upd l h f)) in Hj. cbn [upd_bc with_bcs c_timers].
    apply nth_upd_inv in Hj. destruct Hj as [[<- (c & Hc & E)]|[N Hj]]; [|eapply T; exact Hj].
    destruct c as [[n0 s0] qs0]. unfold core_reqs in E. cbn [fst snd] in E. injection E as -> -> ->.
    destruct (cores_nth_inv _ _ _ _ _ Hc) as (b & Hb & _ & Es & _).
    destruct (T i n0 s0 qs0 Hc) as (A & B & D & E & P).
    split; [exact A|]. split; [rewrite nth_upd_length; exact B|]. split; [|split; [|exact P]].
    + intros h' q t Hq Ht. apply nth_upd_inv in Hq. destruct Hq as [[<- (q0 & Hq0 & ->)]|[N Hq]].
      * rewrite F in Ht. discriminate.
      * exact (D h' q t Hq Ht).
    + intros h' q Hq Hf. apply nth_upd_inv in Hq. destruct Hq as [[<- (q0 & Hq0 & ->)]|[N Hq]].
      * exfalso. apply Hf. rewrite <- Es. apply Fi. exact Hb.
      * exact (E h' q Hq Hf).
Qed.

Lemma TInvC_drop pend C i h : TInvC ((i, h) :: pend) C ->
  (forall b q t, nth_error (c_bcs C) i = Some b -> nth_error (b_reqs b) h = Some q -> q_timer q = Some t -> False) ->
  TInvC pend C.
Proof.
  intros [T0 T] X. split; [intros j h' Hh; apply (T0 j h'); right; exact Hh|].
  intros j n s qs Hj. eapply bc_wf_drop; [eapply T; exact Hj|]. intros <- q t Hq Ht.
  destruct (cores_nth_inv _ _ _ _ _ Hj) as (b & Hb & _ & _ & Eq). subst qs. exact (X b q t Hb Hq Ht).
Qed.

Section LevelWf.
Variable succ : cstate -> nat -> list Z -> cstate * list output.
Hypothesis succ_wf : forall pend C p f, TInvC pend C -> TInvC pend (fst (succ C p f)).

Lemma on_def_wf pend C i h oc : TInvC ((i, h) :: pend) C -> TInvC pend (fst (on_def succ C i h oc)).
Proof.
  intros T. unfold on_def.
  destruct (nth_error (c_bcs C) i) as [b|] eqn:Eb;
    [|cbn [fst]; apply (TInvC_drop _ _ _ _ T); intros b q t Hb; congruence].
  destruct (nth_error (b_reqs b) h) as [q|] eqn:Eq;
    [|cbn [fst]; apply (TInvC_drop _ _ _ _ T); intros b' q t Hb Hq; congruence].
  assert (forall b', nth_error (c_bcs C) i = Some b' -> sfired (b_st b') h) as Fi.
  { intros b' Hb'. destruct (TInvC_bc _ _ _ _ T Hb') as (_ & _ & _ & _ & P). apply P. left. reflexivity. }
  set (C1o1 := match q_timer q with
               | Some t => (upd_creq C i h (fun q0 => mkCreq (q_owner q0) None (q_to q0)), [OCancelTimer t])
               | None => (C, []) end).
  assert (TInvC pend (fst C1o1)) as T1.
  { unfold C1o1. destruct (q_timer q) as [t|] eqn:Et; cbn [fst].
    - apply (TInvC_drop _ _ i h).
      + apply upd_creq_clear; auto.
      + intros b' q' t' Hb' Hq' Ht'. unfold upd_creq, upd_bc in Hb'. cbn [c_bcs with_bcs] in Hb'.
        rewrite (nth_upd_same _ _ _ _ Eb) in Hb'. injection Hb' as <-. cbn [set_reqs b_reqs] in Hq'.
        rewrite (nth_upd_same _ _ _ _ Eq) in Hq'. injection Hq' as <-. cbn in Ht'. discriminate.
    - apply (TInvC_drop _ _ _ _ T). intros b' q' t' Hb' Hq'. congruence. }
  destruct C1o1 as [C1 o1]. cbn [fst] in T1.
  destruct (q_owner q) as [d|p]; [exact T1|].
  destruct (nth_error (c_ops C1) p) as [[k al rid ph]|]; [|exact T1].
  destruct ph as [rest i' h'| | | |]; try exact T1.
  destruct (Nat.eqb i i' && Nat.eqb h h'); [|exact T1].
  destruct (if q_to q then RTimedOut else res_of oc);
    try (pose proof (op_known_wf rest pend C1 p rid T1) as X; destruct (op_known C1 p rid rest); exact X).
  - pose proof (succ_wf pend C1 p frame T1) as X. destruct (succ C1 p frame). exact X.
  - pose proof (op_fail_core C1 p RCancelled) as X. destruct (op_fail C1 p RCancelled). cbn [fst] in *.
    eapply TInvC_same_core; eauto.
Qed.

Lemma proc_wf : forall os pend C i, TInvC (tag i (def_handles os) ++ pend) C -> TInvC pend (fst (proc succ C i os)).
Proof.
  induction os as [|o os IH]; intros pend C i T; cbn [proc]; [exact T|].
  assert (TInvC (tag i (def_handles os) ++ pend)
            (fst (match o with BrokerClient.ODef h oc => on_def succ C i h oc | _ => tr_out C i o end))) as T1.
  { destruct o; try (eapply TInvC_same_core; [exact T | apply tr_out_core]).
    apply on_def_wf. exact T. }
  destruct (match o with BrokerClient.ODef h oc => on_def succ C i h oc | _ => tr_out C i o end) as [C1 o1].
  cbn [fst] in T1. pose proof (IH pend C1 i T1) as X. destruct (proc succ C1 i os). exact X.
Qed.

Lemma bc_event_wf pend C i e : is_make e = false -> TInvC pend C -> TInvC pend (fst (bc_event succ C i e)).
Proof.
  intros M T. unfold bc_event. destruct (apply_bc C i e) as [C1 mo] eqn:A.
  destruct (apply_bc_wf _ _ _ _ _ _ T M A) as [T1 _]. apply proc_wf. exact T1.
Qed.
End LevelWf.

(* ------------------------------------------------------------------ closing broker clients, refreshing the broker table *)
Lemma succ0_wf pend C p f : TInvC pend C -> TInvC pend (fst (succ0 C p f)).
Proof. intro T. exact T. Qed.

Lemma close_each_wf : forall l pend C, TInvC pend C -> TInvC pend (fst (close_each C l)).
Proof.
  induction l as [|i l IH]; intros pend C T; cbn [close_each]; [exact T|].
  pose proof (bc_event_wf succ0 succ0_wf pend C i BrokerClient.EClose eq_refl T) as T1.
  destruct (bc_event succ0 C i BrokerClient.EClose) as [C1 o1]. cbn [fst] in T1.
  pose proof (IH pend C1 T1) as X. destruct (close_each C1 l). exact X.
Qed.

Lemma close_brokerclients_wf pend C l : TInvC pend C -> TInvC pend (fst (close_brokerclients C l)).
Proof.
  intro T. unfold close_brokerclients. pose proof (close_each_wf l pend C T) as T1.
  destruct (close_each C l) as [C1 o1]. cbn [fst] in T1.
  set (C1' := with_dl C1 (Some (match c_dl C with Some x => x | None => [] end ++ l))).
  pose proof (dl_refresh_core C1') as X. destruct (dl_refresh C1') as [C2 o2]. cbn [fst] in *.
  eapply TInvC_same_core; [|exact X]. eapply TInvC_same_core; [exact T1|]. unfold C1'. score.
Qed.

Lemma update_each_wf : forall bs pend C cl, TInvC pend C -> TInvC pend (update_each C cl bs).
Proof.
  induction bs as [|[n a] bs IH]; intros pend C cl T; cbn [update_each]; [exact T|].
  destruct (assoc n cl) as [i|]; [|apply IH; exact T]. apply IH.
  destruct (apply_bc C i (BrokerClient.EUpdate true a)) as [C1 mo] eqn:A.
  destruct (apply_bc_wf _ _ _ (BrokerClient.EUpdate true a) _ _ T eq_refl A) as [T1 _]. cbn [fst].
  assert (mo = []) as ->.
  { unfold apply_bc in A. destruct (nth_error (c_bcs C) i); [|congruence]. cbn in A. congruence. }
  exact T1.
Qed.

Lemma update_brokers_wf pend C brokers remove : TInvC pend C -> TInvC pend (fst (update_brokers C brokers remove)).
Proof.
  intro T. unfold update_brokers.
  set (C1 := with_brokers C (dict_update (c_brokers C) (dict_update [] brokers))).
  assert (TInvC pend C1) as T1 by (eapply TInvC_same_core; [exact T | unfold C1; score]).
  destruct (c_clients C1) as [cl|].
  - pose proof (update_each_wf (dict_update [] brokers) pend C1 cl T1) as T2.
    destruct remove; [|exact T2].
    destruct (flat_map _ _) as [|i0 idx]; [exact T2|].
    apply close_brokerclients_wf. eapply TInvC_same_core; [exact T2 | score].
  - destruct (dict_update [] brokers); [destruct remove|]; exact T1.
Qed.

Lemma merge_wf pend C payload all : TInvC pend C -> TInvC pend (fst (merge C payload all)).
Proof.
  intro T. unfold merge. destruct (parse_meta payload) as [[brokers topics]|]; [|exact T].
  set (rm := all && _). pose proof (update_brokers_wf pend C brokers rm T) as T1.
  destruct (update_brokers C brokers rm) as [C1 o1]. cbn [fst] in *.
  eapply TInvC_same_core; [exact T1 | score].
Qed.

Lemma succ1_wf pend C p f : TInvC pend C -> TInvC pend (fst (succ1 C p f)).
Proof.
  intro T. unfold succ1. destruct (nth_error (c_ops C) p) as [o|]; [|exact T].
  assert (TInvC pend (set_phase C p PDone)) as T1 by (eapply TInvC_same_core; [exact T | apply set_phase_core]).
  destruct (o_kind o =? 1).
  - destruct (closing (set_phase C p PDone)); [exact T1|].
    pose proof (merge_wf pend _ (drop 4 f) (o_all o) T1) as X. destruct (merge (set_phase C p PDone) (drop 4 f) (o_all o)). exact X.
  - destruct (is_ltp (o_kind o)); [|exact T1]. destruct (closing (set_phase C p PDone)); [exact T1|].
    pose proof (merge_wf pend _ (drop 4 f) false T1) as X. destruct (merge (set_phase C p PDone) (drop 4 f) false) as [C2 o2]. cbn [fst] in X.
    destruct (missing (drop 4 f)); [|exact X]. unfold new_timer. cbn [fst].
    eapply TInvC_same_core; [exact X|]. split; [reflexivity | eexists; reflexivity].
Qed.

Lemma ev_bc_wf pend C i e : is_make e = false -> TInvC pend C -> TInvC pend (fst (ev_bc C i e)).
Proof. apply (bc_event_wf succ1 succ1_wf). Qed.

Lemma cancel_boots_wf : forall n pend C p, TInvC pend C -> TInvC pend (fst (cancel_boots C n p)).
Proof.
  induction n as [|n IH]; intros pend C p T; cbn [cancel_boots]; [exact T|].
  set (X := match nth_error (c_ops C) p with
            | Some (mkOp _ _ _ (PBootConn a rest)) => let (C', o') := boot_next (set_boot C a KDead) p rest in (C', OBootCancel a :: o')
            | Some (mkOp _ _ _ (PBootReq a t rest)) => let (C', o') := boot_next C p rest in (C', OCancelTimer t :: OBootLose a :: o')
            | Some (mkOp _ _ _ (PWait t)) => let (C', o') := op_fail C p RCancelled in (C', OCancelTimer t :: o')
            | _ => (C, []) end).
  assert (TInvC pend (fst X)) as T1.
  { unfold X. destruct (nth_error (c_ops C) p) as [[k al rid ph]|]; [|exact T]. destruct ph; try exact T.
    - pose proof (boot_next_core (set_boot C a KDead) p rest) as Y. destruct (boot_next (set_boot C a KDead) p rest). cbn [fst] in *.
      eapply TInvC_same_core; [|exact Y]. eapply TInvC_same_core; [exact T | apply set_boot_core].
    - pose proof (boot_next_core C p rest) as Y. destruct (boot_next C p rest). cbn [fst] in *.
      eapply TInvC_same_core; [exact T | exact Y].
    - pose proof (op_fail_core C p RCancelled) as Y. destruct (op_fail C p RCancelled). cbn [fst] in *.
      eapply TInvC_same_core; [exact T | exact Y]. }
  destruct X as [C1 o1]. cbn [fst] in T1. pose proof (IH pend C1 (S p) T1) as Y. destruct (cancel_boots C1 n (S p)). exact Y.
Qed.

