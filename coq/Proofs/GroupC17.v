(* Lemmas behind Props/C17.v: a started group member always progresses (Model/Group.v). *)
From Coq Require Import Lia.
From AV Require Import Base.Util Model.Group Model.GroupObs Proofs.GroupInv Proofs.GroupInvH Proofs.GroupEsc.

(* ---------- never idle ---------- *)
Lemma never_idle : forall grp evs, let s := state_after grp evs in
  escaped s = false -> start_d s <> None -> stopping s = false -> stop_requested s = false ->
  gens s <> [] \/ (rejoin_needed s = false /\ hb_running s = true) \/ timers s <> [].
Proof. intros grp evs s E Sd Stp Sr. exact (i_prog _ (reachable_Inv grp evs) Sd Stp Sr E). Qed.

Lemma never_idle_benign : forall grp evs, let s := state_after grp evs in
  benign evs = true -> start_d s <> None -> stopping s = false -> stop_requested s = false ->
  gens s <> [] \/ (rejoin_needed s = false /\ hb_running s = true) \/ timers s <> [].
Proof. intros grp evs s B. apply never_idle. apply benign_not_escaped. exact B. Qed.

(* "rejoin timer pending": the DelayedCall the member remembers is one the reactor still holds *)
Lemma rejoin_timer_armed : forall grp evs id, dc (state_after grp evs) = DcActive id -> In (id, TRejoin) (timers (state_after grp evs)).
Proof. intros grp evs id. exact (j9 _ _ (i_core _ (reachable_Inv grp evs)) id). Qed.

Lemma stable_heartbeats : forall grp evs, let s := state_after grp evs in
  stopping s = false -> rejoin_needed s = false -> hb_running s = true /\ gens s = [].
Proof.
  intros grp evs s Stp Rn. pose proof (reachable_Inv grp evs) as H. fold s in H. split; [exact (i_stab _ H Stp Rn)|].
  destruct (gens s) eqn:G; auto. pose proof (j13 _ _ (i_core _ H) Stp) as X. rewrite G in X.
  assert (rejoin_needed s = true) by (apply X; discriminate). congruence.
Qed.

(* the witness of the residual finding F-C17-2 *)
Lemma nonkafka_idle_witness :
  let s := state_after false [EStart; ELookup 0 LBroker; EMeta 1 (RFail KNonKafka)] in
  start_d s <> None /\ stopping s = false /\ stop_requested s = false /\ gens s = [] /\ timers s = [] /\ hb_running s = false /\ escaped s = true.
Proof. vm_compute. repeat split; auto; discriminate. Qed.

(* ---------- retriable errors: rejoin_after_error, the funnel of join / sync / heartbeat replies, consumer errors and
   Kafka errors escaping _join_and_sync ---------- *)
Definition doc_delay (k : ekind) : delay :=
  match k with KRebalance | KCna | KNotCoord | KIllGen | KInvGroup | KUnkMember => DRetry | _ => DFatal end.

Lemma stopc_not_sched : forall (cs : list consumer) k d id, ~ In (OSched k d id) (map (fun c => OStopC (c_id c)) cs).
Proof. intros cs k d id H. apply in_map_iff in H. destruct H as (c & X & _). discriminate. Qed.

Lemma rae_kafka_local : forall k s, is_kafka k = true -> stopping s = false -> dc s <> DcStale ->
  let s' := fst (rejoin_after_error k s) in let o := snd (rejoin_after_error k s) in
  stopping s' = false /\ rejoin_needed s' = true /\ start_d s' = start_d s /\
  (dc s = DcNone -> In (OSched TRejoin (doc_delay k) (next_timer s)) o /\ dc s' = DcActive (next_timer s) /\ In (next_timer s, TRejoin) (timers s')) /\
  (forall id, dc s = DcActive id -> dc s' = DcActive id /\ timers s' = timers s) /\
  (forall kd d id, In (OSched kd d id) o -> kd = TRejoin /\ d = doc_delay k /\ dc s = DcNone).
Proof.
  intros k s Hk Hs Hdc. ds s. cbn in Hs, Hdc. subst stp.
  destruct k; try discriminate; destruct grp; destruct dc0 as [|i|]; try congruence;
    cbv [rejoin_after_error resched schedule_rejoin new_timer on_group_leave seq emit upd doc_delay fst snd set_escaped
         stopping rejoin_needed dc timers next_timer start_d consumers is_group set_consumers set_member
         set_rejoin_needed set_dc set_timers set_next_timer app];
    (split; [reflexivity|split; [reflexivity|split; [reflexivity|split; [|split]]]]).
  all: try (intros X; discriminate X).
  all: try (intros id X; inversion X; subst; split; reflexivity).
  all: try (intros _; split; [|split; [reflexivity|left; reflexivity]]; rewrite ?in_app_iff; cbn [In]; auto; fail).
  all: try (intros kd d id X; rewrite ?in_app_iff in X; cbn [In] in X;
            repeat match goal with H : _ \/ _ |- _ => destruct H end; try contradiction; try discriminate;
            try (exfalso; eapply stopc_not_sched; eassumption);
            try (match goal with H : OSched _ _ _ = OSched _ _ _ |- _ => inversion H; subst; auto end); fail).
Qed.

Lemma retriable_rejoins : forall grp evs k, let s := state_after grp evs in
  is_kafka k = true -> stopping s = false ->
  let s' := fst (rejoin_after_error k s) in let o := snd (rejoin_after_error k s) in
  stopping s' = false /\ rejoin_needed s' = true /\ (exists id, dc s' = DcActive id /\ In (id, TRejoin) (timers s')) /\
  (dc s = DcNone -> In (OSched TRejoin (doc_delay k) (next_timer s)) o) /\
  (forall kd d id, In (OSched kd d id) o -> kd = TRejoin /\ d = doc_delay k).
Proof.
  intros grp evs k s Hk Hs. pose proof (reachable_Inv grp evs) as H. fold s in H.
  pose proof (j10 _ _ (i_core _ H) Hs) as Hdc.
  destruct (rae_kafka_local k s Hk Hs Hdc) as (A & B & _ & C & D & E). cbv zeta.
  split; [exact A|split; [exact B|split; [|split]]].
  - destruct (dc s) as [|id|] eqn:Dc; [| |congruence].
    + destruct (C eq_refl) as (_ & X & Y). eauto.
    + destruct (D id eq_refl) as (X & Y). exists id. split; auto. rewrite Y. apply (j9 _ _ (i_core _ H)). exact Dc.
  - intros X. apply C; auto.
  - intros kd d id X. destruct (E kd d id X) as (P & Q & _). auto.
Qed.

(* ---------- fatal errors surface on the Deferred returned by start() ---------- *)
Lemma stop_tail_out : forall st s idx, start_d s = Some idx ->
  In (OStartD idx (st_err st)) (snd (stop_tail st s)) /\ start_d (fst (stop_tail st s)) = None /\ stopping (fst (stop_tail st s)) = stopping s.
Proof.
  intros st s idx Sd. unfold stop_tail.
  assert (X : exists s1 o1, (match rejoin_d s with Some gid => cancel_gen gid (set_rejoin_d None s) | None => (s, []) end) = (s1, o1) /\
                            start_d s1 = Some idx /\ stopping s1 = stopping s).
  { destruct (rejoin_d s) as [gid|].
    - pose proof (cancel_gen_fields gid (set_rejoin_d None s)) as F. cbv zeta in F. destruct F as (F1 & F2 & _).
      destruct (cancel_gen gid (set_rejoin_d None s)) as [s1 o1]. exists s1, o1. cbn [fst] in *. split; auto.
      rewrite F1, F2. ds s. cbn in *. auto.
    - exists s, []. auto. }
  destruct X as (s1 & o1 & -> & A & B). ds s1. cbn in A, B. subst.
  destruct grp; unfold finish_stop; prj; (split; [rewrite in_app_iff; right; left; reflexivity|split; [reflexivity|auto]]).
Qed.

Lemma coord_stop_surfaces : forall st s idx, start_d s = Some idx -> stopping s = false -> dc s <> DcStale ->
  let s' := fst (coord_stop st s) in let o := snd (coord_stop st s) in
  stopping s' = true /\
  ((In (OStartD idx (st_err st)) o /\ start_d s' = None) \/
   (exists rid, In (OLeave rid (member s)) o /\ In (mkStop (st_idx st) (st_err st) (S2 rid)) (stops s') /\ start_d s' = Some idx)).
Proof.
  intros st s idx Sd Stp Hdc. ds s. cbn in Sd, Stp, Hdc. subst.
  destruct dc0 as [|i|]; [| |congruence];
    destruct hbq as [rid|]; destruct hbr; destruct ck; destruct (mem =? 0) eqn:M;
    unfold coord_stop, hb_stop, remove_timer; prj; rewrite ?M; prj.
  all: try match goal with |- context [stop_tail ?st0 ?s0] =>
         let Y := fresh in pose proof (stop_tail_out st0 s0 idx eq_refl) as Y;
         destruct (stop_tail st0 s0) as [s3 o4]; prj; destruct Y as (Y1 & Y2 & Y3); split; [exact Y3|left; split; [|exact Y2]];
         rewrite ?in_app_iff; auto end.
  all: split; [reflexivity|right; eexists; split; [rewrite ?in_app_iff; cbn [In]; auto 10|split; [left; reflexivity|reflexivity]]].
Qed.

Lemma fatal_surfaces : forall gk evs k idx, let s := state_after gk evs in
  stopping s = false -> start_d s = Some idx ->
  let s' := fst (fatal k s) in let o := snd (fatal k s) in
  stopping s' = true /\
  ((In (OStartD idx (Some k)) o /\ start_d s' = None) \/
   (exists rid, In (OLeave rid (member s)) o /\ In (mkStop (-1) (Some k) (S2 rid)) (stops s') /\ start_d s' = Some idx)).
Proof.
  intros gk evs k idx s Stp Sd. pose proof (reachable_Inv gk evs) as H. fold s in H. clearbody s.
  pose proof (j10 _ _ (i_core _ H) Stp) as Hdc.
  unfold fatal, seq. pose proof (ogl_J None s (i_core _ H)) as [J1 C1]. pose proof (ogl_fields s) as F. cbv zeta in F.
  destruct F as (F1 & F2 & F3 & _ & _ & _ & _ & _ & F9 & F10).
  assert (Fm : member (fst (on_group_leave s)) = member s). { unfold on_group_leave. destruct (is_group s); ds s; reflexivity. }
  destruct (on_group_leave s) as [s1 o1]. cbn [fst] in *.
  assert (D : forall sx, consumers sx = [] -> start_d sx = Some idx -> stopping sx = false -> dc sx <> DcStale -> member sx = member s ->
     let s' := fst (do_stop (-1) (Some k) sx) in let o := snd (do_stop (-1) (Some k) sx) in
     stopping s' = true /\ ((In (OStartD idx (Some k)) o /\ start_d s' = None) \/
       (exists rid, In (OLeave rid (member s)) o /\ In (mkStop (-1) (Some k) (S2 rid)) (stops s') /\ start_d s' = Some idx))).
  { intros sx Cx Sx Tx Dx Mx. unfold do_stop. destruct (is_group sx) eqn:G.
    - replace (consumers (set_stop_requested true sx)) with (@nil consumer) by (ds sx; cbn in *; auto).
      pose proof (coord_stop_surfaces (mkStop (-1) (Some k) (S2 0)) (set_stop_requested true sx) idx) as X.
      replace (member (set_stop_requested true sx)) with (member s) in X by (ds sx; cbn in *; auto).
      apply X; ds sx; cbn in *; auto.
    - pose proof (coord_stop_surfaces (mkStop (-1) (Some k) (S2 0)) sx idx Sx Tx Dx) as X. rewrite Mx in X. exact X. }
  specialize (D s1 C1 ltac:(congruence) ltac:(congruence) ltac:(congruence) Fm). cbv zeta in D.
  destruct (do_stop (-1) (Some k) s1) as [s2 o2]. cbn [fst snd] in *. destruct D as (D1 & D2). split; [exact D1|].
  destruct D2 as [(A & B)|(rid & A & B & C)]; [left|right; exists rid]; rewrite in_app_iff; auto.
Qed.

(* ... and when the LeaveGroup exchange of that stop ends, whatever its outcome *)
Lemma leave_reply_surfaces : forall s rid r st rest idx,
  take_first (is_s2 rid) (stops s) = Some (st, rest) -> start_d s = Some idx ->
  In (OStartD idx (st_err st)) (snd (on_leave rid r s)) /\ start_d (fst (on_leave rid r s)) = None.
Proof.
  intros s rid r st rest idx T Sd. unfold on_leave. rewrite T.
  set (s1 := match r with ROk => set_cur_assign [] (set_generation (-1) (set_member 0 (set_stops rest s))) | RFail _ => set_stops rest s end).
  assert (S1 : start_d s1 = Some idx). { subst s1. destruct r; ds s; exact Sd. }
  destruct (stop_tail_out st s1 idx S1) as (A & B & _). auto.
Qed.

(* ---------- the scheduled rejoin does start a join; coordinator lookup failures are retried ---------- *)
Lemma existsb_in_timer : forall (tms : list (Z * tkind)) id k, In (id, k) tms -> existsb (fun t => fst t =? id) tms = true.
Proof. intros tms id k H. apply existsb_exists. exists (id, k). split; auto. cbn. apply Z.eqb_refl. Qed.

Lemma fire_starts_join : forall gk evs id, let s := state_after gk evs in
  stopping s = false -> stop_requested s = false -> dc s = DcActive id -> rejoin_needed s = true -> rejoin_d s = None ->
  snd (step s (EFire id)) = [OLookup (next_rid s)] /\ gens (fst (step s (EFire id))) <> [] /\ rejoin_d (fst (step s (EFire id))) <> None.
Proof.
  intros gk evs id s Stp Sr Dc Rn Rd. pose proof (reachable_Inv gk evs) as H. fold s in H. clearbody s.
  pose proof (existsb_in_timer _ _ _ (j9 _ _ (i_core _ H) id Dc)) as Ex.
  cbn [step]. unfold on_fire. rewrite Ex. unfold remove_timer, join_and_sync, add_gen.
  ds s. cbn in Stp, Sr, Dc, Rn, Rd. subst. prj. rewrite Z.eqb_refl. prj.
  destruct grp; prj; repeat split; discriminate.
Qed.

Definition lookup_delay (r : lookup_res) : delay :=
  match r with LNone | LFail KCna | LFail KNotCoord => DInitial | _ => DFatal end.
Definition lookup_retriable (r : lookup_res) : bool :=
  match r with LBroker => false | LNone => true | LFail k => is_kafka k end.

Lemma lookup_failure_retried : forall s rid r g rest, take_first (awaits (GLookup rid)) (gens s) = Some (g, rest) ->
  lookup_retriable r = true ->
  snd (on_lookup rid r s) = [OSched TCoordRetry (lookup_delay r) (next_timer s)] /\
  In (next_timer s, TCoordRetry) (timers (fst (on_lookup rid r s))).
Proof.
  intros s rid r g rest T R. unfold on_lookup, with_gen. rewrite T.
  destruct r as [| |k]; [discriminate| |destruct k; try discriminate];
    ds s; cbv [coord_retry new_timer gen_end seq upd fst snd set_escaped lookup_delay next_timer timers set_gens set_timers set_next_timer set_rejoin_d app];
    (split; [reflexivity|left; reflexivity]).
Qed.

(* ---------- any armed join_and_sync call (rejoin back-off OR coordinator-lookup retry) starts the join when fired ---------- *)
Lemma any_timer_starts_join : forall s id k,
  In (id, k) (timers s) -> (is_group s && stop_requested s) = false -> rejoin_needed s = true -> rejoin_d s = None ->
  snd (step s (EFire id)) = [OLookup (next_rid s)] /\ gens (fst (step s (EFire id))) <> [] /\ rejoin_d (fst (step s (EFire id))) <> None.
Proof.
  intros s id k Hin G Rn Rd. pose proof (existsb_in_timer _ _ _ Hin) as Ex.
  cbn [step]. unfold on_fire. rewrite Ex. unfold remove_timer, join_and_sync, add_gen.
  ds s. cbn in G, Rn, Rd. subst.
  destruct dc0 as [|i|]; prj; [| assert (E : exists b, (i =? id) = b) by eauto; destruct E as [[|] E]; rewrite E |]; prj;
    rewrite ?G; prj; repeat split; discriminate.
Qed.

(* ---------- the failure of each request class does reach the funnel (step level) ---------- *)
Lemma join_fail_step : forall s rid k g rest, take_first (awaits (GJoin rid)) (gens s) = Some (g, rest) ->
  step s (EJoin rid (JFail k)) = (fst (gen_end (fst (rejoin_after_error k (set_gens rest s)))), snd (rejoin_after_error k (set_gens rest s))).
Proof.
  intros s rid k g rest T. cbn [step]. unfold on_join, with_gen. rewrite T. unfold seq.
  destruct (rejoin_after_error k (set_gens rest s)) as [s1 o1]. cbn. rewrite app_nil_r. reflexivity.
Qed.
Lemma sync_fail_step : forall s rid k g rest, take_first (awaits (GSync rid)) (gens s) = Some (g, rest) ->
  step s (ESync rid (SFail k)) = (fst (gen_end (fst (rejoin_after_error k (set_gens rest s)))), snd (rejoin_after_error k (set_gens rest s))).
Proof.
  intros s rid k g rest T. cbn [step]. unfold on_sync, with_gen. rewrite T. unfold seq.
  destruct (rejoin_after_error k (set_gens rest s)) as [s1 o1]. cbn. rewrite app_nil_r. reflexivity.
Qed.
Lemma meta_fail_step : forall s rid k g rest, take_first (awaits (GMeta rid)) (gens s) = Some (g, rest) -> is_kafka k = true ->
  step s (EMeta rid (RFail k)) = rejoin_after_error k (set_rejoin_d None (set_gens rest s)).
Proof.
  intros s rid k g rest T K. cbn [step]. unfold on_meta, with_gen. rewrite T. unfold gen_fail, seq, gen_end, upd. rewrite K.
  destruct (rejoin_after_error k _) as [s1 o1]. reflexivity.
Qed.
Lemma parts_fail_step : forall s rid k g rest, take_first (awaits (GParts rid)) (gens s) = Some (g, rest) -> is_kafka k = true ->
  step s (EParts rid (PFail k)) = rejoin_after_error k (set_rejoin_d None (set_gens rest s)).
Proof.
  intros s rid k g rest T K. cbn [step]. unfold on_parts, with_gen. rewrite T. unfold gen_fail, seq, gen_end, upd. rewrite K.
  destruct (rejoin_after_error k _) as [s1 o1]. reflexivity.
Qed.
Lemma hb_fail_step : forall s rid k, hb_req s = Some rid -> hb_running s = true ->
  step s (EHbReply rid (RFail k)) =
  (fst (rejoin_after_error k (set_hb_running false (set_hb_req None s))),
   OCancelTimer THeartbeat 0 :: snd (rejoin_after_error k (set_hb_running false (set_hb_req None s)))).
Proof.
  intros s rid k Hq Hr. cbn [step]. unfold on_hb_reply. rewrite Hq, Z.eqb_refl.
  replace (hb_running (set_hb_req None s)) with true by (ds s; cbn in *; auto).
  unfold seq, hb_stop. destruct (rejoin_after_error k _) as [s1 o1]. reflexivity.
Qed.

(* ---------- coordinator moved / unavailable / silent: the cached coordinator is forgotten, so that the rejoin looks it up again ---------- *)
Definition forgets_coordinator (k : ekind) : bool := match k with KCna | KNotCoord | KTimeout => true | _ => false end.
Lemma coordinator_forgotten : forall k s, forgets_coordinator k = true -> In OReset (snd (rejoin_after_error k s)).
Proof.
  intros k s Hk. destruct k; try discriminate; cbn [rejoin_after_error]; unfold seq, emit.
  - destruct (resched DRetry s). cbn. auto.
  - destruct (resched DRetry s). cbn. auto.
  - destruct (on_group_leave s) as [s1 o1]. destruct (resched DFatal s1). cbn. apply in_or_app. right. cbn. auto.
Qed.
