(* Shared vocabulary for all models: case lines are [list Z]; bytes are Z in 0..255. *)
From Coq Require Export ZArith List Bool.
Export ListNotations.
Open Scope Z_scope.

Fixpoint list_eqb {A} (eqb : A -> A -> bool) (a b : list A) : bool :=
  match a, b with
  | [], [] => true
  | x :: a', y :: b' => eqb x y && list_eqb eqb a' b'
  | _, _ => false
  end.

Definition zlist_eqb := list_eqb Z.eqb.

(* split a list at n *)
Fixpoint take {A} (n : nat) (l : list A) : list A :=
  match n, l with
  | O, _ => []
  | S n', x :: l' => x :: take n' l'
  | S _, [] => []
  end.
Fixpoint drop {A} (n : nat) (l : list A) : list A :=
  match n, l with
  | O, _ => l
  | S n', _ :: l' => drop n' l'
  | S _, [] => []
  end.

(* length-prefixed sub-list decoding used by case lines:  n x1..xn rest *)
Definition take_lp (l : list Z) : option (list Z * list Z) :=
  match l with
  | [] => None
  | n :: r =>
      if (n <? 0) then None
      else let k := Z.to_nat n in
           if (Nat.leb k (length r)) then Some (take k r, drop k r) else None
  end.

Definition is_byte (b : Z) : bool := (0 <=? b) && (b <? 256).
Definition bytes_ok (l : list Z) : bool := forallb is_byte l.
