(* C03 - commits never run ahead of successfully processed messages.
   Theorem statements only; proofs live in Proofs/ConsumerC02*.v / ConsumerC03*.v.  Model: Model/Consumer.v
   (afkak/consumer.py:290-1131), monitors: Model/ConsumerLog.v. *)
From AV Require Import Base.Util Model.Consumer Model.ConsumerLog Proofs.ConsumerC02ReqRun Proofs.ConsumerC02PwRun.

(* At most one commit request is in flight, and the public last_committed_offset (read at the end of every step) only
   ever holds the offset carried by a commit request the broker acknowledged or the offset an offset-fetch reply
   reported: the monitor REQ (Model/ConsumerLog.v; it rejects an OCommit while a commit request is outstanding and an
   end-of-step last_committed_offset different from the last acknowledged / reported value) accepts the run of the
   model for every configuration and every event list that does not exhaust the interpreter's fuel. *)
Theorem C03_single_commit_committed_is_acked : forall fuel c maxatt buf evs,
  run_fuel_ok fuel c maxatt buf evs = true ->
  mon_run req_ev req_out q0 (model_obs fuel c maxatt buf evs)
  = Some (req_abs (fst (run_events fuel (init c maxatt buf) evs))).
Proof. exact req_monitor_accepts. Qed.
Print Assumptions C03_single_commit_committed_is_acked.

(* Every commit request carries the offset of the last message of the most recent processor invocation that completed
   SUCCESSFULLY (returned normally, or returned a Deferred that later fired with a result) - never the offset of a block
   that is still being processed, failed, or was cancelled - and the public last_processed_offset read at the end of
   every step is that offset: the monitor PW (Model/ConsumerLog.v; it learns of completions only from the plan oracle,
   the return of the processor and EProcFire, and rejects an OCommit / end-of-step last_processed_offset that differs
   from the last successful completion) accepts the run of the model, for every configuration with
   auto_commit_every_n >= 0 and every event list that does not exhaust the interpreter's fuel. *)
Theorem C03_commit_is_last_processed : forall fuel c maxatt buf evs,
  0 <= c_acn c -> run_fuel_ok fuel c maxatt buf evs = true ->
  mon_run pw_ev pw_out pw0 (model_obs fuel c maxatt buf evs)
  = Some (pw_abs None (fst (run_events fuel (init c maxatt buf) evs))).
Proof. exact pw_monitor_accepts. Qed.
Print Assumptions C03_commit_is_last_processed.

(* ---- non-vacuity ---- *)
(* a commit of an offset whose block has been handed to the processor but not completed is rejected *)
Example pw_rejects_commit_ahead :
  mon_run pw_ev pw_out pw0 [(EFetchOk [4; 5] false, [OCallProc [4; 5]; OCommit (Some 5) (-1)])] = None.
Proof. reflexivity. Qed.
(* block [42;43] fails in the processor: nothing is committed, last_processed stays None *)
Example failed_block_ex :
  let c := mkCfg true 2 false 0 None 17 in
  let evs := [EStart 42; EPlan 0 1; EFetchOk [42; 43; 44; 45] false; ECommit] in
  run_fuel_ok 30 c 0 4096 evs = true /\
  mon_run pw_ev pw_out pw0 (model_obs 30 c 0 4096 evs) = Some (mkPW PIdle [] None).
Proof. vm_compute. split; reflexivity. Qed.
(* the monitor rejects a second commit request in flight and an unacknowledged last_committed_offset *)
Example rejects_second_commit :
  mon_run req_ev req_out q0 [(ECommit, [OCommit (Some 4) (-1); OCommit (Some 5) (-1)])] = None.
Proof. reflexivity. Qed.
Example rejects_unacked : mon_run req_ev req_out q0 [(ECommit, [OCommit (Some 4) (-1); OEnd (Some 4) (Some 4)])] = None.
Proof. reflexivity. Qed.
(* a run with an auto-commit by count, its acknowledgement, and a resume position reported by an offset fetch *)
Example commit_ex :
  let c := mkCfg true 2 false 0 None 17 in
  let evs := [EStart (-101); EReqOk 41; EPlan 0 0; EFetchOk [42; 43; 44] false; ECommitOk] in
  run_fuel_ok 30 c 0 4096 evs = true /\
  mon_run req_ev req_out q0 (model_obs 30 c 0 4096 evs) = Some (mkQ None true None (Some 43)).
Proof. vm_compute. split; reflexivity. Qed.
