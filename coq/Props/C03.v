(* C03 - commits never run ahead of successfully processed messages.
   Theorem statements only; proofs live in Proofs/ConsumerC02*.v / ConsumerC03*.v.  Model: Model/Consumer.v
   (afkak/consumer.py:290-1131), monitors: Model/ConsumerLog.v, ConsumerLogFifo.v, ConsumerLogSeg.v (REQ, PW, LOG) and
   Model/ConsumerLogC03.v (PWB, C3, REQ2).
   A monitor reads a run of the model as the harness reads a run of the implementation - the events injected, the
   calls and Deferred outcomes produced - and rejects when the clause it restates is violated; a theorem says that no
   run of the model is rejected, for every configuration and EVERY event list (the fuel hypothesis only excludes
   runs on which the interpreter of the re-entrant methods gave up; C13_fuel_monotone).  Process death needs no event:
   every prefix of an event list is an event list, so every statement holds at every crash point. *)
From AV Require Import Base.Util Model.Consumer Model.ConsumerLog Model.ConsumerLogFifo Model.ConsumerLogSeg Model.ConsumerLogC03
  Proofs.ConsumerC02ReqRun Proofs.ConsumerC02PwRun Proofs.ConsumerC03PwbRun Proofs.ConsumerC03Commit Proofs.ConsumerC03CommitRun
  Proofs.ConsumerC03Req2Run Proofs.ConsumerC03Resume Proofs.ConsumerC03NoFuel Proofs.ConsumerC03Crash.

(* At most one commit request is in flight, and the public last_committed_offset (read at the end of every step) only
   ever holds the offset carried by a commit request the broker acknowledged or the offset an offset-fetch reply
   reported: the monitor REQ (Model/ConsumerLog.v; it rejects an OCommit while a commit request is outstanding and an
   end-of-step last_committed_offset different from the last acknowledged / reported value) accepts the run of the
   model for every configuration and every event list that does not exhaust the interpreter's fuel. *)
Theorem C03_single_commit_committed_is_acked : forall fuel c maxatt buf evs,
  run_fuel_ok fuel c maxatt buf evs = true ->
  mon_run req_ev req_out q0 (model_obs fuel c maxatt buf evs)
  = Some (req_abs (fst (run_events fuel (init c maxatt buf) evs))).
Proof. exact req_monitor_accepts. Qed.
Print Assumptions C03_single_commit_committed_is_acked.

(* ... including retries: the monitor REQ2 (REQ plus the commit-retry DelayedCall) moreover rejects arming the retry
   timer while a commit request is outstanding or the timer is already armed, and sending a commit request while the
   timer is armed (its own firing disarms it first).  Hence "a commit request is outstanding" and "a retry is pending"
   are mutually exclusive at every moment of every run, and each holds at most once.  ("Outstanding" is from the
   consumer's point of view: not answered and not cancelled by it; a request cancelled by stop() may still reach the
   coordinator - see C03_store_is_processed, which does not depend on which request the coordinator applies.) *)
Theorem C03_single_commit : forall fuel c maxatt buf evs,
  run_fuel_ok fuel c maxatt buf evs = true ->
  mon_run req2_ev req2_out q20 (model_obs fuel c maxatt buf evs)
  = Some (req2_abs (fst (run_events fuel (init c maxatt buf) evs))).
Proof. exact req2_monitor_accepts. Qed.
Print Assumptions C03_single_commit.

(* Every commit request carries the offset of the last message of the most recent processor invocation that completed
   SUCCESSFULLY (returned normally, or returned a Deferred that later fired with a result) - never the offset of a block
   that is still being processed, failed, or was cancelled - and the public last_processed_offset read at the end of
   every step is that offset: the monitor PW (Model/ConsumerLog.v; it learns of completions only from the plan oracle,
   the return of the processor and EProcFire, and rejects an OCommit / end-of-step last_processed_offset that differs
   from the last successful completion) accepts the run of the model, for every configuration with
   auto_commit_every_n >= 0 and every event list that does not exhaust the interpreter's fuel. *)
Theorem C03_commit_is_last_processed : forall fuel c maxatt buf evs,
  0 <= c_acn c -> run_fuel_ok fuel c maxatt buf evs = true ->
  mon_run pw_ev pw_out pw0 (model_obs fuel c maxatt buf evs)
  = Some (pw_abs None (fst (run_events fuel (init c maxatt buf) evs))).
Proof. exact pw_monitor_accepts. Qed.
Print Assumptions C03_commit_is_last_processed.

(* After a processor invocation FAILED nothing further is delivered (fix 55bad16 / F-C03-1): the monitor PWB
   (Model/ConsumerLogC03.v) is PW plus one bit, set when an invocation is seen to fail - it raised, the Deferred it
   returned failed, or the consumer cancelled it - and cleared only by an accepted start(); PWB rejects every
   processor invocation while the bit is set.  It accepts every run; between events its window part is the function
   pw_abs None of the model state and a set bit implies that the consumer is stopped or its start Deferred has fired.
   (PW alone would accept "block [4,5] raises, block [6,7] succeeds, commit 7": pwb_rejects_after_failure below.) *)
Theorem C03_no_delivery_after_failure : forall fuel c maxatt buf evs,
  0 <= c_acn c -> run_fuel_ok fuel c maxatt buf evs = true ->
  exists b, mon_run_s pwb_ev pwb_out pwb0 (run_steps fuel (init c maxatt buf) evs)
            = Some (mkPB (pw_abs None (fst (run_events fuel (init c maxatt buf) evs))) b)
            /\ (b = true -> dead (fst (run_events fuel (init c maxatt buf) evs)) = true).
Proof. exact pwb_monitor_accepts. Qed.
Print Assumptions C03_no_delivery_after_failure.

(* commit_le_processed at full strength: the monitor C3 (Model/ConsumerLogC03.v) keeps, since the last accepted start(),
   the messages handed to the processor (m_D) and those of the invocations that completed successfully (m_ok), both in
   order; it rejects what PWB rejects, and a commit request unless (commit_ok) its offset is the last offset of the most
   recent successful invocation, m_ok is a PREFIX of m_D - everything delivered before a processed message has been
   processed - and, if anything was processed since that start(), the offset is the last of m_ok.  C3 accepts every
   run, and its state satisfies c3_inv (Proofs/ConsumerC03Commit.v): m_D = m_ok ++ the block in progress (++ the failed
   block, after which nothing is delivered); last_processed is the end of m_ok; the bookkeeping of the coordinator's
   store (C03_store_is_processed).
   Scope: "since the last accepted start()".  A consumer that is stopped and started again at a LOWER explicit offset
   re-delivers messages below last_processed_offset, and a commit then carries the old value: the clause is about one
   start position, as is the harness monitor. *)
Theorem C03_commit_le_processed : forall fuel c maxatt buf evs,
  0 <= c_acn c -> run_fuel_ok fuel c maxatt buf evs = true ->
  exists g, mon_run_s c3_ev c3_out c30 (run_steps fuel (init c maxatt buf) evs) = Some g
            /\ c3_inv g
            /\ b_pw (m_b g) = pw_abs None (fst (run_events fuel (init c maxatt buf) evs))
            /\ (b_bad (m_b g) = true -> dead (fst (run_events fuel (init c maxatt buf) evs)) = true).
Proof. exact c3_monitor_accepts. Qed.
Print Assumptions C03_commit_le_processed.

(* ... read in terms of offsets: whenever C3's commit rule holds and the messages of this start position were delivered
   in increasing offset order (C02_extract_ordered / C02_delivered_is_log_segment: what one start position delivers is
   a segment of the log), EVERY delivered message with an offset at or below the committed one has been processed
   successfully. *)
Theorem C03_commit_le_processed_offsets : forall g off l,
  commit_ok g off = true -> m_ok g <> [] -> off = Some l -> increasing (m_D g) ->
  forall x, In x (m_D g) -> x <= l -> In x (m_ok g).
Proof. exact commit_le_processed. Qed.
Print Assumptions C03_commit_le_processed_offsets.

(* The coordinator's offset store only ever holds the end of a successfully processed block.  C3 keeps m_ends (the
   last offset of every successfully completed invocation of the whole run), m_sent (the offset carried by every commit
   request ever sent), m_co (the one outstanding) and m_store, the store of an honest coordinator: a commit request
   answered with error 0 (ECommitOk while a request is outstanding) stores the offset that request carried and nothing
   else changes it.  In every run: m_store, every element of m_sent and m_co are None or an element of m_ends
   (processed_end).  Because EVERY request ever sent carries such an offset, the same holds for a coordinator that
   applies a request whose answer was lost, or one that stop() had cancelled: whatever it stored, it received in a
   request.  Hence at every crash point the stored offset is the end of a successfully processed block, before which -
   by C03_commit_le_processed - everything delivered since that start() had been processed. *)
Theorem C03_store_is_processed : forall fuel c maxatt buf evs,
  0 <= c_acn c -> run_fuel_ok fuel c maxatt buf evs = true ->
  exists g, mon_run_s c3_ev c3_out c30 (run_steps fuel (init c maxatt buf) evs) = Some g
            /\ processed_end g (m_store g) /\ Forall (processed_end g) (m_sent g)
            /\ match m_co g with Some off => processed_end g off | None => True end.
Proof. exact c3_store. Qed.
Print Assumptions C03_store_is_processed.

(* Resume, the consumer's side.  A fresh consumer with a group, started with OFFSET_COMMITTED, asks the coordinator for
   the stored offset and nothing else ... *)
Theorem C03_resume_asks_coordinator : forall fuel c m b, c_group c = true ->
  step fuel (init c m b) (EStart OFF_COMMITTED)
  = (after_start c m b, [OOffFetch] ++ (if c_acs c then [OSched T_LOOPER (-1)] else []) ++ [ORet 0; OEnd None None]).
Proof. exact resume_first_step. Qed.
Print Assumptions C03_resume_asks_coordinator.
(* ... and when the coordinator answers with the stored offset v it records v as last_committed_offset and fetches from
   EXACTLY v + 1 (consumer.py:606-616): the committed message is not fetched again and nothing after it is skipped ... *)
Theorem C03_resume_position : forall fuel c m b v, 0 <= v ->
  step fuel (after_start c m b) (EReqOk v)
  = (resumed c m b v, [OFetch (v + 1) b; OEnd None (Some v)])
  /\ s_foff (resumed c m b v) = v + 1 /\ s_lc (resumed c m b v) = Some v.
Proof. intros. split; [apply resume_second_step; assumption | split; reflexivity]. Qed.
Print Assumptions C03_resume_position.
(* ... and with nothing stored (-1) it resolves its position by the auto_offset_reset policy instead (and records
   last_committed_offset = None: F-C03-4, fix b73c7f1). *)
Theorem C03_resume_nothing_stored : forall fuel c m b,
  snd (step fuel (after_start c m b) (EReqOk (-1)))
  = [OOffReq (if c_reset c =? 2 then OFF_LATEST else OFF_EARLIEST); OEnd None None].
Proof. exact resume_none_step. Qed.
Print Assumptions C03_resume_nothing_stored.

(* Resume, end to end: the second life.  A fresh consumer is started with OFFSET_COMMITTED against a coordinator that
   answers v, and an honest broker over ANY log L with increasing offsets (every accepted fetch reply is a contiguous
   run of L starting at or before the first entry at or above the offset asked for, cut anywhere: honest_run), for
   EVERY continuation rest of the event list during which the position is not resolved again (no accepted start(), no
   accepted offset reply, no OffsetOutOfRange reset: no_resolve).  Then the monitor LOG of C02 accepts the run and:
   what the processor has received (l_D) followed by what is queued for it (l_g) is EXACTLY the log from the first
   entry above v up to the next unread offset n - seg (v + 1) n L - every entry once, in order, none at or below v. *)
Theorem C03_resume : forall fuel c maxatt buf v rest L,
  c_group c = true -> 0 <= c_acn c -> 0 <= v -> increasing L ->
  run_fuel_ok fuel c maxatt buf (EStart OFF_COMMITTED :: EReqOk v :: rest) = true ->
  honest_run L 0 (run_steps fuel (init c maxatt buf) (EStart OFF_COMMITTED :: EReqOk v :: rest)) ->
  no_resolve (run_steps fuel (resumed c maxatt buf v) rest) = true ->
  exists gh, mon_run_s log_ev log_out log0 (run_steps fuel (init c maxatt buf) (EStart OFF_COMMITTED :: EReqOk v :: rest)) = Some gh
             /\ l_D gh ++ l_g gh = l_E gh
             /\ (forall n, l_nx gh = Some n -> v + 1 <= n /\ l_E gh = seg (v + 1) n L)
             /\ (l_nx gh = None -> l_D gh = [] /\ l_g gh = []).
Proof. exact resume_run. Qed.
Print Assumptions C03_resume.

(* Crash and resume, the two lives joined.  First life: ANY configuration and event list, cut anywhere (process death);
   C3 accepts it, and if the honest coordinator's store then holds v: v is the last offset of a block the first life
   processed SUCCESSFULLY (and, by C3's commit rule at the moment the request carrying v was sent, everything that start
   position had delivered before that block had been processed).  Second life: a fresh consumer started with
   OFFSET_COMMITTED that is told THAT v, against an honest broker over any increasing log, position not resolved again:
   what it hands to the processor followed by what it has queued is exactly log[v+1, next unread): every delivered
   message has an offset above v - nothing at or below the committed offset is redelivered, nothing above it is skipped.
   At-least-once, exactly: messages the first life processed AFTER the block ending at v (processed but not yet
   acknowledged as committed) lie above v and ARE delivered again (crash_resume_ex: 44). *)
Theorem C03_crash_resume : forall fuel1 c1 maxatt1 buf1 evs1 fuel2 c2 maxatt2 buf2 rest L,
  0 <= c_acn c1 -> run_fuel_ok fuel1 c1 maxatt1 buf1 evs1 = true ->
  exists g1, mon_run_s c3_ev c3_out c30 (run_steps fuel1 (init c1 maxatt1 buf1) evs1) = Some g1 /\ c3_inv g1 /\
  forall v, m_store g1 = Some v ->
    In v (m_ends g1) /\
    (c_group c2 = true -> 0 <= c_acn c2 -> 0 <= v -> increasing L ->
     run_fuel_ok fuel2 c2 maxatt2 buf2 (EStart OFF_COMMITTED :: EReqOk v :: rest) = true ->
     honest_run L 0 (run_steps fuel2 (init c2 maxatt2 buf2) (EStart OFF_COMMITTED :: EReqOk v :: rest)) ->
     no_resolve (run_steps fuel2 (resumed c2 maxatt2 buf2 v) rest) = true ->
     exists gh, mon_run_s log_ev log_out log0 (run_steps fuel2 (init c2 maxatt2 buf2) (EStart OFF_COMMITTED :: EReqOk v :: rest)) = Some gh
                /\ l_D gh ++ l_g gh = l_E gh
                /\ (forall n, l_nx gh = Some n -> v + 1 <= n /\ l_E gh = seg (v + 1) n L)
                /\ (l_nx gh = None -> l_D gh = [] /\ l_g gh = [])
                /\ (forall x, In x (l_D gh) -> v < x)).
Proof. exact crash_resume. Qed.
Print Assumptions C03_crash_resume.

(* ---- without the fuel hypothesis ----
   By fuel_enough (Proofs/ConsumerFuelEnoughRun.v): every run from a configuration with auto_commit_every_n >= 0 has a
   fuel f0 from which on the interpreter never gives up; the run-level theorems above therefore hold for every event
   list outright (stated as ONE theorem: Print Assumptions over fuel_enough is slow), at every fuel >= f0 (the run itself no longer depends on the fuel there: C13_fuel_monotone). *)
Theorem C03_run_theorems_any_fuel : forall c maxatt buf evs, 0 <= c_acn c -> exists f0, forall fuel, (f0 <= fuel)%nat ->
  (* C03_no_delivery_after_failure *)
  (exists b, mon_run_s pwb_ev pwb_out pwb0 (run_steps fuel (init c maxatt buf) evs)
             = Some (mkPB (pw_abs None (fst (run_events fuel (init c maxatt buf) evs))) b)
             /\ (b = true -> dead (fst (run_events fuel (init c maxatt buf) evs)) = true)) /\
  (* C03_commit_le_processed and C03_store_is_processed *)
  (exists g, mon_run_s c3_ev c3_out c30 (run_steps fuel (init c maxatt buf) evs) = Some g
             /\ c3_inv g
             /\ b_pw (m_b g) = pw_abs None (fst (run_events fuel (init c maxatt buf) evs))
             /\ processed_end g (m_store g) /\ Forall (processed_end g) (m_sent g)
             /\ match m_co g with Some off => processed_end g off | None => True end) /\
  (* C03_single_commit (and with it C03_single_commit_committed_is_acked) *)
  mon_run req2_ev req2_out q20 (model_obs fuel c maxatt buf evs) = Some (req2_abs (fst (run_events fuel (init c maxatt buf) evs))).
Proof. exact c03_any_fuel. Qed.
Print Assumptions C03_run_theorems_any_fuel.
Theorem C03_resume_any_fuel : forall c maxatt buf v rest L,
  c_group c = true -> 0 <= c_acn c -> 0 <= v -> increasing L ->
  exists f0, forall fuel, (f0 <= fuel)%nat ->
  honest_run L 0 (run_steps fuel (init c maxatt buf) (EStart OFF_COMMITTED :: EReqOk v :: rest)) ->
  no_resolve (run_steps fuel (resumed c maxatt buf v) rest) = true ->
  exists gh, mon_run_s log_ev log_out log0 (run_steps fuel (init c maxatt buf) (EStart OFF_COMMITTED :: EReqOk v :: rest)) = Some gh
             /\ l_D gh ++ l_g gh = l_E gh
             /\ (forall n, l_nx gh = Some n -> v + 1 <= n /\ l_E gh = seg (v + 1) n L)
             /\ (l_nx gh = None -> l_D gh = [] /\ l_g gh = []).
Proof. exact resume_any_fuel. Qed.
Print Assumptions C03_resume_any_fuel.

(* ---- non-vacuity ---- *)
(* a commit of an offset whose block has been handed to the processor but not completed is rejected *)
Example pw_rejects_commit_ahead :
  mon_run pw_ev pw_out pw0 [(EFetchOk [4; 5] false, [OCallProc [4; 5]; OCommit (Some 5) (-1)])] = None.
Proof. reflexivity. Qed.
(* block [42;43] fails in the processor: nothing is committed, last_processed stays None *)
Example failed_block_ex :
  let c := mkCfg true 2 false 0 None 17 in
  let evs := [EStart 42; EPlan 0 1; EFetchOk [42; 43; 44; 45] false; ECommit] in
  run_fuel_ok 30 c 0 4096 evs = true /\
  mon_run pw_ev pw_out pw0 (model_obs 30 c 0 4096 evs) = Some (mkPW PIdle [] None).
Proof. vm_compute. split; reflexivity. Qed.
(* ... the rest of the reply, [44;45], is NOT handed on, PWB's failure bit is set and the start Deferred has failed *)
Example failed_block_pwb_ex :
  let c := mkCfg true 2 false 0 None 17 in
  let evs := [EStart 42; EPlan 0 1; EFetchOk [42; 43; 44; 45] false; ECommit] in
  mon_run_s pwb_ev pwb_out pwb0 (run_steps 30 (init c 0 4096) evs) = Some (mkPB (mkPW PIdle [] None) true) /\
  nth 2 (model_obs 30 c 0 4096 evs) (ETick, [])
  = (EFetchOk [42; 43; 44; 45] false, [OCallProc [42; 43]; OStartD false 10; OSched 1 (-1); OEnd None None]).
Proof. vm_compute. split; reflexivity. Qed.
(* the trace the audit found PW to accept - a failed block, then another block and a commit of its end - : PW accepts, PWB rejects *)
Example pwb_rejects_after_failure :
  let outs := [OCallProc [4; 5]; OCallProc [6; 7]; OCommit (Some 7) 0] in
  gouts pw_out (mkPW PIdle [(0, 1); (0, 0)] None) outs = Some (mkPW PIdle [] (Some 7)) /\
  gouts pwb_out (mkPB (mkPW PIdle [(0, 1); (0, 0)] None) false) outs = None.
Proof. split; reflexivity. Qed.
(* C3's commit rule rejects a commit while an earlier delivered message is unprocessed *)
Example c3_rejects_gap :
  commit_ok (mkC3 (mkPB (mkPW PIdle [] (Some 7)) false) [] [4; 5; 6; 7] [6; 7] [7] None [] None) (Some 7) = false.
Proof. reflexivity. Qed.
(* the monitor rejects a second commit request in flight and an unacknowledged last_committed_offset *)
Example rejects_second_commit :
  mon_run req_ev req_out q0 [(ECommit, [OCommit (Some 4) (-1); OCommit (Some 5) (-1)])] = None.
Proof. reflexivity. Qed.
Example rejects_unacked : mon_run req_ev req_out q0 [(ECommit, [OCommit (Some 4) (-1); OEnd (Some 4) (Some 4)])] = None.
Proof. reflexivity. Qed.
(* REQ2 rejects a retry armed while the request is still outstanding, and a request sent while a retry is armed *)
Example req2_rejects :
  mon_run req2_ev req2_out q20 [(ECommit, [OCommit (Some 4) 0; OSched T_COMMIT 1])] = None /\
  mon_run req2_ev req2_out q20 [(ECommit, [OCommit (Some 4) 0]); (ECommitFail 1, [OSched T_COMMIT 1; OCommit (Some 4) 0])] = None.
Proof. split; reflexivity. Qed.
(* a run with an auto-commit by count, its acknowledgement, and a resume position reported by an offset fetch *)
Example commit_ex :
  let c := mkCfg true 2 false 0 None 17 in
  let evs := [EStart (-101); EReqOk 41; EPlan 0 0; EFetchOk [42; 43; 44] false; ECommitOk] in
  run_fuel_ok 30 c 0 4096 evs = true /\
  mon_run req_ev req_out q0 (model_obs 30 c 0 4096 evs) = Some (mkQ None true None (Some 43)).
Proof. vm_compute. split; reflexivity. Qed.
(* a commit that fails retriably, the retry timer, its firing re-sends, the acknowledgement: REQ2 and C3 follow; the
   store ends at 43, the end of the processed block [42;43]; both requests carried it *)
Example commit_retry_ex :
  let c := mkCfg true 2 false 0 None 17 in
  let evs := [EStart 42; EPlan 0 0; EFetchOk [42; 43] false; ECommitFail 1; EFireCommitRetry; ECommitOk] in
  run_fuel_ok 30 c 0 4096 evs = true /\
  mon_run req2_ev req2_out q20 (model_obs 30 c 0 4096 (firstn 4 evs)) = Some (mkQ2 (mkQ None true None None) true) /\
  mon_run req2_ev req2_out q20 (model_obs 30 c 0 4096 evs) = Some (mkQ2 (mkQ None true None (Some 43)) false) /\
  mon_run_s c3_ev c3_out c30 (run_steps 30 (init c 0 4096) evs)
  = Some (mkC3 (mkPB (mkPW PIdle [] (Some 43)) false) [] [42; 43] [42; 43] [43] None [Some 43; Some 43] (Some 43)).
Proof. vm_compute. repeat split; reflexivity. Qed.
(* the second life over the log [3;4;7;8;9;15;16] (compaction gaps) with 4 stored: the consumer asks for 5, receives
   the honest reply [7;8;9], and the processor gets exactly log[5,10) = [7;8;9] - nothing at or below 4, nothing skipped *)
Example resume_ex :
  let c := mkCfg true 2 false 0 None 17 in
  let L := [3; 4; 7; 8; 9; 15; 16] in
  let rest := [EPlan 0 0; EFetchOk [7; 8; 9] false] in
  let evs := EStart OFF_COMMITTED :: EReqOk 4 :: rest in
  run_fuel_ok 30 c 0 4096 evs = true /\ no_resolve (run_steps 30 (resumed c 0 4096 4) rest) = true /\
  mon_run_s log_ev log_out log0 (run_steps 30 (init c 0 4096) evs) = Some (mkL 5 (Some 10) 5 [7; 8; 9] [] [] [7; 8; 9]) /\
  seg 5 10 L = [7; 8; 9].
Proof. vm_compute. repeat split; reflexivity. Qed.
Example resume_ex_honest :
  honest_run [3; 4; 7; 8; 9; 15; 16] 0
    (run_steps 30 (init (mkCfg true 2 false 0 None 17) 0 4096) [EStart OFF_COMMITTED; EReqOk 4; EPlan 0 0; EFetchOk [7; 8; 9] false]).
Proof.
  match goal with |- honest_run _ _ ?t => set (tr := t) end. vm_compute in tr. subst tr.
  cbn [honest_run last_fetch fold_left]. repeat split.
  intros _. exists [3; 4], [15; 16]. split; [reflexivity | repeat constructor].
Qed.
(* two lives: the first processes [42;43] (commit of 43 acknowledged) and then [44] (processed, not committed) and dies;
   the store holds 43, an end of a processed block; the second life, told 43, receives [44;45]: 44 once more, 43 never *)
Example crash_resume_ex :
  let c := mkCfg true 2 false 0 None 17 in
  let evs1 := [EStart 42; EPlan 0 0; EFetchOk [42; 43; 44] false; ECommitOk; EPlan 0 0; EProcFire true] in
  let rest := [EPlan 0 0; EFetchOk [44; 45] false] in
  (exists g1, mon_run_s c3_ev c3_out c30 (run_steps 30 (init c 0 4096) evs1) = Some g1 /\
              m_store g1 = Some 43 /\ m_ends g1 = [43; 44] /\ m_ok g1 = [42; 43; 44]) /\
  (exists gh, mon_run_s log_ev log_out log0 (run_steps 30 (init c 0 4096) (EStart OFF_COMMITTED :: EReqOk 43 :: rest)) = Some gh /\
              l_D gh = [44; 45] /\ l_st gh = 44).
Proof. split; eexists; vm_compute; repeat split; reflexivity. Qed.
