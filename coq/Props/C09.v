(* C09 - Per-partition send order, one payload per message per attempt, serial batches, disciplined retries,
   attempt bound and back-off of afkak.producer.Producer.
   Theorem statements only; proofs live in Proofs/ProducerInv.v, ProducerC09.v, ProducerBackoffQ.v.  Never weaken here.
   Model: Model/Producer.v.  ODispatch / OBatchDone are ghost markers of _send_batch taking the queue and of
   _complete_batch_send; OSendProduce a m pls = client.send_produce_request number a of the batch with payloads pls
   (message ids (send id, index) in order); OSched tid k kind = reactor.callLater(init * F^k). *)
From AV Require Import Base.Util Model.Producer Proofs.ProducerBase Proofs.ProducerInv Proofs.ProducerC09 Proofs.ProducerC09b
  Proofs.ProducerC09c Proofs.ProducerBackoffQ.
From AV Require Proofs.ProducerC01Spec.
From Coq Require Import QArith Sorted.
Open Scope Z_scope.

(* Every output trace of every run is accepted by the automaton mon_step (Proofs/ProducerC09.v), which allows
   ODispatch only when no batch is in flight, OBatchDone / requests / timers only when one is, OSched only with the
   next back-off index (0,1,2,.. from the dispatch), OSendProduce only with the next attempt number (1,2,..) and
   never above max(1, max_req_attempts).  The corollaries below spell out what acceptance means. *)
Theorem C09_trace_accepted : forall c has_t api0 cache0 evs s tr,
  run c (init_state has_t api0 cache0) evs = (s, tr) -> mon_run c m0 (outs_of tr) = Some (mon_of s).
Proof. exact trace_accepted. Qed.
Print Assumptions C09_trace_accepted.
Theorem C09_step_accepted : forall c s e s' out, Inv s -> PInv c s -> step c s e = (s', out) ->
  PInv c s' /\ mon_run c (mon_of s) out = Some (mon_of s').
Proof. exact step_c09. Qed.
Print Assumptions C09_step_accepted.

(* A later batch is never dispatched while an earlier one is unresolved. *)
Theorem C09_serial_batches : forall c m pre sids mid sids' post m',
  mon_run c m (pre ++ [ODispatch sids] ++ mid ++ [ODispatch sids'] ++ post) = Some m' -> In OBatchDone mid.
Proof. exact serial_batches. Qed.
Print Assumptions C09_serial_batches.

(* The number of produce attempts of a batch never exceeds max(1, max_req_attempts). *)
Theorem C09_attempt_bound : forall c outs m m', mon_run c m outs = Some m' -> 0 <= m_a m ->
  0 <= m_a m' /\ forall a mg v, In (OSendProduce a mg v) outs -> 1 <= a <= Z.max 1 (c_max c).
Proof. exact attempts_bounded. Qed.
Print Assumptions C09_attempt_bound.

(* Back-off: the first callLater after a dispatch has delay index 0, each further one of the same batch the next
   index; (the index is 0 again after the batch resolves: the next batch starts with a dispatch). *)
Theorem C09_backoff_first : forall c m pre sids mid t k kind post m',
  mon_run c m (pre ++ [ODispatch sids] ++ mid ++ [OSched t k kind] ++ post) = Some m' ->
  (forall o, In o mid -> not_sched_or_ghost o) -> k = 0.
Proof. exact backoff_first. Qed.
Print Assumptions C09_backoff_first.
Theorem C09_backoff_consecutive : forall c m pre t1 k1 kind1 mid t2 k2 kind2 post m',
  mon_run c m (pre ++ [OSched t1 k1 kind1] ++ mid ++ [OSched t2 k2 kind2] ++ post) = Some m' ->
  (forall o, In o mid -> not_sched_or_ghost o) -> k2 = k1 + 1.
Proof. exact backoff_consecutive. Qed.
Print Assumptions C09_backoff_consecutive.
(* ... and index k stands for the delay init * F^k, growing geometrically for any factor F > 1. *)
Theorem C09_delay_closed_form : forall init F k, (delay init F k == init * F ^ (Z.of_nat k))%Q.
Proof. exact delay_closed_form. Qed.
Print Assumptions C09_delay_closed_form.
Theorem C09_delay_grows : forall init F k, (0 < init)%Q -> (1 < F)%Q -> (delay init F k < delay init F (S k))%Q.
Proof. exact delay_grows. Qed.
Print Assumptions C09_delay_grows.

(* Only payloads that failed are retried: when a result leaves the batch unresolved, what is scheduled for the retry
   is a subset of the payloads of this attempt and contains no payload the broker acknowledged (error 0) ... *)
Theorem C09_retry_subset : forall c s pls cur v s' out, Inv s -> ph s = Sending pls cur -> result_ok c cur v = true ->
  step c s (EResult v) = (s', out) ->
  In OBatchDone out \/
  exists cur' tid, ph s' = RetryWait pls cur' tid /\ incl cur' cur /\
                   forall x off, In (x, 0, off) (resps_of v) -> ~ In x cur'.
Proof. exact retry_subset. Qed.
Print Assumptions C09_retry_subset.
(* ... in fact exactly the failed payloads: those whose broker request failed and those answered with an error code,
   or every payload of this attempt after a Kafka failure of the request as a whole (failed_tps). *)
Theorem C09_retry_exact : forall c s pls cur v s' out, Inv s -> ph s = Sending pls cur -> result_ok c cur v = true ->
  step c s (EResult v) = (s', out) ->
  In OBatchDone out \/
  (exists tid, ph s' = RetryWait pls (failed_tps v cur) tid /\ incl (failed_tps v cur) cur /\
               forall x off, In (x, 0, off) (resps_of v) -> ~ In x (failed_tps v cur)).
Proof. exact retry_exact. Qed.
Print Assumptions C09_retry_exact.
(* ... the retry sends exactly those payloads, with the messages they had in the first attempt, as the next attempt
   (this one is the unfolding of the model's retry step: its force comes from the correspondence) ... *)
Theorem C09_retry_resends : forall c s pls cur tid s' out, ph s = RetryWait pls cur tid -> broken s = false ->
  step c s (ETimer tid) = (s', out) ->
  out = [OSendProduce (nsp s + 1) (magic_of s) (map payload_view (filter (fun p => tpmem (p_tp p) cur) pls))] /\
  ph s' = Sending pls cur.
Proof. exact retry_resends. Qed.
Print Assumptions C09_retry_resends.
(* ... and every request riding on an acknowledged payload gets its outcome in the very step of the result. *)
Theorem C09_acked_reported : forall c s pls cur v s' out x off y, Inv s -> ph s = Sending pls cur -> result_ok c cur v = true ->
  step c s (EResult v) = (s', out) ->
  In (x, 0, off) (resps_of v) -> In y (sends_of pls x) -> In (s_id y) (outstanding s) -> In (s_id y) (oc out).
Proof. exact acked_reported. Qed.
Print Assumptions C09_acked_reported.

(* Never re-sent: once a batch has made its first attempt (payloads pls, of which cur may still be sent), every step
   either ends the batch or keeps pls and shrinks cur, and sends only payloads of cur; so over any continuation every
   produce request made before the batch ends stays inside cur - a payload that dropped out (acknowledged, above) is
   never sent again. *)
Theorem C09_shrink_step : forall c s e s' out pls cur, Inv s -> PInv c s -> sent_phase (ph s) pls cur ->
  step c s e = (s', out) ->
  In OBatchDone out \/
  (exists cur', sent_phase (ph s') pls cur' /\ incl cur' cur /\ sp_within cur out).
Proof. exact shrink_step. Qed.
Print Assumptions C09_shrink_step.
Theorem C09_never_resent : forall c evs s s' tr pls cur, Inv s -> PInv c s -> sent_phase (ph s) pls cur ->
  run c s evs = (s', tr) -> sp_within cur (until_done (outs_of tr)).
Proof. exact never_resent_run. Qed.
Print Assumptions C09_never_resent.

(* Per-partition order: over the whole trace of any run, the messages of first-attempt payloads for a topic-partition
   are strictly increasing in (send id, index within the send); send ids are submission order, so messages accepted for
   the same topic-partition reach the broker in the order the sends were made, none twice. *)
Theorem C09_order : forall c has_t api0 cache0 evs s tr x,
  run c (init_state has_t api0 cache0) evs = (s, tr) -> StronglySorted lex_lt (msgs_first x (outs_of tr)).
Proof. exact order_from_init. Qed.
Print Assumptions C09_order.
(* step form, from any state satisfying the invariants: the first-attempt messages of a step lie between the
   low-water marks (smallest send id not yet in a first attempt) of its two states, and the mark never moves down *)
Theorem C09_order_step : forall c s e s' out x, Inv s -> PInv c s -> step c s e = (s', out) ->
  StronglySorted lex_lt (msgs_first x out) /\
  Forall (fun m => low s <= fst m < low s') (msgs_first x out) /\ low s <= low s'.
Proof. exact order_step. Qed.
Print Assumptions C09_order_step.

(* Completeness (what makes C09_order / C09_one_payload say something about what IS sent): in every honest run (every
   result accounts for every payload of its request; building / handing over a request does not raise - see
   Props/C01.v) every accepted send - well-formed arguments, made at any time - has fired (acknowledged, failed,
   cancelled, refused), or still waits for its first attempt (pend s: queued, or its batch is looking up partitions /
   the API version), or its messages were in the FIRST attempt of a batch.  C19_dispatch_iff / C19_no_starvation say
   when the queue is flushed, so no accepted, uncancelled message is silently dropped. *)
Theorem C09_complete : forall c has_t api0 cache0 evs s tr, ProducerC01Spec.honest evs ->
  run c (init_state has_t api0 cache0) evs = (s, tr) ->
  forall x, In x (ProducerC01Spec.accepted 0 evs) ->
  In (s_id x) (ProducerC01Spec.fired tr) \/ In (s_id x) (pend s) \/ In (s_id x) (first_wire (outs_of tr)).
Proof. exact complete_run. Qed.
Print Assumptions C09_complete.
(* "unresolved" in C09_serial_batches: when no batch is in flight every send still outstanding is in the queue - no send
   of an ended batch is left waiting (honest runs). *)
Theorem C09_idle_outstanding_queued : forall c has_t api0 cache0 evs s tr, ProducerC01Spec.honest evs ->
  run c (init_state has_t api0 cache0) evs = (s, tr) -> ph s = Idle -> incl (outstanding s) (ids (queue s)).
Proof. exact idle_outstanding_queued. Qed.
Print Assumptions C09_idle_outstanding_queued.

(* One payload per message per attempt: in every produce request the topic-partitions are distinct, no message
   occurs twice, each payload is made of whole sends in submission order (create_message_set keeps request order),
   and a step makes at most one produce request (it is the step's last output). *)
Theorem C09_one_payload : forall c s e s' out a m v, Inv s -> PInv c s -> step c s e = (s', out) ->
  In (OSendProduce a m v) out ->
  NoDup (map fst v) /\ NoDup (flat_map snd v) /\
  (exists pl, v = map payload_view pl /\ Forall (fun p => sorted_lt (ids (p_sends p))) pl) /\
  (exists pre, out = pre ++ [OSendProduce a m v] /\ no_sp pre).
Proof. exact one_payload. Qed.
Print Assumptions C09_one_payload.
Theorem C09_invariants_reachable : forall c s, reachable c s -> Inv s /\ PInv c s.
Proof. intros c s R. split; [exact (reachable_inv c s R)|exact (pinv_reachable c s R)]. Qed.
Print Assumptions C09_invariants_reachable.

(* ---- non-vacuity ---- *)
Definition ex_cfg : cfg := {| c_acks := 1; c_n := 2; c_b := 0; c_max := 3 |}.
Definition ex_init : state := init_state true 1 [(0, (0, true))].
(* two sends -> one request with two payloads; partition 0 acknowledged, partition 1 NotLeader(6): retry timer with
   index 0 and a metadata reset; the retry carries partition 1 only, as attempt 2; it fails again with a transport error:
   index 1; third attempt (the last allowed) fails: the send fails, the batch ends *)
Definition ex_evs : list event :=
  [ESend 0 0 1 10; ESend 0 1 1 10;
   EResult (VResp [((0, 0), 0, 7); ((0, 1), 6, -1)]); ETimer 0;
   EResult (VFailed [] [((0, 1), 12)]); ETimer 1;
   EResult (VResp [((0, 1), 6, -1)])].
Example ex_trace : exists s tr, run ex_cfg ex_init ex_evs = (s, tr) /\
  outs_of tr =
  [ODispatch [0; 1]; OSendProduce 1 0 [((0, 0), [(0, 0)]); ((0, 1), [(1, 0)])];
   OOutcome 0 (OResp 0 0 0 7); OSched 0 0 1; OResetMeta [0];
   OSendProduce 2 0 [((0, 1), [(1, 0)])];
   OSched 1 1 1;
   OSendProduce 3 0 [((0, 1), [(1, 0)])];
   OOutcome 1 (OFail (K_BROKER + 6) 0); OBatchDone] /\
  mon_run ex_cfg m0 (outs_of tr) = Some m0.
Proof. eexists; eexists. split; [vm_compute; reflexivity|]. split; vm_compute; reflexivity. Qed.
(* order: three sends for partition 0 in two batches, one of two messages *)
Example ex_order : exists s tr,
  run ex_cfg ex_init [ESend 0 0 1 10; ESend 0 0 2 10; EResult (VResp [((0, 0), 0, 7)]); ESend 0 1 1 5; ESend 0 0 1 5] = (s, tr) /\
  msgs_first (0, 0) (outs_of tr) = [(0, 0); (1, 0); (1, 1); (3, 0)].
Proof. eexists; eexists. split; vm_compute; reflexivity. Qed.
Example ex_delay : (delay (1 # 4) (120205 # 100000) 2 == (1 # 4) * (120205 # 100000) * (120205 # 100000))%Q.
Proof. vm_compute. reflexivity. Qed.
