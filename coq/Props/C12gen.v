(* C12, translator tie for afkak/_util.py (DESIGN.md 10.2b, tie A) - the wire readers and writers on which every codec
   model (Model/Prim.v and everything above it: C04, C05, C12) rests.
   harness/py2util.py symbolically executes the SOURCE of each function on every run into a term of the little language
   Model/UtilDSL.v, and Coq checks, per run, that it is the committed term [ast_f] of Model/UtilAst.v (obligations
   gen_f = ast_f, compiled in coq/Run/out/gen/).  The theorems below - about committed files only - say what the
   committed terms compute: for ALL arguments exactly what the frozen hand-written model Model/Prim.v computes: bytes,
   value and new cursor, or the exception kind.
   Hence:  source --translator--> gen_f = ast_f --these theorems--> Prim.f --Props/C12.v, C04.v, C05.v--> the properties.
   Presentation of arguments / results: bytes-or-None [vb], str-or-None as code points [vt], a reader is called with the
   whole buffer and a cursor cur <= len(data) and compared with the model's reader on the suffix (the model works on
   suffixes); a reader's result is the pair (value, new cursor) with new cursor = len(data) - len(rest).
   Trusted in this tie: the translator's reading of Python (evaluation order, integers as Z, struct formats as
   Prim.pack_list / per-field Prim.unpack, slicing with non-negative bounds, str.encode / bytes.decode as the model's
   ASCII / UTF-8 predicates, isinstance tests taken to hold, exception messages ignored) and its normalisation of
   arithmetic and comparisons to linear forms.  group_by_topic_and_partition is recognised as a whole (dict-of-dicts
   loop) and means Model.Requests.group_by_topic_and_partition. *)
From Coq Require Import String.
From Coq Require Import QArith Qminmax.
From AV Require Import Base.Util Model.Prim Model.Requests Model.UtilDSL Model.UtilAst Proofs.UtilDSLSound
     Model.FetchGrow Model.GrowDSL Model.GrowAst Proofs.GrowDSLSound.
Local Open Scope Z_scope.

Theorem C12gen_write_int_string : forall s, run ast_write_int_string [vb s] = lift (write_int_string s).
Proof. exact write_int_string_sound. Qed.
Print Assumptions C12gen_write_int_string.

Theorem C12gen_write_short_bytes : forall s, run ast_write_short_bytes [vb s] = lift (write_short_bytes s).
Proof. exact write_short_bytes_sound. Qed.
Print Assumptions C12gen_write_short_bytes.

Theorem C12gen_write_short_ascii : forall s, run ast_write_short_ascii [vt s] = lift (write_short_ascii s).
Proof. exact write_short_ascii_sound. Qed.
Print Assumptions C12gen_write_short_ascii.

Theorem C12gen_write_short_text : forall s, run ast_write_short_text [vt s] = lift (write_short_text s).
Proof. exact write_short_text_sound. Qed.
Print Assumptions C12gen_write_short_text.

Theorem C12gen_read_short_bytes : forall data cur, (cur <= length data)%nat ->
  run ast_read_short_bytes [VBytes data; VInt (Z.of_nat cur)] = reader_result vb data (read_short_bytes (drop cur data)).
Proof. exact read_short_bytes_sound. Qed.
Print Assumptions C12gen_read_short_bytes.

Theorem C12gen_read_int_string : forall data cur, (cur <= length data)%nat ->
  run ast_read_int_string [VBytes data; VInt (Z.of_nat cur)] = reader_result vb data (read_int_string (drop cur data)).
Proof. exact read_int_string_sound. Qed.
Print Assumptions C12gen_read_int_string.

Theorem C12gen_read_short_ascii : forall data cur, (cur <= length data)%nat ->
  run ast_read_short_ascii [VBytes data; VInt (Z.of_nat cur)] = decoded_result data (read_short_ascii (drop cur data)).
Proof. exact read_short_ascii_sound. Qed.
Print Assumptions C12gen_read_short_ascii.

Theorem C12gen_read_short_text : forall data cur, (cur <= length data)%nat ->
  run ast_read_short_text [VBytes data; VInt (Z.of_nat cur)] = decoded_result data (read_short_text (drop cur data)).
Proof. exact read_short_text_sound. Qed.
Print Assumptions C12gen_read_short_text.

(* relative_unpack(fmt, data, cur) for ANY big-endian integer format: its single size check and struct.unpack are the
   field-by-field reads of the model (the reading every decoder model uses for a multi-field format) *)
Theorem C12gen_relative_unpack : forall fs data cur, (cur <= length data)%nat ->
  run ast_relative_unpack [VFmt fs; VBytes data; VInt (Z.of_nat cur)] = unpack_result data (unpack_seq fs (drop cur data)).
Proof. exact relative_unpack_sound. Qed.
Print Assumptions C12gen_relative_unpack.

Theorem C12gen_group_by_topic_and_partition : forall l,
  UtilDSL.grun ast_group_by_topic_and_partition l = group_by_topic_and_partition (rtext "topic") (rint "partition") l.
Proof. exact group_by_sound. Qed.
Print Assumptions C12gen_group_by_topic_and_partition.

(* ---- the consumer's pure arithmetic (afkak/consumer.py), second translator tie: harness/py2grow.py symbolically
   executes (1) the `except ConsumerFetchSizeTooSmall` handler of Consumer._handle_fetch_response and (2) the statements of
   Consumer._retry_fetch that update self.retry_delay into the decision trees of Model/GrowDSL.v, per run, and Coq checks
   them against Model/GrowAst.v (gen_growth = ast_growth, gen_delay = ast_delay, gen_resets = ast_resets).
   RGrow b = "self.buffer_size becomes b and the handler falls through to the refetch", RFail = "errback of the start
   Deferred and return".  Trusted: the translator's reading of the handler (logging and the construction of the Failure
   ignored, attribute reads as the two variables, products with a per-path constant as linear forms). *)

(* the growth branch computes exactly the rule the C12_consumer_* theorems are stated on (Model.FetchGrow.grow, which is
   Model.Consumer.grow_buffer by C12_grow_is_consumer_grow): for every buffer size and every maximum or None *)
Theorem C12gen_growth : forall buf mx, grun_tree ast_growth buf mx = grow_result (grow buf mx).
Proof. exact growth_sound. Qed.
Print Assumptions C12gen_growth.

(* the retry-delay update is d -> min(d * F, retry_max_delay) with F the constant written in the source (1.20205 as an
   exact rational), and F > 1: one step of the recurrence whose closed form is C14_delay_closed_form *)
Theorem C12gen_delay_step : forall d m : Q,
  (drun ast_delay d m == Qmin (d * source_factor) m)%Q /\ (1 < source_factor)%Q.
Proof. exact delay_sound. Qed.
Print Assumptions C12gen_delay_step.

(* every other assignment to self.retry_delay in class Consumer: the initial value in __init__ and the two resets to
   retry_init_delay after a successful offset / fetch answer *)
Theorem C12gen_delay_resets :
  ast_resets = [("__init__", RFloatInitArg); ("_handle_fetch_response", RInitDelay); ("_handle_offset_response", RInitDelay)]%string.
Proof. exact resets_sound. Qed.
Print Assumptions C12gen_delay_resets.

(* non-vacuity: the terms run *)
Example gen_runs :
  run ast_read_int_string [VBytes [9; 0; 0; 0; 2; 7; 8; 5]; VInt 1] = Ok (VTup [VBytes [7; 8]; VInt 7]) /\
  run ast_read_short_bytes [VBytes [255; 254]; VInt 0] = Err Protocol /\
  run ast_read_short_text [VBytes [0; 2; 195; 169]; VInt 0] = Ok (VTup [VStr [195; 169]; VInt 4]) /\
  run ast_write_short_ascii [VText [104; 105]] = Ok (VBytes [0; 2; 104; 105]) /\
  run ast_write_short_ascii [VText [233]] = Err UnicodeErr /\
  run ast_relative_unpack [VFmt [Fh; Fi]; VBytes [1; 255; 255; 0; 0; 0; 5; 9]; VInt 1] = Ok (VTup [VTup [VInt (-1); VInt 5]; VInt 7]) /\
  run ast_relative_unpack [VFmt [Fh; Fi]; VBytes [1; 2; 3]; VInt 0] = Err Underflow.
Proof. vm_compute. repeat split. Qed.
