(* C11 - Every broker request is bounded by the client timeout.
   Theorem statements only; proofs live in Proofs/ClientReq*.v.  Never weaken a statement here.

   Vocabulary (Model/ClientReq.v; M7 = Model/BrokerClient.v, written qualified):
     run (init g) evs           the client request layer (KafkaClient._make_request_to_broker and friends, composed with one
                                M7 machine per _KafkaBrokerClient) run over ANY event list from a fresh client with
                                configuration g (timeout, disconnect_on_timeout, bootstrap hosts ..)
     c_bcs C                    every broker client ever created; b_st b its M7 state, b_reqs b the closures of the
                                _make_request_to_broker calls made on it (index = M7 handle of the request Deferred)
     q_timer q = Some t         the request's DelayedCall (armed at issue) is still active, its name is t
     t_fired (s_t (b_st b))     handles of the request Deferreds of that broker client that have fired
     ETimer t                   the reactor fires DelayedCall t; OSched t 2 ms: callLater(ms/1000.0, ..) was called
     OReq d r                   the Deferred returned to the caller of the d-th accepted request fires with r
   Wall-clock claims are in event-order form (DESIGN.md section 2): "no later than the timeout" = "at the latest when
   the DelayedCall armed with that delay at issue fires"; that the reactor fires it on time is Twisted's business. *)
From AV Require Import Base.Util Model.Framing Proofs.BrokerClientInv.
From AV Require Model.BrokerClient.
From AV Require Import Model.ClientReq Proofs.ClientReqC11 Proofs.ClientReqC11b Proofs.ClientReqC11c Proofs.ClientReqC11d Proofs.ClientReqC11e Proofs.ClientReqErr.

(* Issue: a request that is accepted (the call raises nothing) arms exactly one DelayedCall, with delay
   max(timeout, min_timeout) (timeout alone when no minimum is given); from ANY state, for any node, any flags. *)
Theorem C11_timer_at_issue : forall C node expect mint C' o, step C (ESend node expect mint) = (C', o) ->
  (forall k, ~ In (ORaised k) o) ->
  filter is_k2 o = [OSched (length (c_timers C') - 1) 2 (if mint <? 0 then g_timeout (c_cfg C) else Z.max (g_timeout (c_cfg C)) mint)]
  /\ length (c_direct C') = S (length (c_direct C)).
Proof. exact timer_at_issue. Qed.
Print Assumptions C11_timer_at_issue.

(* Timer released / bound, as an invariant of every reachable state: a request's DelayedCall is active if and only
   if its Deferred has not fired.  So no timer is left behind once the reply (or a cancellation, or close) completed the
   request, and every unresolved request - whatever the broker does: answers late, never, never accepts the connection -
   still has its timer pending. *)
Theorem C11_timer_released : forall g evs i b h q,
  nth_error (c_bcs (fst (run (init g) evs))) i = Some b -> nth_error (b_reqs b) h = Some q ->
  (q_timer q <> None <-> ~ In h (BrokerClient.t_fired (BrokerClient.s_t (b_st b)))).
Proof. exact c11_armed_iff. Qed.
Print Assumptions C11_timer_released.

(* Bound.  In any reachable state, when the DelayedCall of an unresolved request fires: the request's Deferred fires in
   that very step with RequestTimedOutError and nothing else happens, except that with disconnect_on_timeout a
   connected broker client is asked to drop its connection; afterwards the request is resolved, its timer gone, and
   the broker client has gone through exactly M7's cancel of that request (tombstone if written, removed if not). *)
Theorem C11_bound : forall g evs i b h d t to,
  nth_error (c_bcs (fst (run (init g) evs))) i = Some b ->
  nth_error (b_reqs b) h = Some (mkCreq (Direct d) (Some t) to) ->
  exists C', step (fst (run (init g) evs)) (ETimer t)
             = (C', OReq d RTimedOut :: (if g_dot (c_cfg (fst (run (init g) evs))) && BrokerClient.s_proto (b_st b) then [OLose i] else []))
    /\ exists b', nth_error (c_bcs C') i = Some b' /\ In h (BrokerClient.t_fired (BrokerClient.s_t (b_st b')))
                  /\ nth_error (b_reqs b') h = Some (mkCreq (Direct d) None true)
                  /\ BrokerClient.step (b_st b) (BrokerClient.ECancel h) = (b_st b', [BrokerClient.ODef h BrokerClient.FailCancelled]).
Proof. exact c11_bound. Qed.
Print Assumptions C11_bound.

(* The same for a request of ANY owner (in particular one made on behalf of a broker-agnostic operation, whose continuation
   - next broker, bootstrap, failure of the operation - runs in the same step): the armed DelayedCall t is registered for
   exactly this request, cancelling it fires its Deferred, and at the end of the step in which t fires the Deferred
   has fired (and, by C11_timer_released, its timer is gone). *)
Theorem C11_bound_any : forall g evs i b h q t,
  nth_error (c_bcs (fst (run (init g) evs))) i = Some b -> nth_error (b_reqs b) h = Some q -> q_timer q = Some t ->
  exists b', nth_error (c_bcs (fst (step (fst (run (init g) evs)) (ETimer t)))) i = Some b'
             /\ In h (BrokerClient.t_fired (BrokerClient.s_t (b_st b'))) /\ b_node b' = b_node b.
Proof. exact c11_bound_any_full. Qed.
Print Assumptions C11_bound_any.

Theorem C11_timer_registered : forall g evs i b h q t,
  nth_error (c_bcs (fst (run (init g) evs))) i = Some b -> nth_error (b_reqs b) h = Some q -> q_timer q = Some t ->
  nth_error (c_timers (fst (run (init g) evs))) t = Some (TReq i h)
  /\ exists s', BrokerClient.step (b_st b) (BrokerClient.ECancel h) = (s', [BrokerClient.ODef h BrokerClient.FailCancelled])
                /\ In h (BrokerClient.t_fired (BrokerClient.s_t s')).
Proof. exact c11_bound_any. Qed.
Print Assumptions C11_timer_registered.

(* Never re-armed: whatever happens later, the closure of a request keeps its owner, and its DelayedCall is either the one
   it had or none - no fresh, later timer is ever substituted (e.g. on a reconnect). *)
Theorem C11_timer_never_rearmed : forall g evs evs2 i h q, creq_at (fst (run (init g) evs)) i h = Some q ->
  exists q', creq_at (fst (run (fst (run (init g) evs)) evs2)) i h = Some q' /\ q_owner q' = q_owner q
             /\ (q_timer q' = q_timer q \/ q_timer q' = None).
Proof. exact c11_timer_never_rearmed. Qed.
Print Assumptions C11_timer_never_rearmed.

(* Reply first, exactly: the response of an unanswered request produces [cancel its DelayedCall; complete it with that
   response] and nothing else; afterwards it is resolved and unarmed. *)
Theorem C11_reply_first : forall g evs i b h d t to rid payload cid r,
  nth_error (c_bcs (fst (run (init g) evs))) i = Some b -> nth_error (b_reqs b) h = Some (mkCreq (Direct d) (Some t) to) ->
  BrokerClient.s_proto (b_st b) = true -> BrokerClient.s_rxbuf (b_st b) = [] ->
  Z.of_nat (length (id4 rid ++ payload)) <= MAX_LENGTH -> corr_id (id4 rid ++ payload) = Some cid ->
  In r (BrokerClient.t_reqs (BrokerClient.s_t (b_st b))) -> BrokerClient.r_id r = cid -> BrokerClient.r_h r = h ->
  BrokerClient.r_cancelled r = false ->
  exists C', step (fst (run (init g) evs)) (EReply i rid payload) = (C', [OCancelTimer t; OReq d (RSucc (id4 rid ++ payload))])
    /\ exists b', nth_error (c_bcs C') i = Some b' /\ In h (BrokerClient.t_fired (BrokerClient.s_t (b_st b')))
                  /\ nth_error (b_reqs b') h = Some (mkCreq (Direct d) None to).
Proof. exact c11_reply_first. Qed.
Print Assumptions C11_reply_first.

(* THE CLAUSE, composed over traces: any history, then an accepted request (it arms DelayedCall t with
   max(timeout, min_timeout) and nothing else of that kind), then ANY continuation.  At that later moment the request's
   closure still belongs to it and EITHER t - that very DelayedCall, never another - is still armed, the request is
   unresolved, and t's firing fails it with RequestTimedOutError in that very step (plus the drop request with
   disconnect_on_timeout), OR the timer is gone and the request has been resolved. *)
Theorem C11_issue_to_resolution : forall g evs node expect mint C1 o1 evs2,
  step (fst (run (init g) evs)) (ESend node expect mint) = (C1, o1) -> (forall k, ~ In (ORaised k) o1) ->
  filter is_k2 o1 = [OSched (length (c_timers C1) - 1) 2 (delay_of (fst (run (init g) evs)) mint)]
  /\ exists i h, nth_error (c_direct C1) (length (c_direct (fst (run (init g) evs)))) = Some (i, h)
     /\ exists b q, nth_error (c_bcs (fst (run C1 evs2))) i = Some b /\ nth_error (b_reqs b) h = Some q
        /\ q_owner q = Direct (length (c_direct (fst (run (init g) evs))))
        /\ ((q_timer q = Some (length (c_timers C1) - 1)%nat
             /\ ~ In h (BrokerClient.t_fired (BrokerClient.s_t (b_st b)))
             /\ exists C', step (fst (run C1 evs2)) (ETimer (length (c_timers C1) - 1))
                           = (C', OReq (length (c_direct (fst (run (init g) evs)))) RTimedOut
                                   :: (if g_dot (c_cfg (fst (run C1 evs2))) && BrokerClient.s_proto (b_st b) then [OLose i] else [])))
            \/ (q_timer q = None /\ In h (BrokerClient.t_fired (BrokerClient.s_t (b_st b))))).
Proof. exact c11_issue_to_resolution. Qed.
Print Assumptions C11_issue_to_resolution.

(* Late reply.  In any reachable state, a response frame whose id belongs to no unanswered, uncancelled request of that
   connection (timed out earlier, never made, already answered): no output at all - nothing fires, nothing is written,
   no timer moves - and the state changes only by the removal of that id's tombstone from that broker client's table:
   every request closure, every other broker client, every operation is as before. *)
Theorem C11_late_reply_inert : forall g evs i b rid payload cid,
  nth_error (c_bcs (fst (run (init g) evs))) i = Some b ->
  BrokerClient.s_proto (b_st b) = true -> BrokerClient.s_rxbuf (b_st b) = [] ->
  Z.of_nat (length (id4 rid ++ payload)) <= MAX_LENGTH ->
  corr_id (id4 rid ++ payload) = Some cid ->
  (forall r, In r (BrokerClient.t_reqs (BrokerClient.s_t (b_st b))) -> BrokerClient.r_id r = cid -> BrokerClient.r_cancelled r = true) ->
  exists s', step (fst (run (init g) evs)) (EReply i rid payload) = (upd_bc (fst (run (init g) evs)) i (set_st s'), [])
    /\ BrokerClient.t_fired (BrokerClient.s_t s') = BrokerClient.t_fired (BrokerClient.s_t (b_st b))
    /\ BrokerClient.t_dlog (BrokerClient.s_t s') = BrokerClient.t_dlog (BrokerClient.s_t (b_st b))
    /\ BrokerClient.t_reqs (BrokerClient.s_t s') = BrokerClient.del cid (BrokerClient.t_reqs (BrokerClient.s_t (b_st b)))
    /\ BrokerClient.s_proto s' = true /\ BrokerClient.s_connector s' = BrokerClient.s_connector (b_st b)
    /\ BrokerClient.s_down s' = BrokerClient.s_down (b_st b).
Proof. exact c11_late_reply_inert. Qed.
Print Assumptions C11_late_reply_inert.

(* ONE CORRELATION ID ISSUED AGAIN (EResend d: _make_request_to_broker with the id of direct request d on the same broker
   client - KafkaClient.fetch_api_versions re-issues one encoded request up to three times; the 2**31 wrap of _next_id).
   "A reply that arrives after the timeout is discarded without disturbing any other request" needs the late reply to
   meet nothing but the tombstone of the request it answers:
   (1) while the id is in the broker client's table - the request is unanswered, or it timed out after it was written
       and has been neither answered nor disconnected since - the re-issue raises DuplicateRequestError and changes
       NOTHING (from any state): no second request can sit under that id when the late reply comes;
   (2) the timeout of a written request leaves exactly that situation: right after the step in which its DelayedCall
       fires (C11_bound), re-issuing its id is refused;
   (3) a re-issue that is accepted is a request like any other: exactly one DelayedCall of max(timeout, min_timeout). *)
Theorem C11_same_id_refused : forall C cl d i h0 b r expect mint,
  c_clients C = Some cl -> nth_error (c_direct C) d = Some (i, h0) -> nth_error (c_bcs C) i = Some b ->
  BrokerClient.lookup (nth h0 (BrokerClient.t_dlog (BrokerClient.s_t (b_st b))) 0) (BrokerClient.t_reqs (BrokerClient.s_t (b_st b))) = Some r ->
  step C (EResend d expect mint) = (C, [ORaised 1]).
Proof. exact same_id_refused. Qed.
Print Assumptions C11_same_id_refused.

Theorem C11_timed_out_id_reserved : forall g evs cl i b h d t to r expect mint,
  c_clients (fst (run (init g) evs)) = Some cl -> nth_error (c_direct (fst (run (init g) evs))) d = Some (i, h) ->
  nth_error (c_bcs (fst (run (init g) evs))) i = Some b -> nth_error (b_reqs b) h = Some (mkCreq (Direct d) (Some t) to) ->
  In r (BrokerClient.t_reqs (BrokerClient.s_t (b_st b))) -> BrokerClient.r_h r = h -> BrokerClient.r_sent r = true ->
  step (fst (step (fst (run (init g) evs)) (ETimer t))) (EResend d expect mint)
  = (fst (step (fst (run (init g) evs)) (ETimer t)), [ORaised 1]).
Proof. exact c11_timed_out_id_reserved. Qed.
Print Assumptions C11_timed_out_id_reserved.

Theorem C11_timer_at_reissue : forall C d expect mint C' o, step C (EResend d expect mint) = (C', o) ->
  (forall k, ~ In (ORaised k) o) -> o <> [] ->
  filter is_k2 o = [OSched (length (c_timers C') - 1) 2 (if mint <? 0 then g_timeout (c_cfg C) else Z.max (g_timeout (c_cfg C)) mint)]
  /\ length (c_direct C') = S (length (c_direct C)).
Proof. exact timer_at_reissue. Qed.
Print Assumptions C11_timer_at_reissue.

(* Composition with M7: every broker client inside a reachable client state satisfies M7's invariant CInv (the
   hypothesis of the step-level theorems of C06 / C10: C10_resend_at_loss - after the drop requested by
   disconnect_on_timeout exactly the entries that are not cancelled are written on the next connection, in order, once -
   C10_reconnect_iff_pending, C06_no_crosstalk ..), and its closure list is aligned with M7's Deferred log. *)
Theorem C11_brokerclients_inv : forall g evs i b,
  nth_error (c_bcs (fst (run (init g) evs))) i = Some b ->
  CInv (b_st b) /\ length (b_reqs b) = length (BrokerClient.t_dlog (BrokerClient.s_t (b_st b))).
Proof. exact c11_brokerclients_inv. Qed.
Print Assumptions C11_brokerclients_inv.

(* THE LAST SENTENCE, composed ("with disconnect-on-timeout the silent connection is dropped and the remaining unanswered
   requests are re-sent on a new one").  Any reachable state with disconnect_on_timeout set, an unresolved direct request
   (i, h) on a CONNECTED, open broker client b: the step in which its DelayedCall fires outputs exactly
   [the request fails with RequestTimedOutError; loseConnection on b's connection].  Then the loss notification writes
   nothing, and at the next connection-up of b the writes (cwrites: (broker client, correlation id) of every OWrite, in
   order) are exactly the entries of b's table at the moment of the timeout that are not cancelled, except the timed-out
   one - i.e. (M7's invariant: a connected broker client's table holds exactly the written requests that await a reply)
   the OTHER unanswered requests of b, each once, in table = issue order.  (M7's re-send, C10_resend, lifted through
   C11_brokerclients_inv; [others h r] = r is not cancelled and is not handle h.) *)
Theorem C11_drop_and_resend : forall g evs i b h d t to,
  g_dot (c_cfg (fst (run (init g) evs))) = true -> nth_error (c_bcs (fst (run (init g) evs))) i = Some b ->
  nth_error (b_reqs b) h = Some (mkCreq (Direct d) (Some t) to) ->
  BrokerClient.s_proto (b_st b) = true -> BrokerClient.s_down (b_st b) = BrokerClient.DNone ->
  exists C1 C2 o2 C3 o3,
    step (fst (run (init g) evs)) (ETimer t) = (C1, [OReq d RTimedOut; OLose i]) /\ step C1 (ELost i) = (C2, o2)
    /\ step C2 (EConnOk i) = (C3, o3) /\ cwrites o2 = []
    /\ cwrites o3 = map (fun r => (i, BrokerClient.r_id r)) (filter (others h) (BrokerClient.t_reqs (BrokerClient.s_t (b_st b)))).
Proof. exact c11_drop_and_resend. Qed.
Print Assumptions C11_drop_and_resend.

(* Frame of C11_bound: the timeout step touches nothing but the timed-out request - configuration, self.clients, broker
   table, caches, correlation id, close bookkeeping, operations, direct requests, the timer table, bootstrap connections
   and every other broker client are as before; in broker client i only closure h changes (disarmed, marked timed out)
   and its M7 state makes exactly the cancel step of handle h (plus the drop request, which changes no state). *)
Theorem C11_bound_frame : forall g evs i b h d t to,
  nth_error (c_bcs (fst (run (init g) evs))) i = Some b -> nth_error (b_reqs b) h = Some (mkCreq (Direct d) (Some t) to) ->
  exists C' o, step (fst (run (init g) evs)) (ETimer t) = (C', o)
    /\ c_cfg C' = c_cfg (fst (run (init g) evs)) /\ c_clients C' = c_clients (fst (run (init g) evs))
    /\ c_brokers C' = c_brokers (fst (run (init g) evs)) /\ c_topics C' = c_topics (fst (run (init g) evs))
    /\ c_corr C' = c_corr (fst (run (init g) evs)) /\ c_dl C' = c_dl (fst (run (init g) evs)) /\ c_wait C' = c_wait (fst (run (init g) evs))
    /\ c_ops C' = c_ops (fst (run (init g) evs)) /\ c_direct C' = c_direct (fst (run (init g) evs))
    /\ c_timers C' = c_timers (fst (run (init g) evs)) /\ c_boots C' = c_boots (fst (run (init g) evs))
    /\ (forall j, j <> i -> nth_error (c_bcs C') j = nth_error (c_bcs (fst (run (init g) evs))) j)
    /\ exists b', nth_error (c_bcs C') i = Some b' /\ b_node b' = b_node b /\ b_timer b' = b_timer b
                  /\ b_reqs b' = nth_upd (b_reqs b) h (fun q => mkCreq (q_owner q) None true)
                  /\ BrokerClient.step (b_st b) (BrokerClient.ECancel h) = (b_st b', [BrokerClient.ODef h BrokerClient.FailCancelled]).
Proof. exact c11_bound_frame. Qed.
Print Assumptions C11_bound_frame.

(* Issue, for ANY owner - in particular a request made on behalf of a broker-agnostic operation (each broker it tries):
   in any reachable state a _make_request_to_broker call that returns a pending Deferred has armed exactly one
   DelayedCall - the newest timer name - with max(timeout, min_timeout), and that name is recorded in the new closure
   (so C11_timer_released / C11_bound_any / C11_timer_never_rearmed apply to it). *)
Theorem C11_timer_at_make_request : forall g evs i rid expect mint ow C' h out,
  make_req (fst (run (init g) evs)) i rid expect mint ow = (C', MPending h, out) ->
  filter is_k2 out = [OSched (length (c_timers C') - 1) 2 (delay_of (fst (run (init g) evs)) mint)]
  /\ creq_at C' i h = Some (mkCreq ow (Some (length (c_timers C') - 1)%nat) false).
Proof. exact c11_timer_at_make_req. Qed.
Print Assumptions C11_timer_at_make_request.

(* THE MODEL'S "cannot happen" BRANCHES CANNOT HAPPEN.  Model/ClientReq.v emits OErr k where the code has no behaviour to
   speak of (a Deferred firing for a request nobody made, an operation that is not waiting for the request that fired,
   a timer to cancel that was never armed, a broker client closed twice, a reply before the request ..).  In every run
   from a fresh client, over ANY events whose reply frames respect the 2**31-1 length limit, none of them is ever
   emitted - with the one exception OErr 30, which stands for a metadata response whose abstract payload does not parse
   reaching _handleMetadataResponse: the event alphabet contains only well-formed ones (the driver builds them), so that
   branch marks an input outside the alphabet, not a state.  Every theorem above therefore speaks about behaviour the
   model really defines. *)
Theorem C11_no_anomaly : forall g evs k,
  (forall i rid pl, In (EReply i rid pl) evs -> Z.of_nat (length (id4 rid ++ pl)) <= MAX_LENGTH) ->
  In (OErr k) (snd (run (init g) evs)) -> k = 30.
Proof. exact c11_no_anomaly. Qed.
Print Assumptions C11_no_anomaly.

(* Two of the invariants behind it, of interest in themselves.  An unresolved request that was made on behalf of a
   broker-agnostic operation is THE request that operation is waiting for (so an operation never has two requests - two
   timers - outstanding, and no request of an operation that has moved on or ended is left unresolved) ... *)
Theorem C11_operation_request : forall g evs i b h q p,
  (forall i rid pl, In (EReply i rid pl) evs -> Z.of_nat (length (id4 rid ++ pl)) <= MAX_LENGTH) ->
  nth_error (c_bcs (fst (run (init g) evs))) i = Some b -> nth_error (b_reqs b) h = Some q -> q_owner q = OfOp p ->
  ~ In h (BrokerClient.t_fired (BrokerClient.s_t (b_st b))) ->
  exists o rest, nth_error (c_ops (fst (run (init g) evs))) p = Some o /\ o_phase o = PKnown rest i h.
Proof. exact c11_operation_request. Qed.
Print Assumptions C11_operation_request.

(* ... and self.clients maps node ids to DISTINCT broker clients, none of which has been told to close. *)
Theorem C11_clients_open : forall g evs cl,
  (forall i rid pl, In (EReply i rid pl) evs -> Z.of_nat (length (id4 rid ++ pl)) <= MAX_LENGTH) ->
  c_clients (fst (run (init g) evs)) = Some cl ->
  NoDup (map snd cl) /\ forall n i, In (n, i) cl -> exists b, nth_error (c_bcs (fst (run (init g) evs))) i = Some b
                                                          /\ BrokerClient.s_down (b_st b) = BrokerClient.DNone.
Proof. exact c11_clients_open. Qed.
Print Assumptions C11_clients_open.

(* ------------------------------------------------------------------ non-vacuity *)
Definition ex_cfg := mkCfg 5000 true 0 0 [1].

(* two requests on one connection (the second with min_timeout 30 s); the first times out: RequestTimedOutError and the
   connection is dropped (disconnect_on_timeout); its late reply does nothing; after the loss only the second is re-sent;
   its reply releases its timer *)
Example timeout_then_resend :
  snd (run (init ex_cfg) [EUpdate [(1, 5)] false; ESend 1 true (-1); ESend 1 true 30000; EConnOk 0;
                          ETimer 0; EReply 0 1 [7]; ELost 0; EConnOk 0; EReply 0 2 [9]])
  = [OConnect 0 5; OSched 0 2 5000; OSched 1 2 30000; OWrite 0 1; OWrite 0 2;
     OReq 0 RTimedOut; OLose 0; OConnect 0 5; OWrite 0 2; OCancelTimer 1; OReq 1 (RSucc [0; 0; 0; 2; 9])].
Proof. vm_compute. reflexivity. Qed.

(* a connection that never establishes: the request still fails at its timer, and is not written when the connection
   finally comes up *)
Example never_connects :
  snd (run (init ex_cfg) [EUpdate [(1, 5)] false; ESend 1 true (-1); ETimer 0; EConnOk 0])
  = [OConnect 0 5; OSched 0 2 5000; OReq 0 RTimedOut].
Proof. vm_compute. reflexivity. Qed.

(* reply first: the timer is released at once and its later "firing" is a disabled event *)
Example reply_first :
  snd (run (init ex_cfg) [EUpdate [(1, 5)] false; ESend 1 true (-1); EConnOk 0; EReply 0 1 [4; 2]; ETimer 0])
  = [OConnect 0 5; OSched 0 2 5000; OWrite 0 1; OCancelTimer 0; OReq 0 (RSucc [0; 0; 0; 1; 4; 2])].
Proof. vm_compute. reflexivity. Qed.

(* the hypotheses of C11_bound and C11_late_reply_inert are met by reachable states *)
Example bound_nonvacuous :
  let C := fst (run (init ex_cfg) [EUpdate [(1, 5)] false; ESend 1 true (-1); ESend 1 true 30000; EConnOk 0]) in
  exists b, nth_error (c_bcs C) 0 = Some b
    /\ nth_error (b_reqs b) 0 = Some (mkCreq (Direct 0) (Some 0%nat) false)
    /\ nth_error (b_reqs b) 1 = Some (mkCreq (Direct 1) (Some 1%nat) false)
    /\ BrokerClient.s_proto (b_st b) = true.
Proof. vm_compute. eexists. repeat split. Qed.

(* the same id again (no disconnect_on_timeout): refused while the first request is unanswered and after it timed out;
   the late reply does nothing but clear the tombstone; only then the id is accepted again, and the new request gets
   its own timer and its own reply *)
Definition ex_cfg_keep := mkCfg 5000 false 0 0 [1].
Example same_id_again :
  snd (run (init ex_cfg_keep) [EUpdate [(1, 5)] false; ESend 1 true (-1); EConnOk 0; EResend 0 true (-1); ETimer 0;
                               EResend 0 true (-1); EReply 0 1 [7]; EResend 0 true 30000; EReply 0 1 [9]])
  = [OConnect 0 5; OSched 0 2 5000; OWrite 0 1; ORaised 1; OReq 0 RTimedOut; ORaised 1;
     OWrite 0 1; OSched 1 2 30000; OCancelTimer 1; OReq 1 (RSucc [0; 0; 0; 1; 9])].
Proof. vm_compute. reflexivity. Qed.

(* the hypotheses of C11_timed_out_id_reserved are met by a reachable state *)
Example id_reserved_nonvacuous :
  let C := fst (run (init ex_cfg_keep) [EUpdate [(1, 5)] false; ESend 1 true (-1); EConnOk 0]) in
  exists cl b r, c_clients C = Some cl /\ nth_error (c_direct C) 0 = Some (0%nat, 0%nat) /\ nth_error (c_bcs C) 0 = Some b
    /\ nth_error (b_reqs b) 0 = Some (mkCreq (Direct 0) (Some 0%nat) false)
    /\ In r (BrokerClient.t_reqs (BrokerClient.s_t (b_st b))) /\ BrokerClient.r_h r = 0%nat /\ BrokerClient.r_sent r = true.
Proof.
  vm_compute. do 3 eexists. do 4 (split; [reflexivity|]). split; [left; reflexivity|]. split; reflexivity.
Qed.

(* C11_drop_and_resend is not vacuous: a connected, open broker client with two unresolved requests, disconnect_on_timeout *)
Example drop_and_resend_nonvacuous :
  let C := fst (run (init ex_cfg) [EUpdate [(1, 5)] false; ESend 1 true (-1); ESend 1 true 30000; EConnOk 0]) in
  exists b, g_dot (c_cfg C) = true /\ nth_error (c_bcs C) 0 = Some b
    /\ nth_error (b_reqs b) 0 = Some (mkCreq (Direct 0) (Some 0%nat) false)
    /\ BrokerClient.s_proto (b_st b) = true /\ BrokerClient.s_down (b_st b) = BrokerClient.DNone
    /\ map (fun r => (0%nat, BrokerClient.r_id r)) (filter (others 0) (BrokerClient.t_reqs (BrokerClient.s_t (b_st b)))) = [(0%nat, 2)].
Proof. vm_compute. eexists. repeat split. Qed.

(* the exception in C11_no_anomaly is real: a malformed metadata payload handed to load_metadata_for_topics' handler *)
Example anomaly_30_is_malformed_metadata :
  snd (run (init ex_cfg_keep) [EUpdate [(1, 5)] false; EOp 1 true; EConnOk 0; EReply 0 1 [9]])
  = [OConnect 0 5; OSched 0 2 5000; OWrite 0 1; OCancelTimer 0; OErr 30; OOp 0 RTrue].
Proof. vm_compute. reflexivity. Qed.

Example late_reply_nonvacuous :
  let C := fst (run (init ex_cfg) [EUpdate [(1, 5)] false; ESend 1 true (-1); ESend 1 true 30000; EConnOk 0; ETimer 0]) in
  exists b, nth_error (c_bcs C) 0 = Some b
    /\ BrokerClient.s_proto (b_st b) = true /\ BrokerClient.s_rxbuf (b_st b) = []
    /\ corr_id (id4 1 ++ [7]) = Some 1
    /\ map (fun r => (BrokerClient.r_id r, BrokerClient.r_cancelled r)) (BrokerClient.t_reqs (BrokerClient.s_t (b_st b))) = [(1, true); (2, false)].
Proof. vm_compute. eexists. repeat split. Qed.
