(* C01 - Producer acknowledgements are truthful and fire exactly once.
   Theorem statements only; proofs live in Proofs/ProducerC01*.v.  Never weaken a statement here.

   Model: Model/Producer.v (afkak/producer.py Producer as a step machine over the contract of
   KafkaClient.send_produce_request).  A run is [run c (init_state has_t api0 cache0) evs = (s, tr)]: tr lists, per
   event, the outputs of that step (produce requests handed to the client, timers, outcomes of the callers'
   Deferreds).  All theorems hold for EVERY configuration c (acks 0/1/-1, any batching thresholds, any attempt limit),
   every initial client state and EVERY event list evs (user calls, client results incl. error codes, failed
   payloads, cancellations, timers, metadata changes, stop) - no bound on anything - that is HONEST
   (Proofs/ProducerC01Spec.v: honest): every result the client delivers accounts for every payload of the request
   (no EResultOmit event: a broker that leaves a partition out of its response is outside the fault model of the
   property; the model then does what the code does - see C01_omitted_partition_strands), and building / handing
   over a produce request does not raise (no EBroken true event: known finding F-C01-5, see
   C01_resolved_when_quiescent_refuted_build_raises). *)
From AV Require Import Base.Util Model.Producer Model.ProducerCompose Proofs.ProducerC01Spec Proofs.ProducerC01Thm
  Proofs.ProducerC01Compose.
From AV Require Proofs.ProducerInv Proofs.ProducerProgress Proofs.ProducerFires.

(* No send fires twice: the ids that received an outcome, in firing order, are pairwise distinct. *)
Theorem C01_at_most_once : forall c has_t api0 cache0 evs s tr,
  honest evs -> run c (init_state has_t api0 cache0) evs = (s, tr) -> NoDup (fired tr).
Proof. exact at_most_once. Qed.
Print Assumptions C01_at_most_once.

(* No batch in flight, nothing queued (hence no retry timer): every accepted send has fired.
   With C01_at_most_once: exactly once. *)
Theorem C01_resolved_when_quiescent : forall c has_t api0 cache0 evs s tr,
  honest evs -> run c (init_state has_t api0 cache0) evs = (s, tr) -> quiescent s ->
  forall x, In x (accepted 0 evs) -> In (s_id x) (fired tr).
Proof. exact resolved_when_quiescent. Qed.
Print Assumptions C01_resolved_when_quiescent.

(* F-C01-5 (known finding): when building the message set or handing the request to the client raises (EBroken true:
   a codec whose library is missing, send_produce_request raising synchronously) the batch ends and the sends riding
   on its payloads never fire: the statement above is FALSE without the honesty hypothesis. *)
Theorem C01_resolved_when_quiescent_refuted_build_raises :
  exists c has_t api0 cache0 evs s tr,
    run c (init_state has_t api0 cache0) evs = (s, tr) /\ quiescent s /\
    exists x, In x (accepted 0 evs) /\ ~ In (s_id x) (fired tr).
Proof.
  exists {| c_acks := 1; c_n := 1; c_b := 1; c_max := 3 |}, false, 1, [(0, (0, true))], [EBroken true; ESend 0 0 1 5].
  eexists; eexists. split; [vm_compute; reflexivity|]. split; [vm_compute; auto|].
  eexists; split; [left; reflexivity|]. vm_compute. intros [].
Qed.
Print Assumptions C01_resolved_when_quiescent_refuted_build_raises.
(* Outside the honest-broker fault model (no finding): a response that omits a partition ends the batch, and the
   sends of the omitted payload never fire - the model does exactly what the code does. *)
Theorem C01_omitted_partition_strands :
  exists c has_t api0 cache0 evs s tr,
    run c (init_state has_t api0 cache0) evs = (s, tr) /\ quiescent s /\
    exists x, In x (accepted 0 evs) /\ ~ In (s_id x) (fired tr).
Proof.
  exists {| c_acks := 1; c_n := 2; c_b := 0; c_max := 3 |}, false, 1, [(0, (0, true))],
         [ESend 0 0 1 5; ESend 0 1 1 5; EResultOmit (VResp [((0, 0), 0, 42)])].
  eexists; eexists. split; [vm_compute; reflexivity|]. split; [vm_compute; auto|].
  exists {| s_id := 1; s_topic := 0; s_choice := 1; s_cnt := 1; s_bytes := 5 |}. split; [vm_compute; auto|].
  vm_compute. intros [X|[]]. discriminate.
Qed.
Print Assumptions C01_omitted_partition_strands.

(* A Deferred fires with a ProduceResponse (t, p, err, off) only if acks <> 0, err = 0, the event of that step is
   the client's result v (EResult v, or the result the cancelled request delivers inside stop()) and v carries a
   response for (t, p) with error 0 and that offset; the MOST RECENT produce request handed to the client before
   this step has a payload for (t, p) whose message list contains exactly the messages of that send as one
   contiguous run in order; t is the topic the send was submitted for and p the partition the partitioner chose for
   it (s_choice: an oracle read back from the implementation; C18 is about the partitioners). *)
Theorem C01_success_truthful : forall c has_t api0 cache0 evs s tr tr1 e outs tr2 sid t p err off,
  honest evs -> run c (init_state has_t api0 cache0) evs = (s, tr) -> tr = tr1 ++ (e, outs) :: tr2 ->
  In (OOutcome sid (OResp t p err off)) outs ->
  c_acks c <> 0 /\ err = 0 /\
  exists v pls ms x,
    value_of e = Some v /\ acked_with v (t, p) off /\
    last_produce tr1 = Some pls /\ In ((t, p), ms) pls /\
    In x (accepted 0 evs) /\ s_id x = sid /\ s_topic x = t /\ s_choice x = p /\ contiguous x ms.
Proof. exact success_truthful. Qed.
Print Assumptions C01_success_truthful.

(* acks = 0: a Deferred fires with None only if acks = 0, the client reported the most recent request as handed
   over (an empty result, or FailedPayloadsError whose failed payloads do not include this one) and that request
   carried the messages of the send, contiguous and in order, in a payload of the send's topic. *)
Theorem C01_success_none_truthful : forall c has_t api0 cache0 evs s tr tr1 e outs tr2 sid,
  honest evs -> run c (init_state has_t api0 cache0) evs = (s, tr) -> tr = tr1 ++ (e, outs) :: tr2 ->
  In (OOutcome sid ONone) outs ->
  c_acks c = 0 /\
  exists v pls p ms x,
    value_of e = Some v /\ In x (accepted 0 evs) /\ s_id x = sid /\ handed_over v (s_topic x, p) /\
    last_produce tr1 = Some pls /\ In ((s_topic x, p), ms) pls /\ contiguous x ms.
Proof. exact success_none_truthful. Qed.
Print Assumptions C01_success_none_truthful.

(* Whatever else makes a Deferred fire - a broker error code (also when it persists until the attempt limit), a
   failed payload (dropped connection, timeout), a client-side Kafka error, an unroutable topic or failed
   partition lookup, cancel(), stop(), bad arguments - the outcome is a failure: if the event of the step does not
   acknowledge ANY payload of that send's topic without error, the outcome is OFail (a coarse form; the next theorem
   looks only at the send's own payload). *)
Theorem C01_failure_is_failure : forall c has_t api0 cache0 evs s tr tr1 e outs tr2 sid oc,
  honest evs -> run c (init_state has_t api0 cache0) evs = (s, tr) -> tr = tr1 ++ (e, outs) :: tr2 ->
  In (OOutcome sid oc) outs ->
  (forall x p, In x (accepted 0 evs) -> s_id x = sid -> acks_event c e (s_topic x, p) = false) ->
  exists k flag, oc = OFail k flag.
Proof. exact failure_is_failure. Qed.
Print Assumptions C01_failure_is_failure.

(* Sharper: only the send's OWN payload counts - if the event of the step does not acknowledge the payload of the most
   recent request that carries this send's messages, the outcome is a failure, whatever it says about other
   partitions of the same topic. *)
Theorem C01_failure_is_failure_own : forall c has_t api0 cache0 evs s tr tr1 e outs tr2 sid oc,
  honest evs -> run c (init_state has_t api0 cache0) evs = (s, tr) -> tr = tr1 ++ (e, outs) :: tr2 ->
  In (OOutcome sid oc) outs ->
  (forall pls x p ms, last_produce tr1 = Some pls -> In x (accepted 0 evs) -> s_id x = sid ->
                      In ((s_topic x, p), ms) pls -> contiguous x ms -> acks_event c e (s_topic x, p) = false) ->
  exists k flag, oc = OFail k flag.
Proof. exact failure_is_failure_own. Qed.
Print Assumptions C01_failure_is_failure_own.

(* The produce attempts of the batch are used up: whatever the client answers now (error codes again, failed
   payloads, a Kafka error, nothing), every send of the batch that has not fired yet fires in this very step - by
   C01_failure_is_failure as a failure unless that answer acknowledges it.  (Same when the producer is stopping:
   stop() leaves no send outstanding, see ex_stop and C01_resolved_when_quiescent.) *)
Theorem C01_limit_resolves : forall c has_t api0 cache0 evs s tr pls cur v s' o,
  honest evs -> run c (init_state has_t api0 cache0) evs = (s, tr) -> ph s = Sending pls cur -> c_max c <= attempts s ->
  result_ok c cur v = true -> step c s (EResult v) = (s', o) ->
  forall x, In x (all_sends pls) -> In (s_id x) (outstanding s) -> In (s_id x) (oids o).
Proof. exact limit_resolves. Qed.
Print Assumptions C01_limit_resolves.

(* Bounded progress of the partition lookups (the other way a batch could hang): the attempt counter of the batch is
   shared by its lookups and its produce requests; every lookup whose metadata load comes back with the topic still in
   error uses up one attempt, and once the counter has reached the limit a lookup that returns to its loop head never
   asks for metadata again - it ends (with the partition if the metadata is good now, else with the topic's error, and
   the send then fails).  So a batch makes at most max_req_attempts failed metadata round trips per lookup. *)
Theorem C01_lookup_quota : forall c s x, c_max c <= attempts s -> exists r, lookup_head c s x = (s, [], LDone r).
Proof. exact lookup_quota. Qed.
Print Assumptions C01_lookup_quota.
Theorem C01_lookup_failure_counts : forall c s x s' o l, stopping s = false -> lookup_loaded c s x = (s', o, l) ->
  (exists r, l = LDone r /\ s' = s) \/ (attempts s' = attempts s + 1 /\ exists tid, l = LTimer tid).
Proof. exact lookup_failure_counts. Qed.
Print Assumptions C01_lookup_failure_counts.

(* Composed with the broker spec of Model/ProducerCompose.v (partition -> log, produce = append, reply = error code
   or base offset; the client's results are COMPUTED from what the cluster does with each payload: acknowledge,
   answer with an error code, or lose the response - the last two with or without having appended).  For every
   configuration and every list of composed events: a Deferred fires with ProduceResponse(t, p, _, off) only if the
   log of (t, p) - then and at the end of the run, logs only grow - holds at offset off a payload ms that contains
   the messages of that send as one contiguous run in order, and t is the topic the send was submitted for. *)
Theorem C01_composed_truthful : forall c has_t api0 cache0 ces s lg tr tr1 e outs tr2 sid t p err off,
  crun c (init_state has_t api0 cache0) [] ces = (s, lg, tr) -> tr = tr1 ++ (e, outs) :: tr2 ->
  In (OOutcome sid (OResp t p err off)) outs ->
  exists x ms pre post,
    In x (accepted 0 (map fst tr)) /\ s_id x = sid /\ s_topic x = t /\ contiguous x ms /\
    log_of lg (t, p) = pre ++ ms ++ post /\ Z.of_nat (length pre) = off.
Proof. exact composed_truthful. Qed.
Print Assumptions C01_composed_truthful.

(* ... and with acks = 0: a Deferred fires with None only if acks = 0 and the most recent request carried the messages
   of that send in a payload that the cluster was given (its plan entry is not "lost on the way": the request reached
   a broker; with acks = 0 nothing more can be known). *)
Theorem C01_composed_none_truthful : forall c has_t api0 cache0 ces s lg tr tr1 e outs tr2 sid,
  crun c (init_state has_t api0 cache0) [] ces = (s, lg, tr) -> tr = tr1 ++ (e, outs) :: tr2 ->
  In (OOutcome sid ONone) outs ->
  c_acks c = 0 /\
  exists x p ms, In x (accepted 0 (map fst tr)) /\ s_id x = sid /\ contiguous x ms /\ served c tr1 x p ms.
Proof. intros c h a ca ces s lg tr tr1 e outs tr2 sid H E I. eapply composed_none; eauto. Qed.
Print Assumptions C01_composed_none_truthful.

(* ---- bounded progress of the batch in flight (Proofs/ProducerProgress.v) ----
   owed c s e: the events the environment owes the producer in state s - the answer of a pending metadata load, an
   armed retry timer, the API-version answer, an in-contract result of the request in flight.  mu c s: a measure on
   states with a batch in flight, at most mu_bound c n = n * (2m + 2) + 2m + 2 for a batch of n sends and attempt
   limit m.  count_owed c s evs: how many events of evs were owed in the state they arrived in. *)

(* No deadlock: while a batch is in flight the producer always waits for something an honest environment can deliver. *)
Theorem C01_no_deadlock : forall c has_t api0 cache0 evs s tr,
  honest evs -> run c (init_state has_t api0 cache0) evs = (s, tr) -> ph s <> Idle ->
  exists e, ProducerProgress.owed c s e = true /\ honest_ev e = true.
Proof. exact ProducerProgress.no_deadlock. Qed.
Print Assumptions C01_no_deadlock.

(* Every honest event that arrives while a batch is in flight ends the batch or leaves the measure no larger; an owed
   event decreases it by at least one. *)
Theorem C01_owed_event_progress : forall c has_t api0 cache0 evs s tr e s' out,
  honest (evs ++ [e]) -> run c (init_state has_t api0 cache0) evs = (s, tr) -> ph s <> Idle -> step c s e = (s', out) ->
  In OBatchDone out \/
  (ph s' <> Idle /\ ProducerProgress.mu c s' + (if ProducerProgress.owed c s e then 1 else 0) <= ProducerProgress.mu c s).
Proof. exact ProducerProgress.owed_progress. Qed.
Print Assumptions C01_owed_event_progress.

(* Eventually resolved.  For every honest continuation evs2 of a run with a batch in flight: either the batch has
   ended and EVERY send in it has fired, or the batch is still in flight and fewer than mu_bound owed events have
   been delivered so far.  Fairness - the environment keeps delivering what it owes - is a premise about the event
   list and is NOT proved of any environment; without it (a client that never answers) nothing fires, in the model
   as in the code. *)
Theorem C01_eventually_resolved : forall c has_t api0 cache0 evs1 evs2 s1 tr1 s2 tr2,
  honest (evs1 ++ evs2) -> run c (init_state has_t api0 cache0) evs1 = (s1, tr1) -> run c s1 evs2 = (s2, tr2) ->
  ph s1 <> Idle ->
  (In OBatchDone (outs_of tr2) /\
   forall x, In x (ProducerInv.batch_sends (ph s1)) -> In (s_id x) (fired (tr1 ++ tr2))) \/
  (ph s2 <> Idle /\
   ProducerProgress.count_owed c s1 evs2 < ProducerProgress.mu_bound c (Z.of_nat (length (ProducerInv.batch_sends (ph s1))))).
Proof. exact ProducerProgress.eventually_resolved. Qed.
Print Assumptions C01_eventually_resolved.

(* The same with the fairness premise as a hypothesis: after mu_bound owed events every send of the batch has fired. *)
Theorem C01_resolved_within : forall c has_t api0 cache0 evs1 evs2 s1 tr1 s2 tr2,
  honest (evs1 ++ evs2) -> run c (init_state has_t api0 cache0) evs1 = (s1, tr1) -> run c s1 evs2 = (s2, tr2) ->
  ph s1 <> Idle ->
  ProducerProgress.mu_bound c (Z.of_nat (length (ProducerInv.batch_sends (ph s1)))) <= ProducerProgress.count_owed c s1 evs2 ->
  forall x, In x (ProducerInv.batch_sends (ph s1)) -> In (s_id x) (fired (tr1 ++ tr2)).
Proof. exact ProducerProgress.resolved_within. Qed.
Print Assumptions C01_resolved_within.

(* Every accepted send eventually fires - the batching rules of C19 (a queued send joins a batch at the first tick of
   the time limit with no batch in flight, or at once when a threshold is met: C19_no_starvation, C19_dispatch_iff)
   chained with the bounded progress of the batch in flight, as ONE statement.  owed2 c s e: the events the environment
   owes in state s - what the batch in flight waits for (owed) and, with NOTHING in flight and sends waiting, the tick
   of the time limit (only when one is configured: the periodic call is running).  count_owed2 counts, along a run,
   the events that were owed2 in the state they arrived in.  For every honest run, every send x accepted in it and
   every honest continuation: x has fired, or fewer than 2 * mu_bound c N + 2 owed events have been delivered so far
   (N = the number of send_messages calls of the whole run: the first mu_bound for the batch in flight when x was
   queued, the tick, the second for the batch x rides in).  Fairness - the environment delivers what it owes - is a
   premise on the event list, not proved of any client or reactor. *)
Theorem C01_send_eventually_fires : forall c has_t api0 cache0 evs1 evs2 s1 tr1 s2 tr2 x,
  honest (evs1 ++ evs2) -> run c (init_state has_t api0 cache0) evs1 = (s1, tr1) -> run c s1 evs2 = (s2, tr2) ->
  In x (accepted 0 evs1) ->
  In (s_id x) (fired (tr1 ++ tr2)) \/
  ProducerFires.count_owed2 c s1 evs2 < 2 * ProducerProgress.mu_bound c (nids (evs1 ++ evs2)) + 2.
Proof. exact ProducerFires.send_eventually_fires. Qed.
Print Assumptions C01_send_eventually_fires.

(* ... and as long as x is held and the producer has not been stopped something IS owed, provided a time limit is
   configured (has_t): a batch in flight always waits for an event an honest environment can deliver, and with nothing
   in flight the tick is owed.  WITHOUT a time limit a send queued below the count / byte thresholds waits for further
   sends - nothing is owed then and nothing is claimed (the code waits too). *)
Theorem C01_held_send_is_owed : forall c has_t api0 cache0 evs s tr x,
  honest evs -> run c (init_state has_t api0 cache0) evs = (s, tr) ->
  In x (accepted 0 evs) -> ~ In (s_id x) (fired tr) -> has_t = true -> stopping s = false ->
  exists e, ProducerFires.owed2 c s e = true /\ honest_ev e = true.
Proof. exact ProducerFires.held_send_is_owed. Qed.
Print Assumptions C01_held_send_is_owed.

(* ---- non-vacuity: concrete runs reaching the situations the theorems speak about ---- *)
Definition cfg1 (acks mx : Z) := {| c_acks := acks; c_n := 1; c_b := 1; c_max := mx |}.
Definition st1 := init_state false 1 [(0, (0, true))].

(* acknowledged send: fires with the ProduceResponse, final state quiescent *)
Example ex_success :
  let '(s, tr) := run (cfg1 1 3) st1 [ESend 0 0 2 9; EResult (VResp [((0, 0), 0, 42)])] in
  fired tr = [0] /\ In (OOutcome 0 (OResp 0 0 0 42)) (outs_of tr) /\
  ph s = Idle /\ queue s = [] /\ armed_timers s = [] /\
  last_produce (firstn 1 tr) = Some [((0, 0), [(0, 0); (0, 1)])].
Proof. vm_compute. repeat split; auto. Qed.

(* NotLeader (6) on every attempt, attempt limit 2: the send FAILS with that broker error after the second answer *)
Example ex_exhausted :
  let '(s, tr) := run (cfg1 1 2) st1
      [ESend 0 0 1 5; EResult (VResp [((0, 0), 6, -1)]); EMetaSet 0 0 true; ETimer 0; EResult (VResp [((0, 0), 6, -1)])] in
  fired tr = [0] /\ In (OOutcome 0 (OFail (K_BROKER + 6) 0)) (outs_of tr) /\ ph s = Idle.
Proof. vm_compute. repeat split; auto 10. Qed.

(* acks = 0, two partitions, one payload fails: the other send fires with None at once *)
Example ex_acks0 :
  let '(s, tr) := run {| c_acks := 0; c_n := 2; c_b := 0; c_max := 3 |} st1
      [ESend 0 0 1 5; ESend 0 1 1 5; EResult (VFailed [] [((0, 1), 13)])] in
  fired tr = [0] /\ In (OOutcome 0 ONone) (outs_of tr) /\ outstanding s = [1].
Proof. vm_compute. repeat split; auto. Qed.

(* stop() with a request in flight whose cancellation delivers nothing: everything fails, nothing is left *)
Example ex_stop :
  let '(s, tr) := run (cfg1 1 3) st1 [ESend 0 0 1 5; ESend 0 0 1 5; EStop None] in
  fired tr = [0; 1] /\ outstanding s = [] /\
  Forall (fun o => match o with OOutcome _ (OFail _ _) => True | OOutcome _ _ => False | _ => True end) (outs_of tr).
Proof. vm_compute. repeat split; auto. repeat constructor. Qed.

(* composed: two sends to one partition; the first request is answered with NotLeader (6), the retry is
   acknowledged; a third send is appended although its response is lost, retried and appended again (duplicate) *)
Example ex_composed :
  let '(s, lg, tr) := crun (cfg1 1 3) st1 []
      [CEv (ESend 0 0 2 9); CAnswer [((0, 0), RErr 6 false)]; CEv (EMetaSet 0 0 true); CEv (ETimer 0);
       CAnswer [((0, 0), RAck)];
       CEv (ESend 0 0 1 4); CAnswer [((0, 0), RLost 13 true)]; CEv (EMetaSet 0 0 true); CEv (ETimer 1); CAnswer [((0, 0), RAck)]] in
  fired tr = [0; 1] /\ In (OOutcome 0 (OResp 0 0 0 0)) (outs_of tr) /\ In (OOutcome 1 (OResp 0 0 0 3)) (outs_of tr) /\
  log_of lg (0, 0) = [(0, 0); (0, 1); (1, 0); (1, 0)].
Proof. vm_compute. repeat split; auto 20. Qed.

(* progress: a batch of one send, attempt limit 2: measure 3 once the request is out (bound 12); each owed event lowers it
   (result NotLeader -> 2, retry timer -> 1), an event that is not owed (a tick, a stale timer) does not;
   the second result ends the batch after 3 owed events *)
Example ex_progress :
  let '(s1, tr1) := run (cfg1 1 2) st1 [ESend 0 0 1 5] in
  let evs2 := [EResult (VResp [((0, 0), 6, -1)]); ETick; ETimer 7; EMetaSet 0 0 true; ETimer 0; EResult (VResp [((0, 0), 6, -1)])] in
  let '(s2, tr2) := run (cfg1 1 2) s1 evs2 in
  ProducerProgress.mu (cfg1 1 2) s1 = 3 /\ ProducerProgress.mu_bound (cfg1 1 2) 1 = 12 /\
  map (fun n => ProducerProgress.mu (cfg1 1 2) (fst (run (cfg1 1 2) s1 (firstn n evs2)))) [1; 2; 3; 4; 5]%nat = [2; 2; 2; 2; 1] /\
  ProducerProgress.count_owed (cfg1 1 2) s1 evs2 = 3 /\ In OBatchDone (outs_of tr2) /\ fired (tr1 ++ tr2) = [0] /\ ph s2 = Idle.
Proof. vm_compute. repeat split; auto 10. Qed.

(* progress through the metadata phase: topic 1 is unknown, its metadata load fails (measure 10 -> 6), the API-version
   answer arrives, the send FAILS with the lookup error: 2 owed events (bound 12) *)
Example ex_progress_lookup :
  let st := init_state false 0 [(0, (0, true))] in
  let '(s1, tr1) := run (cfg1 1 2) st [ESend 1 0 1 5] in
  let evs2 := [ELoadDone 0 false 3; ETick; EVersion 1] in
  let '(s2, tr2) := run (cfg1 1 2) s1 evs2 in
  ProducerProgress.mu (cfg1 1 2) s1 = 10 /\
  map (fun n => ProducerProgress.mu (cfg1 1 2) (fst (run (cfg1 1 2) s1 (firstn n evs2)))) [1; 2]%nat = [6; 6] /\
  ProducerProgress.count_owed (cfg1 1 2) s1 evs2 = 2 /\ In (OOutcome 0 (OFail 3 0)) (outs_of tr2) /\
  In OBatchDone (outs_of tr2) /\ ph s2 = Idle.
Proof. vm_compute. repeat split; auto 10. Qed.

(* composite progress: no thresholds, a time limit; two sends wait; the potential of send 1 is 1 + B = 25 while it is
   queued (an unrelated cancel does not move it), 5 once the tick has put it in a batch (a second tick is not owed),
   0 when the result arrives: 2 owed events, bound 2 * 24 + 2 = 50 *)
Example ex_send_fires :
  let c := {| c_acks := 1; c_n := 0; c_b := 0; c_max := 3 |} in
  let '(s1, tr1) := run c (init_state true 1 [(0, (0, true))]) [ESend 0 0 1 5; ESend 0 0 1 5] in
  let evs2 := [ECancel 7; ETick; ETick; EResult (VResp [((0, 0), 0, 42)])] in
  let '(s2, tr2) := run c s1 evs2 in
  ph s1 = Idle /\ map s_id (queue s1) = [0; 1] /\ ProducerFires.count_owed2 c s1 evs2 = 2 /\ fired (tr1 ++ tr2) = [0; 1] /\
  ProducerProgress.mu_bound c 2 = 24 /\
  map (fun n => ProducerFires.pot c 24 1 (fst (run c s1 (firstn n evs2)))) [0; 1; 2; 3; 4]%nat = [25; 25; 5; 5; 0].
Proof. vm_compute. repeat split; reflexivity. Qed.
