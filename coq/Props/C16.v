(* C16 - Generation fencing: no partition consumer outlives its group generation.
   Theorem statements only; proofs live in Proofs/GroupInv.v, GroupInvH.v (an invariant by induction over every event list of
   Model/Group.v), Proofs/GroupOut.v (which event can cause which request, for every state) and Proofs/GroupC16.v.
   [state_after grp evs] = the state of the model of afkak._group.Coordinator (grp = false) / ConsumerGroup (grp = true) after
   the ARBITRARY event list evs (API calls, replies and failures of every request, timer firings, consumer failures and
   shutdown completions, in any order, including events the environment cannot produce).  [consumers s] = the table
   ConsumerGroup.consumers; a generator [g] of [gens s] with [adv g = true] is a _join_and_sync past the metadata load
   (shutting consumers down, awaiting JoinGroup, partition lookup or SyncGroup).  Never weaken a statement here. *)
From AV Require Import Base.Util Model.Group Model.GroupObs Proofs.GroupInv Proofs.GroupInvH Proofs.GroupOut Proofs.GroupC17 Proofs.GroupC16 Proofs.GroupLive.

(* ============================ CLAUSE-BY-CLAUSE COVERAGE of the statement of C16 ============================
   1 "runs partition consumers only for the partitions assigned to it in its current generation"
       C16_consumers_subset_assignment (every registered consumer, every reachable state), C16_commit_identity (created only by the step
       handling a successful SyncGroup reply, for a partition of that reply).  Subset only: that EVERY assigned partition gets a consumer
       is the closed-loop monitor of C17, and C17_constructor_raises_refuted shows where it fails (F-C17-2).
   2 "each committing with that generation and member id"
       C16_consumers_subset_assignment + C16_commit_identity for the ids handed to the Consumer constructor (that is all the group code
       does); that consumer.py / client.py put them into every OffsetCommit frame is NOT a theorem: wire stream of C16.py (real
       Consumer + real KafkaClient encoders, frames parsed independently), and C03.
   3 "starting from the group's committed position"
       C16_start_committed: every StartConsumer entry of every trace carries the OFFSET_COMMITTED flag - true by construction of the
       model's output encoding (on_join_complete passes the constant, _group.py:856); the content is the trace correspondence, which
       compares the flag the stub computes from the real argument.  What the Consumer does with it: C02/C03.
   4 "before joining or rejoining, every consumer of the previous generation has been shut down - committing its progress unless the
      coordinator rejects the commit"
       C16_no_consumer_running_at_join / _while_joining (no consumer, registered or shutting down, when JoinGroup goes out and while the
       exchange is in flight), read off the trace by C16_nobody_leaves_silently, C16_start_registers, C16_nobody_running_means_all_stopped
       (live_cids = [] => every StartConsumer has been followed by StopConsumer or a completed shutdown);
       C16_prepare_shuts_down (the join's prepare calls shutdown() on every registered consumer - graceful, the Consumer commits - and no
       stop()), C16_graceful_shutdown_completes (completions lead to nothing but the JoinGroup, sent when the last one is in);
       a FAILED shutdown (commit rejected) stops the remaining ones (OStopC, stop_pending in the model) - allowed by the clause.  The
       commit itself is the Consumer's (C13).
   5 "on eviction (illegal generation, unknown member, timeout) they are stopped before any rejoin"
       C16_evicted_step: step level, for a failed JoinGroup / SyncGroup reply to the awaiting generator, a failed heartbeat of the running
       looper, a failing partition consumer, a failed metadata load and a failed partition lookup (delivers_evicting, six shapes): the
       table is emptied and every registered consumer gets stop() in that step; C16_evicted_stopped_before_rejoin: the same for the
       function rejoin_after_error from every reachable state, plus the member id dropped.  A timed-out COORDINATOR LOOKUP is not an
       eviction and stops nothing (C16_lookup_timeout_keeps_consumers: retried after fatal_backoff; the consumers are shut down
       gracefully by the prepare of the join that follows).  Consumers already shutting down for a rejoin are left to finish.
   6 "at most one join/sync exchange in flight"                 C16_single_join, C16_join_only_when_prepared.
   7 "heartbeats only while a stable member"                    C16_heartbeat_only_stable.
   8 "after stop no group request other than the leave"          C16_after_stop_only_leave, C16_stop_no_consumers (heartbeats continue while
       ConsumerGroup.stop() still waits for its consumers; metadata load / coordinator reset are not group requests).
   ================================================================================================================= *)

(* Consumers only for the partitions assigned in the CURRENT generation, constructed with the current generation and member id
   (the ids their commits carry: afkak/consumer.py passes them to every OffsetCommit). *)
Theorem C16_consumers_subset_assignment : forall grp evs c, let s := state_after grp evs in
  In c (consumers s) -> c_gen c = generation s /\ c_mem c = member s /\ In (c_topic c, c_part c) (cur_assign s).
Proof. exact consumers_current. Qed.
Print Assumptions C16_consumers_subset_assignment.

(* A consumer is created only by the step that handles a successful SyncGroup reply (also when a later constructor of the same
   loop raises: SOkRaise), for a partition of that reply, with the
   generation and member id the member holds then (and keeps through that step); never once stop() has been called. *)
Theorem C16_commit_identity : forall grp evs e cid t p g m, let s := state_after grp evs in
  In (OStartC cid t p g m) (snd (step s e)) ->
  exists rid asg, (e = ESync rid (SOk asg) \/ exists n, e = ESync rid (SOkRaise asg n)) /\ In (t, p) asg /\ g = generation s /\ m = member s /\
                  stopping s = false /\ stop_requested s = false /\ is_group s = true /\
                  generation (fst (step s e)) = generation s /\ member (fst (step s e)) = member s.
Proof. exact commit_identity. Qed.
Print Assumptions C16_commit_identity.

(* Before joining: whenever a join/sync exchange is in progress no consumer is registered, and JoinGroup is sent only by a step
   that leaves the table empty, by a member on which stop() has not been called, with its current member id. *)
Theorem C16_prepare_before_join : forall grp evs g, let s := state_after grp evs in
  In g (gens s) -> adv g = true -> consumers s = [].
Proof. exact prepare_before_join_state. Qed.
Print Assumptions C16_prepare_before_join.
Theorem C16_join_only_when_prepared : forall grp evs e rid m, let s := state_after grp evs in
  In (OJoin rid m) (snd (step s e)) ->
  stopping s = false /\ stop_requested s = false /\ m = member s /\
  consumers (fst (step s e)) = [] /\ (length (filter adv (gens (fst (step s e)))) <= 1)%nat.
Proof. exact join_only_when_prepared. Qed.
Print Assumptions C16_join_only_when_prepared.

(* ... and not only the table: NO consumer of the previous generation is running - neither registered nor still shutting
   down (for this join's own prepare or for a ConsumerGroup.stop() in progress) - at the step that sends JoinGroup, nor at any
   time while the JoinGroup / partition lookup / SyncGroup exchange is in flight.  [live_cids] = consumers started and not yet
   stopped.  (The statement the repaired defect F-C16-2 violated.) *)
Theorem C16_no_consumer_running_at_join : forall grp evs e rid m, let s := state_after grp evs in
  In (OJoin rid m) (snd (step s e)) -> live_cids (fst (step s e)) = [].
Proof. exact no_live_at_join. Qed.
Print Assumptions C16_no_consumer_running_at_join.
Theorem C16_no_consumer_running_while_joining : forall grp evs g, let s := state_after grp evs in
  In g (gens s) -> adv g = true -> is_prep g = false -> live_cids s = [].
Proof. exact no_live_while_joining. Qed.
Print Assumptions C16_no_consumer_running_while_joining.

(* Eviction (illegal generation, unknown member / invalid group, timeout) reaching rejoin_after_error from any reachable state:
   every registered consumer is stopped by that very call (before the rejoin it schedules), the table is empty afterwards, and
   an unknown member forgets its member id. *)
Theorem C16_evicted_stopped_before_rejoin : forall grp evs k, let s := state_after grp evs in
  evicting k = true ->
  consumers (fst (rejoin_after_error k s)) = [] /\
  (forall c, In c (consumers s) -> In (OStopC (c_id c)) (snd (rejoin_after_error k s))) /\
  (k = KInvGroup \/ k = KUnkMember -> member (fst (rejoin_after_error k s)) = 0).
Proof. exact evicted_stopped. Qed.
Print Assumptions C16_evicted_stopped_before_rejoin.

(* ... step level: a failed JoinGroup / SyncGroup reply addressed to the generator awaiting it, a failed heartbeat reply of the
   running looper, a failing partition consumer - carrying an evicting error - empties the table in that very step and stops
   every REGISTERED consumer (consumers already shutting down for a rejoin in progress are left to finish: their commit is
   rejected by the coordinator, which the property allows). *)
Theorem C16_evicted_step : forall grp evs e k, let s := state_after grp evs in
  delivers_evicting s e k -> evicting k = true ->
  consumers (fst (step s e)) = [] /\ (forall c, In c (consumers s) -> In (OStopC (c_id c)) (snd (step s e))).
Proof. exact evicted_step. Qed.
Print Assumptions C16_evicted_step.

(* Clause 3. *)
Theorem C16_start_committed : forall o, hd 0 (enc_out o) = 10 -> nth 6 (enc_out o) 0 = 1 /\ length (enc_out o) = 7%nat.
Proof. exact start_committed. Qed.
Print Assumptions C16_start_committed.

(* Clause 4: graceful shutdown in the join's prepare (any state; the generator awaiting the metadata load, stop() not called). *)
Theorem C16_prepare_shuts_down : forall s rid g rest, take_first (awaits (GMeta rid)) (gens s) = Some (g, rest) -> stop_pend s = false ->
  is_group s = true -> consumers s <> [] ->
  snd (step s (EMeta rid ROk)) = map (fun c => OShutC (c_id c)) (consumers s) /\
  consumers (fst (step s (EMeta rid ROk))) = [] /\
  gens (fst (step s (EMeta rid ROk))) = mkGen (g_id g) (GPrepare (map (fun c => mkSh c false) (consumers s))) :: rest.
Proof. exact prepare_shuts_down. Qed.
Print Assumptions C16_prepare_shuts_down.
Theorem C16_graceful_shutdown_completes : forall s gid l rest cid, gens s = mkGen gid (GPrepare l) :: rest -> sh_has cid l = true ->
  let o := snd (step s (ECShut cid true)) in
  (forall x, In x o -> exists rid m, x = OJoin rid m) /\ (o <> [] -> sh_all_done (sh_mark_done cid l) = true /\ stop_pend s = false).
Proof. exact graceful_shutdown_completes. Qed.
Print Assumptions C16_graceful_shutdown_completes.

(* Clause 4, reading live_cids off the trace (every state, every event): nobody leaves the books except by StopConsumer or a completed
   shutdown; StartConsumer puts the consumer on the books; hence live_cids = [] means all started consumers are gone. *)
Theorem C16_nobody_leaves_silently : forall s e x, In x (live_cids s) ->
  In x (live_cids (fst (step s e))) \/ In (OStopC x) (snd (step s e)) \/ (exists b, e = ECShut x b).
Proof. exact live_persist. Qed.
Print Assumptions C16_nobody_leaves_silently.
Theorem C16_start_registers : forall s e cid t p g m, In (OStartC cid t p g m) (snd (step s e)) -> In cid (live_cids (fst (step s e))).
Proof. exact start_registers. Qed.
Print Assumptions C16_start_registers.
Theorem C16_nobody_running_means_all_stopped : forall grp evs x,
  live_cids (state_after grp evs) = [] -> ~ started_alive (init grp) evs x.
Proof. exact nobody_running_means_all_stopped. Qed.
Print Assumptions C16_nobody_running_means_all_stopped.

(* Clause 5: what a timed-out coordinator lookup does (any state). *)
Theorem C16_lookup_timeout_keeps_consumers : forall s rid g rest k, take_first (awaits (GLookup rid)) (gens s) = Some (g, rest) -> is_kafka k = true ->
  consumers (fst (step s (ELookup rid (LFail k)))) = consumers s /\
  snd (step s (ELookup rid (LFail k))) = [OSched TCoordRetry (lookup_delay (LFail k)) (next_timer s)].
Proof. exact lookup_timeout_keeps_consumers. Qed.
Print Assumptions C16_lookup_timeout_keeps_consumers.

(* At most one join/sync exchange: at most one generator is past the metadata load - ever; while stop() has not begun there is
   at most one generator at all and it owns _rejoin_d; two advanced generators are the same one. *)
Theorem C16_single_join : forall grp evs, let s := state_after grp evs in
  (length (filter adv (gens s)) <= 1)%nat /\
  (stopping s = false -> (gens s = [] /\ rejoin_d s = None) \/ (exists g, gens s = [g] /\ rejoin_d s = Some (g_id g))).
Proof. exact single_join. Qed.
Print Assumptions C16_single_join.

(* Heartbeats only while a stable member: a heartbeat request is produced only by the looper tick of a member that is not
   stopping, needs no rejoin, has no join in flight and no heartbeat outstanding; it carries the current generation / member. *)
Theorem C16_heartbeat_only_stable : forall grp evs e rid g m, let s := state_after grp evs in
  In (OHeartbeat rid g m) (snd (step s e)) ->
  e = ETick /\ stopping s = false /\ rejoin_needed s = false /\ hb_running s = true /\ hb_req s = None /\ gens s = [] /\
  g = generation s /\ m = member s.
Proof. exact heartbeat_only_stable_step. Qed.
Print Assumptions C16_heartbeat_only_stable.

(* After stop: once Coordinator.stop() has begun (LeaveGroup is being / has been exchanged; also a stop the member performs on
   itself after a fatal error) no step issues a coordinator lookup, JoinGroup, partition lookup, SyncGroup or heartbeat, nor
   creates a consumer; while ConsumerGroup.stop() is still waiting for its consumers to shut down the only such request is the
   heartbeat of the still stable member.  (LeaveGroup, the metadata load chained to a lookup already in flight, timers and
   consumer stop/shutdown calls are the only other outputs.) *)
Theorem C16_after_stop_only_leave : forall grp evs e o, let s := state_after grp evs in
  In o (snd (step s e)) -> group_request o = true ->
  stopping s = false /\ (is_group s = true -> stop_requested s = true -> exists rid g m, o = OHeartbeat rid g m).
Proof. exact after_stop_only_leave. Qed.
Print Assumptions C16_after_stop_only_leave.
Theorem C16_stop_no_consumers : forall grp evs, let s := state_after grp evs in
  stop_requested s = true \/ stopping s = true -> consumers s = [].
Proof. exact stop_no_consumers. Qed.
Print Assumptions C16_stop_no_consumers.

(* ---- non-vacuity ---- *)
Example alive_nonvacuous :               (* the consumer started by the sync is "started and untouched" and is on the books *)
  let evs := [EStart; ELookup 0 LBroker; EMeta 1 ROk; EJoin 2 (JOk 5 7 0); ESync 3 (SOk [(0, 1)])] in
  started_alive (init true) evs 0 /\ live_cids (state_after true evs) = [0].
Proof.
  split; [|vm_compute; reflexivity].
  cbn [started_alive]. right. right. right. right. left. split; [|exact I]. exists 0, 1, 5, 7. vm_compute. right. left. reflexivity.
Qed.
Example evicted_nonvacuous :             (* a consumer's commit is rejected with ILLEGAL_GENERATION: both consumers stopped, then the rejoin is scheduled *)
  let evs := [EStart; ELookup 0 LBroker; EMeta 1 ROk; EJoin 2 (JOk 5 7 0); ESync 3 (SOk [(0, 1); (1, 0)])] in
  delivers_evicting (state_after true evs) (ECFail 0 KIllGen) KIllGen /\
  snd (step (state_after true evs) (ECFail 0 KIllGen)) = [OStopC 0; OStopC 1; OSched TRejoin DRetry 0].
Proof. split; [apply de_cfail; vm_compute; reflexivity|vm_compute; reflexivity]. Qed.
Example evicted_during_prepare_nonvacuous :   (* eviction while the old consumer is shutting down for a rejoin: it is left to finish *)
  snd (run true [EStart; ELookup 0 LBroker; EMeta 1 ROk; EJoin 2 (JOk 5 7 0); ESync 3 (SOk [(0, 1)]); ETick; EHbReply 4 (RFail KRebalance);
                 EFire 0; ELookup 5 LBroker; EMeta 6 ROk; ECFail 0 KUnkMember; ECShut 0 false; EJoin 7 (JOk 6 8 0)])
  = [[OLookup 0; OApi 0]; [OMeta 1]; [OJoin 2 0]; [OSync 3 5 7 false]; [OSched THeartbeat DHeartbeat 0; OStartC 0 0 1 5 7];
     [OHeartbeat 4 5 7; OSched THeartbeat DHeartbeat 0]; [OCancelTimer THeartbeat 0; OSched TRejoin DRetry 0]; [OLookup 5]; [OMeta 6];
     [OShutC 0]; [OSched TRejoin DRetry 1]; [OJoin 7 0]; [OSync 8 6 8 false]].
Proof. vm_compute. reflexivity. Qed.
Example consumers_nonvacuous :           (* a leader with two consumers of generation 5, member 7 *)
  let s := state_after true [EStart; ELookup 0 LBroker; EMeta 1 ROk; EJoin 2 (JOk 5 7 1); EParts 3 POk; ESync 4 (SOk [(0, 1); (1, 0)])] in
  map (fun c => (c_topic c, c_part c, c_gen c, c_mem c)) (consumers s) = [(0, 1, 5, 7); (1, 0, 5, 7)] /\ generation s = 5 /\ member s = 7.
Proof. vm_compute. auto. Qed.
Example rejoin_nonvacuous :              (* rebalance: the old consumer is shut down, then (and only then) JoinGroup with the member id *)
  snd (run true [EStart; ELookup 0 LBroker; EMeta 1 ROk; EJoin 2 (JOk 5 7 0); ESync 3 (SOk [(0, 1)]); ETick; EHbReply 4 (RFail KRebalance);
                 EFire 0; ELookup 5 LBroker; EMeta 6 ROk; ECShut 0 true; EJoin 7 (JOk 6 7 0); ESync 8 (SOk [(0, 2)])])
  = [[OLookup 0; OApi 0]; [OMeta 1]; [OJoin 2 0]; [OSync 3 5 7 false]; [OSched THeartbeat DHeartbeat 0; OStartC 0 0 1 5 7];
     [OHeartbeat 4 5 7; OSched THeartbeat DHeartbeat 0]; [OCancelTimer THeartbeat 0; OSched TRejoin DRetry 0]; [OLookup 5]; [OMeta 6];
     [OShutC 0]; [OJoin 7 7]; [OSync 8 6 7 false]; [OSched THeartbeat DHeartbeat 0; OStartC 1 0 2 6 7]].
Proof. vm_compute. reflexivity. Qed.
Example stop_during_rejoin_nonvacuous :  (* F-C16-2 repaired: stop() while a rejoin is in flight - no JoinGroup, only the leave *)
  snd (run true [EStart; ELookup 0 LBroker; EMeta 1 ROk; EJoin 2 (JOk 5 7 0); ESync 3 (SOk [(0, 1)]); ETick; EHbReply 4 (RFail KRebalance);
                 EFire 0; EStop; ELookup 5 LBroker; EMeta 6 ROk; ECShut 0 true; ELeave 7 ROk])
  = [[OLookup 0; OApi 0]; [OMeta 1]; [OJoin 2 0]; [OSync 3 5 7 false]; [OSched THeartbeat DHeartbeat 0; OStartC 0 0 1 5 7];
     [OHeartbeat 4 5 7; OSched THeartbeat DHeartbeat 0]; [OCancelTimer THeartbeat 0; OSched TRejoin DRetry 0]; [OLookup 5];
     [OShutC 0; OApi 0]; [OMeta 6]; []; [OLeave 7 7]; [OStartD 0 None; OStopD 0 0]].
Proof. vm_compute. reflexivity. Qed.
