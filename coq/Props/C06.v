(* C06 - Each request completes exactly once, with the response bearing its own id.
   Theorem statements only; proofs live in Proofs/.  Never weaken a statement here.

   Vocabulary (Model/Framing.v, Model/BrokerClient.v):
     rx_run ok buf chunks      the receiver (IntNStringReceiver.dataReceived as configured by _protocol.py) fed [chunks],
                               one entry per call: (packets handed to stringReceived, how the call ended)
     run init evs              the _KafkaBrokerClient machine run over ANY event list, giving (state, outputs)
     ODef h o                  the Deferred returned by the h-th Deferred-returning makeRequest call fires with o
     t_dlog                    correlation id passed to makeRequest, per handle (dlog_is_make_log)
     CInv                      the invariant every reachable state satisfies (C06_reachable) *)
From AV Require Import Base.Util Model.Framing Model.BrokerClient Model.BrokerClientHook Model.BrokerClientTail Model.BrokerClientWrite
  Proofs.FramingFacts Proofs.FramingExtra Proofs.FramingBootstrap Proofs.BrokerClientTbl Proofs.BrokerClientInv
  Proofs.BrokerClientC06 Proofs.BrokerClientChunk Proofs.BrokerClientHook Proofs.BrokerClientGaps Proofs.BrokerClientTail Proofs.BrokerClientWrite.

(* ------------------------------------------------------------------ framing *)

(* Any way of cutting the byte stream of ANY list of frames (each at most MAX_LENGTH long and acceptable to the
   handler: [ok] = "stringReceived returns", for KafkaProtocol ok4 = at least 4 bytes) into chunks - splits inside the
   length prefix, inside the id, several frames in one chunk, empty chunks - delivers exactly those frames, in
   order, once; what is left in the buffer is exactly the incomplete tail; no call ends abnormally. *)
Theorem C06_reassembly : forall ok frames tail chunks,
  Forall (fun f => ok f = true /\ Z.of_nat (length f) <= MAX_LENGTH) frames ->
  parse ok tail = ([], RxMore tail) ->                      (* the tail holds no complete frame (e.g. [] or C06_partial_frame) *)
  concat chunks = concat (map encode_frame frames) ++ tail ->
  concat (map fst (fst (rx_run ok [] chunks))) = frames
  /\ snd (rx_run ok [] chunks) = tail
  /\ Forall (fun r => exists rest, snd r = RxMore rest) (fst (rx_run ok [] chunks)).
Proof. exact reassembly. Qed.
Print Assumptions C06_reassembly.

(* every strict prefix of an encoded frame is such a tail: nothing is delivered before the last byte arrived *)
Theorem C06_partial_frame : forall ok body n, Z.of_nat (length body) <= MAX_LENGTH ->
  (n < length (encode_frame body))%nat -> parse ok (take n (encode_frame body)) = ([], RxMore (take n (encode_frame body))).
Proof. exact irreducible_prefix. Qed.
Print Assumptions C06_partial_frame.

(* The same for ARBITRARY bytes (not only well-formed frames): as long as the whole stream parses without an abort,
   every chunking yields the same deliveries and the same residue as handing the stream over in one piece. *)
Theorem C06_chunking_invariance : forall ok chunks fs r,
  parse ok (concat chunks) = (fs, RxMore r) ->
  concat (map fst (fst (rx_run ok [] chunks))) = fs /\ snd (rx_run ok [] chunks) = r
  /\ Forall (fun x => exists rest, snd x = RxMore rest) (fst (rx_run ok [] chunks)).
Proof. exact chunking_invariance0. Qed.
Print Assumptions C06_chunking_invariance.

(* A length prefix above 2^31-1, wherever the chunk boundaries fall and whatever follows it: the frames before it are
   delivered (pre, fc), the call that completes the prefix ends with lengthLimitExceeded (-> loseConnection,
   data_in / bstep emit OLose / BLose), nothing that FOLLOWS the prefix is ever delivered, the announced body is not
   awaited; every later call on that connection ends the same way and can only repeat [fc], the packets of that
   very call (Twisted keeps the whole buffer: see C06_length_limit_strict_refuted). *)
Theorem C06_length_limit : forall ok frames len tail chunks,
  Forall (fun f => ok f = true /\ Z.of_nat (length f) <= MAX_LENGTH) frames ->
  MAX_LENGTH < len < 4294967296 ->
  concat chunks = concat (map encode_frame frames) ++ enc32 len ++ tail ->
  exists pre fc post, fst (rx_run ok [] chunks) = pre ++ (fc, RxLimit len) :: post
    /\ Forall (fun r => exists rest, snd r = RxMore rest) pre
    /\ concat (map fst pre) ++ fc = frames
    /\ Forall (fun r => r = (fc, RxLimit len)) post.
Proof. exact length_limit. Qed.
Print Assumptions C06_length_limit.

(* The stricter reading "after the limit was hit nothing at all is handed to the handler" is FALSE of the faithful
   model (and of Twisted: replayed on the real KafkaProtocol by the driver): packets that were complete in the same
   call as the bad prefix are handed over again by every later call. *)
Theorem C06_length_limit_strict_refuted : exists frames len tail chunks,
  Forall (fun f => ok4 f = true /\ Z.of_nat (length f) <= MAX_LENGTH) frames
  /\ MAX_LENGTH < len < 4294967296
  /\ concat chunks = concat (map encode_frame frames) ++ enc32 len ++ tail
  /\ exists first later, fst (rx_run ok4 [] chunks) = first :: later
       /\ snd first = RxLimit len /\ exists r, In r later /\ fst r <> [].
Proof. exact length_limit_strict_refuted. Qed.
Print Assumptions C06_length_limit_strict_refuted.

(* the loop never runs out of the fuel the model gives it *)
Theorem C06_receiver_total : forall ok buf chunk fs, data_received ok buf chunk <> (fs, RxFuel).
Proof. exact receiver_total. Qed.
Print Assumptions C06_receiver_total.

(* ------------------------------------------------------------------ the broker client *)

(* every state the client can reach satisfies the invariant the step-level theorems below assume *)
Theorem C06_reachable : forall evs, CInv (fst (run init evs)).
Proof. exact reachable_inv. Qed.
Print Assumptions C06_reachable.

(* Exactly once.  In every trace: no Deferred fires twice; no AlreadyCalledError / KeyError is ever raised inside the
   client; and a Deferred has fired if and only if it was created and its request is no longer live in the table
   (answered, cancelled, written without reply, failed by close). *)
Theorem C06_exactly_once : forall evs s outs, run init evs = (s, outs) ->
  NoDup (def_handles outs)
  /\ (forall o, In o outs -> ~ ((exists k h, o = OErr k h) \/ o = ORaised 5))
  /\ (forall h, In h (def_handles outs) <->
                (h < length (t_dlog (s_t s)))%nat
                /\ ~ (exists r, In r (t_reqs (s_t s)) /\ r_h r = h /\ r_cancelled r = false)).
Proof. exact exactly_once. Qed.
Print Assumptions C06_exactly_once.

(* after a Deferred fired, nothing more happens to it: no second firing, no write of its request *)
Theorem C06_nothing_after_fired : forall evs s outs a h oc b, run init evs = (s, outs) -> outs = a ++ ODef h oc :: b ->
  forall o, In o b -> (forall oc', o <> ODef h oc') /\ (forall rid, o <> OWrite h rid).
Proof. exact after_fired. Qed.
Print Assumptions C06_nothing_after_fired.

(* The same two statements when user code calls back into the client (cancel / makeRequest / disconnect / close, any
   number, in any order) from the only two places where a Deferred of the class fires in the middle of a method: the
   callback of a no-reply request inside _sendQueued and the errbacks inside close()'s loop
   (Model/BrokerClientHook.v: IConnOk inter / IClose inter quantify over those calls; _sendQueued as repaired by commit
   7c12cf4, finding F-C10-1).  Elsewhere Deferreds fire in tail position: a call from the callback is the next event. *)
Theorem C06_exactly_once_reentrant : forall evs s outs, irun true init evs = (s, outs) ->
  NoDup (def_handles outs)
  /\ (forall o, In o outs -> ~ ((exists k h, o = OErr k h) \/ o = ORaised 5))
  /\ (forall h, In h (def_handles outs) <->
                (h < length (t_dlog (s_t s)))%nat
                /\ ~ (exists r, In r (t_reqs (s_t s)) /\ r_h r = h /\ r_cancelled r = false)).
Proof. exact exactly_once_i. Qed.
Print Assumptions C06_exactly_once_reentrant.

Theorem C06_nothing_after_fired_reentrant : forall evs s outs a h oc b,
  irun true init evs = (s, outs) -> outs = a ++ ODef h oc :: b ->
  forall o, In o b -> (forall oc', o <> ODef h oc') /\ (forall rid, o <> OWrite h rid).
Proof. exact after_fired_i. Qed.
Print Assumptions C06_nothing_after_fired_reentrant.

(* ... and when the write of a request RAISES inside _sendRequest (Model/BrokerClientWrite.v: sendString raising is an
   oracle fixed per request, e.g. a str payload; WFail h = the Deferred of h errbacks with that exception): still no
   Deferred fires twice - neither by a response, None, a cancel, close nor a failing write - and a Deferred has fired
   iff its request left the table.  (erase maps WFail h to a failure of h; Model/BrokerClient.v's outcome type is
   untouched because other models build on it.) *)
Theorem C06_exactly_once_write_failure : forall evs ws outs, wrun winit evs = (ws, outs) ->
  NoDup (wdef_handles outs)
  /\ (forall k h, ~ In (WO (OErr k h)) outs) /\ ~ In (WO (ORaised 5)) outs
  /\ (forall h, In h (wdef_handles outs) <->
                (h < length (t_dlog (s_t (w_s ws))))%nat
                /\ ~ (exists r, In r (t_reqs (s_t (w_s ws))) /\ r_h r = h /\ r_cancelled r = false)).
Proof. exact exactly_once_w. Qed.
Print Assumptions C06_exactly_once_write_failure.

(* the failing write is local: that request's Deferred fails, its entry leaves the table, nothing is written, every other
   entry stays exactly as it was *)
Theorem C06_write_failure_local : forall bad t r, TInv t -> In r (t_reqs t) -> r_sent r = false ->
  is_bad bad (r_h r) = true ->
  exists t', send_request_w bad t r = (t', [WFail (r_h r)])
    /\ t_reqs t' = del (r_id r) (t_reqs t) /\ t_fired t' = r_h r :: t_fired t /\ t_dlog t' = t_dlog t
    /\ (forall x, In x (t_reqs t) -> r_id x <> r_id r -> In x (t_reqs t')).
Proof. exact write_failure_local. Qed.
Print Assumptions C06_write_failure_local.

(* Own response: a success value is a frame whose first four bytes decode to the correlation id that was passed to
   the makeRequest call which created that Deferred. *)
Theorem C06_own_response : forall evs s outs h fr, run init evs = (s, outs) -> In (ODef h (Succ fr)) outs ->
  exists rid, corr_id fr = Some rid /\ nth_error (t_dlog (s_t s)) h = Some rid.
Proof. exact own_response. Qed.
Print Assumptions C06_own_response.

(* ... where t_dlog is nothing but the log of those ids *)
Theorem C06_dlog_is_make_log : forall s e,
  match e with
  | EMake rid _ => (step s e = (s, [ORaised 1])) \/ t_dlog (s_t (fst (step s e))) = t_dlog (s_t s) ++ [rid]
  | _ => t_dlog (s_t (fst (step s e))) = t_dlog (s_t s)
  end.
Proof. exact dlog_is_make_log. Qed.
Print Assumptions C06_dlog_is_make_log.

(* No crosstalk.  A frame whose id is unknown or belongs to a cancelled request: no output at all (nothing fires,
   nothing is written), the set of fired Deferreds is unchanged, every entry with another id is still there unchanged
   (only the tombstone of that id, if any, goes), and the connection state is untouched. *)
Theorem C06_no_crosstalk : forall s body cid, CInv s -> s_proto s = true -> s_rxbuf s = [] ->
  ok4 body = true /\ Z.of_nat (length body) <= MAX_LENGTH -> corr_id body = Some cid ->
  (forall r, In r (t_reqs (s_t s)) -> r_id r = cid -> r_cancelled r = true) ->
  exists s', step s (EFrame body) = (s', [])
    /\ t_fired (s_t s') = t_fired (s_t s) /\ t_dlog (s_t s') = t_dlog (s_t s)
    /\ t_reqs (s_t s') = del cid (t_reqs (s_t s))
    /\ (forall r, In r (t_reqs (s_t s)) -> r_id r <> cid -> In r (t_reqs (s_t s')))
    /\ s_proto s' = s_proto s /\ s_connector s' = s_connector s /\ s_down s' = s_down s
    /\ s_failures s' = s_failures s /\ s_addr s' = s_addr s.
Proof. exact no_crosstalk. Qed.
Print Assumptions C06_no_crosstalk.

(* the complementary case: the frame with the id of a live request completes exactly that request with exactly
   that frame, and leaves every other entry alone *)
Theorem C06_own_frame : forall s body cid r, CInv s -> s_proto s = true -> s_rxbuf s = [] ->
  ok4 body = true /\ Z.of_nat (length body) <= MAX_LENGTH -> corr_id body = Some cid ->
  In r (t_reqs (s_t s)) -> r_id r = cid -> r_cancelled r = false ->
  exists s', step s (EFrame body) = (s', [ODef (r_h r) (Succ body)])
    /\ t_fired (s_t s') = r_h r :: t_fired (s_t s) /\ t_reqs (s_t s') = del cid (t_reqs (s_t s))
    /\ (forall x, In x (t_reqs (s_t s)) -> r_id x <> cid -> In x (t_reqs (s_t s'))).
Proof. exact own_frame. Qed.
Print Assumptions C06_own_frame.

(* for data of ANY shape (chunks, several frames, garbage): a request whose id none of the delivered packets carries
   keeps its table entry and its Deferred does not fire *)
Theorem C06_data_untouched : forall s chunk r, CInv s -> s_proto s = true -> In r (t_reqs (s_t s)) ->
  (forall f, In f (fst (data_received ok4 (s_rxbuf s) chunk)) -> corr_id f <> Some (r_id r)) ->
  In r (t_reqs (s_t (fst (step s (EData chunk))))) /\ forall oc, ~ In (ODef (r_h r) oc) (snd (step s (EData chunk))).
Proof. exact data_untouched. Qed.
Print Assumptions C06_data_untouched.

(* a success value is literally one of the packets the receiver handed over in that very call, and the request it
   completes is in the table, not cancelled, expects a reply and was written on the connection that is up *)
Theorem C06_success_from_received_frame : forall s chunk h fr, CInv s ->
  In (ODef h (Succ fr)) (snd (step s (EData chunk))) ->
  s_proto s = true
  /\ In fr (fst (data_received ok4 (s_rxbuf s) chunk))
  /\ exists r, In r (t_reqs (s_t s)) /\ r_h r = h /\ r_cancelled r = false /\ r_sent r = true /\ r_expect r = true
               /\ corr_id fr = Some (r_id r).
Proof. exact success_from_received_frame. Qed.
Print Assumptions C06_success_from_received_frame.

(* The length limit at the level of the client: a call of dataReceived that meets a length prefix above 2^31-1 asks
   the transport to close (OLose is the last output of the step), keeps the connection object until the loss is
   reported, and - Twisted's behaviour, C06_length_limit_strict_refuted - keeps the received bytes in the buffer. *)
Theorem C06_limit_closes : forall s c fs len, s_proto s = true -> data_received ok4 (s_rxbuf s) c = (fs, RxLimit len) ->
  exists o, snd (step s (EData c)) = o ++ [OLose]
            /\ s_rxbuf (fst (step s (EData c))) = s_rxbuf s ++ c
            /\ s_proto (fst (step s (EData c))) = true.
Proof. exact limit_closes. Qed.
Print Assumptions C06_limit_closes.

(* "... or with a failure (cancelled, or the connection owner was closed)": every outcome has exactly one kind of cause.
   CancelledError only by the cancel() of that very Deferred; ClientError only by close() or by makeRequest on a closed
   client; None only for a no-reply request at its write; a frame only by received data. *)
Theorem C06_outcome_cause : forall s e h oc, In (ODef h oc) (snd (step s e)) ->
  match oc with
  | FailCancelled => e = ECancel h
  | FailClosed => e = EClose \/ exists rid ex, e = EMake rid ex /\ s_down s <> DNone
  | SuccNone => e = EConnOk \/ exists rid, e = EMake rid false
  | Succ f => exists c, e = EData c \/ e = EFrame c
  end.
Proof. exact outcome_cause. Qed.
Print Assumptions C06_outcome_cause.

(* OUTSIDE THE FAULT MODEL, stated precisely.  "Its response" is identified by the correlation id VALUE
   (C06_own_response), not by the position of the frame in the byte stream.  The stronger reading "each received frame
   completes at most one request" is false of the faithful model in one corner: after the receiver aborted (length
   limit, or a frame shorter than an id) Twisted keeps the whole buffer and re-parses it on every later dataReceived;
   if (a) the transport goes on delivering bytes after afkak asked it to close (a TCP transport stops reading at
   loseConnection() and a reactor drops a connection whose dataReceived raised; simnet keeps delivering on purpose) AND
   (b) the caller issues a new request with the SAME correlation id on that doomed connection (KafkaClient hands out
   ids from a counter mod 2^31 and never does), the frame already consumed completes the new request as well.  Both
   conditions are outside the property's fault model; the monitor (drv_brokerclient.py, "after an abort") accepts
   exactly this re-delivery of frames received before the abort and nothing else.  No finding. *)
Theorem C06_frame_instance_refuted : exists evs s outs h1 h2 f stream,
  run init evs = (s, outs) /\ h1 <> h2 /\ In (ODef h1 (Succ f)) outs /\ In (ODef h2 (Succ f)) outs
  /\ In OLose outs
  /\ concat (flat_map (fun e => match e with EData c => [c] | _ => [] end) evs) = stream
  /\ stream = encode_frame f ++ enc32 2147483648 ++ [9].
Proof. exact frame_instance_refuted. Qed.
Print Assumptions C06_frame_instance_refuted.

(* ------------------------------------------------------------------ framing composed with the client *)

(* Chunking at the level of the client.  A connected client whose receive buffer holds no complete frame (true of a
   fresh connection and preserved by every call that ends normally: C06_rxbuf_stays_irreducible) is given the same
   bytes in ANY chunking (splits inside the prefix, inside the id, several frames per chunk, empty chunks): the final
   state and the outputs, in order, are those of calling handleResponse once per frame of the stream - a function of
   the byte stream alone. *)
Theorem C06_client_chunking : forall chunks s fs r, s_proto s = true -> parse ok4 (s_rxbuf s) = ([], RxMore (s_rxbuf s)) ->
  parse ok4 (s_rxbuf s ++ concat chunks) = (fs, RxMore r) ->
  run s (map EData chunks) = after_frames s fs r.
Proof. exact client_chunking. Qed.
Print Assumptions C06_client_chunking.

Theorem C06_client_chunking_two : forall s chunks1 chunks2 fs r, s_proto s = true ->
  parse ok4 (s_rxbuf s) = ([], RxMore (s_rxbuf s)) ->
  concat chunks1 = concat chunks2 -> parse ok4 (s_rxbuf s ++ concat chunks1) = (fs, RxMore r) ->
  run s (map EData chunks1) = run s (map EData chunks2).
Proof. exact client_chunking_two. Qed.
Print Assumptions C06_client_chunking_two.

Theorem C06_rxbuf_stays_irreducible : forall s c fs r, parse ok4 (s_rxbuf s ++ c) = (fs, RxMore r) ->
  parse ok4 (s_rxbuf (fst (data_in s c))) = ([], RxMore (s_rxbuf (fst (data_in s c)))).
Proof. exact data_in_irreducible. Qed.
Print Assumptions C06_rxbuf_stays_irreducible.

(* No crosstalk as a refinement.  Abstract the request table to a partial map  id |-> (handle, tombstone?)  ([abs]).
   The abstract effect of one response frame ([spec_frame]) reads and removes ONLY the binding of the id the frame
   carries, and fires the Deferred bound to it iff that binding is not a tombstone.  handleResponse refines it ... *)
Theorem C06_frame_refines_spec : forall t f, TInv t ->
  amap_eq (abs (fst (handle_response t f))) (fst (spec_frame (abs t) f))
  /\ snd (handle_response t f) = snd (spec_frame (abs t) f).
Proof. exact frame_refines. Qed.
Print Assumptions C06_frame_refines_spec.

(* ... and so does the whole connected client on bytes in any chunking: table, outputs and residue are the fold of
   the one-frame specification over the frames of the stream. *)
Theorem C06_no_crosstalk_refinement : forall s chunks fs r, CInv s -> s_proto s = true ->
  parse ok4 (s_rxbuf s) = ([], RxMore (s_rxbuf s)) ->
  parse ok4 (s_rxbuf s ++ concat chunks) = (fs, RxMore r) ->
  amap_eq (abs (s_t (fst (run s (map EData chunks))))) (fst (spec_frames (abs (s_t s)) fs))
  /\ snd (run s (map EData chunks)) = snd (spec_frames (abs (s_t s)) fs)
  /\ s_rxbuf (fst (run s (map EData chunks))) = r.
Proof. exact data_refines. Qed.
Print Assumptions C06_no_crosstalk_refinement.

(* in the specification an id that no frame carries keeps its binding *)
Theorem C06_spec_other_ids_untouched : forall fs m x, (forall f, In f fs -> corr_id f <> Some x) ->
  fst (spec_frames m fs) x = m x.
Proof. exact spec_frames_other. Qed.
Print Assumptions C06_spec_other_ids_untouched.

(* Tail-position re-entrancy, proved.  Model/BrokerClientTail.v transcribes dataReceived with user callbacks: when a
   frame completes the Deferred of handle h, the calls [cassoc inter h] (cancel of any request / makeRequest /
   disconnect / close, any number, any order) are made INSIDE handleResponse, inside the loop over the frames of the
   chunk, while Twisted's buffer field still holds the whole chunk.  For a connected client with an empty receive buffer
   and a chunk of whole frames followed by an incomplete residue, state and outputs (in order) are those of the
   sequential history in which each frame is its own event and each call is an ordinary event right after the frame
   that triggered it.  (The other tail positions need no theorem about afkak: Deferred.cancel() fires the errback after
   the canceller _cancelRequest has returned, and the Deferred of makeRequest on a closed client has fired before the
   caller can attach anything - no afkak statement follows the firing.  The two NON-tail positions are the loops of
   Model/BrokerClientHook.v.) *)
Theorem C06_tail_reentrancy : forall inter fs r s, s_proto s = true -> s_rxbuf s = [] ->
  Forall (fun f => ok4 f = true /\ Z.of_nat (length f) <= MAX_LENGTH) fs ->
  parse ok4 r = ([], RxMore r) ->
  data_in_c inter s (concat (map encode_frame fs) ++ r) = run s (tail_events inter s fs ++ [EData r]).
Proof. exact tail_reentrancy. Qed.
Print Assumptions C06_tail_reentrancy.

(* ------------------------------------------------------------------ the bootstrap protocol, as observed *)

(* For every event list (requests, data in any chunking, connection loss): no request Deferred fires twice; a success
   value starts with the four id bytes (request[4:8]) of the request its Deferred was created for; after the
   connection was lost every Deferred has fired. *)
Theorem C06_bootstrap_pairing : forall evs s o, brun b_init evs = (s, o) ->
  NoDup (bdef_handles o)
  /\ (forall h, ~ In (BErr h) o)
  /\ (forall h fr, In (BDef h (BSucc fr)) o ->
        exists q, nth_error (b_reqs s) h = Some q /\ take 4 fr = take 4 (drop 4 q))
  /\ (forall h, In h (bdef_handles o) <-> In h (b_fired s))
  /\ (b_pending s = None -> forall h, (h < length (b_reqs s))%nat -> In h (bdef_handles o)).
Proof. exact bootstrap_pairing. Qed.
Print Assumptions C06_bootstrap_pairing.

(* a response whose id matches no pending request drops the connection and touches no Deferred *)
Theorem C06_bootstrap_unknown_id : forall s p f, b_pending s = Some p -> blookup (take 4 f) p = None ->
  b_string_received s f = (s, [BLose]).
Proof. exact bootstrap_unknown_id. Qed.
Print Assumptions C06_bootstrap_unknown_id.

(* No crosstalk on the bootstrap connection (several requests in flight, KafkaClient applies addTimeout = cancel):
   request() creates its Deferred WITHOUT a canceller, so cancelling fails it with CancelledError and leaves the
   _pending entry in place (Twisted then swallows the next firing of that Deferred).  In every reachable state a frame
   carrying the id of such a cancelled request fires nothing, does not drop the connection, removes only that entry:
   every other outstanding request keeps its entry and later gets its own response. *)
Theorem C06_bootstrap_no_crosstalk : forall evs s o, brun b_init evs = (s, o) ->
  forall p f h, b_pending s = Some p -> blookup (take 4 f) p = Some h -> In h (b_fired s) ->
  exists s', b_string_received s f = (s', [])
    /\ b_pending s' = Some (bremove (take 4 f) p) /\ b_fired s' = b_fired s
    /\ (forall k' h', In (k', h') p -> k' <> take 4 f -> In (k', h') (bremove (take 4 f) p)).
Proof. exact bootstrap_no_crosstalk. Qed.
Print Assumptions C06_bootstrap_no_crosstalk.

Theorem C06_bootstrap_cancel_keeps_entry : forall s h, (h < length (b_reqs s))%nat -> ~ In h (b_fired s) ->
  exists s', bstep s (BCancel h) = (s', [BDef h BFailCancelled])
    /\ b_pending s' = b_pending s /\ In h (b_supp s') /\ b_fired s' = h :: b_fired s.
Proof. exact bootstrap_cancel_keeps_entry. Qed.
Print Assumptions C06_bootstrap_cancel_keeps_entry.

(* ------------------------------------------------------------------ non-vacuity *)
(* three chunks cutting two frames inside the prefix, inside the id and inside the next prefix *)
Example reassembly_nonvacuous :
  concat [[0;0;0;5;0;0]; [0;1;70;0;0;0;4;0]; [0;0;2;0]] = concat (map encode_frame [[0;0;0;1;70]; [0;0;0;2]]) ++ [0]
  /\ parse ok4 [0] = ([], RxMore [0])
  /\ rx_run ok4 [] [[0;0;0;5;0;0]; [0;1;70;0;0;0;4;0]; [0;0;2;0]]
     = ([([], RxMore [0;0;0;5;0;0]); ([[0;0;0;1;70]], RxMore [0;0;0;4;0]); ([[0;0;0;2]], RxMore [0])], [0]).
Proof. vm_compute. repeat split. Qed.

(* a run with three requests (one without reply), a cancel of a written request, a late reply to it, an unknown id,
   a real reply, a loss with one request left, a failed and a successful reconnect, close *)
Example run_nonvacuous :
  snd (run init [EMake 1 true; EMake 2 true; EMake 3 false; EConnOk; ECancel 0; EFrame [0;0;0;1;70];
                 EFrame [0;0;0;9]; EFrame [0;0;0;2]; EMake 4 true; ELost; EConnFail; EFire; EConnOk; EClose; ELost])
  = [OConnect 0; OWrite 0 1; OWrite 1 2; OWrite 2 3; ODef 2 SuccNone; ODef 0 FailCancelled;
     ODef 1 (Succ [0;0;0;2]); OWrite 3 4; OConnect 0; OSched 1; OConnect 0; OWrite 3 4; OLose;
     ODef 3 FailClosed; OCloseFired].
Proof. vm_compute. reflexivity. Qed.

(* the hypotheses of C06_no_crosstalk hold in a reachable state with a tombstone (id 1) and a live request (id 2):
   a late frame for id 1 and an unsolicited frame for id 9 both qualify, a frame for id 2 satisfies C06_own_frame *)
Example no_crosstalk_nonvacuous :
  let s := fst (run init [EMake 1 true; EMake 2 true; EConnOk; ECancel 0]) in
  s_proto s = true /\ s_rxbuf s = []
  /\ map (fun r => (r_id r, r_cancelled r)) (t_reqs (s_t s)) = [(1, true); (2, false)]
  /\ snd (step s (EFrame [0;0;0;1;70])) = [] /\ snd (step s (EFrame [0;0;0;9])) = []
  /\ snd (step s (EFrame [0;0;0;2])) = [ODef 1 (Succ [0;0;0;2])].
Proof. vm_compute. repeat split. Qed.

(* two requests, a tombstone and a live one; the stream = late reply to the tombstone, unknown id, own reply, and 3
   bytes of a next frame, cut byte-wise in one run and 2+rest in the other: same state, same outputs, residue kept *)
Example client_chunking_nonvacuous :
  let s := fst (run init [EMake 1 true; EMake 2 true; EConnOk; ECancel 0]) in
  let stream := encode_frame [0;0;0;1;70] ++ encode_frame [0;0;0;9] ++ encode_frame [0;0;0;2] ++ [0;0;0] in
  s_proto s = true /\ parse ok4 (s_rxbuf s) = ([], RxMore (s_rxbuf s))
  /\ parse ok4 (s_rxbuf s ++ stream) = ([[0;0;0;1;70]; [0;0;0;9]; [0;0;0;2]], RxMore [0;0;0])
  /\ snd (run s (map EData (map (fun b => [b]) stream))) = [ODef 1 (Succ [0;0;0;2])]
  /\ run s (map EData (map (fun b => [b]) stream)) = run s (map EData [take 2 stream; drop 2 stream])
  /\ snd (spec_frames (abs (s_t s)) [[0;0;0;1;70]; [0;0;0;9]; [0;0;0;2]]) = [ODef 1 (Succ [0;0;0;2])]
  /\ abs (s_t s) 1 = Some (0%nat, true) /\ abs (s_t s) 2 = Some (1%nat, false).
Proof. vm_compute. repeat split. Qed.

(* two requests in flight, the first is cancelled (timeout), its late response arrives, then the second one's: the
   second request gets its own response, nothing is dropped *)
Example bootstrap_cancel_nonvacuous :
  snd (brun b_init [BReq [0;3;0;0;0;0;0;1]; BReq [0;3;0;0;0;0;0;2]; BCancel 0; BData [0;0;0;5;0;0;0;1;65];
                    BData [0;0;0;5;0;0;0;2;66]; BData [0;0;0;4;0;0;0;1]])
  = [BWrite 0 [0;3;0;0;0;0;0;1]; BWrite 1 [0;3;0;0;0;0;0;2]; BDef 0 BFailCancelled; BDef 1 (BSucc [0;0;0;2;66]); BLose].
Proof. vm_compute. reflexivity. Qed.

(* two frames in one chunk; the callback of request 1 (handle 0) cancels request 2 and closes the client: the second
   frame, handled afterwards in the same dataReceived call, is a late reply to a cancelled request *)
Example tail_reentrancy_nonvacuous :
  let s := fst (run init [EMake 1 true; EMake 2 true; EConnOk]) in
  let inter := [(0%nat, [KCancel 1; KClose])] in
  snd (data_in_c inter s (encode_frame [0;0;0;1] ++ encode_frame [0;0;0;2] ++ [0;0]))
  = [ODef 0 (Succ [0;0;0;1]); ODef 1 FailCancelled; OLose]
  /\ tail_events inter s [[0;0;0;1]; [0;0;0;2]] = [EFrame [0;0;0;1]; ECancel 1; EClose; EFrame [0;0;0;2]].
Proof. vm_compute. split; reflexivity. Qed.

(* requests 1 (sendable), 2 (unsendable, queued), 3 (sendable) flushed on a new connection: 2 fails in the middle, 1 and 3
   are written; after a loss and a reconnect only 1 and 3 are re-sent; an unsendable request on the live connection
   fails at once *)
Example write_failure_nonvacuous :
  map enc_wout (snd (wrun winit [WMake 1 true false; WMake 2 true true; WMake 3 true false; WEv EConnOk; WEv ELost; WEv EConnOk;
                                 WMake 4 false true]))
  = map enc_wout [WO (OConnect 0); WO (OWrite 0 1); WFail 1; WO (OWrite 2 3); WO (OConnect 0); WO (OWrite 0 1); WO (OWrite 2 3); WFail 3].
Proof. vm_compute. reflexivity. Qed.

Example bootstrap_nonvacuous :
  snd (brun b_init [BReq [0;3;0;0;0;0;0;1;255;255]; BData [0;0;0;5;0;0]; BData [0;1;66];
                    BReq [0;3;0;0;0;0;0;2]; BData [0;0;0;4;9;9;9;9]; BLost])
  = [BWrite 0 [0;3;0;0;0;0;0;1;255;255]; BDef 0 (BSucc [0;0;0;1;66]); BWrite 1 [0;3;0;0;0;0;0;2];
     BLose; BDef 1 BFailLost].
Proof. vm_compute. reflexivity. Qed.
