(* C15, translator tie (A): Model/AssignGen.v is the committed snapshot of what harness/py2assign.py generates from
   /repo/afkak/_group.py (_ConsumerProtocol._round_robin_assignment); on every run the same two statements are
   re-proved about THIS run's translation in coq/Run/out/gen/<id>/ (harness/assign_tie.py).  A semantic change to the
   assignor breaks them (or makes the translator refuse): tie (A) is then unavailable and the differential
   correspondence of harness/props/C15.py (tie B) decides. *)
From AV Require Import Base.Util Model.Assign Model.AssignPy Model.AssignGen Proofs.AssignGenEq.

(* what the source computes is the hand-written model the C15 theorems are about: for every member_metadata dict
   (distinct keys), every partition map, and every bound on the inner `while` of at least the number of members *)
Theorem C15_generated_is_model : forall fuel md tp, NoDup (map fst md) -> (length md <= fuel)%nat ->
  gen_round_robin fuel md tp = round_robin md tp.
Proof. exact gen_rr_eq_model. Qed.
Print Assumptions C15_generated_is_model.

(* ... hence, on the member list of a JoinGroup response, the leader's decision leader_assign *)
Theorem C15_generated_is_leader_assign : forall fuel members tp, (length members <= fuel)%nat ->
  gen_round_robin fuel (build_md members) tp = leader_assign members tp.
Proof. exact gen_leader_eq_model. Qed.
Print Assumptions C15_generated_is_leader_assign.

(* non-vacuity: ids "b","a"; a:[t] b:[t,u]; t -> [1,0], u -> [5] *)
Example generated_nonvacuous :
  gen_round_robin 2 (build_md [([98], [[116]; [117]]); ([97], [[116]])]) [([116], [1; 0]); ([117], [5])]
  = Ok [([97], [([116], [0])]); ([98], [([116], [1]); ([117], [5])])]
  /\ gen_round_robin 2 (build_md [([97], [[116]])]) [] = Err (ENeed [[116]])
  /\ gen_round_robin 2 [] [] = Err EAssert.
Proof. repeat split; vm_compute; reflexivity. Qed.
