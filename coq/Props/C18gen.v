(* C18, translator tie: Model/MurmurGen.v is REGENERATED from /repo/afkak/partitioner.py (function
   pure_murmur2) by harness/py2coq.py on every run; these theorems are therefore re-checked against what
   the source says now.  A semantic change to pure_murmur2 breaks them. *)
From AV Require Import Base.Util Model.Murmur Model.MurmurGen Model.Partitioner Proofs.MurmurGenEq Proofs.MurmurJava Proofs.MurmurGenJava.

(* the generated function, with the default seed found in the source, is the hand-written model *)
Theorem C18_generated_is_model : forall data, bytes_ok data = true -> gen_pure_murmur2 data gen_seed = pure_murmur2 data.
Proof. exact gen_eq_model. Qed.
Print Assumptions C18_generated_is_model.

(* hence what the source computes is Java's murmur2, for every byte string *)
Theorem C18_generated_is_java : forall data, bytes_ok data = true ->
  murmur2_java (map sbyte data) mod 0x100000000 = gen_pure_murmur2 data gen_seed.
Proof. exact gen_is_java. Qed.
Print Assumptions C18_generated_is_java.

Example generated_nonvacuous : gen_pure_murmur2 [97; 98; 99] gen_seed = 479470107 /\ gen_seed = 0x9747B28C.
Proof. split; vm_compute; reflexivity. Qed.
