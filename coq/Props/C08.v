(* C08 - Cached cluster metadata mirrors the broker's answer and self-heals when stale.
   (client.py line numbers as of /repo commit b8d6557.)
   Theorem statements only; proofs live in Proofs/ClientMeta*.v, Proofs/ClientRouteWF.v.
   Model: Model/ClientMeta.v (the cache, afkak/client.py:274-326, 529-569, 869-902, 904-924, 963-994) and
   Model/ClientRoute.v (resolution and sending, client.py:468-527, 996-1029, 1109-1371).
   [WF] is the invariant of reachable states (C08_reachable_wf); [wf] is its boolean form. *)
From AV Require Import Base.Util Model.ClientMeta Model.ClientRoute Proofs.ClientMetaDict Proofs.ClientMetaFacts
  Proofs.ClientRouteWF Proofs.ClientRouteFacts Proofs.ClientMetaC08 Proofs.ClientMetaRecovery Proofs.ClientMetaBudget Proofs.ClientMetaBudgetEx.

(* Every state reachable by ANY history of client operations (metadata / coordinator loads with any try
   script and any response bytes, sends with any outcomes, resets, connection losses, close, host updates)
   satisfies the invariant: cached partitions are listed in topic_partitions, cached leaders / coordinators
   are known brokers, every broker client aims at the latest address of its node. *)
Theorem C08_reachable_wf : forall st, reach st ->
  (forall t p v, tget (t, p) (s_t2b st) = Some v -> exists ps, zget t (s_tparts st) = Some ps /\ In p ps) /\
  (forall k n a, tget k (s_t2b st) = Some (Some (n, a)) -> dmem Z.eqb n (s_brokers st) = true) /\
  (forall g n a, zget g (s_g2c st) = Some (n, a) -> dmem Z.eqb n (s_brokers st) = true) /\
  (forall n c, zget n (s_clients st) = Some c -> zget n (s_brokers st) = Some (c_target c)).
Proof. exact reach_WF. Qed.
Print Assumptions C08_reachable_wf.

(* Whatever bytes the broker sent, the decoded response has unique broker ids, topic names and partition
   ids (dict semantics of kafkacodec.py:805-837), so "well-formed" below only asks that every leader is
   -1 or one of the response's own brokers. *)
Theorem C08_decoded_keys_unique : forall r, keys_unique (norm_resp r) = true.
Proof. exact norm_resp_keys_unique. Qed.
Print Assumptions C08_decoded_keys_unique.

(* After merging a response (partial or full refresh), for every topic of the response: topic error,
   partition list (sorted), leader of every partition (None for -1, else node id WITH THE ADDRESS THE
   RESPONSE GAVE) equal the response; partitions not in the response have no cached leader; the broker
   addresses equal the response's. *)
Theorem C08_merge_exact : forall st nr full st' gone ok,
  WF st -> resp_wf nr = true -> merge st nr full = (st', gone, ok) ->
  ok = true /\
  (forall n a, In (n, a) (n_brokers nr) -> zget n (s_brokers st') = Some a) /\
  (forall t err parts, In (t, (err, parts)) (n_topics nr) ->
     (zget t (s_terrs st') = Some err /\
      zget t (s_tparts st') = (if is_nil parts then None else Some (zisort (map fst parts))) /\
      (forall p l, In (p, l) parts ->
         exists v, (if l =? -1 then Some None
                    else match zget l (n_brokers nr) with Some a => Some (Some (l, a)) | None => None end) = Some v /\
                   tget (t, p) (s_t2b st') = Some v) /\
      (forall p, ~ In p (map fst parts) -> tget (t, p) (s_t2b st') = None)) /\
     metadata_error_for_topic st' t = err).
Proof. exact merge_exact. Qed.
Print Assumptions C08_merge_exact.

(* Topics the response does not mention are untouched - for ANY response, truthful or not, also when the
   merge stops half-way on a KeyError (ok = false); so are the coordinator cache and the bootstrap hosts. *)
Theorem C08_merge_frame : forall st nr full st' gone ok t,
  merge st nr full = (st', gone, ok) -> ~ In t (map fst (n_topics nr)) ->
  (zget t (s_terrs st) = zget t (s_terrs st') /\
   zget t (s_tparts st) = zget t (s_tparts st') /\
   forall p, tget (t, p) (s_t2b st) = tget (t, p) (s_t2b st')) /\
  s_g2c st' = s_g2c st /\ s_boot st' = s_boot st /\ s_closed st' = s_closed st.
Proof. exact merge_frame. Qed.
Print Assumptions C08_merge_frame.

(* Broker clients: a full refresh naming at least one broker closes exactly the clients whose node is
   missing from it; any other merge closes none; a surviving client keeps its live connection and aims at
   the response's address for its node (its old target if the response does not mention the node). *)
Theorem C08_full_refresh_closes : forall st nr full st' gone ok,
  NoDup (map fst (n_brokers nr)) -> merge st nr full = (st', gone, ok) ->
  let remove := full && negb (is_nil (n_brokers nr)) in
  gone = (if remove then filter (fun n => negb (dmem Z.eqb n (n_brokers nr))) (map fst (s_clients st)) else []) /\
  map fst (s_clients st') =
    (if remove then filter (fun n => dmem Z.eqb n (n_brokers nr)) (map fst (s_clients st)) else map fst (s_clients st)) /\
  (forall n c, zget n (s_clients st') = Some c ->
     exists c0, zget n (s_clients st) = Some c0 /\ c_conn c = c_conn c0 /\
                c_target c = match zget n (n_brokers nr) with Some a => a | None => c_target c0 end).
Proof. exact merge_clients. Qed.
Print Assumptions C08_full_refresh_closes.

(* Invalidation.  What a public send_*_request leaves behind, by kind of result:
   - delivered responses (fail_on_error=False): every NotLeader(6) / UnknownTopicOrPartition(3) answer's
     topic has no cached leader for any partition and has_metadata_for_topic is False (what Producer and
     Consumer poll); every coordinator error (14,15,16) cleared the group;
   - raised error e: it is the error of one of the responses, and the same holds for that response;
   - FailedPayloadsError: NOTHING is cached any more (no leader, no coordinator, no topic). *)
Theorem C08_invalidate : forall st group fail expect ps loads outs r st' res,
  WF st -> send_public st group fail expect ps loads outs = (r, st', res) ->
  match res with
  | POk out =>
      (forall x, In x out -> is_topic_err (r_err x) = true ->
         (forall p, leader_of st' (r_topic x, p) = None) /\ has_metadata_for_topic st' (r_topic x) = false) /\
      (forall x g, In x out -> is_group_err (r_err x) = true -> group = Some g -> zget g (s_g2c st') = None)
  | PRaise e =>
      fail = true /\ e <> 0 /\ exists rs x, a_res r = SOk rs /\ In x rs /\ r_err x = e /\
        (is_topic_err e = true ->
           (forall p, leader_of st' (r_topic x, p) = None) /\ has_metadata_for_topic st' (r_topic x) = false) /\
        (forall g, is_group_err e = true -> group = Some g -> zget g (s_g2c st') = None)
  | PFailed _ _ =>
      (forall k, leader_of st' k = None) /\ (forall g, zget g (s_g2c st') = None) /\
      (forall t, has_metadata_for_topic st' t = false)
  | PType => group = None
  | PErr _ => True
  end.
Proof. exact send_public_invalidates. Qed.
Print Assumptions C08_invalidate.

(* The same for _send_request_to_coordinator (JoinGroup, SyncGroup, Heartbeat, LeaveGroup): a coordinator
   error in the answer clears the cached coordinator of the group, a topic error the answer's topic. *)
Theorem C08_invalidate_coordinator_request : forall st g p loads o r st' e,
  WF st -> send_coord st g p loads o = (r, st', PRaise e) ->
  e <> 0 /\ (is_group_err e = true -> zget g (s_g2c st') = None) /\
  (is_topic_err e = true -> exists x, a_res r = SOk [x] /\ r_err x = e /\
     (forall q, leader_of st' (r_topic x, q) = None) /\ has_metadata_for_topic st' (r_topic x) = false).
Proof. exact send_coord_invalidates. Qed.
Print Assumptions C08_invalidate_coordinator_request.

(* DOCUMENTED DEVIATION from the clause "a failed send invalidates the cached routing".  It holds for
   _send_broker_aware_request (C08_invalidate, PFailed).  It does NOT hold for _send_request_to_coordinator:
   when the request to the coordinator fails (time-out, connection never established) the failure simply
   propagates and the coordinator the failed request was sent to STAYS cached - this theorem states the
   model (and the code) as they are.  At client level nothing re-resolves the coordinator after such a
   failure; the caller compensates: afkak/_group.py rejoin_after_error calls reset_consumer_group_metadata on
   RequestTimedOutError before rejoining (modelled and proved on the group side, C17 / Model/Group.v). *)
Theorem C08_coordinator_failed_send_keeps_cache : forall st g p loads r st' res q,
  send_coord st g p loads RFail = (r, st', res) -> In q (a_reqs r) ->
  res = PErr ETimedOut /\ exists a, zget g (s_g2c st') = Some (rq_node q, a).
Proof. exact send_coord_failed_keeps. Qed.
Print Assumptions C08_coordinator_failed_send_keeps_cache.

(* The broker table only grows: a node the response does not name keeps its address (client.py:974). *)
Theorem C08_merge_brokers_frame : forall st nr full st' gone ok n,
  NoDup (map fst (n_brokers nr)) -> merge st nr full = (st', gone, ok) -> ~ In n (map fst (n_brokers nr)) ->
  zget n (s_brokers st') = zget n (s_brokers st).
Proof. exact merge_brokers_frame. Qed.
Print Assumptions C08_merge_brokers_frame.

(* ... so that the next resolution of such a partition performs a metadata lookup (a partial refresh: full =
   false; the load event carries the tries of that request), while a cached leader is used without any request.
   These two are one-step facts about resolve_leader.  WHAT is asked: C08_lookups_ask below - every lookup of a
   call is a metadata request for the topic of one of its payloads (a coordinator request for its group); the
   pair [le_kind; le_id] of every lookup is part of the trace compared with the implementation, where it is parsed
   from the request on the wire (and checked again by the C08_reresolve monitor). *)
Theorem C08_reresolve : forall st p u r loads st1 log gone res,
  (leader_of st (p_key p) = None \/ leader_of st (p_key p) = Some None) ->
  load_metadata st false u r = (st1, log, gone, res) ->
  exists out,
    resolve_leader st p (LoadMeta u r :: loads) =
      (st1, loads, [{| le_kind := 0; le_id := p_topic p; le_log := log; le_gone := gone; le_res := lres_code res |}], out).
Proof. exact resolve_leader_reloads. Qed.
Print Assumptions C08_reresolve.

Theorem C08_cached_no_request : forall st p loads bm,
  leader_of st (p_key p) = Some (Some bm) -> resolve_leader st p loads = (st, loads, [], inl (fst bm)).
Proof. exact resolve_leader_cached. Qed.
Print Assumptions C08_cached_no_request.

Theorem C08_lookups_ask : forall st group expect ps loads outs,
  Forall (fun e => match group with
                   | None => le_kind e = 0 /\ exists p, In p ps /\ le_id e = p_topic p
                   | Some g => le_kind e = 1 /\ le_id e = g
                   end) (a_loads (aware st group expect ps loads outs)).
Proof. exact aware_loads_ask. Qed.
Print Assumptions C08_lookups_ask.

(* Bounded recovery (PARTIAL form of "resumes within the retry budget").  Proved: from ANY reachable state
   in which the partition's routing was invalidated (C08_invalidate: one failed attempt does that), if the
   metadata request is answered by some broker or bootstrap host (the try script ends in UOk) and the
   answer is truthful (leaders are brokers of the response) and names leader l for the partition, then
   THIS resolution already returns l, and the cache names l at the address the response gave: the very
   next attempt is routed to the new leader.  Hence at most ONE failed attempt after the last change of
   the cluster.  Missing for the full statement: the retry loops of Producer/Consumer (their budgets and
   back-off) are not part of this model, and an attempt made before the cluster settled may fail again;
   with a budget of >= 2 attempts after the last fault the statement follows. *)
Theorem C08_recovery_partial : forall st p u r loads st1 log err parts l,
  WF st -> (leader_of st (p_key p) = None \/ leader_of st (p_key p) = Some None) ->
  unaware st u = (st1, log, UOk) ->
  leaders_known (norm_resp r) = true ->
  In (p_topic p, (err, parts)) (n_topics (norm_resp r)) -> In (p_part p, l) parts -> l <> -1 ->
  exists st2 ev a,
    resolve_leader st p (LoadMeta u r :: loads) = (st2, loads, [ev], inl l) /\
    le_kind ev = 0 /\ le_id ev = p_topic p /\ le_log ev = log /\ le_res ev = 1 /\
    leader_of st2 (p_key p) = Some (Some (l, a)) /\ In (l, a) (n_brokers (norm_resp r)) /\
    zget l (s_brokers st2) = Some a /\ WF st2.
Proof. exact recovery_step. Qed.
Print Assumptions C08_recovery_partial.

(* Recovery for whole calls (still PARTIAL with respect to "within the retry budget of Producer/Consumer").
   Let [truth] name the leader of every partition once the cluster has settled, and let every metadata lookup be
   answered truthfully ([load_truthful]: leaders are brokers of the response and equal [truth]).
   [stale truth st t]: some cached leader of topic t differs from the truth.  [fresh truth st]: none does.
   (1) From a reachable state without stale leaders EVERY payload of a call - any payload list, any number of
       nested lookups - is routed to its true leader.
   (2) No public send ever makes a topic stale that was not stale before.
   (3) By C08_invalidate the topic of a NotLeader/UnknownTopic answer is not stale afterwards
       (fail_on_error=False: every such topic of the call at once; True: the first one).
   With brokers that answer NotLeader only to requests for partitions they do not lead, an attempt can only fail
   because of a stale topic; each failed attempt removes at least one stale topic and adds none, and with none
   left (1) applies: the number of failed attempts after the last fault is at most the number of DISTINCT STALE
   TOPICS (one, if the caller delivers errors instead of raising).  Premise named, not proved: a broker that was
   re-addressed no longer holds the old connection (C08_live_connection_kept shows a surviving connection keeps
   being used).  Not covered: the retry loops and budgets of Producer/Consumer (C01/C02/C09 own them). *)
Theorem C08_recovery_routes_all_partial : forall truth st expect ps loads outs rs failed,
  WF st -> fresh truth st -> Forall (load_truthful truth) loads ->
  fanout (a_res (aware st None expect ps loads outs)) = Some (rs, failed) ->
  Forall (fun x => rs_node x = truth (p_key (rs_payload x))) (a_resolved (aware st None expect ps loads outs)).
Proof. exact fresh_routing. Qed.
Print Assumptions C08_recovery_routes_all_partial.

Theorem C08_stale_never_grows : forall truth st group fail expect ps loads outs r st' res t,
  WF st -> Forall (load_truthful truth) loads ->
  send_public st group fail expect ps loads outs = (r, st', res) ->
  (exists p n a, leader_of st' (t, p) = Some (Some (n, a)) /\ n <> truth (t, p)) ->
  (exists p n a, leader_of st (t, p) = Some (Some (n, a)) /\ n <> truth (t, p)).
Proof. exact stale_never_grows. Qed.
Print Assumptions C08_stale_never_grows.

Theorem C08_fresh_iff_no_stale : forall truth st,
  (forall k n a, leader_of st k = Some (Some (n, a)) -> n = truth k) <->
  (forall t, ~ exists p n a, leader_of st (t, p) = Some (Some (n, a)) /\ n <> truth (t, p)).
Proof. exact fresh_iff_no_stale. Qed.
Print Assumptions C08_fresh_iff_no_stale.

(* RECOVERY WITHIN THE RETRY BUDGET (the last clause of the property), composed over attempts.
   The caller's retry loop as the property sees it: the SAME payload list ps is sent again and again
   ([run_attempt] = one send_*_request with fail_on_error = [fail]), each attempt with the cache the previous
   ones left behind.  Premises ([all_good], for every attempt, in the cache state it is made in) - the cluster
   after the last fault:
     (P1) the topology is fixed: [truth] names the leader of every partition;
     (P2) every metadata lookup of the attempt is answered truthfully ([load_truthful]) and the resolution of
          the payloads gets as far as sending ([fanout .. <> None]: lookups are answered by some broker or
          bootstrap host and name a leader for the asked partitions);
     (P3) every request is ANSWERED, by the node it was sent to, for exactly its payloads, with error 0 for a
          partition the node leads and NotLeader (6) otherwise ([honest_outs]).  This includes: a broker that was
          re-addressed no longer holds the client's old connection (a surviving connection to a peer that does
          not answer makes the send FAIL instead: then FailedPayloadsError empties the whole cache -
          C08_invalidate - which costs one more attempt per such failure and is outside this theorem);
     payload keys are distinct.
   Conclusion: the number of failed attempts before the first success is at most [stale_count truth ps st], the
   number of DISTINCT TOPICS among the payloads that have a stale cached leader when the retries start
   (proved by induction: it strictly decreases with every failed attempt, for fail_on_error = True and False
   alike); so ANY budget of more attempts than that reaches a successful attempt, and in that attempt every
   payload is routed to its true leader and every answer is 0. *)
Theorem C08_recovery_within_budget : forall truth fail ps atts st,
  WF st -> NoDup (map p_key ps) -> all_good truth fail ps st atts ->
  (stale_count truth ps st < length atts)%nat ->
  exists k st_k a,
    first_success fail ps st atts = Some k /\ (k <= stale_count truth ps st)%nat /\
    nth_error atts k = Some a /\ WF st_k /\
    success_b ps (snd (run_attempt fail ps st_k a)) = true /\
    Forall (fun x => rs_node x = truth (p_key (rs_payload x))) (a_resolved (fst (fst (run_attempt fail ps st_k a)))).
Proof. exact recovery_within_budget. Qed.
Print Assumptions C08_recovery_within_budget.

(* The calls Producer (one topic per produce request of a retry, coq/Model/Producer.v: budget c_max, C09_attempt_bound)
   and Consumer (one partition per fetch, budget request_retry_max_attempts, C14_attempt_limit) make concern ONE
   topic: at most ONE attempt fails, a budget of 2 attempts suffices.  (The budgets themselves and that the
   callers really retry - and reset the topic for errors other than 3/6 - are C09/C14/C01/C02; not composed here.) *)
Theorem C08_recovery_single_topic : forall truth fail ps atts st t,
  WF st -> NoDup (map p_key ps) -> (forall p, In p ps -> p_topic p = t) ->
  all_good truth fail ps st atts -> (2 <= length atts)%nat ->
  exists k, first_success fail ps st atts = Some k /\ (k <= 1)%nat.
Proof. exact recovery_single_topic. Qed.
Print Assumptions C08_recovery_single_topic.

(* Errors DELIVERED (fail_on_error=False, what Producer passes): one attempt heals every payload of the call at
   once - wrongly routed payloads had their topic cleared, rightly routed ones kept or re-learnt a true leader - so
   at most ONE attempt fails whatever the number of stale topics among the payloads; a budget of 2 suffices. *)
Theorem C08_recovery_delivering_errors : forall truth ps atts st,
  WF st -> NoDup (map p_key ps) -> all_good truth false ps st atts -> (2 <= length atts)%nat ->
  exists k, first_success false ps st atts = Some k /\ (k <= 1)%nat.
Proof. exact within_budget_delivering. Qed.
Print Assumptions C08_recovery_delivering_errors.

(* the measure means what it says *)
Theorem C08_stale_count_meaning : forall truth st t,
  stale_tb truth st t = true <-> exists p n a, leader_of st (t, p) = Some (Some (n, a)) /\ n <> truth (t, p).
Proof. exact stale_tb_iff. Qed.
Print Assumptions C08_stale_count_meaning.

(* Addresses: a broker client without a live connection connects to the address the cache has for its
   node (by C08_merge_exact the one the latest response naming the node gave); a client with a live
   connection keeps using it (brokerclient.py:148-165 updateMetadata only affects future connections). *)
Theorem C08_next_connect_address : forall st n st2 a,
  WF st -> request_on st n = Some (st2, a) -> connected st n = false -> zget n (s_brokers st) = Some a.
Proof. exact request_on_addr. Qed.
Print Assumptions C08_next_connect_address.

Theorem C08_live_connection_kept : forall st n st2 a c x,
  request_on st n = Some (st2, a) -> zget n (s_clients st) = Some c -> c_conn c = Some x -> a = x.
Proof. exact request_on_live. Qed.
Print Assumptions C08_live_connection_kept.

(* ---- non-vacuity: a concrete reachable history -------------------------------------------------- *)
Definition ex_r1 : rawresp :=
  {| rr_brokers := [(1, (101, 9092)); (2, (102, 9092))];
     rr_topics := [{| rt_err := 0; rt_id := 0; rt_parts := [(0, 1, 2); (0, 0, 1)] |};
                   {| rt_err := 0; rt_id := 1; rt_parts := [(0, 0, 2)] |}] |}.
(* leader of t0/0 moves to broker 2, which is re-addressed; partial response (topic 0 only) *)
Definition ex_r2 : rawresp :=
  {| rr_brokers := [(2, (202, 9093))];
     rr_topics := [{| rt_err := 0; rt_id := 0; rt_parts := [(0, 0, 2); (0, 1, -1)] |}] |}.
Definition ex_s1 := fst (fst (merge (init_state [(7, 9092)]) (norm_resp ex_r1) true)).
Definition ex_s2 := fst (fst (merge ex_s1 (norm_resp ex_r2) false)).

Example ex_resp_wf : resp_wf (norm_resp ex_r1) = true /\ resp_wf (norm_resp ex_r2) = true.
Proof. split; vm_compute; reflexivity. Qed.
Example ex_states_wf : wf ex_s1 = true /\ wf ex_s2 = true /\ WF ex_s2.
Proof. split; [vm_compute; reflexivity|]. split; [vm_compute; reflexivity|]. apply wf_WF. vm_compute. reflexivity. Qed.
Example ex_merge_moves_leader :
  leader_of ex_s1 (0, 0) = Some (Some (1, (101, 9092))) /\
  leader_of ex_s2 (0, 0) = Some (Some (2, (202, 9093))) /\ leader_of ex_s2 (0, 1) = Some None /\
  leader_of ex_s2 (1, 0) = Some (Some (2, (102, 9092))) /\          (* frame: topic 1 keeps its stale entry *)
  zget 0 (s_tparts ex_s2) = Some [0; 1].
Proof. vm_compute. repeat split. Qed.
(* a NotLeader answer for t1/0 clears topic 1; the next resolution reloads and finds the new address *)
Example ex_invalidate_then_recover :
  let '(st3, _) := handle_responses ex_s2 None false [{| r_topic := 1; r_part := 0; r_err := 6; r_tag := 0 |}] [] in
  leader_of st3 (1, 0) = None /\
  let u := {| u_shuf := [2; 1]; u_kouts := [KFail; KResp]; u_bshuf := []; u_bouts := [] |} in
  let r3 := {| rr_brokers := [(2, (202, 9093))]; rr_topics := [{| rt_err := 0; rt_id := 1; rt_parts := [(0, 0, 2)] |}] |} in
  match resolve_leader st3 {| p_topic := 1; p_part := 0; p_tag := 5 |} [LoadMeta u r3] with
  | (st4, [], [ev], inl 2) => leader_of st4 (1, 0) = Some (Some (2, (202, 9093))) /\ length (le_log ev) = 2%nat
  | _ => False
  end.
Proof. vm_compute. repeat split. Qed.
(* a full refresh that no longer lists broker 1 closes its client *)
Example ex_full_refresh_closes :
  match request_on ex_s2 1 with
  | Some (st3, a) =>
      a = (101, 9092) /\
      snd (fst (merge st3 (norm_resp {| rr_brokers := [(2, (202, 9093))]; rr_topics := [] |}) true)) = [1]
  | None => False
  end.
Proof. vm_compute. repeat split. Qed.
Example ex_reach : reach ex_s1.
Proof.
  eapply (R_meta (init_state [(7, 9092)]) true
            {| u_shuf := []; u_kouts := []; u_bshuf := [(7, 9092)]; u_bouts := [BResp] |} ex_r1);
    [apply R_init|vm_compute; reflexivity].
Qed.

(* two stale topics, truthful lookups: the first failed attempt (fail_on_error=False, NotLeader for both) clears
   both topics, the second attempt reloads both and routes every payload to the true leaders *)
Definition ex_truth (k : tpk) : Z := if fst k =? 0 then 2 else 1.
Definition ex_t0 : rawresp := {| rr_brokers := [(1, (101, 9092)); (2, (202, 9093))];
                                 rr_topics := [{| rt_err := 0; rt_id := 0; rt_parts := [(0, 0, 2); (0, 1, 2)] |}] |}.
Definition ex_t1 : rawresp := {| rr_brokers := [(1, (101, 9092)); (2, (202, 9093))];
                                 rr_topics := [{| rt_err := 0; rt_id := 1; rt_parts := [(0, 0, 1)] |}] |}.
Example ex_two_stale_topics_one_failed_attempt :
  let ps := [{| p_topic := 1; p_part := 0; p_tag := 1 |}; {| p_topic := 0; p_part := 0; p_tag := 2 |}] in
  let nl t p g := {| r_topic := t; r_part := p; r_err := 6; r_tag := g |} in
  let ok t p g := {| r_topic := t; r_part := p; r_err := 0; r_tag := g |} in
  let u := {| u_shuf := [1; 2]; u_kouts := [KResp]; u_bshuf := []; u_bouts := [] |} in
  let '(_, s1, res1) := send_public ex_s1 None false true ps [] [ROk [nl 1 0 1]; ROk [nl 0 0 2]] in
  res1 = POk [nl 1 0 1; nl 0 0 2] /\ leader_of s1 (1, 0) = None /\ leader_of s1 (0, 0) = None /\
  Forall (load_truthful ex_truth) [LoadMeta u ex_t1; LoadMeta u ex_t0] /\
  let '(r2, s2, res2) := send_public s1 None false true ps [LoadMeta u ex_t1; LoadMeta u ex_t0] [ROk [ok 1 0 1]; ROk [ok 0 0 2]] in
  res2 = POk [ok 1 0 1; ok 0 0 2] /\ map rs_node (a_resolved r2) = [1; 2].
Proof.
  vm_compute. split; [reflexivity|]. split; [reflexivity|]. split; [reflexivity|]. split.
  - repeat constructor; intros t err parts p l Ht Hp Hl; simpl in Ht; destruct Ht as [Ht|[]]; inversion Ht; subst;
      simpl in Hp; intuition (try congruence); inversion H; subst; reflexivity.
  - split; reflexivity.
Qed.

(* the retry loop on two stale topics with fail_on_error=True (proved in Proofs/ClientMetaBudgetEx.v): every premise
   of C08_recovery_within_budget holds and the bound is attained - two failed attempts, the third succeeds *)
Example ex_budget_attained :
  wf bx_s0 = true /\
  stale_count bx_truth bx_ps bx_s0 = 2%nat /\
  first_success true bx_ps bx_s0 [bx_a1; bx_a2; bx_a3] = Some 2%nat /\
  all_good bx_truth true bx_ps bx_s0 [bx_a1; bx_a2; bx_a3].
Proof. exact bx_budget_attained. Qed.
