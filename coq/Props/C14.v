(* C14 - Consumer retries, offset-reset policy and buffer growth follow the contract.
   Theorem statements only; proofs live in Proofs/ConsumerC14.v (and ConsumerInv.v for the run-level ones).
   Model: Model/Consumer.v (afkak/consumer.py:290-1131).  Never weaken a statement here. *)
From Coq Require Import QArith Qminmax.
From AV Require Import Base.Util Model.Consumer Proofs.ConsumerBase Proofs.ConsumerC14 Proofs.ConsumerInv Proofs.ConsumerRun Proofs.ConsumerLimit
  Proofs.ConsumerFuelEnoughLoop Proofs.ConsumerFuelEnoughRun.
Open Scope Z_scope.

(* ---------------- buffer growth: x16 while <= 2^20, else x2, clipped to the maximum; fails iff already at it ------- *)
Theorem C14_growth_rule : forall cur mx b, grow_buffer cur mx = Some b ->
  let f := if cur <=? 2 ^ 20 then 16 else 2 in
  match mx with None => b = cur * f | Some m => cur < m /\ b = Z.min (cur * f) m end.
Proof. exact grow_buffer_rule. Qed.
Print Assumptions C14_growth_rule.

Theorem C14_growth_fails_iff_at_max : forall cur mx, grow_buffer cur mx = None <-> exists m, mx = Some m /\ m <= cur.
Proof. exact grow_buffer_none_iff. Qed.
Print Assumptions C14_growth_fails_iff_at_max.

Theorem C14_growth_strict : forall cur mx b, 0 < cur -> grow_buffer cur mx = Some b ->
  cur < b /\ (forall m, mx = Some m -> b <= m) /\
  (b = cur * 16 /\ cur <= 2 ^ 20 \/ b = cur * 2 /\ 2 ^ 20 < cur \/ mx = Some b).
Proof. exact grow_buffer_grows. Qed.
Print Assumptions C14_growth_strict.

(* repeated growth reaches the configured maximum (so the consumer fails only when the maximum itself is too small) *)
Theorem C14_growth_reaches_max : forall m n cur, 0 < cur -> cur <= m -> m <= cur * 2 ^ Z.of_nat n -> grow_n n cur m = m.
Proof. exact grow_n_reaches_max. Qed.
Print Assumptions C14_growth_reaches_max.

(* inside the consumer, in EVERY state in which a fetch is outstanding and no block is being processed: a reply whose
   first message does not fit grows the buffer by the rule, leaves the fetch offset unchanged and re-fetches at once *)
Theorem C14_growth_step : forall (f : nat) s s' o b,
  s_req s = Some (R_FETCH, false) -> s_mblock s = None -> grow_buffer (s_buf s) (c_maxbuf (s_cf s)) = Some b ->
  step (S f) s (EFetchOk [] true) = (s', o) ->
  s_foff s' = s_foff s /\ s_req s' = None /\ s_buf s' = b /\ s_startd s' = s_startd s /\ s_ridx s' = 0 /\
  (running s = true -> s_rcall s = None ->
     o = [OSched T_RETRY (-1); OEnd (s_lp s) (s_lc s)] /\ s_rcall s' = Some 0).
Proof. exact growth_step. Qed.
Print Assumptions C14_growth_step.

Theorem C14_growth_fails_step : forall (f : nat) s s' o,
  s_req s = Some (R_FETCH, false) -> s_mblock s = None -> grow_buffer (s_buf s) (c_maxbuf (s_cf s)) = None ->
  s_startd s = Some false -> s_inapi s = 0 ->
  step (S f) s (EFetchOk [] true) = (s', o) ->
  o = [OStartD false FK_TOOSMALL; OEnd (s_lp s) (s_lc s)] /\ s_startd s' = Some true /\
  s_foff s' = s_foff s /\ s_req s' = None /\ s_buf s' = s_buf s /\ s_rcall s' = s_rcall s /\ s_ridx s' = 0.
Proof. exact growth_fails_step. Qed.
Print Assumptions C14_growth_fails_step.

(* ---------------- offset-reset policy: OffsetOutOfRange answering a fetch, in EVERY state ------------------------- *)
Theorem C14_reset_policy : forall fuel s s' o,
  s_req s = Some (R_FETCH, false) -> step fuel s (EReqFail FK_OOR) = (s', o) ->
  match reset_off (s_cf s) with
  | None =>
      s_foff s' = s_foff s /\ s_req s' = None /\ s_rcall s' = s_rcall s /\ s_ridx s' = s_ridx s
      /\ (s_startd s = Some false -> s_inapi s = 0 ->
          o = [OStartD false FK_OOR; OEnd (s_lp s) (s_lc s)] /\ s_startd s' = Some true)
  | Some t =>
      s_foff s' = t /\ s_req s' = None
      /\ (s_startd s = Some false -> s_inapi s = 0 -> exhausted s = true ->
          o = [OStartD false FK_OOR; OEnd (s_lp s) (s_lc s)] /\ s_startd s' = Some true /\ s_rcall s' = s_rcall s)
      /\ (running s = true -> s_rcall s = None -> exhausted s = false ->
          o = [OSched T_RETRY (s_ridx s); OEnd (s_lp s) (s_lc s)] /\ s_rcall s' = Some 0
          /\ s_ridx s' = s_ridx s + 1 /\ s_att s' = s_att s + 1 /\ s_startd s' = s_startd s)
  end.
Proof. exact reset_policy_step. Qed.
Print Assumptions C14_reset_policy.

(* the attempt limit has priority over the reset policy: the out-of-range answer is itself a failed attempt, so with
   count >= limit the start Deferred fails with OffsetOutOfRange and nothing is re-scheduled (no OffsetRequest will be
   sent); below the limit the policy is applied exactly as configured.  With limit 1 the policy is therefore never
   applied, with limit 2 only before the first successful fetch (the zero-delay refetch counts as an attempt): see the
   Examples at the end. *)
Theorem C14_limit_has_priority_over_policy : forall fuel s s' o t,
  s_req s = Some (R_FETCH, false) -> reset_off (s_cf s) = Some t -> s_startd s = Some false -> s_inapi s = 0 ->
  running s = true -> s_rcall s = None -> step fuel s (EReqFail FK_OOR) = (s', o) ->
  if exhausted s
  then o = [OStartD false FK_OOR; OEnd (s_lp s) (s_lc s)] /\ s_startd s' = Some true /\ s_rcall s' = None /\ s_req s' = None
  else o = [OSched T_RETRY (s_ridx s); OEnd (s_lp s) (s_lc s)] /\ s_foff s' = t /\ s_rcall s' = Some 0 /\ s_startd s' = Some false.
Proof. exact limit_priority_over_policy. Qed.
Print Assumptions C14_limit_has_priority_over_policy.

(* ... and when the retry timer then fires, the request is the OffsetRequest for earliest / latest (or the fetch) *)
Theorem C14_retry_fires : forall fuel s s' o,
  s_rcall s = Some 0 -> s_req s = None -> step fuel s EFireRetry = (s', o) ->
  s_rcall s' = None /\ s_foff s' = s_foff s /\ s_buf s' = s_buf s /\ s_ridx s' = s_ridx s /\ s_att s' = s_att s /\
  ((s_foff s = OFF_EARLIEST \/ s_foff s = OFF_LATEST) ->
     o = [OOffReq (s_foff s); OEnd (s_lp s) (s_lc s)] /\ s_req s' = Some (R_OFFREQ, false)) /\
  (special_off (s_foff s) = false ->
     o = [OFetch (s_foff s) (s_buf s); OEnd (s_lp s) (s_lc s)] /\ s_req s' = Some (R_FETCH, false)).
Proof. exact retry_fires_step. Qed.
Print Assumptions C14_retry_fires.

(* ---------------- back-off and attempt limit, one request outcome at a time, in EVERY state ---------------------- *)
(* a failed offset/fetch request: either the limit is reached (start Deferred fails, nothing re-scheduled) or the retry
   is scheduled with the CURRENT back-off index, which then advances by one, as does the attempt count *)
Theorem C14_failure_step : forall fuel s s' o kd fk,
  s_req s = Some (kd, false) -> (kd = R_FETCH -> is_oor fk = false) -> s_stopping s = false ->
  step fuel s (EReqFail fk) = (s', o) ->
  s_req s' = None /\ s_foff s' = s_foff s /\ s_buf s' = s_buf s /\
  (exhausted s = true ->
     s_rcall s' = s_rcall s /\ s_ridx s' = s_ridx s /\ s_att s' = s_att s /\
     (s_startd s = Some false -> s_inapi s = 0 ->
        o = [OStartD false fk; OEnd (s_lp s) (s_lc s)] /\ s_startd s' = Some true)) /\
  (exhausted s = false -> running s = true -> s_rcall s = None ->
     o = [OSched T_RETRY (s_ridx s); OEnd (s_lp s) (s_lc s)] /\ s_rcall s' = Some 0 /\
     s_ridx s' = s_ridx s + 1 /\ s_att s' = s_att s + 1 /\ s_startd s' = s_startd s).
Proof. exact failure_step. Qed.
Print Assumptions C14_failure_step.

(* a successful offset answer resets the back-off index to 0 and the attempt count to 1 *)
Theorem C14_offset_reply_resets : forall fuel s s' o kd v,
  s_req s = Some (kd, false) -> kd = R_OFFREQ \/ kd = R_OFFFETCH -> step fuel s (EReqOk v) = (s', o) ->
  s_ridx s' = 0 /\ s_att s' = 1 /\ s_buf s' = s_buf s /\
  (kd = R_OFFREQ -> s_foff s' = v) /\
  (kd = R_OFFFETCH -> v <> -1 -> s_foff s' = v + 1 /\ s_lc s' = Some v) /\
  (kd = R_OFFFETCH -> v = -1 -> s_foff s' = if c_reset (s_cf s) =? 2 then OFF_LATEST else OFF_EARLIEST) /\
  (kd = R_OFFREQ -> special_off v = false -> s_rcall s = None ->
     o = [OFetch v (s_buf s); OEnd (s_lp s) (s_lc s)] /\ s_req s' = Some (R_FETCH, false)).
Proof. exact offset_reply_step. Qed.
Print Assumptions C14_offset_reply_resets.

(* the limit test itself: 0 = unlimited, n > 0 = at most n attempts *)
Theorem C14_unlimited : forall s, s_maxatt s = 0 -> exhausted s = false.
Proof. exact unlimited_never_exhausted. Qed.
Print Assumptions C14_unlimited.
Theorem C14_limited : forall s, 0 < s_maxatt s -> (exhausted s = true <-> s_maxatt s <= s_att s).
Proof. exact limited_exhausted_iff. Qed.
Print Assumptions C14_limited.

(* ---------------- back-off index over whole runs ---------------- *)
(* for EVERY event sequence from the initial state: the delays scheduled for refetches are numbered 0, 1, 2, ... since the
   last successful offset / fetch reply (backoff_trace restarts the count at every reply that answers the outstanding
   request successfully); all_fuel_ok: the interpreter of nested callback chains never ran out of fuel *)
Theorem C14_backoff_index : forall n0 fuel evs c buf,
  all_fuel_ok (run_steps fuel (init c n0 buf) evs) = true ->
  backoff_trace 0 (run_steps fuel (init c n0 buf) evs) = true.
Proof. intros. apply (backoff_run n0 fuel evs (init c n0 buf)); [apply reach_init | assumption]. Qed.
Print Assumptions C14_backoff_index.
(* one step, from any reachable state: the indices scheduled in the step continue the state's counter *)
Theorem C14_backoff_step : forall n0 fuel s e s' o, Reach n0 s -> step fuel s e = (s', o) -> fuel_ok o = true ->
  backoff_step (s, e, o, s') = true.
Proof. exact backoff_reachable. Qed.
Print Assumptions C14_backoff_step.

(* ---------------- attempt limit over whole runs ---------------- *)
(* limit_run n0 f tr (Model/Consumer.v): f counts the consecutive failed offset/fetch attempts (reset by a successful reply
   and by an accepted start); after every step, if n0 > 0 and the start Deferred is still pending then f < n0 - i.e. by the
   n0-th consecutive failure at the latest the start Deferred has fired.  For EVERY event sequence. *)
Theorem C14_attempt_limit : forall n0 fuel evs c buf,
  all_fuel_ok (run_steps fuel (init c n0 buf) evs) = true ->
  limit_run n0 0 (run_steps fuel (init c n0 buf) evs) = true.
Proof.
  intros. apply limit_run_holds; [apply reach_init | apply LI_zero; apply (proj1 (Jtop_init n0 c buf)) | assumption].
Qed.
Print Assumptions C14_attempt_limit.
(* limit 0 = retry for ever: in no reachable state does the count end the consumer, except while shutdown() has
   suspended the unlimited retries (flag s_susp = _unlimited_retries_suspended, cleared by the stop() that ends the
   shutdown: C13_every_stop_quiescent); with a limit n0 > 0 the limit in force is always n0 *)
Theorem C14_unlimited_reachable : forall n0 s, Reach n0 s -> n0 = 0 -> s_susp s = false -> exhausted s = false.
Proof. exact unlimited_reachable. Qed.
Print Assumptions C14_unlimited_reachable.
Theorem C14_limit_in_force : forall n0 s, Reach n0 s -> 0 < n0 -> s_maxatt s = n0 /\ s_susp s = false.
Proof. exact limited_reachable. Qed.
Print Assumptions C14_limit_in_force.

(* ---------------- the fuel hypothesis of the run-level theorems is dischargeable ---------------- *)
(* For every configuration the constructor accepts (cfg_ok: 0 <= auto_commit_every_n, consumer.py:208-209) and EVERY event
   sequence there is a fuel from which on the interpreter of nested callback chains never runs out of fuel (proofs:
   Proofs/ConsumerFuelEnough*.v; the fuel is the nesting depth, bounded linearly in messages to hand over + commit waiters) *)
Theorem C14_fuel_enough : forall n0 c buf evs, cfg_ok c = true ->
  exists fuel0, forall fuel, (fuel0 <= fuel)%nat ->
    forallb (fun t => fuel_ok (match t with (_, _, o, _) => o end)) (run_steps fuel (init c n0 buf) evs) = true.
Proof. exact fuel_enough. Qed.
Print Assumptions C14_fuel_enough.
(* hence, for all sufficiently large fuel, without hypothesis: *)
Theorem C14_backoff_index_all : forall n0 c buf evs, cfg_ok c = true ->
  exists fuel0, forall fuel, (fuel0 <= fuel)%nat -> backoff_trace 0 (run_steps fuel (init c n0 buf) evs) = true.
Proof. exact backoff_index_all. Qed.
Print Assumptions C14_backoff_index_all.
Theorem C14_attempt_limit_all : forall n0 c buf evs, cfg_ok c = true ->
  exists fuel0, forall fuel, (fuel0 <= fuel)%nat -> limit_run n0 0 (run_steps fuel (init c n0 buf) evs) = true.
Proof. exact attempt_limit_all. Qed.
Print Assumptions C14_attempt_limit_all.

(* ---------------- the delays: index k of the recurrence the code runs = min (init * F^k) max, over Q --------------- *)
Theorem C14_delay_closed_form : forall init F mx : Q, (0 <= init)%Q -> (init <= mx)%Q -> (1 <= F)%Q ->
  forall k, (delay_seq init F mx k == Qmin (init * qpow F k) mx)%Q.
Proof. exact delay_seq_closed. Qed.
Print Assumptions C14_delay_closed_form.

(* ---------------- non-vacuity ---------------- *)
Definition ex_cfg := mkCfg true 0 false 1 (Some 65536) (-1).
Definition ex_state := fst (run_events 60 (init ex_cfg 3 4096) [EStart 5]).
Example ex_fetch_outstanding : s_req ex_state = Some (R_FETCH, false) /\ s_mblock ex_state = None /\ running ex_state = true
  /\ s_rcall ex_state = None /\ s_startd ex_state = Some false /\ s_inapi ex_state = 0 /\ exhausted ex_state = false.
Proof. vm_compute. repeat split; reflexivity. Qed.
Example ex_growth : grow_buffer (s_buf ex_state) (c_maxbuf (s_cf ex_state)) = Some 65536. Proof. reflexivity. Qed.
Example ex_reset_then_offset_request :
  flat_map (enc_out 7) (snd (run_events 60 (init ex_cfg 3 4096) [EStart 5; EReqFail FK_OOR; EFireRetry; EReqOk 40]))
  = [22; 5; 4096; 34; 0; 37; -1000; -1000;  25; 1; 0; 37; -1000; -1000;  20; -2; 37; -1000; -1000;  22; 40; 4096; 37; -1000; -1000].
Proof. vm_compute. reflexivity. Qed.
Example ex_limit_three_failures :
  flat_map (enc_out 7) (snd (run_events 60 (init ex_cfg 3 4096)
     [EStart 5; EReqFail FK_KAFKA; EFireRetry; EReqFail FK_KAFKA; EFireRetry; EReqFail FK_KAFKA]))
  = [22; 5; 4096; 34; 0; 37; -1000; -1000;  25; 1; 0; 37; -1000; -1000;  22; 5; 4096; 37; -1000; -1000;
     25; 1; 1; 37; -1000; -1000;  22; 5; 4096; 37; -1000; -1000;  30; 0; 1; 37; -1000; -1000].
Proof. vm_compute. reflexivity. Qed.
(* limit 1, policy earliest: the first out-of-range answer ends the consumer; limit 2: applied before, not after, a success *)
Example ex_limit1_policy_never_applied :
  flat_map (enc_out 7) (snd (run_events 60 (init ex_cfg 1 4096) [EStart 5; EReqFail FK_OOR]))
  = [22; 5; 4096; 34; 0; 37; -1000; -1000;  30; 0; 2; 37; -1000; -1000].
Proof. vm_compute. reflexivity. Qed.
Example ex_limit2_policy_before_success :
  flat_map (enc_out 7) (snd (run_events 60 (init ex_cfg 2 4096) [EStart 5; EReqFail FK_OOR; EFireRetry]))
  = [22; 5; 4096; 34; 0; 37; -1000; -1000;  25; 1; 0; 37; -1000; -1000;  20; -2; 37; -1000; -1000].
Proof. vm_compute. reflexivity. Qed.
Example ex_limit2_policy_not_after_success :
  flat_map (enc_out 7) (snd (run_events 60 (init ex_cfg 2 4096) [EStart 5; EPlan 0 0; EFetchOk [5] false; EFireRetry; EReqFail FK_OOR]))
  = [22; 5; 4096; 34; 0; 37; -1000; -1000;  37; -1000; -1000;  24; 1; 5; 25; 1; -1; 37; 5; -1000;  22; 6; 4096; 37; 5; -1000;
     30; 0; 2; 37; 5; -1000].
Proof. vm_compute. reflexivity. Qed.
Example ex_growth_at_max : let s := fst (run_events 60 (init (mkCfg false 0 false 0 (Some 4096) (-1)) 0 4096) [EStart 0]) in
  grow_buffer (s_buf s) (c_maxbuf (s_cf s)) = None /\
  flat_map (enc_out 7) (snd (step 60 s (EFetchOk [] true))) = [30; 0; 9; 37; -1000; -1000].
Proof. vm_compute. split; reflexivity. Qed.
Example ex_delay : (delay_seq 1 (6#5) (3#2) 1 == 6#5)%Q /\ (delay_seq 1 (6#5) (3#2) 3 == 3#2)%Q.
Proof. split; vm_compute; reflexivity. Qed.
