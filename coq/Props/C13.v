(* C13 - Consumer stop and shutdown leave nothing running and report once.
   Theorem statements only; proofs in Proofs/ConsumerStop.v (stop), ConsumerC13.v / ConsumerC13Top.v (start Deferred).
   Model: Model/Consumer.v (afkak/consumer.py:290-1131).  Never weaken a statement here. *)
From AV Require Import Base.Util Model.Consumer Proofs.ConsumerBase Proofs.ConsumerFrame Proofs.ConsumerC13
  Proofs.ConsumerStop Proofs.ConsumerStopOk Proofs.ConsumerC13Top Proofs.ConsumerInv Proofs.ConsumerShut Proofs.ConsumerRun
  Proofs.ConsumerFuel Proofs.ConsumerShutFlags Proofs.ConsumerNotStarted Proofs.ConsumerFuelEnoughStop
  Proofs.ConsumerFuelEnough Proofs.ConsumerFuelEnoughLoop Proofs.ConsumerFuelEnoughRun Proofs.ConsumerShutInvNC Proofs.ConsumerShutInvRC
  Proofs.ConsumerShutInv Proofs.ConsumerShutInvFam Proofs.ConsumerShutInvTop.
Open Scope Z_scope.

(* In EVERY state in which stop() can be called (not already inside stop(), not inside the auto-commit timer callback
   - no such call site exists), a stop() that returns leaves the consumer quiescent: not started, no outstanding
   request, no processor result awaited, no block in progress, no retry / commit-retry / auto-commit timer, no commit
   in flight or waited for; during the call nothing was sent, scheduled or handed to the processor; the retry limit
   suspended by shutdown() is restored; stop() returns last_processed_offset, and if the start Deferred succeeds during
   the call it does so with that value.  Covers stop() from inside the processor and the stop() at the end of shutdown()
   (theorem C13_stopping_inert/KStop clause); here for the application's own call. *)
Theorem C13_quiescent_after_stop : forall fuel s s' o,
  s_stopping s = false -> s_looper s <> Some false -> step fuel s EStop = (s', o) -> fuel_ok o = true -> returned o = true ->
  quiescent s' = true /\ existsb is_activity o = false /\ s_susp s' = false /\ s_looper s' = None /\
  s_lp s' = s_lp s /\ s_lc s' = s_lc s /\ s_maxatt s' = (if s_susp s then 0 else s_maxatt s) /\
  In (ORet (encv (s_lp s))) o /\ (forall v, In (OStartD true v) o -> v = encv (s_lp s)).
Proof. exact stop_step. Qed.
Print Assumptions C13_quiescent_after_stop.

(* every nested execution (callback chains of cancelled Deferreds, the resumed _process_messages generator, the
   continuations attached by shutdown()) that runs while _stopping is set is inert, and every stop() - wherever it is
   called from - ends as above *)
Theorem C13_stopping_inert : forall fuel k s r s' o, run fuel k s = (r, s', o) -> Post3 k s r s' o.
Proof. exact run_stop. Qed.
Print Assumptions C13_stopping_inert.

(* stop() never makes the start Deferred FAIL: the cancellations it causes are not failures of the consumer (F-C13-4 was
   exactly that).  For every execution of stop() - nested or not - entered with _stopping clear, in EVERY state. *)
Theorem C13_stop_never_fails_start : forall fuel s r s' o,
  run fuel KStop s = (r, s', o) -> fuel_ok o = true -> s_stopping s = false -> forallb nf1 o = true.
Proof. exact stop_nofail. Qed.
Print Assumptions C13_stop_never_fails_start.
Theorem C13_stop_step_never_fails_start : forall fuel s s' o,
  s_stopping s = false -> step fuel s EStop = (s', o) -> fuel_ok o = true -> forall k, ~ In (OStartD false k) o.
Proof. exact stop_step_nofail. Qed.
Print Assumptions C13_stop_step_never_fails_start.

(* ... and stays so: no event other than start() (or a commit() the application makes by hand) produces any activity *)
Theorem C13_quiescent_closed : forall fuel s e s' o,
  quiescent s = true -> (forall off, e <> EStart off) -> e <> ECommit -> step fuel s e = (s', o) ->
  quiescent s' = true /\ existsb is_activity o = false /\ s_lp s' = s_lp s /\ s_lc s' = s_lc s.
Proof. exact quiescent_closed. Qed.
Print Assumptions C13_quiescent_closed.

(* the Deferred returned by start() fires exactly once: for every event list, from every state between two events
   (in particular from the initial state), no fuel assumption *)
Theorem C13_start_once : forall fuel evs s, s_inapi s = 0 -> s_pend s = [] ->
  forallb start_once_step (run_steps fuel s evs) = true.
Proof. exact start_once_run. Qed.
Print Assumptions C13_start_once.
(* the conservation law behind it, through every nested execution *)
Theorem C13_start_once_nested : forall fuel k s r s' o, run fuel k s = (r, s', o) -> SO s s' o.
Proof. exact run_so. Qed.
Print Assumptions C13_start_once_nested.

(* a stopped consumer can be started again: the first request goes out, the new start Deferred is pending *)
Theorem C13_restartable : forall fuel s off s' o,
  quiescent s = true -> s_inapi s = 0 -> s_pend s = [] -> step fuel s (EStart off) = (s', o) ->
  In (fst (first_request s off)) o /\ In (ORet 0) o /\ s_req s' = Some (snd (first_request s off), false) /\ s_foff s' = off /\
  s_rcall s' = None /\ s_stopping s' = false /\
  (s_startd s' = Some false \/ off = OFF_COMMITTED /\ c_group (s_cf s) = false /\ s_startd s' = Some true) /\
  (c_group (s_cf s) && c_acs (s_cf s) = true -> s_looper s' = Some true /\ In (OSched T_LOOPER (-1)) o).
Proof. exact restartable. Qed.
Print Assumptions C13_restartable.

(* ... and delivers again: when the shutdown bookkeeping is clear (_shuttingdown False), start(off) sends the fetch for off,
   and the reply to it, if it carries a message at or after off, is handed to the processor *)
Theorem C13_restart_delivers : forall fuel s off s1 o1 offs s2 o2 m ms fo,
  quiescent s = true -> s_shutting s = false -> 0 <= off ->
  step fuel s (EStart off) = (s1, o1) -> extract off offs = (m :: ms, fo) ->
  step fuel s1 (EFetchOk offs false) = (s2, o2) -> fuel_ok o2 = true ->
  In (OFetch off (s_buf s)) o1 /\ exists blk, In (OCallProc blk) o2.
Proof. exact delivers_again. Qed.
Print Assumptions C13_restart_delivers.

(* a stop() that returns clears the shutdown bookkeeping (_shuttingdown, _shutdown_d) of a graceful shutdown it interrupts, in
   EVERY model state where that bookkeeping is consistent: a pending shutdown Deferred has its continuation registered (on
   the processor Deferred or among the commit waiters) and _shuttingdown is not set without it.  That every reachable state
   is consistent is C13_shutdown_bookkeeping below; C13_stop_clears_shutdown is the statement without the hypothesis. *)
Theorem C13_stop_clears_shutdown_consistent : forall fuel s s' o,
  run fuel KStop s = (Ok tt, s', o) -> fuel_ok o = true -> s_stopping s = false ->
  (s_shutd s = true -> has_cont s = true) -> (s_shutting s = true -> s_shutd s = true) ->
  s_shutting s' = false /\ s_shutd s' = false.
Proof. exact stop_clears. Qed.
Print Assumptions C13_stop_clears_shutdown_consistent.

(* stop() never raises: in EVERY state with a start Deferred whose retry timer is not stale (not already fired or cancelled:
   ConsumerInv.j3 says so of every reachable state with _stopping clear), whoever calls it - the application, the processor,
   the end of a shutdown.  Proved without the reachable-state invariant: nothing that runs under _stopping touches the
   retry timer (Proofs/ConsumerShutInvRC.v). *)
Theorem C13_stop_never_raises : forall fuel s r s' o,
  run fuel KStop s = (r, s', o) -> fuel_ok o = true -> s_startd s <> None -> rcall_stale s = false -> r = Ok tt.
Proof. exact stop_returns_ok. Qed.
Print Assumptions C13_stop_never_raises.
(* ... and it preserves consistent shutdown bookkeeping (Fe: _shuttingdown set exactly while the shutdown Deferred is pending;
   Hc: then the continuation is registered on the processor result or among the commit waiters) together with the base
   facts it needs (Base: no block in progress => no processor result awaited; a stale retry timer => not started or
   stopping); a shutdown Deferred already cleared stays cleared; the block in progress is kept or the consumer is stopped.
   This is the stop() step of the reachable-state invariant C13_shutdown_bookkeeping. *)
Theorem C13_stop_preserves_shutdown_bookkeeping : forall fuel s r s' o,
  run fuel KStop s = (r, s', o) -> fuel_ok o = true -> Base s -> s_stopping s = false ->
  Base s' /\ MBs s s' /\ (s_proc s = None -> s_proc s' = None) /\ s_stopping s' = false /\
  (Fe s -> Hc s -> Fe s' /\ Hc s') /\ (s_shutd s = false -> s_shutd s' = false) /\ (s_startd s <> None -> r = Ok tt).
Proof. exact stop_sb. Qed.
Print Assumptions C13_stop_preserves_shutdown_bookkeeping.

(* graceful shutdown waits for the processing in progress: shutdown() while a processor result is awaited cancels, sends
   and reports nothing; the processor result stays awaited and now carries shutdown's continuation (run when it arrives:
   body KFireProc); no request, commit or waiter is touched *)
Theorem C13_shutdown_waits : forall fuel s s' o l rs c,
  s_proc s = Some (l, rs, c) -> is_some (s_startd s) = true -> s_shutd s = false -> s_inapi s = 0 -> s_pend s = [] ->
  step fuel s EShutdown = (s', o) ->
  o = [ORet 0; OEnd (s_lp s) (s_lc s)] /\ s_proc s' = Some (l, rs, true) /\ s_shutting s' = true /\ s_shutd s' = true /\
  s_req s' = s_req s /\ s_cds s' = s_cds s /\ s_creq s' = s_creq s /\ s_startd s' = s_startd s /\ s_mblock s' = s_mblock s.
Proof. exact shutdown_waits. Qed.
Print Assumptions C13_shutdown_waits.

Theorem C13_stop_not_running : forall fuel s s' o, s_startd s = None -> step (S fuel) s EStop = (s', o) ->
  s' = s /\ o = [ORaised X_RESTOP; OEnd (s_lp s) (s_lc s)].
Proof. exact stop_not_running. Qed.
Print Assumptions C13_stop_not_running.

(* ---------------- over whole runs ---------------- *)
(* every state between two events of every run from the initial state (n0 = configured request_retry_max_attempts;
   all_fuel_ok: the interpreter of nested callback chains never ran out of fuel) satisfies the invariant Reach:
   _stopping clear (no stop() ever aborts half-way), no auto-commit tick half-done, no API call in progress, and the
   fetch-side facts (armed retry timer => no request outstanding; parked reply => its request is the fired fetch and
   back-off index 0, attempt count 1; stale retry timer => not started; not started => no request, no armed timer) *)
Theorem C13_reachable_invariant : forall n0 fuel evs c buf,
  all_fuel_ok (run_steps fuel (init c n0 buf) evs) = true ->
  Forall (fun t => Reach n0 (t_pre t) /\ Reach n0 (t_post t)) (run_steps fuel (init c n0 buf) evs).
Proof. intros. apply reach_run; [apply reach_init | assumption]. Qed.
Print Assumptions C13_reachable_invariant.

(* Whenever the consumer is not started, nothing of its fetch side is left, in EVERY state between two events of every run:
   no request outstanding or parked, no processor result awaited, no block in progress, no retry timer, no auto-commit
   timer.  This covers the states after a stop() made from inside the processor (and after whatever ran after it in the
   same event), after the stop() at the end of a shutdown, and after a stop() called while another was impossible.
   (The commit side is not part of it: the code allows a manual commit() on a stopped consumer.) *)
Theorem C13_not_started_idle : forall n0 fuel evs c buf,
  all_fuel_ok (run_steps fuel (init c n0 buf) evs) = true ->
  forallb (fun t => not_started_idle (t_post t)) (run_steps fuel (init c n0 buf) evs) = true.
Proof. intros. apply (not_started_run n0); [apply reach_init | apply N_init | assumption]. Qed.
Print Assumptions C13_not_started_idle.
(* ... by induction over all nested executions (N: not started => no processor result awaited, no auto-commit timer, no
   block in progress; on entry to the message loop the block in progress is exempt, it is cleared on every way out) *)
Theorem C13_not_started_idle_nested : forall fuel k s r s' o,
  run fuel k s = (r, s', o) -> fuel_ok o = true -> PreN k s -> N s'.
Proof. exact run_n. Qed.
Print Assumptions C13_not_started_idle_nested.

(* The commit side: as long as the application does not itself call commit() on the stopped consumer (the code accepts that
   call and sends the request), a consumer that is not started has no commit waiter, no commit request in flight and no
   commit-retry timer - after EVERY step of every run, hence also for the rest of the event in which the processor called
   stop() and for everything after it.  commit_idle_run stops looking at the first manual commit() on a stopped consumer.
   With C13_not_started_idle (fetch side) this is full quiescence whenever the consumer is not started. *)
Theorem C13_not_started_commit_idle : forall n0 fuel evs c buf,
  all_fuel_ok (run_steps fuel (init c n0 buf) evs) = true ->
  commit_idle_run (run_steps fuel (init c n0 buf) evs) = true.
Proof. intros. apply commit_idle_run_holds; [reflexivity | assumption]. Qed.
Print Assumptions C13_not_started_commit_idle.
(* one event from EVERY state, and every nested execution (incl. what runs after a stop() made inside the processor) *)
Theorem C13_not_started_commit_idle_step : forall fuel s e s' o,
  step fuel s e = (s', o) -> fuel_ok o = true -> commit_idle s = true ->
  (e = ECommit -> s_startd s <> None) -> commit_idle s' = true.
Proof. exact commit_idle_step. Qed.
Print Assumptions C13_not_started_commit_idle_step.
Theorem C13_not_started_commit_idle_nested : forall fuel k s r s' o,
  run fuel k s = (r, s', o) -> fuel_ok o = true -> NC s -> NC s'.
Proof. exact run_q. Qed.
Print Assumptions C13_not_started_commit_idle_nested.

(* THE SHUTDOWN BOOKKEEPING IS CONSISTENT in every state between two events of every run: _shuttingdown is set exactly while
   the shutdown Deferred is pending, and then the continuation that completes the shutdown is registered - on the pending
   processor result or among the commit waiters (sb_ok = item 5 of Model/Consumer.v `invs`).  By induction over all nested
   executions with a two-mode precondition for the message loop (consistent, or inert while _shuttingdown is set):
   Proofs/ConsumerShutInvFam.v, ConsumerShutInvTop.v. *)
Theorem C13_shutdown_bookkeeping : forall n0 fuel evs c buf,
  all_fuel_ok (run_steps fuel (init c n0 buf) evs) = true ->
  forallb (fun t => sb_ok (t_post t)) (run_steps fuel (init c n0 buf) evs) = true.
Proof. exact bookkeeping_run. Qed.
Print Assumptions C13_shutdown_bookkeeping.
(* hence, in every state between two events of every run, ANY stop() that returns - the application's, one made by the
   processor, the one that ends a shutdown - leaves _shuttingdown clear and no shutdown Deferred behind *)
Theorem C13_stop_clears_shutdown : forall n0 fuel evs c buf,
  all_fuel_ok (run_steps fuel (init c n0 buf) evs) = true ->
  Forall (fun t => forall f s' o, run f KStop (t_post t) = (Ok tt, s', o) -> fuel_ok o = true ->
                     s_shutting s' = false /\ s_shutd s' = false)
         (run_steps fuel (init c n0 buf) evs).
Proof. exact stop_clears_run. Qed.
Print Assumptions C13_stop_clears_shutdown.
(* and after EVERY application stop() of a running consumer, in every run: the bookkeeping is clear and the stopped consumer
   can be started again and delivers - start(off) sends the fetch for off, the reply to it is handed to the processor
   (C13_restart_delivers without its hypothesis on _shuttingdown) *)
Theorem C13_stop_then_restart_delivers : forall n0 fuel evs c buf,
  all_fuel_ok (run_steps fuel (init c n0 buf) evs) = true ->
  Forall (fun t => t_ev t = EStop -> s_startd (t_pre t) <> None ->
            s_shutting (t_post t) = false /\ s_shutd (t_post t) = false /\ restarts_and_delivers fuel (t_post t))
         (run_steps fuel (init c n0 buf) evs).
Proof. exact stop_then_restart_run. Qed.
Print Assumptions C13_stop_then_restart_delivers.

(* C13_quiescent_after_stop over all runs: EVERY stop() of a running consumer, in every run, returns (never raises) and
   leaves the consumer quiescent, having sent / scheduled / delivered nothing; the retry limit is the configured one *)
Theorem C13_every_stop_quiescent : forall n0 fuel evs c buf,
  all_fuel_ok (run_steps fuel (init c n0 buf) evs) = true -> Forall (stop_ok n0) (run_steps fuel (init c n0 buf) evs).
Proof. intros. apply stop_run; [apply reach_init | assumption]. Qed.
Print Assumptions C13_every_stop_quiescent.

(* C13_shutdown_commits over all runs: every successful outcome of a Deferred returned by shutdown(), in every run from
   the initial state - whatever the commit outcomes, retries and interleavings, shutdown() called by the application or
   from inside the processor - carries last_committed_offset = last_processed_offset when a group is configured (or
   nothing was ever processed): shutd_ok g (OShutD true v lc) = (g -> v = None-code \/ lc = Some v). *)
Theorem C13_shutdown_commits : forall n0 fuel evs c buf,
  all_fuel_ok (run_steps fuel (init c n0 buf) evs) = true ->
  forallb (fun t => forallb (shutd_ok (c_group c)) (t_out t)) (run_steps fuel (init c n0 buf) evs) = true.
Proof. intros. apply shutdown_commits_run; auto. Qed.
Print Assumptions C13_shutdown_commits.
(* ... one event, from EVERY state between two events *)
Theorem C13_shutdown_commits_step : forall fuel s e s' o,
  s_pend s = [] -> step fuel s e = (s', o) -> fuel_ok o = true ->
  forallb (shutd_ok (c_group (s_cf s))) o = true /\ s_cf s' = s_cf s.
Proof. exact shutdown_commits_step. Qed.
Print Assumptions C13_shutdown_commits_step.

(* The fuel hypothesis of the run-level theorems does not depend on the fuel chosen: a run that never ran out of fuel is
   the same run (same states, same outputs) under every larger fuel; likewise one nested execution and one event.
   (That some fuel suffices for every input is C13_fuel_enough below.) *)
Theorem C13_fuel_monotone : forall f f', (f <= f')%nat -> forall evs s,
  forallb (fun t => fuel_ok (match t with (_, _, o, _) => o end)) (run_steps f s evs) = true ->
  run_steps f' s evs = run_steps f s evs.
Proof. exact run_steps_mono. Qed.
Print Assumptions C13_fuel_monotone.
Theorem C13_fuel_monotone_nested : forall f f' k, (f <= f')%nat ->
  forall s r s' o, run f k s = (r, s', o) -> fuel_ok o = true -> run f' k s = (r, s', o).
Proof. exact run_mono. Qed.
Print Assumptions C13_fuel_monotone_nested.

(* SOME FUEL SUFFICES, for stop() and everything that runs inside it (the interpreter's fuel is the nesting depth of
   re-entrant calls).  In EVERY state, stop() run with fuel at least |_commit_ds| + 6 never runs out of fuel (PF: the
   outcomes held back until a surrounding shutdown() returns carry no out-of-fuel marker; between events the list is
   empty).  With C13_fuel_monotone_nested this discharges the hypothesis fuel_ok of C13_quiescent_after_stop,
   C13_stop_never_fails_start and C13_stop_clears_shutdown_consistent, and fuel_ok of every EStop step. *)
Theorem C13_stop_fuel_enough : forall fuel s r s' o,
  run fuel KStop s = (r, s', o) -> (length (s_cds s) + 6 <= fuel)%nat -> PF s -> fuel_ok o = true /\ PF s'.
Proof. exact stop_enough. Qed.
Print Assumptions C13_stop_fuel_enough.
Theorem C13_stop_step_fuel_enough : forall s, s_pend s = [] ->
  exists fuel0, forall fuel, (fuel0 <= fuel)%nat -> fuel_ok (snd (step fuel s EStop)) = true.
Proof. exact stop_step_some_fuel. Qed.
Print Assumptions C13_stop_step_fuel_enough.
(* ... for every nested execution while _stopping is set (bound Bs: the number of commit waiters + 3 for the loop over
   them, a constant otherwise) ... *)
Theorem C13_stopping_fuel_enough : forall fuel k s r s' o,
  run fuel k s = (r, s', o) -> s_stopping s = true -> okk k -> (Bs k s <= fuel)%nat -> PF s -> fuel_ok o = true /\ PF s'.
Proof. exact stopping_enough. Qed.
Print Assumptions C13_stopping_fuel_enough.
(* ... and for the commit side in EVERY state: the completion of shutdown() (_commit_and_stop, its success / failure
   callbacks incl. the re-commit of 7687afc and the final stop()), a commit waiter firing, the delivery of a commit result
   to all waiters.  Bound BC: linear in the number of commit waiters. *)
Theorem C13_commit_side_fuel_enough : forall fuel k s r s' o,
  run fuel k s = (r, s', o) -> isC k -> (BC k s <= fuel)%nat -> PostC k s s' o.
Proof. exact commit_side_enough. Qed.
Print Assumptions C13_commit_side_fuel_enough.

(* ... the message loop in EVERY state of an accepted configuration (acn_ok: 0 <= auto_commit_every_n, which the constructor
   guarantees - consumer.py:208-209 raises ValueError otherwise; with a negative value the model's loop would hand over
   empty blocks for ever): _process_messages, _handle_fetch_response, the processor result firing.  Bound BL: 4 * (messages
   still to hand over + messages of the reply parked behind them) + commit waiters + constant ... *)
Theorem C13_message_loop_fuel_enough : forall fuel k s r s' o,
  run fuel k s = (r, s', o) -> isL k -> acn_ok s -> (BL k s <= fuel)%nat -> PostL k s s' o.
Proof. exact loop_enough. Qed.
Print Assumptions C13_message_loop_fuel_enough.
(* ... every event in every state between two events (bound BE) ... *)
Theorem C13_step_fuel_enough : forall fuel s e s' o, s_pend s = [] -> acn_ok s -> (BE e s <= fuel)%nat ->
  step fuel s e = (s', o) -> fuel_ok o = true.
Proof. exact step_enough. Qed.
Print Assumptions C13_step_fuel_enough.
(* ... and whole runs: for every accepted configuration and EVERY event sequence there is a fuel from which on the
   interpreter never runs out of fuel.  (The predicate is Model/ConsumerLog.v run_fuel_ok unfolded.) *)
Theorem C13_fuel_enough : forall n0 c buf evs, cfg_ok c = true ->
  exists fuel0, forall fuel, (fuel0 <= fuel)%nat ->
    forallb (fun t => fuel_ok (match t with (_, _, o, _) => o end)) (run_steps fuel (init c n0 buf) evs) = true.
Proof. exact fuel_enough. Qed.
Print Assumptions C13_fuel_enough.
(* the run-level theorems restated without the fuel hypothesis (for all sufficiently large fuel) are in Props/C13all.v *)

(* ---------------- non-vacuity: stop() with a commit in flight, a reply parked behind a pending processor ----------- *)
Definition ex_cfg := mkCfg true 1 true 0 None 7.
Definition ex_evs := [EStart 0; EPlan 0 0; EFetchOk [0; 1] false; EFireRetry; EFetchOk [2] false].
Definition ex_s := fst (run_events 60 (init ex_cfg 0 4096) ex_evs).
Example ex_busy : s_stopping ex_s = false /\ s_looper ex_s = Some true /\ is_some (s_creq ex_s) = true /\ parked ex_s = true
  /\ is_some (s_proc ex_s) = true /\ quiescent ex_s = false /\ s_inapi ex_s = 0 /\ s_pend ex_s = [].
Proof. vm_compute. repeat split; reflexivity. Qed.
Example ex_stop : let (s', o) := step 60 ex_s EStop in
  quiescent s' = true /\ returned o = true /\ fuel_ok o = true /\
  flat_map (enc_out 7) o = [28; 27; 4; 26; 3; 30; 1; 0; 34; 0; 37; 0; -1000].
Proof. vm_compute. repeat split; reflexivity. Qed.
(* shutdown() from inside the processor while offsets 2,3 are being processed: commits 1, then 3, then succeeds with 3/3 *)
Example ex_shutdown_in_processor :
  flat_map (enc_out 7) (snd (run_events 60 (init (mkCfg true 0 false 0 None 7) 0 4096)
     [EStart 0; EPlan 0 0; EFetchOk [0; 1] false; EFireRetry; EPlan 3 0; EFetchOk [2; 3] false; ECommitOk; ECommitOk]))
  = [22; 0; 4096; 34; 0; 37; -1000; -1000;  37; -1000; -1000;  24; 2; 0; 1; 25; 1; -1; 37; 1; -1000;  22; 2; 4096; 37; 1; -1000;
     37; 1; -1000;  24; 2; 2; 3; 23; 1; 7; 34; 0; 37; 3; -1000;  23; 3; 7; 37; 3; 1;  30; 1; 3; 31; 1; 3; 3; 37; 3; 3].
Proof. vm_compute. reflexivity. Qed.
Example ex_reach : all_fuel_ok (run_steps 60 (init ex_cfg 0 4096) (ex_evs ++ [EStop; EStart 1])) = true.
Proof. vm_compute. reflexivity. Qed.
Example ex_restart : let (s', _) := step 60 ex_s EStop in
  flat_map (enc_out 7) (snd (step 60 s' (EStart 1))) = [22; 1; 4096; 25; 3; -1; 34; 0; 37; 0; -1000].
Proof. vm_compute. reflexivity. Qed.
(* shutdown() waiting for the processor, interrupted by stop(), then restarted: the flags are clear and it delivers *)
Definition ex_evs2 := [EStart 0; EPlan 0 2; EFetchOk [0; 1] false; EShutdown; EStop].
Definition ex_s2 := fst (run_events 60 (init ex_cfg 0 4096) ex_evs2).
Example ex_interrupted_restart :
  s_shutting ex_s2 = false /\ s_shutd ex_s2 = false /\ quiescent ex_s2 = true /\
  flat_map (enc_out 7) (snd (run_events 60 ex_s2 [EStart 5; EFetchOk [5; 6] false]))
  = [22; 5; 4096; 25; 3; -1; 34; 0; 37; -1000; -1000;  24; 1; 5; 25; 1; -1; 37; -1000; -1000].
Proof. vm_compute. repeat split; reflexivity. Qed.
(* the configurations the constructor accepts; a negative auto_commit_every_n is rejected (consumer.py:208-209) *)
Example ex_cfg_ok : cfg_ok ex_cfg = true /\ cfg_ok (mkCfg true (-1) true 0 None 7) = false.
Proof. vm_compute. split; reflexivity. Qed.
