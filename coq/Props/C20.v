(* C20 - Closing the client fails everything pending and releases every connection.
   Theorem statements only; proofs live in Proofs/ClientReq*.v.  Never weaken a statement here.

   Vocabulary (Model/ClientReq.v; M7 = Model/BrokerClient.v, written qualified):
     run (init g) evs / step C e      the client request layer composed with one M7 machine per _KafkaBrokerClient and the
                                      bootstrap protocol, over ANY event list (see Props/C11.v)
     c_clients C = None               close() was called (self._closing, self.clients = None)
     EClose                           close();  OCloseFired: the Deferred it returned fires
     ESend / EOp                      a request to a known broker / a broker-agnostic operation (kind 1 = load_metadata_for_topics)
     OReq d r / OOp p r               the caller's Deferred of request d / operation p fires with r
     ClosedInv C                      C is closed: c_clients = None, every broker client has been told to close
                                      (s_down <> DNone), every operation has ended, the topic cache is empty, and the base
                                      invariant of Proofs/ClientReqBase.v holds (spelled out by C20_closed_means)
     net_quiet o                      o is not a connection attempt, a write, or a callLater (of a broker client or a
                                      bootstrap connection) *)
From AV Require Import Base.Util Model.Framing Proofs.BrokerClientInv.
From AV Require Model.BrokerClient.
From AV Require Import Model.ClientReq Proofs.ClientReqClosed Proofs.ClientReqC20 Proofs.ClientReqC20b Proofs.ClientReqC20c Proofs.ClientReqC20d Proofs.ClientReqBt.

(* New work after close() is refused, in ANY state with the closed flag set: a request to a known broker raises ClientError
   and changes nothing ... *)
Theorem C20_new_requests_refused : forall C node expect mint, c_clients C = None ->
  step C (ESend node expect mint) = (C, [ORaised 4]).
Proof. exact new_send_refused. Qed.
Print Assumptions C20_new_requests_refused.

(* ... and a broker-agnostic operation fails at once (ClientError; KafkaUnavailableError for load_metadata_for_topics)
   without touching any broker client, timer or bootstrap connection. *)
Theorem C20_new_operations_fail : forall C kind all, c_clients C = None ->
  exists C', step C (EOp kind all) = (C', [OOp (length (c_ops C)) (if kind =? 1 then RUnavail else RClosed)])
    /\ c_bcs C' = c_bcs C /\ c_timers C' = c_timers C /\ c_boots C' = c_boots C /\ c_clients C' = None
    /\ c_topics C' = c_topics C /\ phase_of C' (length (c_ops C)) = PDone.
Proof. exact new_op_refused. Qed.
Print Assumptions C20_new_operations_fail.

(* A second close() raises (AttributeError in the code as it is) and changes nothing: the close Deferred is handed out once. *)
Theorem C20_second_close : forall C, c_clients C = None -> step C EClose = (C, [ORaised 8]).
Proof. exact second_close. Qed.
Print Assumptions C20_second_close.

(* close() on an open client, from ANY state: the closed flag is set and the topic cache is empty when it returns. *)
Theorem C20_metadata_cleared : forall C cl C' o, c_clients C = Some cl -> step C EClose = (C', o) ->
  c_clients C' = None /\ c_topics C' = [].
Proof. exact close_step_clears. Qed.
Print Assumptions C20_metadata_cleared.

(* Pending work ends at once.  close() from ANY reachable open state ends in a closed state ... *)
Theorem C20_pending_end : forall g evs cl C' o,
  c_clients (fst (run (init g) evs)) = Some cl -> step (fst (run (init g) evs)) EClose = (C', o) -> ClosedInv C'.
Proof. exact c20_pending_end. Qed.
Print Assumptions C20_pending_end.

(* ... where "closed" means: every request Deferred of every broker client has fired and its DelayedCall is released,
   every broker-agnostic operation has ended (with what: see C20_pending_fail_refuted), every broker client has been told
   to close and its request table is empty. *)
Theorem C20_closed_means : forall C, ClosedInv C ->
  (forall i b h q, nth_error (c_bcs C) i = Some b -> nth_error (b_reqs b) h = Some q ->
     In h (BrokerClient.t_fired (BrokerClient.s_t (b_st b))) /\ q_timer q = None)
  /\ (forall p, phase_of C p = PDone)
  /\ (forall i b, nth_error (c_bcs C) i = Some b -> BrokerClient.s_down (b_st b) <> BrokerClient.DNone
                                                  /\ BrokerClient.t_reqs (BrokerClient.s_t (b_st b)) = []).
Proof. exact closed_resolved. Qed.
Print Assumptions C20_closed_means.

(* FAILS, not merely ends.  The outputs of the close() step itself: every request to a known broker that was unresolved
   when close() was called - whatever its state: queued, written, connecting - fails in that step with ClientError ... *)
Theorem C20_pending_requests_fail : forall g evs cl C' o i b h q d,
  c_clients (fst (run (init g) evs)) = Some cl -> step (fst (run (init g) evs)) EClose = (C', o) ->
  nth_error (c_bcs (fst (run (init g) evs))) i = Some b -> nth_error (b_reqs b) h = Some q -> q_owner q = Direct d ->
  ~ In h (BrokerClient.t_fired (BrokerClient.s_t (b_st b))) -> In (OReq d RClosed) o.
Proof. exact c20_pending_requests_fail. Qed.
Print Assumptions C20_pending_requests_fail.

(* ... and every broker-agnostic operation in progress is told in that step that it has ended, with ClientError,
   KafkaUnavailableError or CancelledError - or with the None of finding F-C20-2 (load_metadata_for_topics; exactly when:
   C20_pending_fail_refuted and the Examples) - or with twisted's CancelledError, exactly for a _load_topic_partitions
   waiting in its retry back-off: close() cancels that deferLater (registered with _cancel_on_close since /repo 33a3ade,
   finding F-C20-3); never with a response. *)
Theorem C20_pending_operations_end : forall g evs cl C' o p,
  c_clients (fst (run (init g) evs)) = Some cl -> step (fst (run (init g) evs)) EClose = (C', o) ->
  phase_of (fst (run (init g) evs)) p <> PDone ->
  exists r, In (OOp p r) o /\ (r = RClosed \/ r = RUnavail \/ r = RKCancelled \/ r = ROpNone \/ r = RCancelled).
Proof. exact c20_pending_operations_end. Qed.
Print Assumptions C20_pending_operations_end.

(* Closed for ever.  From a closed state, whatever happens afterwards (late replies, connection losses, timers, connects
   that complete late, API calls): the state stays closed and no connection is attempted, nothing is written to any
   broker or bootstrap connection, no timer is armed. *)
Theorem C20_closed_forever : forall C evs C' o, ClosedInv C -> run C evs = (C', o) ->
  ClosedInv C' /\ forallb net_quiet o = true.
Proof. exact c20_closed_forever. Qed.
Print Assumptions C20_closed_forever.

(* The two together, in the words of the property: any history, then close(), then any continuation - from the moment
   close() is called (its own step included) no connection is attempted, nothing more is written to any broker or
   bootstrap connection, no timer is armed; and the client stays closed (cache empty, everything resolved). *)
Theorem C20_no_connect_no_write_after_close : forall g evs cl C1 o1 evs2 C2 o2,
  c_clients (fst (run (init g) evs)) = Some cl -> step (fst (run (init g) evs)) EClose = (C1, o1) -> run C1 evs2 = (C2, o2) ->
  forallb net_quiet (o1 ++ o2) = true /\ ClosedInv C2.
Proof. exact c20_no_connect_no_write. Qed.
Print Assumptions C20_no_connect_no_write_after_close.

(* No DelayedCall survives close().  In every reachable state with the closed flag set - right after close() returned and
   ever after, whatever happens - the reactor holds nothing of this client: no request timer (every request is resolved
   and released), no reconnect back-off timer of any broker client (close cancelled it; [b_timer] mirrors M7's back-off
   state in every reachable state), no bootstrap request timer.  [count_timers] is the number the correspondence
   compares with len(reactor.getDelayedCalls()) after every event. *)
Theorem C20_no_timers_after_close : forall g evs, c_clients (fst (run (init g) evs)) = None ->
  count_timers (fst (run (init g) evs)) = 0%nat.
Proof. exact c20_no_timers_after_close. Qed.
Print Assumptions C20_no_timers_after_close.

(* The Deferred returned by close() (c_wait C = true: it has been handed out and has not fired; c_clients = None and
   c_wait = false: it has fired).  In EVERY reachable state:
   - it is pending only for a closed client;
   - every broker client that is still closing (close() called, down-notification outstanding) - including those retired
     by an earlier metadata refresh - is awaited by self.close_dlist;
   - NOT BEFORE: once it has fired, every broker client ever created has delivered its down-notification and has no
     connection;
   - ONCE: after it has fired it never fires again, whatever happens.
   - AND NOT LATER: while it is pending some broker client is still closing; so, for a closed client, it has fired if and
     only if every broker client has delivered its down-notification (C20_close_fires_last). *)
Theorem C20_close_pending_only_when_closed : forall g evs,
  c_wait (fst (run (init g) evs)) = true -> c_clients (fst (run (init g) evs)) = None.
Proof. exact c20_wait_means_closed. Qed.
Print Assumptions C20_close_pending_only_when_closed.

Theorem C20_close_awaits_every_closing_client : forall g evs i b,
  nth_error (c_bcs (fst (run (init g) evs))) i = Some b ->
  BrokerClient.s_down (b_st b) = BrokerClient.DPending ->
  exists l, c_dl (fst (run (init g) evs)) = Some l /\ In i l.
Proof. exact c20_dl_awaits_closing. Qed.
Print Assumptions C20_close_awaits_every_closing_client.

Theorem C20_close_fires_not_before : forall g evs,
  c_clients (fst (run (init g) evs)) = None -> c_wait (fst (run (init g) evs)) = false ->
  forall i b, nth_error (c_bcs (fst (run (init g) evs))) i = Some b ->
    BrokerClient.s_down (b_st b) = BrokerClient.DFired /\ BrokerClient.s_proto (b_st b) = false.
Proof. exact c20_fired_all_gone. Qed.
Print Assumptions C20_close_fires_not_before.

Theorem C20_close_pending_means_closing : forall g evs, c_wait (fst (run (init g) evs)) = true ->
  exists i b, nth_error (c_bcs (fst (run (init g) evs))) i = Some b /\ BrokerClient.s_down (b_st b) = BrokerClient.DPending.
Proof. exact c20_waiting_means_closing. Qed.
Print Assumptions C20_close_pending_means_closing.

Theorem C20_close_fires_last : forall g evs, c_clients (fst (run (init g) evs)) = None ->
  (c_wait (fst (run (init g) evs)) = false <->
   forall i b, nth_error (c_bcs (fst (run (init g) evs))) i = Some b -> BrokerClient.s_down (b_st b) = BrokerClient.DFired).
Proof. exact c20_close_fires_last. Qed.
Print Assumptions C20_close_fires_last.

Theorem C20_close_fires_once : forall g evs evs2,
  c_clients (fst (run (init g) evs)) = None -> c_wait (fst (run (init g) evs)) = false ->
  ~ In OCloseFired (snd (run (fst (run (init g) evs)) evs2)) /\ c_wait (fst (run (fst (run (init g) evs)) evs2)) = false.
Proof. exact c20_fires_once_reachable. Qed.
Print Assumptions C20_close_fires_once.

(* F-C20-2, first half.  "Every request in progress fails" is FALSE of the faithful model (and of the code): a
   load_metadata_for_topics() that is bootstrapping when close() is called resolves with None - a success. *)
Theorem C20_pending_fail_refuted : exists g evs,
  phase_of (fst (run (init g) evs)) 0 <> PDone
  /\ In (OOp 0 ROpNone) (snd (step (fst (run (init g) evs)) EClose)).
Proof.
  exists (mkCfg 5000 false 0 0 [1; 2]), [EOp 1 true]. split; [vm_compute; discriminate | vm_compute; auto].
Qed.
Print Assumptions C20_pending_fail_refuted.

(* F-C20-2, second half.  "The close Deferred fires after the last connection has gone" is FALSE for the ephemeral bootstrap
   connection: close() asks it to close and its Deferred fires at once, while that connection is still up. *)
Theorem C20_close_waits_bootstrap_refuted : exists g evs,
  In OCloseFired (snd (step (fst (run (init g) evs)) EClose))
  /\ nth_error (c_boots (fst (step (fst (run (init g) evs)) EClose))) 0 = Some (0%nat, 1, KLive true).
Proof.
  exists (mkCfg 5000 false 0 0 [1; 2]), [EOp 1 true; EBootOk 0]. split; [vm_compute; auto 10 | vm_compute; reflexivity].
Qed.
Print Assumptions C20_close_waits_bootstrap_refuted.

(* ------------------------------------------------------------------ non-vacuity *)
(* F-C20-3 (repaired in /repo 33a3ade) inside the model: _load_topic_partitions (EOp 2) gets a response naming a topic
   without partitions (abstract topic id 5) and waits in its retry back-off (DelayedCall 1, retry_policy(1)); close()
   cancels that DelayedCall and the operation fails at once with CancelledError; nothing is left armed
   (C20_pending_operations_end, C20_no_timers_after_close apply to it) ... *)
Example close_during_retry_backoff :
  snd (run (init (mkCfg 5000 false 0 0 [1])) [EOp 2 false; EBootOk 0; EBootReply 0 1 [0; 1; 5]; EClose])
  = [OBootConnect 0 1; OBootWrite 0 1; OSched 0 2 5000; OCancelTimer 0; OBootLose 0; OSched 1 1 1;
     OCancelTimer 1; OOp 0 RCancelled; OCloseFired]
  /\ count_timers (fst (run (init (mkCfg 5000 false 0 0 [1])) [EOp 2 false; EBootOk 0; EBootReply 0 1 [0; 1; 5]])) = 1%nat
  /\ count_timers (fst (run (init (mkCfg 5000 false 0 0 [1])) [EOp 2 false; EBootOk 0; EBootReply 0 1 [0; 1; 5]; EClose])) = 0%nat.
Proof. vm_compute. repeat split. Qed.

(* ... and without close() the back-off ends, the next attempt takes a fresh correlation id and succeeds *)
Example retry_after_backoff :
  snd (run (init (mkCfg 5000 false 0 0 [1])) [EOp 2 false; EBootOk 0; EBootReply 0 1 [0; 1; 5]; ETimer 1; EBootOk 1; EBootReply 1 2 [0; 1; 0]])
  = [OBootConnect 0 1; OBootWrite 0 1; OSched 0 2 5000; OCancelTimer 0; OBootLose 0; OSched 1 1 1;
     OBootConnect 1 1; OBootWrite 1 2; OSched 2 2 5000; OCancelTimer 2; OBootLose 1; OOp 0 RSnap].
Proof. vm_compute. reflexivity. Qed.

Definition ex_cfg := mkCfg 5000 false 0 0 [1; 2].

(* two brokers with a request in flight each; a full metadata refresh drops broker 1 (its request fails, its connection is
   asked to close); close(): broker 2's request fails, its connection is asked to close; the close Deferred fires only
   when BOTH connections - the one closed by the refresh too - have gone; afterwards new work is refused and late events
   do nothing *)
Example close_waits_for_refreshed_out_client :
  snd (run (init ex_cfg) [EUpdate [(1, 5); (2, 6)] false; ESend 1 true (-1); ESend 2 true (-1); EConnOk 0; EConnOk 1;
                          EUpdate [(2, 6)] true; EClose; ELost 1; ELost 0;
                          ESend 2 true (-1); EOp 0 true; EConnOk 1; EReply 0 1 []])
  = [OConnect 0 5; OSched 0 2 5000; OConnect 1 6; OSched 1 2 5000; OWrite 0 1; OWrite 1 2;
     OLose 0; OCancelTimer 0; OReq 0 RClosed;
     OLose 1; OCancelTimer 1; OReq 1 RClosed;
     OCloseFired; ORaised 4; OOp 0 RClosed].
Proof. vm_compute. reflexivity. Qed.

(* an operation waiting on its last known broker at close() goes on to the bootstrap step, finds the client closed and
   ends with a cancellation (None for load_metadata_for_topics); on an earlier broker it fails with ClientError *)
Example close_with_operation_on_known_broker :
  snd (run (init ex_cfg) [EUpdate [(1, 5); (2, 6)] false; EOp 1 true; EConnOk 0; EClose; ELost 0])
  = [OConnect 0 5; OSched 0 2 5000; OWrite 0 1; OLose 0; OCancelTimer 0; OOp 0 RUnavail; OCloseFired].
Proof. vm_compute. reflexivity. Qed.

(* the state reached by the first example: closed flag, empty cache, both broker clients told to close *)
Example closed_state_nonvacuous :
  let C := fst (run (init ex_cfg) [EUpdate [(1, 5); (2, 6)] false; ESend 1 true (-1); ESend 2 true (-1); EConnOk 0; EConnOk 1;
                                   EUpdate [(2, 6)] true; EClose]) in
  c_clients C = None /\ c_topics C = [] /\ map o_phase (c_ops C) = []
  /\ map (fun b => BrokerClient.s_down (b_st b)) (c_bcs C) = [BrokerClient.DPending; BrokerClient.DPending].
Proof. vm_compute. repeat split. Qed.

(* while the refreshed-out broker client (index 0) and the client's own (index 1) are still closing, the close Deferred is
   pending and self.close_dlist awaits both; after the first loss it still awaits the other *)
Example close_waits_nonvacuous :
  let pre := [EUpdate [(1, 5); (2, 6)] false; ESend 1 true (-1); ESend 2 true (-1); EConnOk 0; EConnOk 1; EUpdate [(2, 6)] true; EClose] in
  c_wait (fst (run (init ex_cfg) pre)) = true /\ c_dl (fst (run (init ex_cfg) pre)) = Some [0%nat; 1%nat]
  /\ c_wait (fst (run (init ex_cfg) (pre ++ [ELost 1]))) = true /\ c_dl (fst (run (init ex_cfg) (pre ++ [ELost 1]))) = Some [0%nat]
  /\ c_wait (fst (run (init ex_cfg) (pre ++ [ELost 1; ELost 0]))) = false.
Proof. vm_compute. repeat split. Qed.
