(* C12 <-> C14: the buffer rule of the small model Model/FetchGrow.v (on which the C12_consumer_* theorems are stated)
   is the rule the full consumer machine Model/Consumer.v (property C14, its own correspondence) uses in
   _handle_fetch_response.  Kept apart from Props/C12.v so that C12 does not depend on the large consumer model. *)
From AV Require Import Base.Util Model.FetchGrow Model.Consumer Proofs.FetchGrowBridge.

Theorem C12_grow_is_consumer_grow : forall buf maxbuf, FetchGrow.grow buf maxbuf = Consumer.grow_buffer buf maxbuf.
Proof. exact grow_is_grow_buffer. Qed.
Print Assumptions C12_grow_is_consumer_grow.
