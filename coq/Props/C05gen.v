(* C05, translator tie: the decoder-language terms [ast_*] are REGENERATED from /repo/afkak/kafkacodec.py by
   harness/py2dsl.py on every run (this committed file is checked against the snapshot Model/DecAst.v; the check
   compiles a scratch copy against the run's own translation, one theorem per decoder whose translation succeeded).
   Each theorem says: interpreting what the SOURCE says now (Model.DecDSL.run, the Gallina semantics of the Python
   statement forms) is the hand-written decoder of Model.Responses that the theorems of Props/C05.v (and the totality
   theorems of Props/C12.v) are about - for every input, well-formed or not.
   [emb_res f] / [emb_gen f] (Model.DecEmb) = the decoder's typed result as Python values: the value returned, or the
   items yielded and then exhaustion / the exception.  A line `(*@ name *)` names the decoder a theorem depends on. *)
From AV Require Import Base.Util Model.Prim Model.Crc Model.MsgSet Model.Responses Model.DecDSL Model.DecEmb Model.DecAst
     Proofs.DecDSLSound.

(*@ get_response_correlation_id *)
Theorem C05gen_correlation_id : forall msgset data,
  run 0 msgset data ast_get_response_correlation_id = emb_res VInt (get_response_correlation_id data).
Proof. exact sound_correlation_id. Qed.
Print Assumptions C05gen_correlation_id.

(*@ decode_heartbeat_response *)
Theorem C05gen_heartbeat : forall msgset data,
  run 0 msgset data ast_decode_heartbeat_response
  = emb_res (fun e => VStruct K_HeartbeatResponse [VInt e]) (decode_heartbeat_response data).
Proof. exact sound_heartbeat. Qed.
Print Assumptions C05gen_heartbeat.

(*@ decode_leave_group_response *)
Theorem C05gen_leave_group : forall msgset data,
  run 0 msgset data ast_decode_leave_group_response
  = emb_res (fun e => VStruct K_LeaveGroupResponse [VInt e]) (decode_leave_group_response data).
Proof. exact sound_leave. Qed.
Print Assumptions C05gen_leave_group.

(*@ decode_sync_group_response *)
Theorem C05gen_sync_group : forall msgset data,
  run 0 msgset data ast_decode_sync_group_response = emb_res v_sync (decode_sync_group_response data).
Proof. exact sound_sync. Qed.
Print Assumptions C05gen_sync_group.

(*@ decode_consumermetadata_response *)
Theorem C05gen_find_coordinator : forall msgset data,
  run 0 msgset data ast_decode_consumermetadata_response = emb_res v_coordinator (decode_consumermetadata_response data).
Proof. exact sound_coordinator. Qed.
Print Assumptions C05gen_find_coordinator.

(*@ decode_offset_commit_response *)
Theorem C05gen_offset_commit : forall msgset data,
  run 0 msgset data ast_decode_offset_commit_response = emb_gen v_commit (decode_offset_commit_response data).
Proof. exact sound_offset_commit. Qed.
Print Assumptions C05gen_offset_commit.
