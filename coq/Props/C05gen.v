(* C05, translator tie: the decoder-language terms [ast_*] are REGENERATED from /repo/afkak/kafkacodec.py by
   harness/py2dsl.py on every run (this committed file is checked against the snapshot Model/DecAst.v; the check
   compiles a scratch copy against the run's own translation, one theorem per decoder whose translation succeeded).
   Each theorem says: interpreting what the SOURCE says now (Model.DecDSL.run, the Gallina semantics of the Python
   statement forms) is the hand-written decoder of Model.Responses that the theorems of Props/C05.v (and the totality
   theorems of Props/C12.v) are about - for every input, well-formed or not.
   [emb_res f] / [emb_gen f] (Model.DecEmb) = the decoder's typed result as Python values: the value returned, or the
   items yielded and then exhaustion / the exception.  A line `(*@ name *)` names the decoder a theorem depends on. *)
From AV Require Import Base.Util Model.Prim Model.Crc Model.MsgSet Model.Responses Model.DecDSL Model.ReadDSL Model.MsgDSL Model.DecEmb Model.DecAst
     Proofs.DecDSLSound Proofs.ReadDSLSound Proofs.MsgDSLSound.

(*@ get_response_correlation_id *)
Theorem C05gen_correlation_id : forall msgset data,
  run 0 msgset data ast_get_response_correlation_id = emb_res VInt (get_response_correlation_id data).
Proof. exact sound_correlation_id. Qed.
Print Assumptions C05gen_correlation_id.

(*@ decode_heartbeat_response *)
Theorem C05gen_heartbeat : forall msgset data,
  run 0 msgset data ast_decode_heartbeat_response
  = emb_res (fun e => VStruct K_HeartbeatResponse [VInt e]) (decode_heartbeat_response data).
Proof. exact sound_heartbeat. Qed.
Print Assumptions C05gen_heartbeat.

(*@ decode_leave_group_response *)
Theorem C05gen_leave_group : forall msgset data,
  run 0 msgset data ast_decode_leave_group_response
  = emb_res (fun e => VStruct K_LeaveGroupResponse [VInt e]) (decode_leave_group_response data).
Proof. exact sound_leave. Qed.
Print Assumptions C05gen_leave_group.

(*@ decode_sync_group_response *)
Theorem C05gen_sync_group : forall msgset data,
  run 0 msgset data ast_decode_sync_group_response = emb_res v_sync (decode_sync_group_response data).
Proof. exact sound_sync. Qed.
Print Assumptions C05gen_sync_group.

(*@ decode_consumermetadata_response *)
Theorem C05gen_find_coordinator : forall msgset data,
  run 0 msgset data ast_decode_consumermetadata_response = emb_res v_coordinator (decode_consumermetadata_response data).
Proof. exact sound_coordinator. Qed.
Print Assumptions C05gen_find_coordinator.

(*@ decode_offset_commit_response *)
Theorem C05gen_offset_commit : forall msgset data,
  run 0 msgset data ast_decode_offset_commit_response = emb_gen v_commit (decode_offset_commit_response data).
Proof. exact sound_offset_commit. Qed.
Print Assumptions C05gen_offset_commit.

(*@ decode_offset_fetch_response *)
Theorem C05gen_offset_fetch : forall msgset data,
  run 0 msgset data ast_decode_offset_fetch_response = emb_gen v_ofetch (decode_offset_fetch_response data).
Proof. exact sound_offset_fetch. Qed.
Print Assumptions C05gen_offset_fetch.

(*@ decode_offset_response *)
Theorem C05gen_list_offsets : forall msgset data,
  run 0 msgset data ast_decode_offset_response = emb_gen v_offset (decode_offset_response data).
Proof. exact sound_offsets. Qed.
Print Assumptions C05gen_list_offsets.

(* decode_produce_response = two nested generator functions and a dispatch on api_version *)
(*@ decode_produce_response__v0 *)
Theorem C05gen_produce_v0 : forall msgset data,
  run 0 msgset data ast_decode_produce_response__v0 = emb_gen v_produce (decode_produce_v0 data).
Proof. exact sound_produce_v0. Qed.
Print Assumptions C05gen_produce_v0.

(*@ decode_produce_response__v2 *)
Theorem C05gen_produce_v2 : forall msgset data,
  run 0 msgset data ast_decode_produce_response__v2 = emb_gen v_produce (decode_produce_v2 data).
Proof. exact sound_produce_v2. Qed.
Print Assumptions C05gen_produce_v2.

(*@ decode_produce_response__dispatch *)
Theorem C05gen_produce_dispatch : forall ver data,
  decode_produce_response ver data
  = match select ast_decode_produce_response__dispatch ver with
    | Some 0%nat => Some (decode_produce_v0 data)
    | Some 1%nat => Some (decode_produce_v2 data)
    | _ => None
    end.
Proof. exact sound_produce_dispatch. Qed.
Print Assumptions C05gen_produce_dispatch.

(* api_version is the interpreter's parameter; KafkaCodec._decode_message_set_iter is [dec_set depth orc] *)
(*@ decode_fetch_response *)
Theorem C05gen_fetch : forall depth orc ver data,
  run ver (dec_set depth orc) data ast_decode_fetch_response = emb_gen v_fetch (decode_fetch_response ver depth orc data).
Proof. exact sound_fetch. Qed.
Print Assumptions C05gen_fetch.

(*@ decode_metadata_response *)
Theorem C05gen_metadata : forall msgset data,
  run 0 msgset data ast_decode_metadata_response = emb_res v_metadata (decode_metadata_response data).
Proof. exact sound_metadata. Qed.
Print Assumptions C05gen_metadata.

(*@ decode_api_versions_response *)
Theorem C05gen_api_versions : forall msgset data,
  run 0 msgset data ast_decode_api_versions_response = emb_res v_api_versions (decode_api_versions_response data).
Proof. exact sound_api_versions. Qed.
Print Assumptions C05gen_api_versions.

(*@ decode_join_group_protocol_metadata *)
Theorem C05gen_join_protocol_metadata : forall msgset data,
  run 0 msgset data ast_decode_join_group_protocol_metadata = emb_res v_subscription (decode_join_group_protocol_metadata data).
Proof. exact sound_subscription. Qed.
Print Assumptions C05gen_join_protocol_metadata.

(*@ decode_join_group_response *)
Theorem C05gen_join_group : forall msgset data,
  run 0 msgset data ast_decode_join_group_response = emb_res v_join (decode_join_group_response data).
Proof. exact sound_join. Qed.
Print Assumptions C05gen_join_group.

(*@ decode_sync_group_member_assignment *)
Theorem C05gen_sync_member_assignment : forall msgset data,
  run 0 msgset data ast_decode_sync_group_member_assignment = emb_res v_assignment (decode_sync_group_member_assignment data).
Proof. exact sound_assignment. Qed.
Print Assumptions C05gen_sync_member_assignment.

(* ================================================================== the readers of afkak/_util.py, translated from
   their source into the reader language Model.ReadDSL (integer cursor, length tests, slices): each IS the suffix-based
   reader of Model.Prim every codec model is built on - reader(data, cur) = Prim reader on data[cur:], the new cursor
   being len data - len rest - for every buffer and every cursor inside it *)
(*@ util_read_short_bytes *)
Theorem C05gen_read_short_bytes : forall data cur,
  0 <= cur <= len data ->
  rrun ast_util_read_short_bytes [] data cur
  = match read_short_bytes (drop (Z.to_nat cur) data) with
    | Ok (v, rest) => Ok (rv_ob v, len data - len rest)
    | Err e => Err e
    end.
Proof. exact sound_util_read_short_bytes. Qed.
Print Assumptions C05gen_read_short_bytes.

(*@ util_read_int_string *)
Theorem C05gen_read_int_string : forall data cur,
  0 <= cur <= len data ->
  rrun ast_util_read_int_string [] data cur
  = match read_int_string (drop (Z.to_nat cur) data) with
    | Ok (v, rest) => Ok (rv_ob v, len data - len rest)
    | Err e => Err e
    end.
Proof. exact sound_util_read_int_string. Qed.
Print Assumptions C05gen_read_int_string.

(*@ util_read_short_ascii util_read_short_bytes *)
Theorem C05gen_read_short_ascii : forall data cur,
  0 <= cur <= len data ->
  rrun_decoded ast_util_read_short_bytes ast_util_read_short_ascii data cur
  = match read_short_ascii (drop (Z.to_nat cur) data) with
    | Ok (b, rest) => Ok (RBytes b, len data - len rest)
    | Err e => Err e
    end.
Proof. exact sound_util_read_short_ascii. Qed.
Print Assumptions C05gen_read_short_ascii.

(*@ util_read_short_text util_read_short_bytes *)
Theorem C05gen_read_short_text : forall data cur,
  0 <= cur <= len data ->
  rrun_decoded ast_util_read_short_bytes ast_util_read_short_text data cur
  = match read_short_text (drop (Z.to_nat cur) data) with
    | Ok (b, rest) => Ok (RBytes b, len data - len rest)
    | Err e => Err e
    end.
Proof. exact sound_util_read_short_text. Qed.
Print Assumptions C05gen_read_short_text.

(* relative_unpack with ANY struct format of the seven integer codes = the fields one after the other *)
(*@ util_relative_unpack *)
Theorem C05gen_relative_unpack : forall fmt data cur,
  0 <= cur <= len data ->
  rrun ast_util_relative_unpack fmt data cur
  = match unpack_seq fmt (drop (Z.to_nat cur) data) with
    | Ok (vs, rest) => Ok (RTuple vs, len data - len rest)
    | Err e => Err e
    end.
Proof. exact sound_util_relative_unpack. Qed.
Print Assumptions C05gen_relative_unpack.

(* ================================================================== KafkaCodec._decode_message and
   KafkaCodec._decode_message_set_iter, translated from their source into the message-set language Model.MsgDSL
   (CRC check through Model.Crc, gzip / snappy through the compression oracle, the nested generator functions v0 / v1
   inlined at the dispatch on the magic byte, the helper absolute(), try / except BufferUnderflowError with the
   read_message flag): interpreting the source IS Model.MsgSet - the decoder the message-set theorems of C05
   (round trips, wrapper offsets), C12 (corruption, truncation, cost) and C02 (the consumer's view of the log) are about *)
(*@ msg__decode_message *)
Theorem C05gen_absolute : forall off inner,
  arun (mp_absolute ast_msg__decode_message) off inner = wrap_v1 off inner.
Proof. exact sound_absolute. Qed.
Print Assumptions C05gen_absolute.

(* one message: [rec] = what the recursive call on a decompressed set yields *)
(*@ msg__decode_message *)
Theorem C05gen_decode_message : forall rec orc data off,
  mrun ast_msg__decode_message rec orc data off = dec_message rec orc data off.
Proof. exact sound_decode_message_closed. Qed.
Print Assumptions C05gen_decode_message.

(* the loop over one byte string, with the partial-tail / read_message / ConsumerFetchSizeTooSmall logic *)
(*@ msg__decode_message_set_iter *)
Theorem C05gen_decode_message_set_iter : forall rec orc data,
  srun (dec_message rec orc) ast_msg__decode_message_set_iter data = dec_loop rec orc (length data) data false.
Proof. exact sound_set_iter_closed. Qed.
Print Assumptions C05gen_decode_message_set_iter.

(* the two functions calling each other through wrappers, by the nesting budget *)
(*@ msg__decode_message msg__decode_message_set_iter *)
Theorem C05gen_dec_set : forall orc depth data,
  dsl_dec_set ast_msg__decode_message ast_msg__decode_message_set_iter depth orc data = dec_set depth orc data.
Proof. exact sound_dec_set. Qed.
Print Assumptions C05gen_dec_set.
