(* C02 - the consumer delivers every message once, in offset order, never concurrently.
   Theorem statements only; proofs live in Proofs/ConsumerC02*.v.  Model: Model/Consumer.v (afkak/consumer.py:290-1131),
   specification vocabulary (monitors, honest broker over a log): Model/ConsumerLog.v. *)
From AV Require Import Base.Util Model.Consumer Model.ConsumerLog Model.ConsumerLogFifo Model.ConsumerLogSeg
  Proofs.ConsumerC02Extract Proofs.ConsumerC02ReqRun Proofs.ConsumerC02PwRun Proofs.ConsumerC02Fifo Proofs.ConsumerC02FifoRun
  Proofs.ConsumerC02Log Proofs.ConsumerC02Idle Proofs.ConsumerC02NoFuel.

(* At most one offset/fetch request is outstanding and at most one refetch timer is armed, at every moment of every run:
   the monitor REQ (Model/ConsumerLog.v: rejects a request sent while one is outstanding, a refetch timer armed while
   one is armed, ...) accepts the run of the model for every configuration and every event list - replies, errors,
   timer firings, API calls and processor results in any order - that does not exhaust the interpreter's fuel. *)
Theorem C02_single_fetch : forall fuel c maxatt buf evs,
  run_fuel_ok fuel c maxatt buf evs = true ->
  mon_run req_ev req_out q0 (model_obs fuel c maxatt buf evs)
  = Some (req_abs (fst (run_events fuel (init c maxatt buf) evs))).
Proof. exact req_monitor_accepts. Qed.
Print Assumptions C02_single_fetch.

(* The processor is never invoked while its previous invocation has not returned or the Deferred it returned is still
   pending, and never with an empty block: the monitor PW (Model/ConsumerLog.v; it reconstructs the processor-call
   window from the plan oracle, OCallProc, the return of an API call made from inside the processor, OCancelProc and
   EProcFire, and rejects an OCallProc outside the idle state) accepts the run of the model for every configuration
   with auto_commit_every_n >= 0 (checked by the constructor) and every event list - processors that return, raise,
   return Deferreds that fire or fail at any later moment, call stop() or commit() re-entrantly; replies arriving
   during processing; stops, shutdowns, restarts - that does not exhaust the interpreter's fuel. *)
Theorem C02_no_overlap : forall fuel c maxatt buf evs,
  0 <= c_acn c -> run_fuel_ok fuel c maxatt buf evs = true ->
  mon_run pw_ev pw_out pw0 (model_obs fuel c maxatt buf evs)
  = Some (pw_abs None (fst (run_events fuel (init c maxatt buf) evs))).
Proof. exact pw_monitor_accepts. Qed.
Print Assumptions C02_no_overlap.

(* What reaches the processor is exactly what was extracted from the accepted fetch replies, in order, once: the monitor
   FIFO (Model/ConsumerLogFifo.v) keeps the list of messages extracted (by the loop of _handle_fetch_response at the
   fetch offset current when the reply is accepted) and not yet delivered; it rejects a processor invocation that is not a
   non-empty prefix of that list (a gap, a repeat, a reordering, a message that was never fetched).  It accepts the run
   of the model for every configuration (auto_commit_every_n >= 0) and every event list - replies parked behind a slow
   processor, blocks cut by auto_commit_every_n, re-entrant stop()/commit()/shutdown(), failures, restarts - and
   NOTHING IS LOST WHILE THE CONSUMER IS ALIVE: in every state that is not stopping / stopped / failed / shutting
   down, what FIFO still expects is precisely what the model holds (rest of the block in progress, then the parked
   reply); in particular with no processor result pending and no reply parked everything extracted has been delivered.
   (This monitor extracts at the model's own fetch offset; C02_fetch_offsets_contiguous / C02_delivered_is_log_segment
   below restate it over the offsets the consumer ASKS for and join it to the log.) *)
Theorem C02_delivered_in_order : forall fuel c maxatt buf evs,
  0 <= c_acn c -> run_fuel_ok fuel c maxatt buf evs = true ->
  exists g, mon_run_s fifo_ev fifo_out [] (run_steps fuel (init c maxatt buf) evs) = Some g
            /\ let s := fst (run_events fuel (init c maxatt buf) evs) in
               dead2 s = false -> g = queued s ++ pext s.
Proof. exact fifo_monitor_accepts. Qed.
Print Assumptions C02_delivered_in_order.

(* Whole-run form, over the offsets the consumer asks for (monitor LOG, Model/ConsumerLogSeg.v): LOG remembers the offset
   of the last fetch request sent (OFetch off) and where the extraction of the last accepted reply ended; it REJECTS a
   fetch request for any other offset than that next unread one (a gap or a re-read), and a processor invocation that
   is not a non-empty prefix of what was extracted - at the offset ASKED FOR - and not yet handed on.  The only events
   after which the next fetch offset is free (the permitted discontinuities) are an accepted start(), an accepted
   reply to an offset / offset-fetch request, and an OffsetOutOfRange failure under an auto_offset_reset policy.
   LOG accepts the run of the model for every configuration and every event list, whatever the broker answers, and
   nothing extracted since the accepted start() is lost or handed on twice:
   handed to the processor ++ still queued = extracted before the last resolution ++ extracted since. *)
Theorem C02_fetch_offsets_contiguous : forall fuel c maxatt buf evs,
  0 <= c_acn c -> run_fuel_ok fuel c maxatt buf evs = true ->
  exists gh, mon_run_s log_ev log_out log0 (run_steps fuel (init c maxatt buf) evs) = Some gh
             /\ l_D gh ++ l_g gh = l_old gh ++ l_E gh.
Proof. exact log_monitor_accepts. Qed.
Print Assumptions C02_fetch_offsets_contiguous.

(* ... and against an honest broker (every accepted fetch reply is a contiguous run of the log [L] that starts at or
   before the first entry >= the offset the request asked for, cut anywhere; an empty reply is honest: liveness of
   the broker is not assumed) for EVERY log with strictly increasing offsets (gaps allowed): what was extracted since
   the position was last resolved is exactly the segment of the log from the offset first asked for (l_st) up to the
   next unread offset.  With the equation above: as long as the position was resolved once since start() (l_old = []),
   the messages handed to the processor followed by those still queued ARE log[l_st, next unread) - every entry, once,
   in order. *)
Theorem C02_delivered_is_log_segment : forall fuel c maxatt buf evs L,
  0 <= c_acn c -> run_fuel_ok fuel c maxatt buf evs = true -> increasing L ->
  honest_run L 0 (run_steps fuel (init c maxatt buf) evs) ->
  exists gh, mon_run_s log_ev log_out log0 (run_steps fuel (init c maxatt buf) evs) = Some gh
             /\ l_D gh ++ l_g gh = l_old gh ++ l_E gh
             /\ forall n, l_nx gh = Some n -> l_st gh <= n /\ l_E gh = seg (l_st gh) n L.
Proof. exact log_segment. Qed.
Print Assumptions C02_delivered_is_log_segment.

(* Progress, in its safety form (NEVER IDLE): between two events of any run, a consumer whose start Deferred has not
   fired and which is not shutting down has an offset / fetch request outstanding - possibly answered already and
   parked behind a busy processor, its Deferred is then still recorded and the reply is re-handled when the block
   ends - or a refetch timer armed.  So the next unread offset is always about to be asked for; that the environment
   then answers, and the timer fires, is the environment's liveness and is not modelled ("eventually" stays a
   monitor).  Proved for every configuration and every event list (replies whose decoding raises mid-way are
   outside the model: that case is finding F-C02-1, repaired in 3e037d7 + 81ed5b2, and is watched by the same monitor on the
   implementation). *)
Theorem C02_never_idle : forall fuel c maxatt buf evs,
  run_fuel_ok fuel c maxatt buf evs = true ->
  let s := fst (run_events fuel (init c maxatt buf) evs) in
  startd_unfired s = true -> s_shutting s = false -> (is_some (s_req s) || rcall_active s) = true.
Proof. exact never_idle. Qed.
Print Assumptions C02_never_idle.

(* ---- the same run-level statements WITHOUT the fuel hypothesis ----
   By b-consumer-a's fuel_enough (every run from a configuration the constructor accepts has a fuel from which on the
   interpreter never runs out; Proofs/ConsumerFuelEnoughRun.v): for every configuration with auto_commit_every_n >= 0
   and every event list there is a fuel f0 such that for EVERY fuel >= f0 the statement holds outright.  (The harness
   derives its fuel from the input size and reports any OFuel output.) *)
Theorem C02_single_fetch_any_fuel : forall c maxatt buf evs, 0 <= c_acn c -> exists f0, forall fuel, (f0 <= fuel)%nat ->
  mon_run req_ev req_out q0 (model_obs fuel c maxatt buf evs) = Some (req_abs (fst (run_events fuel (init c maxatt buf) evs))).
Proof. exact req_any_fuel. Qed.
Print Assumptions C02_single_fetch_any_fuel.
Theorem C02_no_overlap_any_fuel : forall c maxatt buf evs, 0 <= c_acn c -> exists f0, forall fuel, (f0 <= fuel)%nat ->
  mon_run pw_ev pw_out pw0 (model_obs fuel c maxatt buf evs) = Some (pw_abs None (fst (run_events fuel (init c maxatt buf) evs))).
Proof. exact pw_any_fuel. Qed.
Print Assumptions C02_no_overlap_any_fuel.
Theorem C02_delivered_in_order_any_fuel : forall c maxatt buf evs, 0 <= c_acn c -> exists f0, forall fuel, (f0 <= fuel)%nat ->
  exists g, mon_run_s fifo_ev fifo_out [] (run_steps fuel (init c maxatt buf) evs) = Some g
            /\ let s := fst (run_events fuel (init c maxatt buf) evs) in dead2 s = false -> g = queued s ++ pext s.
Proof. exact fifo_any_fuel. Qed.
Print Assumptions C02_delivered_in_order_any_fuel.
Theorem C02_fetch_offsets_contiguous_any_fuel : forall c maxatt buf evs, 0 <= c_acn c -> exists f0, forall fuel, (f0 <= fuel)%nat ->
  exists gh, mon_run_s log_ev log_out log0 (run_steps fuel (init c maxatt buf) evs) = Some gh
             /\ l_D gh ++ l_g gh = l_old gh ++ l_E gh.
Proof. exact log_any_fuel. Qed.
Print Assumptions C02_fetch_offsets_contiguous_any_fuel.
Theorem C02_delivered_is_log_segment_any_fuel : forall c maxatt buf evs, 0 <= c_acn c -> forall L, increasing L ->
  exists f0, forall fuel, (f0 <= fuel)%nat ->
  honest_run L 0 (run_steps fuel (init c maxatt buf) evs) ->
  exists gh, mon_run_s log_ev log_out log0 (run_steps fuel (init c maxatt buf) evs) = Some gh /\ log_ok L gh.
Proof. exact log_segment_any_fuel. Qed.
Print Assumptions C02_delivered_is_log_segment_any_fuel.
Theorem C02_never_idle_any_fuel : forall c maxatt buf evs, 0 <= c_acn c -> exists f0, forall fuel, (f0 <= fuel)%nat ->
  let s := fst (run_events fuel (init c maxatt buf) evs) in
  startd_unfired s = true -> s_shutting s = false -> (is_some (s_req s) || rcall_active s) = true.
Proof. exact never_idle_any_fuel. Qed.
Print Assumptions C02_never_idle_any_fuel.

(* The extraction loop against an honest broker (a contiguous run of the log starting at or before the first entry
   >= the fetch offset, cut anywhere): for EVERY log with strictly increasing offsets (gaps allowed) and every start
   position st <= fetch offset,  log[st, new fetch offset) = log[st, fetch offset) ++ extracted messages.
   Hence no gap, no repeat, no reordering; entries below the fetch offset (compressed wrappers) are skipped. *)
Theorem C02_extract_log_segment : forall log foff offs ms foff',
  increasing log -> honest log foff offs -> extract foff offs = (ms, foff') ->
  foff <= foff' /\ forall st, st <= foff -> seg st foff' log = seg st foff log ++ ms.
Proof. exact extract_honest. Qed.
Print Assumptions C02_extract_log_segment.

Theorem C02_extract_is_segment : forall log foff offs ms foff',
  increasing log -> honest log foff offs -> extract foff offs = (ms, foff') -> ms = seg foff foff' log.
Proof. exact extract_is_segment. Qed.
Print Assumptions C02_extract_is_segment.

(* Whatever the broker sends (honest or not), a block handed on is strictly increasing and within
   [fetch offset, new fetch offset): within one start position nothing is ever delivered twice or out of order. *)
Theorem C02_extract_ordered : forall offs foff ms foff', extract foff offs = (ms, foff') ->
  increasing ms /\ Forall (fun x => foff <= x < foff') ms /\ foff <= foff'.
Proof. exact extract_sorted. Qed.
Print Assumptions C02_extract_ordered.

(* Bounded progress (liveness only in this one-step form: PARTIAL): a reply holding an entry at or above the fetch
   offset strictly advances the fetch offset and yields a non-empty block. *)
Theorem C02_progress_partial : forall foff offs ms foff' x,
  extract foff offs = (ms, foff') -> In x offs -> foff <= x -> increasing offs -> foff < foff' /\ ms <> [].
Proof. exact extract_progress. Qed.
Print Assumptions C02_progress_partial.

(* ---- non-vacuity ---- *)
(* a log with compaction gaps; a wrapper-style reply that starts below the fetch offset; the extracted block *)
Example log_ex : increasing [3; 4; 7; 8; 9; 15; 16] /\ honest [3; 4; 7; 8; 9; 15; 16] 8 [7; 8; 9; 15]
  /\ extract 8 [7; 8; 9; 15] = ([8; 9; 15], 16) /\ seg 4 16 [3; 4; 7; 8; 9; 15; 16] = seg 4 8 [3; 4; 7; 8; 9; 15; 16] ++ [8; 9; 15].
Proof.
  split; [cbn; repeat split; reflexivity|]. split; [exists [3; 4], [16]; split; [reflexivity | repeat constructor]|].
  split; reflexivity.
Qed.
(* runs in which a fetch request and a commit request are really outstanding / a refetch timer is armed, and the
   monitor tracks them *)
Example req_ex :
  let c := mkCfg true 1 false 0 None (-1) in
  let evs := [EStart 5; EPlan 0 0; EFetchOk [5; 6] false; EFireRetry] in
  run_fuel_ok 30 c 0 4096 evs = true /\
  mon_run req_ev req_out q0 (model_obs 30 c 0 4096 evs) = Some (mkQ (Some 3) false (Some (Some 5)) None) /\
  mon_run req_ev req_out q0 (model_obs 30 c 0 4096 (evs ++ [ECommitOk; EReqFail 1])) = Some (mkQ None true None (Some 5)).
Proof. vm_compute. repeat split; reflexivity. Qed.
(* a slow processor, a reply parked behind it, the Deferred fires, the next block follows: PW tracks the window *)
Example overlap_ex :
  let c := mkCfg true 2 false 0 None (-1) in
  let evs := [EStart 0; EFetchOk [0; 1; 2] false; EFireRetry; EFetchOk [3] false; EProcFire true] in
  run_fuel_ok 30 c 0 4096 evs = true /\
  mon_run pw_ev pw_out pw0 (model_obs 30 c 0 4096 evs) = Some (mkPW (PPend 2) [] (Some 1)).
Proof. vm_compute. split; reflexivity. Qed.
Example pw_rejects_overlap :
  mon_run pw_ev pw_out pw0 [(EFetchOk [0; 1] false, [OCallProc [0]; OCallProc [1]])] = None.
Proof. reflexivity. Qed.
(* FIFO on a run with a parked reply: after the first block [0;1] is handed on, [2] and the parked [3] are still expected *)
Example fifo_ex :
  let c := mkCfg true 2 false 0 None (-1) in
  let evs := [EStart 0; EFetchOk [0; 1; 2] false; EFireRetry; EFetchOk [3] false] in
  run_fuel_ok 30 c 0 4096 evs = true /\
  mon_run_s fifo_ev fifo_out [] (run_steps 30 (init c 0 4096) evs) = Some [2; 3].
Proof. vm_compute. split; reflexivity. Qed.
Example fifo_rejects_gap : fifo_out [5; 6; 7] (OCallProc [6]) = None.
Proof. reflexivity. Qed.
(* the monitor is not trivially accepting: a second fetch request while one is outstanding is rejected *)
Example req_rejects : mon_run req_ev req_out q0 [(EStart 0, [OFetch 0 4096; OFetch 0 4096])] = None.
Proof. reflexivity. Qed.
(* LOG on a run over the log [3;4;7;8;9;15;16] (compaction gaps), start(4), buffer-cut honest replies, the second one
   a compressed wrapper that starts below the fetch offset: the consumer asks for 4, then 8, then 16; the processor
   has received [4;7] (block of 2), [8;9] and [15] are queued / being processed; extracted = log[4,16) *)
Example log_run_ex :
  let c := mkCfg true 2 false 0 None (-1) in
  let L := [3; 4; 7; 8; 9; 15; 16] in
  let evs := [EStart 4; EFetchOk [4; 7] false; EFireRetry; EFetchOk [7; 8; 9; 15] false; EProcFire true; EFireRetry] in
  let tr := run_steps 40 (init c 0 4096) evs in
  run_fuel_ok 40 c 0 4096 evs = true /\
  mon_run_s log_ev log_out log0 tr = Some (mkL 16 (Some 16) 4 [4; 7; 8; 9; 15] [] [15] [4; 7; 8; 9]) /\
  seg 4 16 L = [4; 7; 8; 9; 15].
Proof. vm_compute. repeat split; reflexivity. Qed.
Example log_run_ex_honest :
  let c := mkCfg true 2 false 0 None (-1) in
  let evs := [EStart 4; EFetchOk [4; 7] false; EFireRetry; EFetchOk [7; 8; 9; 15] false] in
  honest_run [3; 4; 7; 8; 9; 15; 16] 0 (run_steps 40 (init c 0 4096) evs).
Proof.
  vm_compute. repeat split.
  - intros _. exists [3], [8; 9; 15; 16]. split; [reflexivity | repeat constructor].
  - intros _. exists [3; 4], [16]. split; [reflexivity | repeat constructor].
Qed.
(* LOG is not trivially accepting: a fetch request that skips an offset, or re-reads one, is rejected *)
Example log_rejects_gap : log_out (mkL 4 (Some 8) 4 [4; 7] [] [] [4; 7]) (OFetch 9 4096) = None.
Proof. reflexivity. Qed.
Example log_rejects_reread : log_out (mkL 4 (Some 8) 4 [4; 7] [] [] [4; 7]) (OFetch 4 4096) = None.
Proof. reflexivity. Qed.
Example log_rejects_unfetched : log_out (mkL 4 (Some 8) 4 [4; 7] [] [7] [4]) (OCallProc [8]) = None.
Proof. reflexivity. Qed.
(* never idle is not vacuous: after a fetch reply has been handed to a slow processor the consumer is alive, has no
   request outstanding, and the refetch timer is what keeps it going *)
Example never_idle_ex :
  let c := mkCfg true 2 false 0 None (-1) in
  let s := fst (run_events 30 (init c 0 4096) [EStart 0; EFetchOk [0; 1; 2] false]) in
  startd_unfired s = true /\ s_shutting s = false /\ s_req s = None /\ rcall_active s = true.
Proof. vm_compute. repeat split; reflexivity. Qed.
