(* C12 - Corrupted or truncated message data is never delivered as a message.
   Theorem statements only; proofs live in Proofs/{CrcBurst,Truncation,DecodeTotal}.v.  Never weaken a statement here.

   Vocabulary (definitions in the Proofs files, all computable unless noted):
     zbits d            the bits of byte string d in the order the CRC consumes them (byte by byte, LSB first)
     zxor d e           bytewise xor
     zbits_msb d        the same bits with the MOST significant bit of each byte first (used only in the refutation)
     burst_pattern b    (Prop) b = 0^a ++ w ++ 0^c with |w| <= 32 and w not all zero
     burst32b b         the same as a boolean: some bit set, every set bit within 32 positions of the first
     flip_bit d i       d with bit i (CRC order) inverted
     plain m            codec bits of the attributes are 0 (not a compressed wrapper), key and value are byte strings
     wire_view now m    m as it comes back from the wire (format 0: no timestamp; format 1: its own or the clock's)
     expected ..        the (offset, message) pairs _encode_message_set wrote, in order
     entry_size m       26 / 34 + |key| + |value|: bytes of one message-set entry
     whole cut oms      the entries that lie wholly inside the first [cut] bytes
     dec_set_c          dec_set instrumented with (entries whose 12-byte header was read, oracle outputs received)

     grow / gstep / grun the consumer's buffer rule and its reaction to fetch answers (Model/FetchGrow.v)
     accept / deliver / delivered / from / honest_run    see section 4

   The consumer part is stated on the small model Model/FetchGrow.v (consumer.py:925-996,1093-1104 only), which has
   its own correspondence against the real Consumer in harness/props/C12.py; the full consumer machine and the
   numerical law (x16 up to 1 MiB, then x2, clipped) as part of it are property C14.  Response decoders
   (Model/Responses.v, owned by C05) are compared with the implementation on hostile inputs by harness/props/C12.py;
   the theorems of section 3 are about the message-set decoder, the primitive readers and counted loops. *)
From Coq Require Import Sorted.
From AV Require Import Base.Util Model.Prim Model.Crc Model.MsgSet Model.FetchGrow Model.Responses
     Proofs.PrimFacts Proofs.CrcBurst Proofs.DecodeTotal Proofs.Truncation Proofs.C12Wrappers Proofs.C12Hops Proofs.FetchGrowFacts Proofs.C12Resp.

(* ================================================================== 1. CRC-32 error detection *)

(* the byte-wise CRC that runs is the bit-serial register the arguments below are about *)
Theorem C12_crc_bridge : forall data r, Forall (fun b => (b < 256)%N) data -> crc_update r data = crc_bits r (bits_of data).
Proof. exact crc_update_bits. Qed.
Print Assumptions C12_crc_bridge.

(* ---- what the property text asks for, independent of any bit numbering *)

(* every single-bit flip *)
Theorem C12_crc_bitflip : forall d i, bytes_ok d = true -> (i < 8 * length d)%nat -> crc32 (flip_bit d i) <> crc32 d.
Proof. exact crc_bitflip. Qed.
Print Assumptions C12_crc_bitflip.

(* every alteration confined to at most 4 consecutive bytes ("short burst" in any numbering of the bits: it contains
   every burst of at most 25 bits whichever end of a byte is counted first) *)
Theorem C12_crc_4bytes : forall pre mid mid' post,
  bytes_ok (pre ++ mid ++ post) = true -> bytes_ok mid' = true ->
  length mid' = length mid -> (length mid <= 4)%nat -> mid' <> mid ->
  crc32 (pre ++ mid' ++ post) <> crc32 (pre ++ mid ++ post).
Proof. exact crc_4bytes. Qed.
Print Assumptions C12_crc_4bytes.

(* ---- bursts up to 32 bits: IN THE CRC'S OWN BIT ORDER.
   [zbits d] lists the bits byte by byte and, inside each byte, LEAST significant bit first - the order in which the
   reflected CRC-32 of zlib consumes them.  Every non-zero error pattern whose set bits lie within 32 consecutive
   positions OF THAT ORDER changes the checksum.  (Such a window may touch 5 bytes; it is NOT the same set of patterns
   as "32 consecutive positions" with the most significant bit of each byte first - see the refutation below.) *)
Theorem C12_crc_burst_lsb_order : forall d e,
  bytes_ok d = true -> bytes_ok e = true -> length d = length e -> burst_pattern (zbits e) ->
  crc32 (zxor d e) <> crc32 d.
Proof. exact crc_burst. Qed.
Print Assumptions C12_crc_burst_lsb_order.

(* the same with the decidable form of "burst" *)
Theorem C12_crc_burst_lsb_order_decidable : forall d e,
  bytes_ok d = true -> bytes_ok e = true -> length d = length e -> burst32b (zbits e) = true ->
  crc32 (zxor d e) <> crc32 d.
Proof. exact crc_burst_b. Qed.
Print Assumptions C12_crc_burst_lsb_order_decidable.

(* REFUTED: the reading "every burst of at most 32 bits" with positions numbered most significant bit first.
   0a 1e e9 d5 e0 xored into five consecutive bytes (set bits within 31 consecutive MSB-first positions) is a multiple of
   the generator polynomial: no CRC-32 (zlib's, and hence afkak's check) notices it.  Inherent to the checksum, not
   a defect of afkak; recorded so that the theorem above is not read for more than it says.  Replayed on the real
   decoder by harness/props/C12.py (the altered message IS delivered). *)
Theorem C12_crc_burst_msb_order_refuted :
  exists d e, bytes_ok d = true /\ bytes_ok e = true /\ length d = length e /\
              burst32b (zbits_msb e) = true /\ burst32b (zbits e) = false /\
              zxor d e <> d /\ crc32 (zxor d e) = crc32 d.
Proof. exact burst_msb_order_refuted. Qed.
Print Assumptions C12_crc_burst_msb_order_refuted.

(* the checksum is a 32-bit value (so the 4-byte field stores it exactly) *)
Theorem C12_crc_range : forall d, bytes_ok d = true -> 0 <= crc32 d < 4294967296.
Proof. exact crc32_range. Qed.
Print Assumptions C12_crc_range.

(* ---- corollaries for _decode_message: a damaged message is a ChecksumError, never a message, never another error *)

(* a burst anywhere in the checksummed region (everything after the 4 CRC bytes), both formats *)
Theorem C12_flip_detected : forall rec orc now m bs e off,
  encode_message now m = Ok bs -> obytes_ok (m_key m) = true -> obytes_ok (m_value m) = true ->
  bytes_ok e = true -> length e = length (drop 4 bs) -> burst_pattern (zbits e) ->
  dec_message rec orc (Some (take 4 bs ++ zxor (drop 4 bs) e)) off = ([], Some Checksum).
Proof. exact flip_detected. Qed.
Print Assumptions C12_flip_detected.

(* any alteration of the stored CRC field itself *)
Theorem C12_crc_field_detected : forall rec orc now m bs c' off,
  encode_message now m = Ok bs -> obytes_ok (m_key m) = true -> obytes_ok (m_value m) = true ->
  bytes_ok c' = true -> length c' = 4%nat -> c' <> take 4 bs ->
  dec_message rec orc (Some (c' ++ drop 4 bs)) off = ([], Some Checksum).
Proof. exact crc_field_detected. Qed.
Print Assumptions C12_crc_field_detected.

(* inside a message set: the messages before the damaged entry are delivered, then ChecksumError is raised; the
   damaged entry ([bad]: any bytes whose stored CRC does not match, e.g. the two cases above) and what follows
   it are not delivered *)
Theorem C12_corrupt_in_set : forall d orc clock k msgs offset incr magic bs off' bad h' rest,
  forallb plain msgs = true ->
  encode_message_set_from clock k msgs offset incr magic = Ok bs ->
  pack_list [(Fq, off'); (Fi, len bad)] = Ok h' ->
  (6 <= length bad)%nat -> dec_be_unsigned (take 4 bad) <> crc32 (drop 4 bad) ->
  dec_set (S d) orc (bs ++ h' ++ bad ++ rest) = (expected clock k msgs offset incr, Some Checksum).
Proof. exact corrupt_in_set. Qed.
Print Assumptions C12_corrupt_in_set.

(* ================================================================== 2. truncation *)

(* an intact plain message decodes to itself (needed to say what "the complete messages" are) *)
Theorem C12_message_intact : forall rec orc now m bs off,
  encode_message now m = Ok bs -> plain m = true ->
  dec_message rec orc (Some bs) off = ([(off, wire_view now m)], None).
Proof. exact dec_message_intact. Qed.
Print Assumptions C12_message_intact.

(* every cut point of every encoded (uncompressed) set, any nesting budget >= 1, any oracle, formats 0 and 1,
   null / empty / arbitrary keys and values: exactly the entries wholly inside the prefix, in order, then a silent
   stop - or ConsumerFetchSizeTooSmall when not even the first is complete - and nothing at all for the empty prefix *)
Theorem C12_truncation : forall d orc clock k msgs offset incr magic bs cut,
  forallb plain msgs = true ->
  encode_message_set_from clock k msgs offset incr magic = Ok bs ->
  (cut <= length bs)%nat ->
  dec_set (S d) orc (take cut bs)
  = (whole cut (expected clock k msgs offset incr),
     match whole cut (expected clock k msgs offset incr) with
     | [] => if Nat.eqb cut 0 then None else Some FetchTooSmall
     | _ :: _ => None
     end).
Proof. exact truncation. Qed.
Print Assumptions C12_truncation.

(* the uncut set delivers every message *)
Theorem C12_complete_set : forall d orc clock k msgs offset incr magic bs,
  forallb plain msgs = true ->
  encode_message_set_from clock k msgs offset incr magic = Ok bs ->
  dec_set (S d) orc bs = (expected clock k msgs offset incr, None).
Proof. exact complete_set. Qed.
Print Assumptions C12_complete_set.

(* ================================================================== 2b. the same for sets that contain compressed wrappers
   (or anything else that decodes).  [set_of rec orc es bs]: bs is the concatenation of the entries es, each given by its
   offset, its bytes and the (offset, message) pairs [e_ys] to which those bytes decode cleanly - a plain message, a
   gzip/snappy wrapper around an inner set (through the decompression oracle), a wrapper of wrappers.  [gcut read cut es]
   walks the entries wholly inside the first cut bytes; [gwhole] lists them; [yields] concatenates their e_ys. *)

(* an encoded message - plain or wrapper - decodes to what its payload says (the CRC, format and length checks pass) *)
Theorem C12_message_payload : forall rec orc now m bs off,
  encode_message now m = Ok bs -> obytes_ok (m_key m) = true -> obytes_ok (m_value m) = true ->
  dec_message rec orc (Some bs) off
  = dec_payload rec orc (m_magic m) (m_attr m) off (m_key m) (m_value m) (m_ts (wire_view now m)).
Proof. exact dec_message_payload. Qed.
Print Assumptions C12_message_payload.

(* a gzip wrapper (either format) around an encoded set of plain messages is an entry that decodes: to the inner
   messages as stored (format 0) or relocated to end at the wrapper's offset (format 1) - for EVERY oracle that returns
   the inner set for this payload (nothing else is assumed about decompression) *)
Theorem C12_wrapper_decodes : forall d orc now w bs off z clock k msgs o incr imagic inner,
  encode_message now w = Ok bs ->
  m_value w = Some z -> obytes_ok (m_key w) = true -> bytes_ok z = true ->
  Z.land (m_attr w) ATTRIBUTE_CODEC_MASK = CODEC_GZIP ->
  gz_dec orc z = Ok inner ->
  forallb plain msgs = true -> encode_message_set_from clock k msgs o incr imagic = Ok inner ->
  dec_message (dec_set (S d) orc) orc (Some bs) off
  = ((if (m_magic w =? 0) then expected clock k msgs o incr else absolute off (expected clock k msgs o incr)), None).
Proof. exact wrapper_decodes. Qed.
Print Assumptions C12_wrapper_decodes.

(* every cut point of a set whose entries decode: exactly the yields of the entries wholly before the cut - a cut inside a
   wrapper, its compressed payload included, delivers nothing of that wrapper - then a silent stop, or
   ConsumerFetchSizeTooSmall, which happens only when nothing at all was yielded *)
Theorem C12_truncation_general : forall d orc es bs cut,
  set_of (dec_set d orc) orc es bs -> (cut <= length bs)%nat ->
  dec_set (S d) orc (take cut bs) = gcut false cut es /\
  fst (gcut false cut es) = yields (gwhole cut es) /\
  (snd (gcut false cut es) = None \/
   (snd (gcut false cut es) = Some FetchTooSmall /\ yields (gwhole cut es) = [])).
Proof. exact gen_truncation. Qed.
Print Assumptions C12_truncation_general.

(* a damaged entry (stored CRC does not match: by C12_flip_detected / C12_crc_field_detected any burst in the
   checksummed bytes of a message - for a wrapper that is its compressed payload - or any change of its CRC field) after
   entries that decode: their yields are delivered, then ChecksumError; nothing of the damaged entry or behind it *)
Theorem C12_corrupt_in_set_general : forall d orc es bs off' bad h' rest,
  set_of (dec_set d orc) orc es bs ->
  pack_list [(Fq, off'); (Fi, len bad)] = Ok h' ->
  (6 <= length bad)%nat -> dec_be_unsigned (take 4 bad) <> crc32 (drop 4 bad) ->
  dec_set (S d) orc (bs ++ h' ++ bad ++ rest) = (yields es, Some Checksum).
Proof. exact gen_corrupt_in_set. Qed.
Print Assumptions C12_corrupt_in_set_general.

(* ================================================================== 3. totality with linear cost *)

(* dec_set is a structurally recursive function, hence total.  Its instrumented copy returns the same result, every
   recorded byte string is an answer of the decompression oracle, every entry whose header was read - at every
   nesting level - is paid for by 12 bytes of the input or of an oracle answer, and no more messages are yielded
   than entries were read.  Hostile size fields therefore cannot buy iterations. *)
Theorem C12_total_linear : forall depth orc data,
  fst (dec_set_c depth orc data) = dec_set depth orc data /\
  Forall (oracle_answer orc) (oracle_outputs depth orc data) /\
  (12 * entries_read depth orc data <= length data + total_length (oracle_outputs depth orc data))%nat /\
  (length (fst (dec_set depth orc data)) <= entries_read depth orc data)%nat.
Proof. exact total_linear. Qed.
Print Assumptions C12_total_linear.

Theorem C12_yield_bound : forall depth orc data,
  (length (fst (dec_set depth orc data)) <= (length data + total_length (oracle_outputs depth orc data)) / 12)%nat.
Proof. exact total_linear_div. Qed.
Print Assumptions C12_yield_bound.

(* the loop fuel [length data] of Model.MsgSet.dec_loop is never what stops the loop: any two sufficient fuels
   give the same result; a Fuel outcome can only come out of a nested decode (nesting budget) *)
Theorem C12_loop_fuel_irrelevant : forall rec orc n n' data read,
  (length data <= n)%nat -> (length data <= n')%nat ->
  dec_loop rec orc n data read = dec_loop rec orc n' data read.
Proof. exact dec_loop_fuel. Qed.
Print Assumptions C12_loop_fuel_irrelevant.

Theorem C12_loop_never_out_of_fuel : forall rec orc n data read ys,
  (length data <= n)%nat -> dec_loop rec orc n data read = (ys, Some Fuel) ->
  exists msg offset ys', dec_message rec orc msg offset = (ys', Some Fuel).
Proof. exact dec_loop_no_fuel. Qed.
Print Assumptions C12_loop_never_out_of_fuel.

(* ---- nested compression, ANY depth.  Every nesting level is a pair of Python generators, so a message found k wrappers
   deep is handed over 2k..4k times before the caller sees it; the entry count above does not see that.  [hops] counts
   every hand-over of one message by one generator level (plain message 1; wrapper: hops of the inner set + 3 per inner
   message; set loop: 1 per message per entry - Proofs/C12Hops.v).  For every nesting budget, oracle and byte string:
   hops <= 4 * depth * entries, hence 3 * hops <= depth * (input bytes + ALL decompressed bytes over all levels).
   Linear for every fixed depth, with the depth as an explicit factor; the only limit on the depth in CPython is the
   recursion limit (RecursionError near 320 wrappers), Kafka itself permits one level. *)
Theorem C12_hops_linear_per_depth : forall depth orc data,
  fst (fst (dec_set_h depth orc data)) = dec_set depth orc data /\
  (hops depth orc data <= 4 * depth * entries_read depth orc data)%nat /\
  (3 * hops depth orc data <= depth * (length data + total_length (oracle_outputs depth orc data)))%nat.
Proof. exact hops_linear_per_depth. Qed.
Print Assumptions C12_hops_linear_per_depth.

(* REFUTED: a bound without the depth factor.  40 levels (each decompressing to 27 bytes) around 40 empty messages, with
   a compressing oracle: all 40 messages are delivered, input + all decompressed bytes = 2120, hops = 6480.  "messages x
   depth" is not bounded by the decompressed volume: the outer levels are tiny, yet every message travels through all *)
Theorem C12_hops_depth_free_bound_refuted :
  exists depth orc data,
    (length (fst (dec_set depth orc data)) = 40)%nat /\ snd (dec_set depth orc data) = None /\
    (length data + total_length (oracle_outputs depth orc data) < hops depth orc data)%nat.
Proof. exact hops_depth_free_bound_refuted. Qed.
Print Assumptions C12_hops_depth_free_bound_refuted.

(* ---- primitive readers (read_short_bytes: f = Fh, read_int_string: f = Fi) *)
Theorem C12_reader_negative_length : forall f data n r,
  unpack f data = Ok (n, r) -> n < -1 -> read_string f data = Err Protocol.
Proof. exact read_string_negative. Qed.
Print Assumptions C12_reader_negative_length.

Theorem C12_reader_overlong_length : forall f data n r,
  unpack f data = Ok (n, r) -> len r < n -> read_string f data = Err Underflow.
Proof. exact read_string_overlong. Qed.
Print Assumptions C12_reader_overlong_length.

(* success consumes exactly length field + payload: the cursor strictly advances *)
Theorem C12_reader_consumes : forall f data v rest,
  read_string f data = Ok (v, rest) -> length data = (fmt_size f + olen v + length rest)%nat /\ (1 <= fmt_size f)%nat.
Proof. exact read_string_consumes_pos. Qed.
Print Assumptions C12_reader_consumes.

Theorem C12_unpack_consumes : forall f data v rest,
  unpack f data = Ok (v, rest) -> length data = (fmt_size f + length rest)%nat.
Proof. exact unpack_consumes. Qed.
Print Assumptions C12_unpack_consumes.

Theorem C12_reader_errors : forall f data e, read_string f data = Err e -> e = Underflow \/ e = Protocol.
Proof. exact read_string_errors. Qed.
Print Assumptions C12_reader_errors.

(* ---- counted loops `for _ in range(count): item, cur = p(data, cur)`: whatever the count claims, a reader that
   consumes at least c >= 1 bytes per success is called at most length/c + 1 times, and the loop succeeds only if
   the input holds c * count bytes *)
Theorem C12_counted_loop_linear : forall (A : Type) (p : list Z -> res (A * list Z)) (c : nat),
  (1 <= c)%nat -> (forall d a r, p d = Ok (a, r) -> (length r + c <= length d)%nat) ->
  forall n data, (snd (read_n p n data) <= length data / c + 1)%nat.
Proof. exact @read_n_linear. Qed.
Print Assumptions C12_counted_loop_linear.

Theorem C12_counted_loop_ok : forall (A : Type) (p : list Z -> res (A * list Z)) (c : nat),
  (1 <= c)%nat -> (forall d a r, p d = Ok (a, r) -> (length r + c <= length d)%nat) ->
  forall n data xs r, fst (read_n p n data) = Ok (xs, r) -> length xs = n /\ (length r + c * n <= length data)%nat.
Proof. exact @read_n_ok. Qed.
Print Assumptions C12_counted_loop_ok.

(* ================================================================== 3b. the response decoders' counted loops *)

(* `for _ in range(n)` in Model/Responses.v is [for_range] on fuel S (length data).  [for_range_iters] counts the
   invocations of the loop body.  If every successful iteration consumes at least c >= 1 bytes ([gadv c]: the rest is
   shorter by c, and a failing iteration fails with a real exception) then, whatever the count n read from the wire
   claims, the body runs at most  length data / c + 1  times, a loop that completes has really consumed c bytes per
   iteration, and the fuel was not what stopped it *)
Theorem C12_resp_loop_linear : forall (A : Type) (body : list Z -> gen A) (c : nat),
  (1 <= c)%nat -> (forall d, gadv c d (body d)) ->
  forall fuel n data, (length data < fuel)%nat ->
    (c * for_range_iters body fuel n data <= length data + c)%nat /\
    (forall r, snd (for_range body fuel n data) = Ok r -> (c * for_range_iters body fuel n data + length r <= length data)%nat).
Proof. exact @for_range_iters_linear. Qed.
Print Assumptions C12_resp_loop_linear.

Theorem C12_resp_loop_count : forall (A : Type) (body : list Z -> gen A) fuel n data,
  (for_range_iters body fuel n data <= Z.to_nat n)%nat.
Proof. exact @for_range_iters_count. Qed.
Print Assumptions C12_resp_loop_count.

(* every public decoder, every byte string: the outcome is a value or a real exception, never the model's
   out-of-fuel marker - each loop stopped because its count was reached or a read failed, within length data + 1
   iterations.  (The nesting budget of FetchResponse.messages is section 3 above.) *)
Theorem C12_resp_never_out_of_fuel : forall data,
  get_response_correlation_id data <> Err Fuel /\
  decode_api_versions_response data <> Err Fuel /\
  (forall ver g, decode_produce_response ver data = Some g -> snd g <> Err Fuel) /\
  (forall ver depth orc, snd (decode_fetch_response ver depth orc data) <> Err Fuel) /\
  snd (decode_offset_response data) <> Err Fuel /\
  decode_metadata_response data <> Err Fuel /\
  decode_consumermetadata_response data <> Err Fuel /\
  snd (decode_offset_commit_response data) <> Err Fuel /\
  snd (decode_offset_fetch_response data) <> Err Fuel /\
  decode_join_group_protocol_metadata data <> Err Fuel /\
  decode_join_group_response data <> Err Fuel /\
  decode_leave_group_response data <> Err Fuel /\
  decode_heartbeat_response data <> Err Fuel /\
  decode_sync_group_response data <> Err Fuel /\
  decode_sync_group_member_assignment data <> Err Fuel.
Proof. exact resp_decoders_never_out_of_fuel. Qed.
Print Assumptions C12_resp_never_out_of_fuel.

(* ================================================================== 4. the consumer enlarges its buffer rather than skipping
   Model/FetchGrow.v.  An answer is [Reply offs tail]: the offsets the set decoder yields for it (ANY integers, in any
   order: heads of wrappers below the fetch offset, gaps...) and how the iteration ends (Clean / TooSmallTail /
   CorruptTail); [accept fo offs] = (offsets kept, new fetch offset) is the loop consumer.py:941-957. *)

(* an answer that ends in ConsumerFetchSizeTooSmall - with or without messages before it: what was collected is handed to
   the processor, and then the offset right after it (the SAME offset when nothing was collected) is requested again with
   a strictly larger buffer, never above the configured maximum - or, exactly when the buffer already is at the maximum,
   the start Deferred fails, nothing is requested and nothing more is handed over (consumer.py:1015-1021) *)
Theorem C12_consumer_grows : forall mb s offs s' outs,
  g_failed s = false -> 0 < g_buf s -> gstep mb s (Reply offs TooSmallTail) = (s', outs) ->
  let dl := fst (accept (g_off s) offs) in let fo := snd (accept (g_off s) offs) in
  (dl = [] -> fo = g_off s) /\
  ((exists b, outs = deliver dl ++ [Fetch fo b] /\ g_buf s < b /\ (forall m, mb = Some m -> b <= m)
              /\ s' = mkG fo b false)
   \/ (outs = [StartFailed] /\ (exists m, mb = Some m /\ m <= g_buf s) /\ s' = mkG (g_off s) (g_buf s) true)).
Proof. exact toosmall_step. Qed.
Print Assumptions C12_consumer_grows.

(* over ANY sequence of answers (also dishonest ones, also answers that deliver a prefix and then end in
   ConsumerFetchSizeTooSmall or in a decoding error, across every refetch and every buffer growth): no offset reaches the
   processor twice or out of order, and all lie between the start offset and the final fetch offset *)
Theorem C12_consumer_no_repeat : forall mb evs s s' outs, grun mb s evs = (s', outs) ->
  g_off s <= g_off s' /\ StronglySorted Z.lt (delivered outs) /\
  Forall (fun o => g_off s <= o < g_off s') (delivered outs).
Proof. exact run_no_repeat. Qed.
Print Assumptions C12_consumer_no_repeat.

(* nothing is skipped.  The partition holds messages at the strictly increasing offsets L (gaps allowed).  Whenever every
   answer is HONEST - some messages below the requested offset (the head of a wrapper), then a run of the log's messages
   from the requested offset on, as many as fitted (possibly none), then any of the three endings - what reached the
   processor so far, followed by what the log holds from the current fetch offset on, IS the log from the start offset on:
   the refetch after a too-small or damaged answer resumes exactly behind the last message handed over *)
Theorem C12_consumer_no_skip : forall L mb, StronglySorted Z.lt L -> forall evs s s' outs,
  honest_run L mb s evs -> grun mb s evs = (s', outs) ->
  from (g_off s) L = delivered outs ++ from (g_off s') L.
Proof. exact run_no_skip. Qed.
Print Assumptions C12_consumer_no_skip.

(* without a maximum the buffer at least doubles per cut-in-the-first-entry answer: it exceeds any message size after
   finitely many *)
Theorem C12_consumer_reaches_any_size : forall n s s' outs,
  g_failed s = false -> 0 < g_buf s -> grun None s (repeat TooSmall n) = (s', outs) ->
  g_failed s' = false /\ g_off s' = g_off s /\ 2 ^ Z.of_nat n * g_buf s <= g_buf s' /\ length outs = n.
Proof. exact toosmall_unbounded. Qed.
Print Assumptions C12_consumer_reaches_any_size.

(* with a maximum m: the buffer reaches min(2^n * buf, m) unless a failure was reported, never exceeds m, and a
   failure is reported only with the buffer at m *)
Theorem C12_consumer_reaches_max : forall m n s s' outs,
  g_failed s = false -> 0 < g_buf s -> g_buf s <= m -> grun (Some m) s (repeat TooSmall n) = (s', outs) ->
  g_off s' = g_off s /\ g_buf s' <= m /\
  (g_failed s' = false -> Z.min (2 ^ Z.of_nat n * g_buf s) m <= g_buf s') /\
  (g_failed s' = true -> g_buf s' = m /\ In StartFailed outs).
Proof. exact toosmall_bounded. Qed.
Print Assumptions C12_consumer_reaches_max.

(* ================================================================== non-vacuity *)

(* one message in each format *)
Definition m0 : message := mkMessage 0 0 (Some [107]) (Some [118; 97; 108]) None.
Definition m1 : message := mkMessage 1 8 None (Some []) (Some 1500000000123).
Definition enc0 : list Z := match encode_message 0 m0 with Ok b => b | Err _ => [] end.
Definition enc1 : list Z := match encode_message 0 m1 with Ok b => b | Err _ => [] end.

Example enc0_is : encode_message 0 m0 = Ok enc0 /\ length enc0 = 18%nat /\ plain m0 = true.
Proof. vm_compute. auto. Qed.
Example enc1_is : encode_message 0 m1 = Ok enc1 /\ length enc1 = 22%nat /\ plain m1 = true.
Proof. vm_compute. auto. Qed.

(* a 4-byte burst in the value of m0 (bytes 1..4 of the checksummed region are 00 A5 FF 01 81 ...) *)
Definition e0 : list Z := [0; 0xA5; 0xFF; 0x01; 0x80; 0; 0; 0; 0; 0; 0; 0; 0; 0].
Example burst_hyps : bytes_ok e0 = true /\ length e0 = length (drop 4 enc0) /\ burst32b (zbits e0) = true.
Proof. vm_compute. auto. Qed.
Example burst_concl : dec_message (fun _ => ([], None)) marker_oracle (Some (take 4 enc0 ++ zxor (drop 4 enc0) e0)) 7
                      = ([], Some Checksum).
Proof. vm_compute. reflexivity. Qed.
(* the same machinery does deliver the undamaged message *)
Example intact_concl : dec_message (fun _ => ([], None)) marker_oracle (Some enc0) 7 = ([(7, m0)], None).
Proof. vm_compute. reflexivity. Qed.
Example flip_format1 : dec_message (fun _ => ([], None)) marker_oracle (Some (take 4 enc1 ++ flip_bit (drop 4 enc1) 77)) 7
                       = ([], Some Checksum)
                       /\ dec_message (fun _ => ([], None)) marker_oracle (Some enc1) 7 = ([(7, m1)], None).
Proof. vm_compute. auto. Qed.

(* 32 is sharp: the generator polynomial itself, a 33-bit pattern, is NOT detected (so "<= 32" cannot be relaxed) *)
Example burst33_undetected :
  let d := [1; 2; 3; 4; 5; 6; 7; 8] in let e := [8; 50; 136; 219; 14; 0; 0; 0] in
  crc32 (zxor d e) = crc32 d /\ zxor d e <> d /\ burst32b (zbits e) = false.
Proof. vm_compute. repeat split. discriminate. Qed.

(* truncation: three messages (formats 0 and 1 mixed, null and empty fields) at offsets 100.. *)
Definition clk : nat -> Z := fun k => 1600000000000 + Z.of_nat k.
Definition msgs3 : list message :=
  [m0; mkMessage 1 0 None None None; mkMessage 0 0 (Some []) (Some [1; 2]) None].
Definition set3 : list Z := match encode_message_set_from clk 0 msgs3 100 1 1 with Ok b => b | Err _ => [] end.
Example trunc_hyps : forallb plain msgs3 = true /\ encode_message_set_from clk 0 msgs3 100 1 1 = Ok set3
                     /\ length set3 = 92%nat
                     /\ map entry_size msgs3 = [30; 34; 28]%nat.
Proof. vm_compute. auto. Qed.
Example trunc_cuts :
  map (fun cut => let r := dec_set 1 marker_oracle (take cut set3) in (map fst (fst r), snd r)) [0; 1; 29; 30; 63; 64; 91; 92]%nat
  = [([], None); ([], Some FetchTooSmall); ([], Some FetchTooSmall); ([100], None); ([100], None);
     ([100; 101], None); ([100; 101], None); ([100; 101; 102], None)].
Proof. vm_compute. reflexivity. Qed.
Example trunc_clock_stamp :
  map snd (fst (dec_set 1 marker_oracle set3)) = [m0; mkMessage 1 0 None None (Some 1600000000000); mkMessage 0 0 (Some []) (Some [1; 2]) None].
Proof. vm_compute. reflexivity. Qed.

(* cost: a gzip wrapper around set3 (marker oracle): 1 outer entry + 3 inner entries, one oracle answer of 92 bytes; 12*4 <= 119 + 92 *)
Definition wrapped : list Z :=
  match encode_message_set_from clk 0 [mkMessage 0 1 None (Some (0x1F :: set3)) None] 5 1 0 with Ok b => b | Err _ => [] end.
Example cost_example :
  entries_read 2 marker_oracle wrapped = 4%nat /\ map (@length Z) (oracle_outputs 2 marker_oracle wrapped) = [92%nat]
  /\ length wrapped = 119%nat /\ map fst (fst (dec_set 2 marker_oracle wrapped)) = [100; 101; 102].
Proof. vm_compute. auto. Qed.

(* hostile fields on the primitive readers *)
Example hostile_lengths :
  read_int_string [255; 255; 255; 254; 1; 2] = Err Protocol /\            (* -2 *)
  read_int_string [127; 255; 255; 255; 1; 2] = Err Underflow /\           (* 2^31-1 bytes claimed, 2 present *)
  read_short_bytes [128; 0; 1] = Err Protocol /\                          (* -32768 *)
  read_int_string [255; 255; 255; 255; 9] = Ok (None, [9]) /\             (* -1 is null *)
  read_short_bytes [0; 2; 7; 8; 9] = Ok (Some [7; 8], [9]).
Proof. vm_compute. auto. Qed.

(* a count of 100000 over 9 bytes of input: the 4-byte reader is called 3 times, then the loop fails *)
Example hostile_count :
  read_count read_i32 100000 [0; 0; 0; 1; 0; 0; 0; 2; 0] = (Err Underflow, 3%nat) /\
  read_count read_i32 (-1) [0; 0; 0; 1] = (Ok ([], [0; 0; 0; 1]), 0%nat) /\
  read_count read_i32 2 [0; 0; 0; 1; 0; 0; 0; 2; 0] = (Ok ([1; 2], [0]), 2%nat).
Proof. vm_compute. auto. Qed.

(* consumer: 100 bytes, maximum 30000, log = offsets 7 8 9 12 13.  Three useless answers (100 -> 1600 -> 25600 -> 30000),
   then 7,8 arrive followed by a wrapper whose inner set is cut (TooSmallTail) with the buffer at the maximum: the start
   Deferred fails and 7,8 are not handed over any more; a second run shows a damaged answer after 7,8 and the refetch at 9 *)
Example grow_run :
  snd (grun (Some 30000) (mkG 7 100 false) [TooSmall; TooSmall; TooSmall; Reply [7; 8] TooSmallTail; TooSmall])
  = [Fetch 7 1600; Fetch 7 25600; Fetch 7 30000; StartFailed].
Proof. vm_compute. reflexivity. Qed.
Example grow_run_log :
  let L := [7; 8; 9; 12; 13] in
  let evs := [TooSmall; Reply [7; 8] CorruptTail; Reply [5; 6; 9; 12] TooSmallTail; Reply [13] Clean] in
  honest_run L None (mkG 7 100 false) evs /\
  snd (grun None (mkG 7 100 false) evs)
  = [Fetch 7 1600; Deliver [7; 8]; Fetch 9 1600; Deliver [9; 12]; Fetch 13 25600; Deliver [13]; Fetch 14 25600].
Proof.
  vm_compute. split; [|reflexivity].
  repeat split; intros _.
  - exists [], [], [7; 8; 9; 12; 13]. repeat split; constructor.
  - exists [], [7; 8], [9; 12; 13]. repeat split; constructor.
  - exists [5; 6], [9; 12], [13]. repeat split; repeat constructor.
  - exists [], [13], []. repeat split; constructor.
Qed.
Example grow_rule :
  map (fun bm => grow (fst bm) (snd bm))
      [(131072, None); (1048576, None); (1048577, None); (100, Some 100); (100, Some 101); (2097152, Some 3000000)]
  = [Some 2097152; Some 16777216; Some 2097154; None; Some 101; Some 3000000].
Proof. vm_compute. reflexivity. Qed.

(* response decoders: a join-group protocol metadata claiming 10^7 subscriptions in 8 bytes (the F-C12-1 input) *)
Example hostile_subscriptions :
  decode_join_group_protocol_metadata [0; 0; 0; 152; 150; 128; 255; 254] = Err Protocol /\
  for_range_iters (one read_short_text) 3 10000000 [255; 254] = 1%nat /\
  decode_join_group_protocol_metadata [0; 0; 0; 0; 0; 1; 0; 1; 97; 255; 255; 255; 255]
  = Ok (mk_protocol_metadata 0 [[97]] None).
Proof. vm_compute. auto. Qed.

(* wrappers: the gzip wrapper (marker oracle) around set3, inside an outer set between two plain messages.
   Hypotheses of C12_wrapper_decodes hold; cutting anywhere inside the wrapper (entry 2 = bytes 30..148) delivers only the
   first message; a flipped bit in the compressed payload is a ChecksumError after the first message *)
Definition wmsg : message := mkMessage 0 1 None (Some (0x1F :: set3)) None.
Definition wbytes : list Z := match encode_message 0 wmsg with Ok b => b | Err _ => [] end.
Definition wset : list Z := match encode_message_set_from clk 0 [m0; wmsg; m0] 5 1 0 with Ok b => b | Err _ => [] end.
Example wrapper_hyps :
  encode_message 0 wmsg = Ok wbytes /\ m_value wmsg = Some (0x1F :: set3) /\ bytes_ok (0x1F :: set3) = true /\
  Z.land (m_attr wmsg) ATTRIBUTE_CODEC_MASK = CODEC_GZIP /\ gz_dec marker_oracle (0x1F :: set3) = Ok set3 /\
  length wset = 179%nat.
Proof. vm_compute. repeat split. Qed.
Example wrapper_cuts :
  map (fun cut => let r := dec_set 2 marker_oracle (take cut wset) in (map fst (fst r), snd r)) [0; 29; 30; 31; 100; 148; 149; 179]%nat
  = [([], None); ([], Some FetchTooSmall); ([5], None); ([5], None); ([5], None); ([5], None);
     ([5; 100; 101; 102], None); ([5; 100; 101; 102; 7], None)].
Proof. vm_compute. reflexivity. Qed.
Example wrapper_flip :
  let damaged := take 80 wset ++ flip_bit (drop 80 wset) 3 in
  (fun r => (map fst (fst r), snd r)) (dec_set 2 marker_oracle damaged) = ([5], Some Checksum).
Proof. vm_compute. reflexivity. Qed.
