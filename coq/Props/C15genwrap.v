(* C15, translator tie (A), part 2: the straight-line wrapping around the assignor.  Model/AssignWrapGen.v is the
   committed snapshot of what harness/py2assign.py generates from /repo/afkak/_group.py (_ConsumerProtocol.
   generate_assignments, decode_assignment, join_group_protocols); on every run the same statements are re-proved
   about THIS run's translation in coq/Run/out/gen/<id>/ (harness/assign_tie.py).  The KafkaCodec functions those
   methods call appear as the model's codec functions (enc/dec_assignment, enc/dec_metadata): their own tie to the
   source is C04gen / C05gen. *)
From AV Require Import Base.Util Model.Assign Model.AssignPy Model.AssignGen Model.AssignWrapGen Proofs.AssignWrapGenEq.

(* what generate_assignments computes from the JoinGroup response's (member id, metadata bytes) list is the model the
   C15 theorems are about (C15_bytes_to_assignment composes it with leader_assign), for every bound on the assignor's
   inner while of at least the number of members *)
Theorem C15_generated_generate_assignments : forall fuel raw tp, (length raw <= fuel)%nat ->
  gen_generate_assignments fuel raw tp = generate_assignments_raw raw tp.
Proof. exact gen_generate_assignments_eq. Qed.
Print Assumptions C15_generated_generate_assignments.

Theorem C15_generated_decode_assignment : forall data, gen_decode_assignment data = decode_assignment data.
Proof. exact gen_decode_assignment_eq. Qed.
Print Assumptions C15_generated_decode_assignment.

(* join_group_protocols(topics) = [("consumer", metadata v0 of the topics with empty user data)] *)
Theorem C15_generated_join_group_protocols : forall topics,
  gen_join_group_protocols topics =
  bind (enc_metadata 0 topics (Some [])) (fun b => Ok [([99; 111; 110; 115; 117; 109; 101; 114], b)]).
Proof. exact gen_join_group_protocols_eq. Qed.
Print Assumptions C15_generated_join_group_protocols.

Example generated_wrap_nonvacuous :
  gen_join_group_protocols [[116]] = Ok [([99; 111; 110; 115; 117; 109; 101; 114], [0; 0; 0; 0; 0; 1; 0; 1; 116; 0; 0; 0; 0])]
  /\ gen_decode_assignment [0; 0; 0; 0; 0; 1; 0; 1; 116; 0; 0; 0; 2; 0; 0; 0; 1; 0; 0; 0; 0; 0; 0; 0; 0] = Ok [([116], [1; 0])]
  /\ gen_generate_assignments 1 [([97], [0; 0; 0; 0; 0; 1; 0; 1; 116; 0; 0; 0; 0])] [([116], [3])]
     = Ok [([97], [0; 0; 0; 0; 0; 1; 0; 1; 116; 0; 0; 0; 1; 0; 0; 0; 3; 0; 0; 0; 0])].
Proof. repeat split; vm_compute; reflexivity. Qed.
