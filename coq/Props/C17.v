(* C17 - A started group member always progresses toward stable membership.
   Theorem statements only; proofs live in Proofs/GroupInv.v, GroupInvH.v (the invariant, by induction over every event
   list of Model/Group.v) and Proofs/GroupC17.v.  [state_after grp evs] = the state of the model of
   afkak._group.Coordinator (grp = false) / ConsumerGroup (grp = true) after the arbitrary event list evs:
   API calls, replies and failures of every request, timer firings, consumer failures and shutdown completions, in any
   order, including events the environment cannot produce (no-ops).  Never weaken a statement here. *)
From AV Require Import Base.Util Model.Group Model.GroupObs Proofs.GroupInv Proofs.GroupInvH Proofs.GroupEsc Proofs.GroupC17 Proofs.GroupSettle.

(* Never idle.  While the Deferred of start() is outstanding and stop() has not been called (neither by the user nor by the
   member itself after a fatal error), the member is joining (a _join_and_sync generator exists), or stable with the
   heartbeat LoopingCall running, or a join_and_sync DelayedCall is pending on the reactor.
   Hypothesis [benign evs = true]: the event list contains no event that makes an exception which is not a KafkaError escape
   _join_and_sync, i.e. none of: coordinator lookup / metadata load / partition lookup failing with a non-Kafka exception (or a
   Twisted CancelledError), a JoinGroup reply electing this member leader with unusable member metadata, a partition lookup
   that leaves a topic out, an undecodable assignment raising a non-Kafka exception ([escape_event], Proofs/GroupEsc.v).
   Without it the statement is false of the code: C17_nonkafka_idle_refuted (finding F-C17-2). *)
Theorem C17_never_idle : forall grp evs, let s := state_after grp evs in
  benign evs = true -> start_d s <> None -> stopping s = false -> stop_requested s = false ->
  gens s <> [] \/ (rejoin_needed s = false /\ hb_running s = true) \/ timers s <> [].
Proof. exact never_idle_benign. Qed.
Print Assumptions C17_never_idle.
(* the same with the weaker hypothesis [escaped s = false]: the model's ghost flag says "the last _join_and_sync ended with a non-Kafka
   exception that was only logged and nothing has been scheduled or started since" - set by gen_fail for a non-Kafka class, CLEARED
   whenever a join_and_sync call is armed or a new generator starts.  So the theorem speaks again as soon as anything (a consumer
   error, a heartbeat failure) kicks the member after an escape: it is idle only between an escape and the next external kick
   (Example never_idle_speaks_again_after_escape). *)
Theorem C17_never_idle_flag : forall grp evs, let s := state_after grp evs in
  escaped s = false -> start_d s <> None -> stopping s = false -> stop_requested s = false ->
  gens s <> [] \/ (rejoin_needed s = false /\ hb_running s = true) \/ timers s <> [].
Proof. exact never_idle. Qed.
Print Assumptions C17_never_idle_flag.

(* F-C17-2: metadata load raising a non-Kafka exception leaves a started member with nothing in flight, nothing scheduled. *)
Theorem C17_nonkafka_idle_refuted : exists grp evs, let s := state_after grp evs in
  benign evs = false /\ start_d s <> None /\ stopping s = false /\ stop_requested s = false /\
  gens s = [] /\ timers s = [] /\ hb_running s = false /\ escaped s = true.
Proof. exists false, [EStart; ELookup 0 LBroker; EMeta 1 (RFail KNonKafka)]. split; [reflexivity|exact nonkafka_idle_witness]. Qed.
Print Assumptions C17_nonkafka_idle_refuted.

(* The same residual finding, second face: the constructor of a partition consumer raises inside on_join_complete (e.g. bad
   consumer_kwargs).  The exception escapes _join_and_sync AFTER the member was marked joined: it is "stable", heartbeating, holds
   an assignment it only partly consumes, the start() Deferred is outstanding and nothing tells the user.  (Not idle in the sense
   of C17_never_idle - which is why the hypothesis of that theorem is about escapes, not about idleness.) *)
Theorem C17_constructor_raises_refuted : exists grp evs, let s := state_after grp evs in
  benign evs = false /\ start_d s <> None /\ stopping s = false /\ stop_requested s = false /\ escaped s = true /\
  rejoin_needed s = false /\ hb_running s = true /\ gens s = [] /\ timers s = [] /\
  length (cur_assign s) = 3%nat /\ length (consumers s) = 1%nat.
Proof.
  exists true, [EStart; ELookup 0 LBroker; EMeta 1 ROk; EJoin 2 (JOk 5 7 0); ESync 3 (SOkRaise [(0, 0); (0, 1); (1, 0)] 1)].
  vm_compute. repeat split; auto; discriminate.
Qed.
Print Assumptions C17_constructor_raises_refuted.

(* "stable" really is stable: not needing a rejoin means the heartbeat looper runs and no join is in flight;
   and the DelayedCall the member believes pending is one the reactor holds. *)
Theorem C17_stable_means_heartbeating : forall grp evs, let s := state_after grp evs in
  stopping s = false -> rejoin_needed s = false -> hb_running s = true /\ gens s = [].
Proof. exact stable_heartbeats. Qed.
Print Assumptions C17_stable_means_heartbeating.
Theorem C17_rejoin_timer_real : forall grp evs id,
  dc (state_after grp evs) = DcActive id -> In (id, TRejoin) (timers (state_after grp evs)).
Proof. exact rejoin_timer_armed. Qed.
Print Assumptions C17_rejoin_timer_real.

(* Every retriable condition rejoins after the documented delay.  rejoin_after_error is the one funnel through which
   a failed JoinGroup / SyncGroup / Heartbeat reply, a failed partition consumer and a Kafka error escaping _join_and_sync
   (metadata load, partition lookup) pass; for each Kafka error class k, from every reachable state of a member that is
   not stopping: the member is marked as needing a rejoin, a join_and_sync call is armed, it is armed by this very call
   with retry_backoff_ms (rebalance in progress, coordinator moved / not available, illegal generation, unknown member,
   invalid group) or fatal_backoff_ms (timeout, inconsistent protocol, any other Kafka error) unless one is armed already,
   and no other delay is ever used. *)
Theorem C17_retriable_rejoins : forall grp evs k, let s := state_after grp evs in
  is_kafka k = true -> stopping s = false ->
  let s' := fst (rejoin_after_error k s) in let o := snd (rejoin_after_error k s) in
  stopping s' = false /\ rejoin_needed s' = true /\ (exists id, dc s' = DcActive id /\ In (id, TRejoin) (timers s')) /\
  (dc s = DcNone -> In (OSched TRejoin (doc_delay k) (next_timer s)) o) /\
  (forall kd d id, In (OSched kd d id) o -> kd = TRejoin /\ d = doc_delay k).
Proof. exact retriable_rejoins. Qed.
Print Assumptions C17_retriable_rejoins.

(* A moved / unavailable / silent (timed-out) coordinator is forgotten by that very call - client.reset_consumer_group_metadata -
   so that the rejoin starts with a fresh coordinator lookup instead of going to the cached, possibly dead, broker (any state). *)
Theorem C17_coordinator_forgotten : forall k s, forgets_coordinator k = true -> In OReset (snd (rejoin_after_error k s)).
Proof. exact coordinator_forgotten. Qed.
Print Assumptions C17_coordinator_forgotten.

(* ... the armed call, once fired by the reactor, starts the join (unless one is already running). *)
Theorem C17_timer_starts_join : forall grp evs id, let s := state_after grp evs in
  stopping s = false -> stop_requested s = false -> dc s = DcActive id -> rejoin_needed s = true -> rejoin_d s = None ->
  snd (step s (EFire id)) = [OLookup (next_rid s)] /\ gens (fst (step s (EFire id))) <> [] /\ rejoin_d (fst (step s (EFire id))) <> None.
Proof. exact fire_starts_join. Qed.
Print Assumptions C17_timer_starts_join.

(* ... and so does EVERY armed join_and_sync call, the coordinator-lookup retries included (any state, no reachability needed). *)
Theorem C17_any_timer_starts_join : forall s id k,
  In (id, k) (timers s) -> (is_group s && stop_requested s) = false -> rejoin_needed s = true -> rejoin_d s = None ->
  snd (step s (EFire id)) = [OLookup (next_rid s)] /\ gens (fst (step s (EFire id))) <> [] /\ rejoin_d (fst (step s (EFire id))) <> None.
Proof. exact any_timer_starts_join. Qed.
Print Assumptions C17_any_timer_starts_join.

(* The failures do reach that funnel (step level, any state): a failed JoinGroup / SyncGroup reply addressed to the generator
   awaiting it, a Kafka error from the metadata load or the leader's partition lookup, a failed heartbeat of the running looper
   ARE the call rejoin_after_error k on the state without that generator / heartbeat request. *)
Theorem C17_join_failure_is_rejoin_after_error : forall s rid k g rest, take_first (awaits (GJoin rid)) (gens s) = Some (g, rest) ->
  step s (EJoin rid (JFail k)) = (fst (gen_end (fst (rejoin_after_error k (set_gens rest s)))), snd (rejoin_after_error k (set_gens rest s))).
Proof. exact join_fail_step. Qed.
Print Assumptions C17_join_failure_is_rejoin_after_error.
Theorem C17_sync_failure_is_rejoin_after_error : forall s rid k g rest, take_first (awaits (GSync rid)) (gens s) = Some (g, rest) ->
  step s (ESync rid (SFail k)) = (fst (gen_end (fst (rejoin_after_error k (set_gens rest s)))), snd (rejoin_after_error k (set_gens rest s))).
Proof. exact sync_fail_step. Qed.
Print Assumptions C17_sync_failure_is_rejoin_after_error.
Theorem C17_metadata_failure_is_rejoin_after_error : forall s rid k g rest, take_first (awaits (GMeta rid)) (gens s) = Some (g, rest) ->
  is_kafka k = true -> step s (EMeta rid (RFail k)) = rejoin_after_error k (set_rejoin_d None (set_gens rest s)).
Proof. exact meta_fail_step. Qed.
Print Assumptions C17_metadata_failure_is_rejoin_after_error.
Theorem C17_partition_lookup_failure_is_rejoin_after_error : forall s rid k g rest, take_first (awaits (GParts rid)) (gens s) = Some (g, rest) ->
  is_kafka k = true -> step s (EParts rid (PFail k)) = rejoin_after_error k (set_rejoin_d None (set_gens rest s)).
Proof. exact parts_fail_step. Qed.
Print Assumptions C17_partition_lookup_failure_is_rejoin_after_error.
Theorem C17_heartbeat_failure_is_rejoin_after_error : forall s rid k, hb_req s = Some rid -> hb_running s = true ->
  step s (EHbReply rid (RFail k)) =
  (fst (rejoin_after_error k (set_hb_running false (set_hb_req None s))),
   OCancelTimer THeartbeat 0 :: snd (rejoin_after_error k (set_hb_running false (set_hb_req None s)))).
Proof. exact hb_fail_step. Qed.
Print Assumptions C17_heartbeat_failure_is_rejoin_after_error.

(* Once faults cease the member rejoins within a bounded number of events (event-order form).
   [live s]: started, neither stop() nor a fatal error, no non-Kafka escape.  [owed s e] (Proofs/GroupSettle.v): e is the fault-free
   answer to what the member waits for in s - its armed join_and_sync call fires; the coordinator lookup / metadata load / JoinGroup
   (as follower or leader, any generation and member id) / leader's partition lookup / SyncGroup (any decodable assignment) it has
   in flight is answered ok; a consumer it asked to shut down completes.  FAIRNESS PREMISE, explicit: [owed_all s es] - the
   environment delivers only owed events (no new faults, no heartbeat ticks / consumer failures in between).
   Then from EVERY reachable live state: the run cannot be longer than mu s <= 7 + (consumers registered) + (consumers still
   shutting down) events; the member stays live; as long as it is not stable something is owed (no deadlock); and mu = 0 is
   exactly "no join in flight and no rejoin needed", where the heartbeat looper runs.  Hence a maximal fair run ends stable after at
   most 7 + #consumers owed events (timer, lookup, metadata, one per consumer shutdown, join, partitions, sync).
   PARTIAL in this sense only: interleaved non-owed but harmless events (heartbeat tick and ok reply, a stale armed call firing
   while a join is in flight) are not covered by the premise; that the consumers started at the end are those of the assignment is
   C16_commit_identity / C16_consumers_subset_assignment. *)
Theorem C17_settles_partial : forall grp es evs, let s := state_after grp evs in
  live s -> owed_all s es ->
  let s' := state_after grp (evs ++ es) in
  (length es <= mu s)%nat /\ (mu s <= 7 + length (consumers s) + length (shutting s))%nat /\ live s' /\
  ((0 < mu s')%nat -> exists e, owed s' e) /\
  (mu s' = 0%nat <-> (gens s' = [] /\ rejoin_needed s' = false)) /\
  (mu s' = 0%nat -> hb_running s' = true).
Proof. exact settles_bounded. Qed.
Print Assumptions C17_settles_partial.
(* each owed event keeps the member live and strictly decreases the measure (the engine of the bound) *)
Theorem C17_owed_event_progress : forall grp evs e, let s := state_after grp evs in
  live s -> owed s e -> live (fst (step s e)) /\ (mu (fst (step s e)) < mu s)%nat.
Proof. intros grp evs e. exact (owed_step _ e (reachable_Inv grp evs)). Qed.
Print Assumptions C17_owed_event_progress.

(* Coordinator lookup: no coordinator yet / CoordinatorNotAvailable / NotCoordinator retry after initial_backoff_ms, a timeout
   or any other Kafka error after fatal_backoff_ms (any state, any generator waiting for that lookup). *)
Theorem C17_lookup_failure_retried : forall s rid r g rest, take_first (awaits (GLookup rid)) (gens s) = Some (g, rest) ->
  lookup_retriable r = true ->
  snd (on_lookup rid r s) = [OSched TCoordRetry (lookup_delay r) (next_timer s)] /\
  In (next_timer s, TCoordRetry) (timers (fst (on_lookup rid r s))).
Proof. exact lookup_failure_retried. Qed.
Print Assumptions C17_lookup_failure_retried.

(* A non-Kafka error reaching rejoin_after_error surfaces: the member stops itself and the Deferred returned by start()
   fails with that error - at once, or when the LeaveGroup exchange it starts ends (with either outcome). *)
Theorem C17_fatal_surfaces : forall grp evs k idx, let s := state_after grp evs in
  stopping s = false -> start_d s = Some idx ->
  let s' := fst (fatal k s) in let o := snd (fatal k s) in
  stopping s' = true /\
  ((In (OStartD idx (Some k)) o /\ start_d s' = None) \/
   (exists rid, In (OLeave rid (member s)) o /\ In (mkStop (-1) (Some k) (S2 rid)) (stops s') /\ start_d s' = Some idx)).
Proof. exact fatal_surfaces. Qed.
Print Assumptions C17_fatal_surfaces.
Theorem C17_fatal_surfaces_after_leave : forall s rid r st rest idx,
  take_first (is_s2 rid) (stops s) = Some (st, rest) -> start_d s = Some idx ->
  In (OStartD idx (st_err st)) (snd (on_leave rid r s)) /\ start_d (fst (on_leave rid r s)) = None.
Proof. exact leave_reply_surfaces. Qed.
Print Assumptions C17_fatal_surfaces_after_leave.

(* ---- non-vacuity: the hypotheses are met by reachable, non-trivial states ---- *)
Example never_idle_speaks_again_after_escape :   (* lookup raises ValueError: idle (flag set); a consumer's commit error re-arms the rejoin: flag clear *)
  let evs := [EStart; ELookup 0 LBroker; EMeta 1 ROk; EJoin 2 (JOk 5 7 0); ESync 3 (SOk [(0, 1); (0, 2)]); ECFail 0 KRebalance; EFire 0;
              ELookup 4 (LFail KNonKafka)] in
  escaped (state_after true evs) = true /\ timers (state_after true evs) = [] /\ gens (state_after true evs) = [] /\
  escaped (state_after true (evs ++ [ECFail 1 KIllGen])) = false /\ timers (state_after true (evs ++ [ECFail 1 KIllGen])) = [(1, TRejoin)] /\
  benign (evs ++ [ECFail 1 KIllGen]) = false.
Proof. vm_compute. auto 10. Qed.
Example settles_nonvacuous :             (* evicted member with one consumer shutting down... here: after a rebalance, a full fair run of 7 owed events *)
  let evs := [EStart; ELookup 0 LBroker; EMeta 1 ROk; EJoin 2 (JOk 5 7 0); ESync 3 (SOk [(0, 1)]); ETick; EHbReply 4 (RFail KRebalance)] in
  let es := [EFire 0; ELookup 5 LBroker; EMeta 6 ROk; ECShut 0 true; EJoin 7 (JOk 6 7 1); EParts 8 POk; ESync 9 (SOk [(0, 1); (0, 2)])] in
  mu (state_after true evs) = 8%nat /\ mu (state_after true (evs ++ es)) = 0%nat /\
  length (consumers (state_after true (evs ++ es))) = 2%nat /\ hb_running (state_after true (evs ++ es)) = true /\
  live (state_after true evs) /\ owed_all (state_after true evs) es.
Proof.
  split; [vm_compute; reflexivity|]. split; [vm_compute; reflexivity|]. split; [vm_compute; reflexivity|]. split; [vm_compute; reflexivity|].
  split; [vm_compute; repeat split; auto; discriminate|].
  vm_compute. repeat (split; [eauto 10|]). auto.
Qed.
Example retriable_nonvacuous :           (* a commit rejected with ILLEGAL_GENERATION in a stable member with two consumers *)
  let s := state_after true [EStart; ELookup 0 LBroker; EMeta 1 ROk; EJoin 2 (JOk 5 7 0); ESync 3 (SOk [(0, 1); (1, 0)])] in
  stopping s = false /\ dc s = DcNone /\ snd (rejoin_after_error KIllGen s) = [OStopC 0; OStopC 1; OSched TRejoin DRetry 0].
Proof. vm_compute. auto. Qed.
Example lookup_retry_nonvacuous :        (* no coordinator yet, then a time-out: initial back-off, then fatal back-off; each fired call looks up again *)
  snd (run false [EStart; ELookup 0 LNone; EFire 0; ELookup 1 (LFail KTimeout); EFire 1])
  = [[OLookup 0; OApi 0]; [OSched TCoordRetry DInitial 0]; [OLookup 1]; [OSched TCoordRetry DFatal 1]; [OLookup 2]].
Proof. vm_compute. reflexivity. Qed.
Example never_idle_nonvacuous_stable :   (* a leader that joined, synced and runs two consumers *)
  let evs := [EStart; ELookup 0 LBroker; EMeta 1 ROk; EJoin 2 (JOk 5 7 1); EParts 3 POk; ESync 4 (SOk [(0, 1); (1, 0)])] in
  let s := state_after true evs in
  benign evs = true /\ escaped s = false /\ start_d s <> None /\ stopping s = false /\ stop_requested s = false /\
  gens s = [] /\ timers s = [] /\ rejoin_needed s = false /\ hb_running s = true /\ length (consumers s) = 2%nat.
Proof. vm_compute. repeat split; auto; discriminate. Qed.
Example never_idle_nonvacuous_waiting :  (* heartbeat answered RebalanceInProgress: waiting on the rejoin timer, nothing else *)
  let s := state_after true [EStart; ELookup 0 LBroker; EMeta 1 ROk; EJoin 2 (JOk 5 7 0); ESync 3 (SOk [(0, 1)]); ETick;
                             EHbReply 4 (RFail KRebalance)] in
  escaped s = false /\ start_d s <> None /\ stopping s = false /\ stop_requested s = false /\
  gens s = [] /\ hb_running s = false /\ timers s = [(0, TRejoin)] /\ dc s = DcActive 0 /\ rejoin_needed s = true /\ rejoin_d s = None.
Proof. vm_compute. repeat split; auto; discriminate. Qed.
Example fatal_nonvacuous :               (* JoinGroup reply is garbage: the member leaves and start() fails with it *)
  snd (run true [EStart; ELookup 0 LBroker; EMeta 1 ROk; EJoin 2 (JOk 5 7 0); ESync 3 (SFail KNonKafka); ELeave 4 ROk])
  = [[OLookup 0; OApi 0]; [OMeta 1]; [OJoin 2 0]; [OSync 3 5 7 false]; [OLeave 4 7]; [OStartD 0 (Some KNonKafka)]].
Proof. vm_compute. reflexivity. Qed.
