(* C04, translator tie (DESIGN.md 10.2b, tie A): the request encoders of afkak/kafkacodec.py as terms of a small
   encoder language (Model/EncDSL.v).  harness/py2enc.py translates the SOURCE to such terms on every run and Coq
   checks, per run, that they are the committed terms [ast_X] of Model/EncAst.v (obligations gen_X = ast_X, compiled
   in coq/Run/out/gen/c04/).  The theorems below - about committed files only - say what the committed terms
   compute: for ALL arguments, exactly what the hand-written model Model/Requests.v computes, bytes or exception kind.
   Hence: source --translator--> gen_X = ast_X --these theorems--> Requests.encode_X --Props/C04.v--> the grammar.
   Arguments appear as untyped values: bytes/str/None = VStr, int = VInt, list = VList, dict = list of VTup [key; value],
   attrs classes = VRec with the source's field names.
   Trusted in this tie: the translator's reading of Python (struct.pack formats as Prim.pack_list, the _util writers as
   the Prim writers, dict iteration in insertion order, `+=` / list-append-join / `+` as concatenation in evaluation
   order, isinstance/assert guards and None-defaults dropped; zlib.crc32(..) & 0xFFFFFFFF as Model.Crc.crc32;
   int(time.time() * 1000) as the next reading of the scripted clock; gzip_encode / snappy_encode as the oracle).
   The primitives themselves are tied to the source by the C12 translator tie (coq/Props/C12gen.v, harness/py2util.py):
   C12gen_write_int_string, C12gen_write_short_bytes, C12gen_write_short_ascii, C12gen_write_short_text (= the Prim
   writers used by IIntString / IShortBytes / IAscii / IText) and C12gen_group_by_topic_and_partition
   (= Model.Requests.group_by_topic_and_partition, the meaning of EGroup). *)
From Coq Require Import String.
From AV Require Import Base.Util Model.Prim Model.MsgSet Model.Requests Model.EncDSL Model.EncDSLV Model.EncAst
     Proofs.EncDSLSound Proofs.EncDSLVSound.
Open Scope string_scope.

Theorem C04gen_header : forall cid corr key ver,
  run ast_encode_message_header [vbytes cid; VInt corr; VInt key; VInt ver] = encode_message_header cid corr key ver.
Proof. exact header_sound. Qed.
Print Assumptions C04gen_header.

Theorem C04gen_api_versions : forall cid corr key ver,
  run ast_encode_api_versions_request [vbytes cid; VInt corr; VRec [("api_key", VInt key); ("api_version", VInt ver)]]
  = encode_api_versions_request cid corr key ver.
Proof. exact api_versions_sound. Qed.
Print Assumptions C04gen_api_versions.

Theorem C04gen_metadata : forall cid corr topics,
  run ast_encode_metadata_request [vbytes cid; VInt corr; VList (map VStr topics)] = encode_metadata_request cid corr topics.
Proof. exact metadata_sound. Qed.
Print Assumptions C04gen_metadata.

Theorem C04gen_find_coordinator : forall cid corr group,
  run ast_encode_consumermetadata_request [vbytes cid; VInt corr; VStr group] = encode_consumermetadata_request cid corr group.
Proof. exact consumermetadata_sound. Qed.
Print Assumptions C04gen_find_coordinator.

Theorem C04gen_heartbeat : forall cid corr group gen member,
  run ast_encode_heartbeat_request
      [vbytes cid; VInt corr; VRec [("group", VStr group); ("generation_id", VInt gen); ("member_id", VStr member)]]
  = encode_heartbeat_request cid corr group gen member.
Proof. exact heartbeat_sound. Qed.
Print Assumptions C04gen_heartbeat.

Theorem C04gen_leave_group : forall cid corr group member,
  run ast_encode_leave_group_request [vbytes cid; VInt corr; VRec [("group", VStr group); ("member_id", VStr member)]]
  = encode_leave_group_request cid corr group member.
Proof. exact leave_group_sound. Qed.
Print Assumptions C04gen_leave_group.

Theorem C04gen_join_group : forall cid corr p,
  run ast_encode_join_group_request [vbytes cid; VInt corr; join_val p] = encode_join_group_request cid corr p.
Proof. exact join_group_sound. Qed.
Print Assumptions C04gen_join_group.

Theorem C04gen_sync_group : forall cid corr p,
  run ast_encode_sync_group_request [vbytes cid; VInt corr; sync_val p] = encode_sync_group_request cid corr p.
Proof. exact sync_group_sound. Qed.
Print Assumptions C04gen_sync_group.

Theorem C04gen_subscription : forall version subs ud,
  run ast_encode_join_group_protocol_metadata [VInt version; VList (map VStr subs); VStr ud]
  = encode_join_group_protocol_metadata version subs ud.
Proof. exact join_protocol_metadata_sound. Qed.
Print Assumptions C04gen_subscription.

Theorem C04gen_assignment : forall version asg ud,
  run ast_encode_sync_group_member_assignment
      [VInt version; VList (map (fun tp : text * list Z => VTup [VStr (fst tp); VList (map VInt (snd tp))]) asg); VStr ud]
  = encode_sync_group_member_assignment version asg ud.
Proof. exact sync_member_assignment_sound. Qed.
Print Assumptions C04gen_assignment.

Theorem C04gen_list_offsets : forall cid corr ps,
  run ast_encode_offset_request [vbytes cid; VInt corr; VList (map offset_val ps)] = encode_offset_request cid corr ps.
Proof. exact offset_sound. Qed.
Print Assumptions C04gen_list_offsets.

Theorem C04gen_offset_fetch : forall cid corr group ps,
  run ast_encode_offset_fetch_request [vbytes cid; VInt corr; VStr group; VList (map ofetch_val ps)]
  = encode_offset_fetch_request cid corr group ps.
Proof. exact offset_fetch_sound. Qed.
Print Assumptions C04gen_offset_fetch.

Theorem C04gen_offset_commit : forall cid corr group gen consumer ps,
  run ast_encode_offset_commit_request [vbytes cid; VInt corr; VStr group; VInt gen; VStr consumer; VList (map commit_val ps)]
  = encode_offset_commit_request cid corr group gen consumer ps.
Proof. exact offset_commit_sound. Qed.
Print Assumptions C04gen_offset_commit.

Theorem C04gen_fetch : forall cid corr ps max_wait min_bytes v,
  run ast_encode_fetch_request [vbytes cid; VInt corr; VList (map fetch_val ps); VInt max_wait; VInt min_bytes; VInt v]
  = encode_fetch_request cid corr ps max_wait min_bytes v.
Proof. exact fetch_sound. Qed.
Print Assumptions C04gen_fetch.

(* ---- the clocked part.  [runc p env clock k] = bytes and the number of clock readings made, k of them before.
   The j-th reading of int(time.time() * 1000) is [clock j]; a reading is consumed exactly where the source calls
   time.time(): in _encode_message for a format-1 message whose timestamp is None. ---- *)
Theorem C04gen_message : forall clock k m,
  runc ast_encode_message [msg_val m] clock k
  = do b <- encode_message (clock k) m; Ok (b, if uses_clock m then S k else k).
Proof. exact message_sound. Qed.
Print Assumptions C04gen_message.

(* in the term for _encode_message_set the call KafkaCodec._encode_message(m) denotes Model.MsgSet.encode_message
   (C04gen_message ties the callee); offset None / an integer, the `offset += incr` induction variable, and the
   UnboundLocalError for a magic outside {0, 1} are all in the translated term *)
Theorem C04gen_message_set : forall clock k msgs offset magic,
  runc ast_encode_message_set [VList (map msg_val msgs); optint_val offset; VInt magic] clock k
  = do b <- encode_message_set clock k msgs offset magic; Ok (b, (k + clock_uses msgs)%nat).
Proof. exact message_set_sound. Qed.
Print Assumptions C04gen_message_set.

(* Produce, in full: any payloads, any messages (with or without timestamps), any clock; in the term the call
   KafkaCodec._encode_message_set(msgs, magic=..) denotes Model.MsgSet.encode_message_set (C04gen_message_set) *)
Theorem C04gen_produce : forall clock cid corr ps acks timeout v,
  runc ast_encode_produce_request [vbytes cid; VInt corr; VList (map produce_val ps); VInt acks; VInt timeout; VInt v] clock O
  = do w <- encode_produce_request clock cid corr ps acks timeout v; Ok (w, produce_clock_uses ps).
Proof. exact produce_sound. Qed.
Print Assumptions C04gen_produce.

(* ---- the constructors of message sets (module level; they return Message objects: value programs, Model/EncDSLV.v).
   [vrun p env orc clock k] = the value returned and the number of clock readings, or the exception; gzip_encode /
   snappy_encode are the oracle [orc] of Model.MsgSet.  The assert statements of create_message (types, magic in (0, 1))
   are dropped by the translator, as they are outside the frozen model. ---- *)
Theorem C04gen_create_message : forall orc clock k payload key magic,
  vrun ast_create_message [VStr payload; VStr key; VInt magic] orc clock k
  = Ok (msg_val (create_message (clock k) payload key magic), if (magic =? 1)%Z then S k else k).
Proof. exact create_message_sound. Qed.
Print Assumptions C04gen_create_message.

Theorem C04gen_create_gzip_message : forall orc clock k msgs magic,
  vrun ast_create_gzip_message [VList (map msg_val msgs); VInt magic] orc clock k
  = do w <- create_gzip_message orc clock k msgs magic;
    Ok (msg_val w, (k + clock_uses msgs + (if (magic =? 1)%Z then 1 else 0))%nat).
Proof. exact create_gzip_message_sound. Qed.
Print Assumptions C04gen_create_gzip_message.

Theorem C04gen_create_snappy_message : forall orc clock k msgs magic,
  vrun ast_create_snappy_message [VList (map msg_val msgs); VInt magic] orc clock k
  = do w <- create_snappy_message orc clock k msgs magic;
    Ok (msg_val w, (k + clock_uses msgs + (if (magic =? 1)%Z then 1 else 0))%nat).
Proof. exact create_snappy_message_sound. Qed.
Print Assumptions C04gen_create_snappy_message.

(* create_message_set: the nested loop over requests and payloads calling create_message (one clock reading per message
   in format 1), then the dispatch on the codec; the list returned is exactly the model's *)
Theorem C04gen_create_message_set : forall orc clock reqs codec magic,
  match create_message_set orc clock reqs codec magic with
  | Ok ms => exists kf, vrun ast_create_message_set [VList (map req_val reqs); VInt codec; VInt magic] orc clock O
                        = Ok (VList (map msg_val ms), kf)
  | Err e => vrun ast_create_message_set [VList (map req_val reqs); VInt codec; VInt magic] orc clock O = Err e
  end.
Proof. exact create_message_set_sound. Qed.
Print Assumptions C04gen_create_message_set.

(* non-vacuity: the terms are run, they do not merely type-check *)
Example gen_heartbeat_bytes :
  run ast_encode_heartbeat_request
      [vbytes []; VInt 0; VRec [("group", VStr (Some [128512])); ("generation_id", VInt 7); ("member_id", VStr (Some [233]))]]
  = Ok [0; 12; 0; 0; 0; 0; 0; 0; 0; 0;  0; 4; 240; 159; 152; 128;  0; 0; 0; 7;  0; 2; 195; 169].
Proof. vm_compute. reflexivity. Qed.
Example gen_fetch_error_kind :
  run ast_encode_fetch_request [vbytes []; VInt 0; VList [fetch_val (mkFetch (Some [233]) 0 0 0)]; VInt 0; VInt 0; VInt 0]
  = Err UnicodeErr.
Proof. vm_compute. reflexivity. Qed.
Example gen_produce_clock :
  match runc ast_encode_produce_request
             [vbytes [99]; VInt 1; VList [produce_val (mkProduce (Some [116]) 0 [mkMessage 1 0 None (Some [1]) None;
                                                                                mkMessage 0 0 (Some []) None None;
                                                                                mkMessage 1 0 None None None])];
              VInt 1; VInt 1000; VInt 2] (fun j => 500 + Z.of_nat j)%Z O with
  | Ok (w, k) => length w = 131%nat /\ k = 2%nat
  | Err _ => False
  end.
Proof. vm_compute. split; reflexivity. Qed.
Example gen_message_set_unbound :
  runc ast_encode_message_set [VList [msg_val (mkMessage 0 0 None None None)]; VNone; VInt 2] (fun _ => 0%Z) O = Err NameErr /\
  runc ast_encode_message [msg_val (mkMessage 2 0 None None None)] (fun _ => 0%Z) O = Err Protocol.
Proof. split; vm_compute; reflexivity. Qed.
Example gen_create_message_set_gzip :
  match vrun ast_create_message_set
             [VList [req_val (Some [107], [Some [97]; None]); req_val (None, [Some []])]; VInt 1; VInt 1]
             marker_oracle (fun j => 50 + Z.of_nat j)%Z O with
  | Ok (VList [w], k) => k = 4%nat /\ vfield "timestamp" w = Some (VInt 53) /\ vfield "attributes" w = Some (VInt 1)
  | _ => False
  end.
Proof. vm_compute. repeat split; reflexivity. Qed.
