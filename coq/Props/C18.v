(* C18 - Partitioners are deterministic, in range, Java-compatible and fair.
   Theorem statements only; proofs live in Proofs/.  Never weaken a statement here. *)
From AV Require Import Base.Util Model.Murmur Model.Partitioner Proofs.MurmurJava Proofs.PartitionerFacts Proofs.PartitionerUtf8.

(* The Python hash equals Java's Utils.murmur2 (int32 semantics) on every byte string. *)
Theorem C18_murmur_java : forall data, bytes_ok data = true ->
  murmur2_java (map sbyte data) mod 0x100000000 = pure_murmur2 data.
Proof. exact murmur_java_agree. Qed.
Print Assumptions C18_murmur_java.

(* toPositive(murmur2(key)) % n on the Java side = the index afkak computes. *)
Theorem C18_partition_java : forall key n, bytes_ok key = true ->
  hashed_index key n = java_partition (map sbyte key) n.
Proof. exact partition_java_agree. Qed.
Print Assumptions C18_partition_java.

(* The result is always a member of the supplied list (and a pure function of key and list). *)
Theorem C18_in_range : forall key parts, parts <> [] ->
  exists p, hashed_partition key parts = Some p /\ In p parts.
Proof. exact hashed_in_range. Qed.
Print Assumptions C18_in_range.

(* The partition ID: on the list [0; 1; ...; n-1] (what KafkaClient hands to the partitioner for a topic whose
   partitions are numbered 0..n-1) afkak selects exactly the id the Java client computes,
   Utils.toPositive(Utils.murmur2(keyBytes)) % numPartitions. *)
Theorem C18_partition_java_ids : forall key (n : nat), bytes_ok key = true -> (0 < n)%nat ->
  hashed_partition key (map Z.of_nat (seq 0 n)) = Some (java_partition (map sbyte key) (Z.of_nat n)).
Proof. exact partition_java_ids. Qed.
Print Assumptions C18_partition_java_ids.

(* java_partition uses the mathematical mod; Java's % truncates towards zero.  toPositive(..) is non-negative,
   so for a positive partition count the two coincide (Z.rem is the truncating remainder). *)
Theorem C18_java_partition_is_java_rem : forall data n, 0 < n ->
  java_partition data n = Z.rem (Z.land (murmur2_java data) 0x7FFFFFFF) n /\ 0 <= java_partition data n < n.
Proof. exact java_partition_java_rem. Qed.
Print Assumptions C18_java_partition_is_java_rem.

(* Text keys.  The model's encoder utf8 (standing for bytearray(key, "UTF-8"); tied to CPython by the differential
   run) is pinned by the RFC 3629 DECODER utf8_decode, an independent definition: the bytes a text key is hashed
   through decode back to exactly that text, are bytes, and the text key selects what its byte form selects.
   Because utf8_decode accepts only shortest forms, this determines the encoder uniquely. *)
Theorem C18_text_utf8 : forall cps key parts, utf8 cps = Some key ->
  utf8_decode key = Some cps /\ bytes_ok key = true /\ hashed_partition_text cps parts = hashed_partition key parts.
Proof. exact text_utf8_spec. Qed.
Print Assumptions C18_text_utf8.

(* ... and the encoder is defined exactly on sequences of Unicode scalar values (a lone surrogate raises). *)
Theorem C18_utf8_defined : forall cps, (exists key, utf8 cps = Some key) <-> forallb is_scalar cps = true.
Proof. exact utf8_defined. Qed.
Print Assumptions C18_utf8_defined.

(* text key, list [0..n-1]: the id the Java client computes for the key's UTF-8 bytes *)
Theorem C18_text_partition_java_ids : forall cps key (n : nat), utf8 cps = Some key -> (0 < n)%nat ->
  hashed_partition_text cps (map Z.of_nat (seq 0 n)) = Some (java_partition (map sbyte key) (Z.of_nat n)).
Proof. exact text_partition_java_ids. Qed.
Print Assumptions C18_text_partition_java_ids.

(* Round robin: from ANY reachable state (whatever list it last saw, whatever position), any window
   of k*n calls with the same ascending list selects each partition exactly k times
   (k * multiplicity).  Covers the restart after a list change, with any random start values. *)
Theorem C18_rr_fair : forall s parts k starts x,
  rr_inv s -> parts <> [] -> zsort parts = parts -> length starts = (k * length parts)%nat ->
  count_occ Z.eq_dec (rr_run s (map (fun st => (parts, st)) starts)) x
  = (k * count_occ Z.eq_dec parts x)%nat.
Proof. exact rr_fair. Qed.
Print Assumptions C18_rr_fair.

(* every state a partitioner can reach satisfies rr_inv *)
Theorem C18_rr_reachable : forall parts st s, rr_set parts st = Some s -> rr_inv s.
Proof. exact rr_set_inv. Qed.
Print Assumptions C18_rr_reachable.
Theorem C18_rr_reachable_step : forall s parts st p s', rr_inv s -> rr_partition s parts st = Some (p, s') -> rr_inv s'.
Proof. exact rr_partition_inv. Qed.
Print Assumptions C18_rr_reachable_step.

(* A changed list restarts the cycle over the new list at the start position. *)
Theorem C18_rr_restart : forall s parts st, rr_sorted s <> parts -> parts <> [] ->
  exists p s', rr_partition s parts st = Some (p, s') /\
               nth_error parts (Nat.modulo st (length parts)) = Some p /\ rr_cyc s' = parts /\ rr_inv s'.
Proof. exact rr_restart. Qed.
Print Assumptions C18_rr_restart.

(* ---- non-vacuity and independent reference vectors (Apache Kafka UtilsTest.testMurmur2: ASCII, residues 2,2,3,2) ---- *)
Example java_vec_21 : murmur2_java [50; 49] = -973932308. Proof. vm_compute. reflexivity. Qed.
Example java_vec_foobar : murmur2_java [102; 111; 111; 98; 97; 114] = -790332482. Proof. vm_compute. reflexivity. Qed.
Example java_vec_abc : murmur2_java [97; 98; 99] = 479470107. Proof. vm_compute. reflexivity. Qed.
Example java_vec_long : murmur2_java
  [97; 45; 108; 105; 116; 116; 108; 101; 45; 98; 105; 116; 45; 108; 111; 110; 103; 101; 114; 45; 115; 116; 114; 105; 110; 103]
  = -1486304829. Proof. vm_compute. reflexivity. Qed.
Example java_vec_highbytes : murmur2_java (map sbyte [200; 255; 128; 7; 129]) mod 0x100000000 = pure_murmur2 [200; 255; 128; 7; 129].
Proof. vm_compute. reflexivity. Qed.
(* values produced by a real JVM (harness/corpus/C18/Murmur2Ref.java = Kafka's Utils.murmur2 verbatim, OpenJDK 17):
   keys made of bytes >= 0x80 only, one per length residue 0,1,2,3, plus the empty key; the check compares ALL 3690
   vectors of harness/corpus/C18/java_murmur2_vectors.json with murmur2_java and with the real pure_murmur2 on every run *)
Example jvm_vec_res0 : murmur2_java (map sbyte [254; 157; 166; 141]) = 1497208136. Proof. vm_compute. reflexivity. Qed.
Example jvm_vec_res1 : murmur2_java (map sbyte [143; 238; 234; 215; 167]) = -434530056. Proof. vm_compute. reflexivity. Qed.
Example jvm_vec_res2 : murmur2_java (map sbyte [148; 248; 168; 142; 136; 247]) = -667711005. Proof. vm_compute. reflexivity. Qed.
Example jvm_vec_res3 : murmur2_java (map sbyte [225; 217; 234; 151; 183; 139; 167]) = -314971542. Proof. vm_compute. reflexivity. Qed.
Example jvm_vec_empty : murmur2_java [] = 275646681. Proof. vm_compute. reflexivity. Qed.
Example jvm_partition_res2 : map (java_partition (map sbyte [148; 248; 168; 142; 136; 247])) [1; 2; 3; 7; 12; 50; 1000]
  = [0; 1; 2; 6; 11; 43; 643]. Proof. vm_compute. reflexivity. Qed.
Example partition_ids_nonvacuous : hashed_partition [148; 248; 168; 142; 136; 247] (map Z.of_nat (seq 0 12)) = Some 11.
Proof. vm_compute. reflexivity. Qed.
Example text_utf8_nonvacuous : utf8 [0x75; 0xE9; 0x20AC; 0x1F600] = Some [0x75; 0xC3; 0xA9; 0xE2; 0x82; 0xAC; 0xF0; 0x9F; 0x98; 0x80]
  /\ utf8 [0xD800] = None /\ utf8_decode [0xC0; 0x80] = None /\ utf8_decode [0xED; 0xA0; 0x80] = None.
Proof. repeat split; vm_compute; reflexivity. Qed.
Example rr_fair_nonvacuous :
  exists s, rr_set [3; 1; 2] 2 = Some s /\ rr_inv s /\ zsort [1; 2; 3] = [1; 2; 3] /\
            rr_run s (map (fun st => ([1; 2; 3], st)) [0; 0; 0; 0; 0; 0]%nat) = [2; 3; 1; 2; 3; 1].
Proof. eexists. split; [reflexivity|]. split; [apply (rr_set_inv [3; 1; 2] 2%nat); reflexivity|]. split; reflexivity. Qed.
