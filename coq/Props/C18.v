(* C18 - Partitioners are deterministic, in range, Java-compatible and fair.
   Theorem statements only; proofs live in Proofs/.  Never weaken a statement here. *)
From AV Require Import Base.Util Model.Murmur Model.Partitioner Proofs.MurmurJava Proofs.PartitionerFacts.

(* The Python hash equals Java's Utils.murmur2 (int32 semantics) on every byte string. *)
Theorem C18_murmur_java : forall data, bytes_ok data = true ->
  murmur2_java (map sbyte data) mod 0x100000000 = pure_murmur2 data.
Proof. exact murmur_java_agree. Qed.
Print Assumptions C18_murmur_java.

(* toPositive(murmur2(key)) % n on the Java side = the index afkak computes. *)
Theorem C18_partition_java : forall key n, bytes_ok key = true ->
  hashed_index key n = java_partition (map sbyte key) n.
Proof. exact partition_java_agree. Qed.
Print Assumptions C18_partition_java.

(* The result is always a member of the supplied list (and a pure function of key and list). *)
Theorem C18_in_range : forall key parts, parts <> [] ->
  exists p, hashed_partition key parts = Some p /\ In p parts.
Proof. exact hashed_in_range. Qed.
Print Assumptions C18_in_range.

(* Text keys are hashed through their UTF-8 bytes. *)
Theorem C18_text_utf8 : forall cps key parts, utf8 cps = Some key ->
  hashed_partition_text cps parts = hashed_partition key parts.
Proof. exact text_utf8_agree. Qed.
Print Assumptions C18_text_utf8.

(* Round robin: from ANY reachable state (whatever list it last saw, whatever position), any window
   of k*n calls with the same ascending list selects each partition exactly k times
   (k * multiplicity).  Covers the restart after a list change, with any random start values. *)
Theorem C18_rr_fair : forall s parts k starts x,
  rr_inv s -> parts <> [] -> zsort parts = parts -> length starts = (k * length parts)%nat ->
  count_occ Z.eq_dec (rr_run s (map (fun st => (parts, st)) starts)) x
  = (k * count_occ Z.eq_dec parts x)%nat.
Proof. exact rr_fair. Qed.
Print Assumptions C18_rr_fair.

(* every state a partitioner can reach satisfies rr_inv *)
Theorem C18_rr_reachable : forall parts st s, rr_set parts st = Some s -> rr_inv s.
Proof. exact rr_set_inv. Qed.
Print Assumptions C18_rr_reachable.
Theorem C18_rr_reachable_step : forall s parts st p s', rr_inv s -> rr_partition s parts st = Some (p, s') -> rr_inv s'.
Proof. exact rr_partition_inv. Qed.
Print Assumptions C18_rr_reachable_step.

(* A changed list restarts the cycle over the new list at the start position. *)
Theorem C18_rr_restart : forall s parts st, rr_sorted s <> parts -> parts <> [] ->
  exists p s', rr_partition s parts st = Some (p, s') /\
               nth_error parts (Nat.modulo st (length parts)) = Some p /\ rr_cyc s' = parts /\ rr_inv s'.
Proof. exact rr_restart. Qed.
Print Assumptions C18_rr_restart.

(* ---- non-vacuity and independent reference vectors (Apache Kafka UtilsTest.testMurmur2) ---- *)
Example java_vec_21 : murmur2_java [50; 49] = -973932308. Proof. vm_compute. reflexivity. Qed.
Example java_vec_foobar : murmur2_java [102; 111; 111; 98; 97; 114] = -790332482. Proof. vm_compute. reflexivity. Qed.
Example java_vec_abc : murmur2_java [97; 98; 99] = 479470107. Proof. vm_compute. reflexivity. Qed.
Example java_vec_long : murmur2_java
  [97; 45; 108; 105; 116; 116; 108; 101; 45; 98; 105; 116; 45; 108; 111; 110; 103; 101; 114; 45; 115; 116; 114; 105; 110; 103]
  = -1486304829. Proof. vm_compute. reflexivity. Qed.
Example java_vec_highbytes : murmur2_java (map sbyte [200; 255; 128; 7; 129]) mod 0x100000000 = pure_murmur2 [200; 255; 128; 7; 129].
Proof. vm_compute. reflexivity. Qed.
Example rr_fair_nonvacuous :
  exists s, rr_set [3; 1; 2] 2 = Some s /\ rr_inv s /\ zsort [1; 2; 3] = [1; 2; 3] /\
            rr_run s (map (fun st => ([1; 2; 3], st)) [0; 0; 0; 0; 0; 0]%nat) = [2; 3; 1; 2; 3; 1].
Proof. eexists. split; [reflexivity|]. split; [apply (rr_set_inv [3; 1; 2] 2%nat); reflexivity|]. split; reflexivity. Qed.
