(* C08, last sentence, against the callers' budgets (kept apart from Props/C08.v because it depends on the Producer
   and Consumer developments).  THIN GLUE: the client, Producer and Consumer models are not composed step by step;
   Proofs/ClientMetaCallers.v says exactly what is assumed about how a caller attempt maps to a client call.
   [all_good truth fail ps st atts] are the premises of C08_recovery_within_budget (fixed topology, truthful lookups,
   every request answered honestly, in every attempt's own cache state). *)
From AV Require Import Base.Util Model.ClientMeta Model.ClientRoute Proofs.ClientMetaFacts Proofs.ClientMetaBudget
  Proofs.ClientMetaCallers.
From AV Require Model.Producer Proofs.ProducerC09 Model.Consumer Proofs.ConsumerC14.

(* Producer (fail_on_error=False, any number of topics in the batch, budget max_req_attempts = c_max >= 2): the first
   successful client attempt has a number the Producer is allowed to make; second conjunct = C09_attempt_bound. *)
Theorem C08_producer_budget_suffices : forall truth ps atts st (c : P.cfg),
  WF st -> NoDup (map p_key ps) -> all_good truth false ps st atts -> (2 <= length atts)%nat ->
  2 <= P.c_max c ->
  (exists k, first_success false ps st atts = Some k /\ 1 <= Z.of_nat k + 1 <= Z.max 1 (P.c_max c)) /\
  (forall outs m m', PC.mon_run c m outs = Some m' -> 0 <= PC.m_a m ->
     forall a mg v, In (P.OSendProduce a mg v) outs -> 1 <= a <= Z.max 1 (P.c_max c)).
Proof. exact producer_budget_suffices. Qed.
Print Assumptions C08_producer_budget_suffices.

(* Consumer (one partition per fetch; request_retry_max_attempts n0 = 0, unlimited, or >= 2): the consecutive-failure
   counter never reaches the limit during recovery (exhausted = the test of C14_limited / C14_unlimited, after which
   C14_attempt_limit says the start Deferred has fired). *)
Theorem C08_consumer_budget_suffices : forall truth fail ps atts st t (n0 : Z),
  WF st -> NoDup (map p_key ps) -> (forall p, In p ps -> p_topic p = t) ->
  all_good truth fail ps st atts -> (2 <= length atts)%nat ->
  n0 = 0 \/ 2 <= n0 ->
  exists k, first_success fail ps st atts = Some k /\
    forall s : K.state, K.s_maxatt s = n0 -> K.s_att s = Z.of_nat k -> K.exhausted s = false.
Proof. exact consumer_budget_suffices. Qed.
Print Assumptions C08_consumer_budget_suffices.
