(* C12, third sentence for the 15 response decoders: a SUMMED, linear cost bound over nested loops.
   SOFT obligations (harness/props/C12.py builds this file only if b-c05's decoder language builds): the subject is
   Model/DecDSL.v + Model/DecAst.v (read-only here) - the decoder TERMS translated from the source of KafkaCodec.decode_*
   on every run and tied to it by Props/C05gen.v.

   [cexec] is DecDSL's interpreter with a tick counter: one tick per statement executed (each primitive read, assignment,
   list append, dict store, yield, test, return), one per loop statement, one per loop iteration.  [ok p] is a syntactic
   check (reads "from the start" only while the cursor is at the start; the body of every counted loop certainly
   consumes >= 1 byte per completed iteration; struct.iter_unpack bodies of constant cost); [lin_a p], [lin_b p] are
   computed from the program text.  NOT counted: bytes copied by one read (a k-byte string is one tick), the lazy
   message-set generator inside a FetchResponse (C12_total_linear / C12_hops_linear_per_depth), Python-level costs below
   a statement.  Memory: the same bound limits the number of objects a generator decoder yields (yields <= ticks);
   bytes held are not modelled (tracemalloc monitor only). *)
From AV Require Import Base.Util Model.Prim Model.MsgSet Model.DecDSL Model.DecAst Proofs.C12DecCost Proofs.C12DecCostAll.

(* the instrumented run is the run: same yielded values, same return value / exception *)
Theorem C12cost_same_result : forall param msgset data p,
  fst (cexec param msgset data (p_body p) (init_state data p)) = DecDSL.exec param msgset data (p_body p) (init_state data p).
Proof. exact cexec_is_exec. Qed.
Print Assumptions C12cost_same_result.

(* for EVERY program of the decoder language that passes the syntactic check, every api_version, every message-set
   oracle and every byte string: ticks <= lin_a * length + lin_b.  Nested loops ADD their constants (an iteration that
   completes has consumed a byte), they multiply nothing - whatever the count fields claim *)
Theorem C12cost_linear : forall param msgset data p, ok p = true ->
  (ticks param msgset data p <= lin_a p * length data + lin_b p)%nat.
Proof. exact ticks_linear. Qed.
Print Assumptions C12cost_linear.

(* all 16 decoder terms (the 15 public decoders; produce has two): ticks <= 23 * length data + 26 *)
Theorem C12cost_all_decoders :
  Forall (fun p => forall param msgset data, (ticks param msgset data p <= 23 * length data + 26)%nat) decoder_terms.
Proof. exact all_decoders_linear. Qed.
Print Assumptions C12cost_all_decoders.

(* the individual coefficients (check passed, a, b), in the order of [decoder_terms]: correlation id, api_versions,
   produce v0, produce v2, fetch, list_offsets, metadata, find_coordinator, offset_commit, offset_fetch,
   join protocol metadata, join_group, leave_group, heartbeat, sync_group, sync member assignment *)
Theorem C12cost_coefficients :
  map (fun p => (ok p, lin_a p, lin_b p)) decoder_terms =
  [(true, 0, 2); (true, 2, 5); (true, 10, 9); (true, 10, 10); (true, 12, 12); (true, 23, 14); (true, 19, 26); (true, 0, 4);
   (true, 10, 10); (true, 14, 12); (true, 3, 8); (true, 4, 12); (true, 0, 2); (true, 0, 2); (true, 0, 3); (true, 5, 11)]%nat.
Proof. exact decoder_coefficients. Qed.
Print Assumptions C12cost_coefficients.

(* the number of values yielded is at most the number of ticks *)
Theorem C12cost_yields_le_ticks : forall param msgset data p,
  (length (fst (fst (cexec param msgset data (p_body p) (init_state data p)))) <= ticks param msgset data p)%nat.
Proof. exact yields_le_ticks. Qed.
Print Assumptions C12cost_yields_le_ticks.

(* non-vacuity: the F-C12-1 input (10^7 subscriptions claimed in 8 bytes) costs 5 ticks; a well-formed one more *)
Example cost_runs :
  ticks 0 (fun _ => ([], None)) [0; 0; 0; 152; 150; 128; 255; 254] ast_decode_join_group_protocol_metadata = 5%nat /\
  ticks 0 (fun _ => ([], None)) [0; 0; 0; 0; 0; 2; 0; 1; 97; 0; 1; 98; 255; 255; 255; 255] ast_decode_join_group_protocol_metadata = 11%nat.
Proof. vm_compute. split; reflexivity. Qed.
