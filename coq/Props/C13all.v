(* C13 - the run-level theorems of Props/C13.v without the fuel hypothesis: corollaries of C13_fuel_enough and the theorem
   of the same name without _all (both in Props/C13.v).  Kept in a file of their own because Print Assumptions walks the
   whole development once per theorem; checked on the thorough tier.  Never weaken a statement here. *)
From AV Require Import Base.Util Model.Consumer Proofs.ConsumerBase Proofs.ConsumerStop Proofs.ConsumerInv Proofs.ConsumerShut
  Proofs.ConsumerRun Proofs.ConsumerNotStarted Proofs.ConsumerFuelEnoughLoop Proofs.ConsumerFuelEnoughRun Proofs.ConsumerShutInvNC Proofs.ConsumerShutInvTop.
Open Scope Z_scope.

Theorem C13_reachable_invariant_all : forall n0 c buf evs, cfg_ok c = true ->
  exists fuel0, forall fuel, (fuel0 <= fuel)%nat ->
    Forall (fun t => Reach n0 (t_pre t) /\ Reach n0 (t_post t)) (run_steps fuel (init c n0 buf) evs).
Proof. exact reachable_all. Qed.
Print Assumptions C13_reachable_invariant_all.
Theorem C13_every_stop_quiescent_all : forall n0 c buf evs, cfg_ok c = true ->
  exists fuel0, forall fuel, (fuel0 <= fuel)%nat -> Forall (stop_ok n0) (run_steps fuel (init c n0 buf) evs).
Proof. exact every_stop_quiescent_all. Qed.
Print Assumptions C13_every_stop_quiescent_all.
Theorem C13_shutdown_commits_all : forall n0 c buf evs, cfg_ok c = true ->
  exists fuel0, forall fuel, (fuel0 <= fuel)%nat ->
    forallb (fun t => forallb (shutd_ok (c_group c)) (t_out t)) (run_steps fuel (init c n0 buf) evs) = true.
Proof. exact shutdown_commits_all. Qed.
Print Assumptions C13_shutdown_commits_all.
Theorem C13_not_started_idle_all : forall n0 c buf evs, cfg_ok c = true ->
  exists fuel0, forall fuel, (fuel0 <= fuel)%nat ->
    forallb (fun t => not_started_idle (t_post t)) (run_steps fuel (init c n0 buf) evs) = true.
Proof. exact not_started_idle_all. Qed.
Print Assumptions C13_not_started_idle_all.

Theorem C13_not_started_commit_idle_all : forall n0 c buf evs, cfg_ok c = true ->
  exists fuel0, forall fuel, (fuel0 <= fuel)%nat -> commit_idle_run (run_steps fuel (init c n0 buf) evs) = true.
Proof. exact commit_idle_all. Qed.
Print Assumptions C13_not_started_commit_idle_all.
Theorem C13_shutdown_bookkeeping_all : forall n0 c buf evs, cfg_ok c = true ->
  exists fuel0, forall fuel, (fuel0 <= fuel)%nat ->
    forallb (fun t => sb_ok (t_post t)) (run_steps fuel (init c n0 buf) evs) = true.
Proof. exact bookkeeping_all. Qed.
Print Assumptions C13_shutdown_bookkeeping_all.
Theorem C13_stop_then_restart_delivers_all : forall n0 c buf evs, cfg_ok c = true ->
  exists fuel0, forall fuel, (fuel0 <= fuel)%nat ->
    Forall (fun t => t_ev t = EStop -> s_startd (t_pre t) <> None ->
              s_shutting (t_post t) = false /\ s_shutd (t_post t) = false /\ restarts_and_delivers fuel (t_post t))
           (run_steps fuel (init c n0 buf) evs).
Proof. exact stop_then_restart_all. Qed.
Print Assumptions C13_stop_then_restart_delivers_all.
