(* C19 - Batching thresholds, time limit, cancellation and stop of afkak.producer.Producer.
   Theorem statements only; proofs live in Proofs/ProducerInv.v and Proofs/ProducerC19.v.  Never weaken a statement here.
   Model: Model/Producer.v (step machine over the contract of KafkaClient).  Vocabulary:
     queue/wcnt/wbytes = _batch_reqs/_waitingMsgCount/_waitingByteCount, ph = what _batch_send_d waits on (Idle = None),
     ODispatch sids = _send_batch took exactly these requests from the queue (ghost), OBatchDone = _complete_batch_send ran
     (ghost), OSendProduce = client.send_produce_request, OOutcome sid o = the Deferred of send sid fired with o,
     oc out = the sends that receive an outcome in a list of outputs, wire_sids o = the sends whose messages are in a
     produce request, pool s = ids of the batch in flight ++ ids of the queue. *)
From AV Require Import Base.Util Model.Producer Proofs.ProducerBase Proofs.ProducerInv Proofs.ProducerC19.
From Coq Require Import Permutation.

(* The invariant every theorem below assumes holds in every state the producer can reach, whatever the events. *)
Theorem C19_reachable_inv : forall c s, reachable c s -> Inv s.
Proof. exact reachable_inv. Qed.
Print Assumptions C19_reachable_inv.
Theorem C19_inv_step : forall c s e s' out, Inv s -> step c s e = (s', out) -> Inv s'.
Proof. exact inv_step. Qed.
Print Assumptions C19_inv_step.

(* A dispatch happens in a step exactly when: the producer is not stopping, there is something to send, and
   - send_messages: no batch in flight and the count or byte threshold is met with the new request included;
   - the LoopingCall ticks: no batch in flight (threshold or not);
   - any other event: it completes the batch in flight (OBatchDone) and a threshold is met by what queued up meanwhile;
   never inside stop().  The batch is always the whole queue. *)
Theorem C19_dispatch_iff : forall c s e s' out sids, Inv s -> step c s e = (s', out) ->
  (In (ODispatch sids) out <->
   stopping s = false /\ sids <> [] /\
   match e with
   | ESend _ _ cnt b => ph s = Idle /\ 1 <= cnt /\ 0 <= b /\ sids = ids (queue s) ++ [nsend s] /\
                        thr c (wcnt s + cnt) (wbytes s + b) = true
   | ETick => ph s = Idle /\ looper s = true /\ sids = ids (queue s)
   | EStop _ => False
   | _ => ph s <> Idle /\ In OBatchDone out /\ sids = ids (queue s) /\ threshold c s = true
   end).
Proof. exact dispatch_iff. Qed.
Print Assumptions C19_dispatch_iff.

(* "at the first moment": in no reachable state is a due batch left waiting (nothing in flight, queue non-empty,
   not stopping, and a threshold met). *)
Theorem C19_no_due_batch_waits : forall c s, reachable c s ->
  queue s <> [] -> ph s = Idle -> stopping s = false -> threshold c s = false.
Proof. exact no_due_batch_waits. Qed.
Print Assumptions C19_no_due_batch_waits.

(* A threshold met while a batch is in flight takes effect in the very step that resolves that batch. *)
Theorem C19_deferred_threshold : forall c s e s' out, Inv s -> batch_event e = true -> step c s e = (s', out) ->
  ph s <> Idle -> queue s <> [] -> stopping s = false -> threshold c s = true ->
  In OBatchDone out -> In (ODispatch (ids (queue s))) out /\ queue s' = [].
Proof. exact deferred_threshold. Qed.
Print Assumptions C19_deferred_threshold.

(* No starvation, event-order form: a tick of the time limit with no batch in flight sends the whole queue, so a
   queued message waits at most until the first tick after the batch in flight resolves ... *)
Theorem C19_no_starvation : forall c s s' out, Inv s -> looper s = true -> ph s = Idle -> step c s ETick = (s', out) ->
  queue s' = [] /\ (queue s <> [] -> In (ODispatch (ids (queue s))) out).
Proof. exact tick_flushes. Qed.
Print Assumptions C19_no_starvation.
(* ... and a request leaves the queue only by being dispatched or by an outcome of its own (cancel() or stop()). *)
Theorem C19_queue_exit : forall c s e s' out sid, Inv s -> step c s e = (s', out) ->
  In sid (ids (queue s)) -> ~ In sid (ids (queue s')) ->
  (exists sids, In (ODispatch sids) out /\ In sid sids) \/ In sid (oc out).
Proof. exact queue_exit. Qed.
Print Assumptions C19_queue_exit.

(* Threshold accounting is exact: the counters are the sums over the queue (all cancelled => both 0). *)
Theorem C19_counters_exact : forall s, Inv s ->
  wcnt s = zsum (map s_cnt (queue s)) /\ wbytes s = zsum (map s_bytes (queue s)) /\
  Forall (fun x => 1 <= s_cnt x /\ 0 <= s_bytes x) (queue s).
Proof. exact counters_exact. Qed.
Print Assumptions C19_counters_exact.

(* cancel() before dispatch: the request is taken out of the queue, the counters decrease by exactly its
   contribution, the caller gets CancelledError(request_sent=False), nothing else changes phase, and the producer
   no longer holds the request ... *)
Theorem C19_cancel_before_dispatch : forall c s sid s' out, Inv s -> In sid (ids (queue s)) ->
  step c s (ECancel sid) = (s', out) ->
  exists a x b, queue s = a ++ x :: b /\ s_id x = sid /\ queue s' = a ++ b /\
                wcnt s' = wcnt s - s_cnt x /\ wbytes s' = wbytes s - s_bytes x /\
                out = [OOutcome sid (OFail K_CANCEL 0)] /\ ph s' = ph s /\ absent s' sid.
Proof. exact cancel_queued. Qed.
Print Assumptions C19_cancel_before_dispatch.
(* ... and a request the producer no longer holds never appears in a produce request, whatever happens later. *)
Theorem C19_cancelled_never_sent : forall c evs s s' tr sid, Inv s -> absent s sid -> run c s evs = (s', tr) ->
  forall e out o, In (e, out) tr -> In o out -> ~ In sid (wire_sids o).
Proof. exact never_sent_run. Qed.
Print Assumptions C19_cancelled_never_sent.

(* cancel() after dispatch only detaches the caller: nothing but the list of outstanding Deferreds changes, nothing
   is emitted but the caller's CancelledError(request_sent = a batch is in flight). *)
Theorem C19_cancel_after : forall c s sid s' out, Inv s -> In sid (outstanding s) -> ~ In sid (ids (queue s)) ->
  step c s (ECancel sid) = (s', out) ->
  s' = set_outstanding s (zremove sid (outstanding s)) /\
  out = [OOutcome sid (OFail K_CANCEL (match ph s with Idle => 0 | _ => 1 end))].
Proof. exact cancel_detached. Qed.
Print Assumptions C19_cancel_after.

(* stop(): every outstanding send gets exactly one outcome inside stop() and none stays outstanding; the batch in
   flight is over, the queue and the counters are empty, the timer is stopped; stop() emits nothing but outcomes,
   timer cancellations and the end-of-batch marker (no produce request, no metadata request, no timer). *)
Theorem C19_stop : forall c s cv s' out, Inv s -> step c s (EStop cv) = (s', out) ->
  outstanding s' = [] /\ Permutation (outstanding s) (oc out) /\
  stopping s' = true /\ looper s' = false /\ ph s' = Idle /\
  queue s' = [] /\ wcnt s' = 0 /\ wbytes s' = 0 /\ Forall stop_out out.
Proof. exact stop_all. Qed.
Print Assumptions C19_stop.
(* If the client's cancelled Deferred delivers nothing of its own (plain Twisted cancellation), every one of
   these outcomes is a cancellation error (afkak CancelledError or twisted CancelledError). *)
Theorem C19_stop_cancellation : forall c s s' out, Inv s -> step c s (EStop None) = (s', out) ->
  Forall cancel_outcome out.
Proof. exact stop_cancels. Qed.
Print Assumptions C19_stop_cancellation.
(* ... and in general (the client's cancelled Deferred delivers a value v of its own - the real client: responses of the
   brokers that had already answered, the other payloads failed): every outcome of stop() is a cancellation error, or
   what v itself says about the send's payload (value_outcome: the acknowledgement (t,p,0,off) listed in v; the
   failure kind v carries for it - a failed payload's kind, a response's error code, the kind of a whole-request
   failure, NoResponseError for an empty result; None only with acks=0 for an empty / partially failed result). *)
Theorem C19_stop_outcomes : forall c s cv s' out sid o, Inv s -> step c s (EStop cv) = (s', out) -> In (OOutcome sid o) out ->
  o = OFail K_CANCEL 0 \/ o = OFail K_TIDCANCEL 0 \/
  exists pls cur v, ph s = Sending pls cur /\ cv = Some v /\ result_ok c cur v = true /\ value_outcome c v o.
Proof. exact stop_outcomes. Qed.
Print Assumptions C19_stop_outcomes.
(* F-C19-4 (known finding): the strict reading of the property's last sentence - "stopping the producer fails EVERY
   outstanding send with a cancellation error" - is FALSE of the model, as of the code over the real client: a batch
   with a payload for each of two brokers is in flight, one broker has answered; stop() cancels the client's request,
   whose cancelled Deferred delivers that broker's acknowledgement and fails the other payload; the acknowledged send
   fires with its ProduceResponse (truthfully: C01), the other one with the cancellation error.  C19_stop_outcomes
   above is what does hold. *)
Theorem C19_stop_all_cancelled_refuted :
  exists c s cv s' out, reachable c s /\ step c s (EStop cv) = (s', out) /\ ~ Forall cancel_outcome out
                        /\ In (OOutcome 0 (OResp 0 0 0 7)) out /\ In (OOutcome 1 (OFail K_TIDCANCEL 0)) out.
Proof.
  exists {| c_acks := 1; c_n := 2; c_b := 0; c_max := 3 |}.
  exists (fst (run {| c_acks := 1; c_n := 2; c_b := 0; c_max := 3 |} (init_state true 1 [(0, (0, true))]) [ESend 0 0 1 10; ESend 0 1 1 10])).
  exists (Some (VFailed [((0, 0), 0, 7)] [((0, 1), K_TIDCANCEL)])).
  eexists; eexists. split; [exists true, 1, [(0, (0, true))], [ESend 0 0 1 10; ESend 0 1 1 10]; reflexivity|].
  split; [vm_compute; reflexivity|]. split.
  - intro F. inversion F as [|? ? H _]; subst. destruct H as [H|H]; discriminate H.
  - split; [left; reflexivity | right; left; reflexivity].
Qed.
Print Assumptions C19_stop_all_cancelled_refuted.

(* The time limit stays armed until stop(): in every run, while the producer is not stopping the periodic call is
   running iff a time limit was configured (so C19_no_starvation applies at every tick before stop). *)
Theorem C19_looper_until_stop : forall c has_t api0 cache0 evs s tr,
  run c (init_state has_t api0 cache0) evs = (s, tr) -> stopping s = false -> looper s = has_t.
Proof. exact looper_until_stop. Qed.
Print Assumptions C19_looper_until_stop.

(* A stopping producer refuses a send at once: the caller gets a failure (CancelledError(request_sent=False), or
   the argument error if the arguments are bad), nothing is queued, no counter or Deferred list changes (only the
   model's numbering of sends moves on). *)
Theorem C19_send_refused_when_stopping : forall c s t ch cnt b s' out, stopping s = true ->
  step c s (ESend t ch cnt b) = (s', out) ->
  s' = set_ids s (nsend s + 1) (nload s) (ntimer s) /\
  exists k, out = [OOutcome (nsend s) (OFail k 0)] /\
            ((1 <= cnt /\ 0 <= b /\ k = K_CANCEL) \/ ((cnt < 1 \/ b < 0) /\ k = K_VALUE)).
Proof. exact send_refused. Qed.
Print Assumptions C19_send_refused_when_stopping.
(* stop() leaves the producer stopped: stopping, timer off, no batch, empty queue, no outstanding send, counters 0. *)
Theorem C19_stop_gives_stopped : forall c s cv s' out, Inv s -> step c s (EStop cv) = (s', out) -> stopped s'.
Proof. exact stop_gives_stopped. Qed.
Print Assumptions C19_stop_gives_stopped.
(* After stop() nothing is ever transmitted again and nothing waits: for every continuation the producer stays
   stopped, and a step emits nothing at all except the immediate refusal of a send made in that step. *)
Theorem C19_nothing_after_stop : forall c evs s s' tr, stopped s -> run c s evs = (s', tr) ->
  stopped s' /\ forall e out, In (e, out) tr -> out = [] \/ exists sid k, out = [OOutcome sid (OFail k 0)] /\
                                                    match e with ESend _ _ _ _ | EBadSend _ => True | _ => False end.
Proof. exact stopped_run. Qed.
Print Assumptions C19_nothing_after_stop.

(* ---- non-vacuity: concrete reachable states exercising the hypotheses ---- *)
Definition ex_cfg : cfg := {| c_acks := 1; c_n := 2; c_b := 0; c_max := 3 |}.
Definition ex_init : state := init_state true 1 [(0, (0, true))].
Definition ex_evs : list event :=
  [ESend 0 0 1 10; ESend 0 1 1 10; ESend 0 0 1 5; ESend 0 0 2 5].

(* two sends meet n=2: dispatched at once as one request with two payloads; two more queue up behind it *)
Example ex_reachable : exists s tr, run ex_cfg ex_init ex_evs = (s, tr) /\ reachable ex_cfg s /\
  ph s <> Idle /\ ids (queue s) = [2; 3] /\ wcnt s = 3 /\ threshold ex_cfg s = true /\ stopping s = false /\ looper s = true /\
  In (ESend 0 1 1 10, [ODispatch [0; 1]; OSendProduce 1 0 [((0, 0), [(0, 0)]); ((0, 1), [(1, 0)])]]) tr.
Proof.
  eexists; eexists. split; [vm_compute; reflexivity|]. split.
  { exists true, 1, [(0, (0, true))], ex_evs. vm_compute. reflexivity. }
  vm_compute. repeat split; try discriminate. right; left; reflexivity.
Qed.
(* deferred threshold: the reply resolves the batch and the queued batch leaves in the same step *)
Example ex_deferred : exists s tr, run ex_cfg ex_init (ex_evs ++ [EResult (VResp [((0, 0), 0, 7); ((0, 1), 0, 8)])]) = (s, tr) /\
  In (EResult (VResp [((0, 0), 0, 7); ((0, 1), 0, 8)]),
      [OOutcome 0 (OResp 0 0 0 7); OOutcome 1 (OResp 0 1 0 8); OBatchDone; ODispatch [2; 3];
       OSendProduce 1 0 [((0, 0), [(2, 0); (3, 0); (3, 1)])]]) tr.
Proof. eexists; eexists. split; [vm_compute; reflexivity|]. vm_compute. do 4 right. left. reflexivity. Qed.
(* cancel before dispatch, then stop with a batch in flight *)
Example ex_cancel_stop : exists s tr, run ex_cfg ex_init (ex_evs ++ [ECancel 2; EStop None; ESend 0 0 1 3]) = (s, tr) /\
  In (ESend 0 0 1 3, [OOutcome 4 (OFail K_CANCEL 0)]) tr /\ stopped s /\
  In (ECancel 2, [OOutcome 2 (OFail K_CANCEL 0)]) tr /\
  In (EStop None, [OOutcome 0 (OFail K_TIDCANCEL 0); OOutcome 1 (OFail K_TIDCANCEL 0); OBatchDone; OOutcome 3 (OFail K_CANCEL 0)]) tr /\
  outstanding s = [] /\ wcnt s = 0.
Proof. eexists; eexists. split; [vm_compute; reflexivity|]. vm_compute. repeat split; auto 10. Qed.
