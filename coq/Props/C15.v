(* C15 - Group assignment gives every partition to exactly one subscribed member.
   Theorem statements only; proofs live in Proofs/Assign*.v.  Never weaken a statement here.

   Vocabulary (Model/Assign.v): a str is its list of code points; [members] is the list of
   (member_id, subscriptions) in the order of the JoinGroup response; [build_md] is the dict
   generate_assignments builds from it (a repeated id keeps its LAST metadata); [tp] is the
   topic -> partition-ids mapping; [leader_assign] = _round_robin_assignment on that dict;
   [asg_get a m] = assignments.get(m, {}); [parts_of d t] = d.get(t, []);
   [assigned_count a ids t p] = number of occurrences of p under topic t, summed over the members ids.
   No bound on the number of members, topics, partitions, or on the length of names. *)
From AV Require Import Base.Util Model.Assign Proofs.AssignDict Proofs.AssignCodec Proofs.AssignLeader Proofs.AssignC15 Proofs.AssignFuel Proofs.AssignSnapshot Proofs.AssignCompose.
From Coq Require Import Sorting.Permutation.

(* When the leader's computation is defined, and that the inner `while` never spins for ever:
   the only exceptions are the `assert all_topics` (nobody subscribes anything, which includes the empty
   member list) and _NeedTopicPartitions carrying the subscribed topics (some subscribed topic has no
   entry in tp).  EFuel (endless cycle), EStop (cycle([])) and EKey are impossible. *)
Theorem C15_assign_defined : forall members tp,
  let md := build_md members in
  match leader_assign members tp with
  | Ok _ => all_topics md <> [] /\ forall t, In t (all_topics md) -> dict_get tp t <> None
  | Err EAssert => all_topics md = []
  | Err (ENeed ts) => ts = str_sort (all_topics md) /\ exists t, In t ts /\ dict_get tp t = None
  | Err _ => False
  end.
Proof. exact c15_assign_defined. Qed.
Print Assumptions C15_assign_defined.

(* The leader's two calls (_group.py:490-501) and what the second one REQUIRES of the snapshot returned by
   client._load_topic_partitions: the first call, with no partition map, always asks for exactly the subscribed
   topics; the second call yields an assignment iff the snapshot has an entry for each of them (the documented
   contract "An entry is present for each requested topic", client.py:416, here the boolean snapshot_covers);
   otherwise _NeedTopicPartitions is raised AGAIN - inside the except block, so nothing catches it and no
   assignment is produced.  Every other theorem below speaks about the Ok case, i.e. assumes this precondition;
   whether the real client honours it is checked by the run (streams 7/8 of harness/props/C15.py), not proved. *)
Theorem C15_leader_two_calls : forall members tp,
  let ts := all_topics (build_md members) in
  ts <> [] ->
  leader_assign members [] = Err (ENeed (str_sort ts)) /\
  (if snapshot_covers members tp
   then exists a, leader_assign members tp = Ok a
   else leader_assign members tp = Err (ENeed (str_sort ts))).
Proof. exact c15_leader_two_calls. Qed.
Print Assumptions C15_leader_two_calls.

(* all_topics is exactly the set of topics some member subscribes (auxiliary) *)
Theorem C15_all_topics : forall members t,
  In t (all_topics (build_md members)) <-> some_subscriber (build_md members) t = true.
Proof. exact c15_all_topics. Qed.
Print Assumptions C15_all_topics.

(* Exactly one.  Summed over the distinct member ids, partition p of topic t is assigned as many times
   as tp lists it if some member subscribes t, and never otherwise (topic nobody subscribes, partition
   not listed, topic with no partitions); hence exactly once when tp[t] lists p without repetition.
   Nothing is assigned to an id that is not a member.
   Last two conjuncts (audit 2.1): the counts above read [a] through dict_get (first match), while the
   encoder walks the whole association list; so it is stated HERE, unconditionally, that [a] (the dict
   member_id -> share that _round_robin_assignment returns) has no repeated member id and that no share
   has a repeated topic - nothing is hidden behind a first match.  [a] is keyed by the DISTINCT ids
   (a repeated id in [members] is one key); the per-member OUTPUT list of generate_assignments follows
   [members] including repetitions, which is C15_decode_encode (map fst out = map fst members). *)
Theorem C15_exactly_one : forall members tp a, leader_assign members tp = Ok a ->
  let md := build_md members in
  NoDup (map fst md) /\
  (forall m, In m (map fst md) <-> In m (map fst members)) /\
  (forall t p, assigned_count a (map fst md) t p =
               if some_subscriber md t then count_occ Z.eq_dec (parts_of tp t) p else 0%nat) /\
  (forall t p, some_subscriber md t = true -> NoDup (parts_of tp t) -> In p (parts_of tp t) ->
               assigned_count a (map fst md) t p = 1%nat) /\
  (forall m, In m (map fst a) -> In m (map fst members)) /\
  NoDup (map fst a) /\ (forall m, NoDup (map fst (asg_get a m))).
Proof. exact c15_exactly_one. Qed.
Print Assumptions C15_exactly_one.

(* A member's share mentions only topics it subscribes (and it is a member). *)
Theorem C15_only_subscribed : forall members tp a, leader_assign members tp = Ok a ->
  forall m t, In t (map fst (asg_get a m)) ->
    In m (map fst members) /\ subscribed (build_md members) m t = true.
Proof. exact c15_only_subscribed. Qed.
Print Assumptions C15_only_subscribed.

(* ... and only partitions that tp lists for that topic. *)
Theorem C15_only_listed : forall members tp a, leader_assign members tp = Ok a ->
  forall m t p, In p (parts_of (asg_get a m) t) ->
    subscribed (build_md members) m t = true /\ In p (parts_of tp t).
Proof. exact c15_only_listed. Qed.
Print Assumptions C15_only_listed.

(* Identical subscriptions (as sets) => the numbers of partitions of any two members differ by at most 1. *)
Theorem C15_balanced : forall members tp a, leader_assign members tp = Ok a ->
  let md := build_md members in
  (forall m1 m2 t, In m1 (map fst members) -> In m2 (map fst members) -> subscribed md m1 t = subscribed md m2 t) ->
  forall m1 m2, In m1 (map fst members) -> In m2 (map fst members) ->
    (asg_size (asg_get a m1) <= asg_size (asg_get a m2) + 1)%nat.
Proof. exact c15_balanced. Qed.
Print Assumptions C15_balanced.

(* The order in which members are listed, and the order in which each topic's partitions are listed,
   do not matter: same exception or literally the same assignment, and the per-member encoded
   assignments are the same up to the order of the output list.  (A member SET: ids distinct.) *)
Theorem C15_perm_invariant : forall members members' tp tp',
  NoDup (map fst members) -> Permutation members members' -> tp_equiv tp tp' ->
  leader_assign members tp = leader_assign members' tp' /\
  (forall out, generate_assignments members tp = Ok out ->
     exists out', generate_assignments members' tp' = Ok out' /\ Permutation out out').
Proof. exact c15_perm_invariant. Qed.
Print Assumptions C15_perm_invariant.

(* Outside the property's quantifier (a member id listed twice with different metadata): the later
   entry wins, so there the order can matter.  Not a defect: the broker never repeats an id. *)
Theorem C15_perm_distinct_ids_needed :
  exists members members' tp, Permutation members members' /\
    leader_assign members tp <> leader_assign members' tp.
Proof. exact c15_perm_distinct_ids_needed. Qed.
Print Assumptions C15_perm_distinct_ids_needed.

(* Each member decodes from the leader's encoded assignment exactly its share: the output lists the
   members in the order received and decode_assignment of each member's bytes is its dict. *)
Theorem C15_decode_encode : forall members tp out, generate_assignments members tp = Ok out ->
  exists a, leader_assign members tp = Ok a /\ map fst out = map fst members /\
    forall m b, In (m, b) out -> decode_assignment b = Ok (asg_get a m).
Proof. exact generate_decode. Qed.
Print Assumptions C15_decode_encode.

(* The encoder raises nothing when topic names are ASCII of at most 32767 characters and partition ids
   are int32 (list lengths below 2^31). *)
Theorem C15_encode_defined : forall members tp a, leader_assign members tp = Ok a ->
  input_ok members tp = true -> exists out, generate_assignments members tp = Ok out.
Proof. exact generate_total. Qed.
Print Assumptions C15_encode_defined.

(* The member-assignment codec on arbitrary well-formed values: decode (encode x) = x, trailing bytes
   ignored; the decoder refuses any version but 0. *)
Theorem C15_codec_roundtrip : forall v d ud b, enc_assignment v d ud = Ok b -> NoDup (map fst d) ->
  forall rest, dec_assignment (b ++ rest) = if v =? 0 then Ok (v, d, ud) else Err EProtocol.
Proof. exact enc_dec_assignment. Qed.
Print Assumptions C15_codec_roundtrip.

Theorem C15_codec_defined : forall v d ud, in_i16 v = true -> adict_ok d = true -> ud_ok ud = true ->
  exists b, enc_assignment v d ud = Ok b.
Proof. exact enc_assignment_total. Qed.
Print Assumptions C15_codec_defined.

(* The subscription metadata the leader reads is what the member wrote (names as UTF-8 byte strings). *)
Theorem C15_metadata_roundtrip : forall v subs ud b, enc_metadata v subs ud = Ok b ->
  forall rest, dec_metadata (b ++ rest) = Ok (v, subs, ud).
Proof. exact enc_dec_metadata. Qed.
Print Assumptions C15_metadata_roundtrip.

(* Reordering or repeating topic names INSIDE a member's subscription list changes nothing: neither the
   assignment nor the encoded output (audit 2.3; ids may even repeat, positions must correspond). *)
Theorem C15_subscription_listing_irrelevant : forall members members' tp, subs_equiv members members' ->
  leader_assign members tp = leader_assign members' tp /\
  generate_assignments members tp = generate_assignments members' tp.
Proof. exact c15_subs_equiv. Qed.
Print Assumptions C15_subscription_listing_irrelevant.

(* Composition (audit 2.4): starting from the metadata BYTES each member wrote with
   encode_join_group_protocol_metadata (any version / user data), the leader's generate_assignments - which
   decodes them first, _group.py:612-614 - is generate_assignments on the members' own subscription lists; so every
   theorem above applies to what the leader computes from the wire.  (Names as UTF-8 byte strings; the text <->
   UTF-8 step is CPython's and trusted.) *)
Theorem C15_bytes_to_assignment : forall members raw tp, encoded_members members raw ->
  generate_assignments_raw raw tp = generate_assignments members tp.
Proof. exact c15_bytes_to_assignment. Qed.
Print Assumptions C15_bytes_to_assignment.

(* The decoder models are total for the right reason (audit 2.2): on ARBITRARY bytes - hostile counts
   included - the out-of-fuel artefact of the model is unreachable (fuel S (length data); every iteration
   of `for _ in range(n)` consumes at least six resp. two bytes or raises).  So every Err of the decoders
   in the correspondence stands for a Python exception, never for the model running out of steps. *)
Theorem C15_decoders_no_fuel_assignment : forall data,
  dec_assignment data <> Err EFuel /\ decode_assignment data <> Err EFuel.
Proof. exact (fun data => conj (dec_assignment_nofuel data) (decode_assignment_nofuel data)). Qed.
Print Assumptions C15_decoders_no_fuel_assignment.

Theorem C15_decoders_no_fuel_metadata : forall data, dec_metadata data <> Err EFuel.
Proof. exact dec_metadata_nofuel. Qed.
Print Assumptions C15_decoders_no_fuel_metadata.

(* ---- non-vacuity ---------------------------------------------------------------------------
   ids "c","a","b","d" (listed unsorted); topics "t","u","v","w";  c:[t,u]  a:[t]  b:[u,t,t]  d:[]
   tp: t -> [7,0,3,5,9] (non-contiguous, unsorted), u -> [1,0], v -> [4] (nobody subscribes), w -> [] *)
Definition ex_members : list (str * list str) :=
  [([99], [[116]; [117]]); ([97], [[116]]); ([98], [[117]; [116]; [116]]); ([100], [])].
Definition ex_tp : tpmap := [([116], [7; 0; 3; 5; 9]); ([117], [1; 0]); ([118], [4]); ([119], [])].

Example ex_assign : leader_assign ex_members ex_tp =
  Ok [([97], [([116], [0; 7])]);
      ([98], [([116], [3; 9]); ([117], [1])]);
      ([99], [([116], [5]); ([117], [0])])].
Proof. vm_compute. reflexivity. Qed.

Example ex_counts :
  assigned_count [([97], [([116], [0; 7])]); ([98], [([116], [3; 9]); ([117], [1])]); ([99], [([116], [5]); ([117], [0])])]
                 (map fst (build_md ex_members)) [116] 7 = 1%nat /\
  some_subscriber (build_md ex_members) [118] = false /\ some_subscriber (build_md ex_members) [116] = true.
Proof. vm_compute. auto. Qed.

Example ex_input_ok : input_ok ex_members ex_tp = true.
Proof. vm_compute. reflexivity. Qed.

Example ex_generate : exists out, generate_assignments ex_members ex_tp = Ok out /\
  map fst out = [[99]; [97]; [98]; [100]] /\
  In ([100], [0; 0; 0; 0; 0; 0; 0; 0; 0; 0]) out /\
  In ([97], [0; 0; 0; 0; 0; 1; 0; 1; 116; 0; 0; 0; 2; 0; 0; 0; 0; 0; 0; 0; 7; 0; 0; 0; 0]) out.
Proof. eexists. split; [vm_compute; reflexivity|]. cbn. auto 10. Qed.

(* identical subscriptions: 5 partitions over 3 members -> 2, 2, 1 *)
Definition ex_same : list (str * list str) := [([98], [[116]]); ([99], [[116]; [116]]); ([97], [[116]])].
Example ex_balanced : exists a, leader_assign ex_same ex_tp = Ok a /\
  map (fun m => asg_size (asg_get a m)) [[97]; [98]; [99]] = [2; 2; 1]%nat /\
  (forall m1 m2 t, In m1 (map fst ex_same) -> In m2 (map fst ex_same) ->
     subscribed (build_md ex_same) m1 t = subscribed (build_md ex_same) m2 t).
Proof.
  eexists. split; [vm_compute; reflexivity|]. split; [vm_compute; reflexivity|].
  intros m1 m2 t H1 H2. cbn in H1, H2.
  assert (E : forall m, In m [[98]; [99]; [97]] -> subscribed (build_md ex_same) m t = str_eqb [116] t).
  { assert (B : build_md ex_same = ex_same) by (vm_compute; reflexivity). rewrite B.
    intros m [<-|[<-|[<-|[]]]]; unfold subscribed.
    - change (dict_get ex_same [98]) with (Some [[116]]). cbn [str_mem]. destruct (str_eqb [116] t); reflexivity.
    - change (dict_get ex_same [99]) with (Some [[116]; [116]]). cbn [str_mem]. destruct (str_eqb [116] t); reflexivity.
    - change (dict_get ex_same [97]) with (Some [[116]]). cbn [str_mem]. destruct (str_eqb [116] t); reflexivity. }
  rewrite (E m1), (E m2); [reflexivity | exact H2 | exact H1].
Qed.

(* a shuffled member list and shuffled partition listings give the same assignment *)
Example ex_perm : NoDup (map fst ex_members) /\
  leader_assign [([100], []); ([98], [[117]; [116]; [116]]); ([99], [[116]; [117]]); ([97], [[116]])]
                [([119], []); ([117], [0; 1]); ([116], [9; 5; 3; 0; 7]); ([118], [4])]
  = leader_assign ex_members ex_tp.
Proof.
  split; [|vm_compute; reflexivity].
  repeat constructor; cbn; intuition discriminate.
Qed.

(* both exceptions are reachable *)
Example ex_assert : leader_assign [([97], [])] ex_tp = Err EAssert /\ leader_assign [] ex_tp = Err EAssert.
Proof. vm_compute. auto. Qed.
Example ex_need : leader_assign [([97], [[122]; [116]])] ex_tp = Err (ENeed [[116]; [122]]).
Proof. vm_compute. reflexivity. Qed.

(* the codec on a value that is not a leader output: negative and extreme partition ids, user data, null user data *)
Example ex_codec : exists b, enc_assignment 0 [([116; 46; 49], [-2147483648; 2147483647; -1]); ([], [])] (Some [1; 255]) = Ok b /\
  dec_assignment b = Ok (0, [([116; 46; 49], [-2147483648; 2147483647; -1]); ([], [])], Some [1; 255]).
Proof. eexists. split; [vm_compute; reflexivity|]. vm_compute. reflexivity. Qed.
Example ex_codec_bad : enc_assignment 0 [([233], [0])] None = Err EUnicode /\ enc_assignment 0 [([116], [2147483648])] None = Err EStruct.
Proof. vm_compute. auto. Qed.
Example ex_metadata : enc_metadata 0 [[116]; [195; 169]] (Some []) = Ok [0; 0; 0; 0; 0; 2; 0; 1; 116; 0; 2; 195; 169; 0; 0; 0; 0].
Proof. vm_compute. reflexivity. Qed.
(* hostile counts: 2^31-1 topics / subscriptions claimed in ten bytes: BufferUnderflowError, not out-of-fuel *)
Example ex_hostile_count : dec_assignment [0; 0; 127; 255; 255; 255; 0; 1; 116; 0] = Err EUnderflow /\
  dec_metadata [0; 0; 127; 255; 255; 255; 0; 0; 0; 0] = Err EUnderflow.
Proof. vm_compute. auto. Qed.
(* the snapshot precondition holds of the running example, and fails for a snapshot that lacks the subscribed
   topic "u" (what the real client returns when a metadata response omits u): the second call raises again *)
Example ex_snapshot : snapshot_covers ex_members ex_tp = true /\
  snapshot_covers ex_members [([116], [7; 0; 3; 5; 9])] = false /\
  leader_assign ex_members [([116], [7; 0; 3; 5; 9])] = Err (ENeed [[116]; [117]]) /\
  all_topics (build_md ex_members) <> [].
Proof. vm_compute. repeat split; discriminate. Qed.
(* subscriptions listed in another order / twice, and the members' real metadata bytes *)
Example ex_subs_equiv : subs_equiv ex_members [([99], [[117]; [116]; [117]]); ([97], [[116]; [116]]); ([98], [[116]; [117]]); ([100], [])].
Proof. unfold subs_equiv, ex_members. repeat (constructor; [split; [reflexivity | intro t; cbn [In fst snd]; tauto]|]). constructor. Qed.
Example ex_raw : exists raw, encoded_members ex_members raw /\
  generate_assignments_raw raw ex_tp = generate_assignments ex_members ex_tp /\
  hd_error raw = Some ([99], [0; 0; 0; 0; 0; 2; 0; 1; 116; 0; 1; 117; 0; 0; 0; 0]).
Proof.
  exists [([99], [0; 0; 0; 0; 0; 2; 0; 1; 116; 0; 1; 117; 0; 0; 0; 0]); ([97], [0; 0; 0; 0; 0; 1; 0; 1; 116; 255; 255; 255; 255]);
          ([98], [0; 0; 0; 0; 0; 3; 0; 1; 117; 0; 1; 116; 0; 1; 116; 0; 0; 0; 0]); ([100], [0; 0; 0; 0; 0; 0; 0; 0; 0; 0])].
  split; [|split; [vm_compute; reflexivity | reflexivity]].
  repeat constructor; cbn [fst snd].
  - exists 0, (Some []). vm_compute. reflexivity.
  - exists 0, None. vm_compute. reflexivity.
  - exists 0, (Some []). vm_compute. reflexivity.
  - exists 0, (Some []). vm_compute. reflexivity.
Qed.
