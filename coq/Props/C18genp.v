(* C18, translator tie (A), part 2: the partitioner CLASSES.  Model/PartitionerGen.v is the committed snapshot of what
   harness/py2part.py generates from /repo/afkak/partitioner.py (HashedPartitioner.partition + the pure-Python _hash;
   RoundRobinPartitioner.__init__ / _set_partitions / partition); on every run the same statements are re-proved about
   THIS run's translation in coq/Run/out/gen/<id>/ (harness/part_tie.py).  pure_murmur2 appears as the hand model
   Murmur.pure_murmur2: its own tie to the source is part 1 (Props/C18gen.v). *)
From AV Require Import Base.Util Model.Murmur Model.Partitioner Model.PartitionerPy Model.PartitionerGen Proofs.PartitionerFacts Proofs.PartitionerGenTac Proofs.PartitionerGenEq.

(* HashedPartitioner.partition, for EVERY key and list: bytes / bytearray keys select hashed_partition of their bytes,
   a text key that of its UTF-8 bytes (UnicodeEncodeError for a lone surrogate), any other key is a TypeError, an empty
   list a ZeroDivisionError; never an IndexError.  So C18_in_range, C18_partition_java_ids, C18_text_partition_java_ids
   speak about what the source computes. *)
Theorem C18_generated_hashed_partition : forall key parts, gen_hashed_partition key parts = spec_hashed key parts.
Proof. exact gen_hashed_eq. Qed.
Print Assumptions C18_generated_hashed_partition.

(* RoundRobinPartitioner as a state machine over (iterpart, partitions); randint's value r is an input (0 <= r by its
   range; start = r when randomStart is on, 0 otherwise).  The constructor is rr_set ... *)
Theorem C18_generated_rr_init : forall flag r parts, parts <> [] ->
  gen_rr_init flag r tt parts = match rr_set parts (eff flag r) with Some s => POk (st_of s) | None => PErr PStop end.
Proof. exact gen_rr_init_eq. Qed.
Print Assumptions C18_generated_rr_init.

(* ... and every call of partition() is the step rr_partition of the hand model, from ANY state: C18_rr_fair,
   C18_rr_restart, C18_rr_reachable[_step] therefore speak about what the source computes. *)
Theorem C18_generated_rr_partition : forall flag r s key parts, parts <> [] ->
  gen_rr_partition flag r (st_of s) key parts =
  match rr_partition s parts (eff flag r) with Some (p, s') => POk (p, st_of s') | None => PErr PStop end.
Proof. exact gen_rr_partition_eq. Qed.
Print Assumptions C18_generated_rr_partition.

Example generated_partitioner_nonvacuous :
  gen_hashed_partition (KBytes [148; 248; 168; 142; 136; 247]) [0; 1; 2; 3; 4; 5; 6; 7; 8; 9; 10; 11] = POk 11
  /\ gen_hashed_partition (KStr [0x75; 0xE9]) [5; 6; 7] = gen_hashed_partition (KBytearray [0x75; 0xC3; 0xA9]) [5; 6; 7]
  /\ gen_hashed_partition (KStr [0xD800]) [0] = PErr PUnicode /\ gen_hashed_partition KOther [0] = PErr PTypeError
  /\ gen_hashed_partition (KBytes []) [] = PErr PZeroDiv
  /\ (exists st, gen_rr_init true 5 tt [3; 1; 2] = POk st /\ exists p1 st1, gen_rr_partition true 0 st KOther [1; 2; 3] = POk (p1, st1)
        /\ p1 = 2 /\ gen_rr_partition true 0 st1 KOther [1; 2; 3] = POk (3, ((([3; 1; 2], 1%nat)), [1; 2; 3]))).
Proof. repeat split; try (vm_compute; reflexivity). eexists. split; [vm_compute; reflexivity|]. do 2 eexists. repeat split; vm_compute; reflexivity. Qed.
