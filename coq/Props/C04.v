(* C04 - every request afkak emits conforms to the Kafka grammar for the version in its header; version negotiation
   picks a version both sides support.  Theorem statements only; proofs live in Proofs/ReqParse*.v and
   Proofs/ClientVersionFacts.v.  Never weaken a statement here.

   encode_*        Model.Requests       afkak's encoders (kafkacodec.py), [Ok w] = the Python function returned w,
                                        [Err e] = it raised (struct.error for an integer outside its wire field or a
                                        string longer than 32767 bytes, UnicodeEncodeError, ...).
   parse_request   Model.KafkaSpecReq   the INDEPENDENT strict parser transcribed from the Kafka protocol guide.
   Shape of every theorem: the encoder returned w  ->  the strings the grammar does not allow to be null were
   supplied  ->  parse_request w = Some (api key, header version, correlation id, client id, canon arguments)
   for EVERY oracle (decompressor), every client id, correlation id and argument value.
   canon = the arguments themselves, payload lists grouped by topic then partition in order of first occurrence
   (Model.Requests.group_by_topic_and_partition, characterised by the C04_group_* theorems); text fields appear as
   their ASCII / UTF-8 bytes ([abytes] / [ubytes]). *)
From AV Require Import Base.Util Model.Prim Model.MsgSet Model.Requests Model.KafkaSpecReq Model.ClientVersion
     Proofs.Truncation Proofs.ReqParsePrim Proofs.ReqParseGroup Proofs.ReqParseApis Proofs.ReqParseProduce
     Proofs.ReqParseProducer Proofs.ReqWf Proofs.ClientVersionFacts.

(* ---- Produce v0 / v1 / v2 ----
   Vocabulary (Proofs/ReqParseProduce.v): [plain_pmsg off now m] = the fields of message m as the grammar sees them
   (timestamp present exactly for format 1; the clock reading [now] when m carries none); [uncompressed m] = codec
   bits 0 and key/value byte strings; [canon_produce clock payloads] = the grouped payloads, every message as
   SPlain (plain_pmsg 0 ..) in its original order, clock readings threaded exactly as the encoder consumes them.
   The parser checks every CRC, so the theorem includes: every message carries the valid CRC-32 of its body. *)
Theorem C04_produce_uncompressed : forall orc clock cid corr payloads acks timeout v w,
  encode_produce_request clock cid corr payloads acks timeout v = Ok w ->
  topics_present pr_topic payloads = true -> 0 <= v ->
  all_uncompressed payloads = true ->
  parse_request orc w = Some (mkSreq 0 (produce_header_version v) corr (Some cid)
                                     (SProduce acks timeout (canon_produce clock payloads))).
Proof. exact produce_plain_parses. Qed.
Print Assumptions C04_produce_uncompressed.

(* general form, compressed wrappers included: [topics_view orc clock 0 g T] says that T lists, topic by topic and
   partition by partition in the order of g, one view per message: SPlain for an uncompressed message, and for a
   message with codec bits gzip (snappy) whose value inflates - by the oracle - to the encoding of a set of
   uncompressed messages, SWrap with the views of those messages in order ([top_view], [inner_view]). *)
Theorem C04_produce : forall orc clock cid corr payloads acks timeout v w T,
  encode_produce_request clock cid corr payloads acks timeout v = Ok w ->
  topics_present pr_topic payloads = true -> 0 <= v ->
  topics_view orc clock 0 (group_by_topic_and_partition pr_topic pr_partition payloads) T ->
  parse_request orc w = Some (mkSreq 0 (produce_header_version v) corr (Some cid) (SProduce acks timeout T)).
Proof. exact produce_parses. Qed.
Print Assumptions C04_produce.

(* the sets the Producer builds (create_message_set, codec none or gzip, either format) satisfy that view, with
   the wrapper's inner messages = the messages created from the (key, payloads) requests, in order; the only
   hypothesis on compression is inflate (deflate x) = x on byte strings *)
Theorem C04_created_set_view : forall orc clock reqs codec magic ms eclock ek,
  oracle_gzip_ok orc ->
  create_message_set orc clock reqs codec magic = Ok ms ->
  forallb request_ok reqs = true ->
  codec = CODEC_NONE \/ codec = CODEC_GZIP -> magic = 0 \/ magic = 1 ->
  top_set_view orc eclock ek 0 0 ms (created_views clock reqs codec magic ms) /\
  (forall m, In m ms -> uses_clock m = false).
Proof. exact created_set_view. Qed.
Print Assumptions C04_created_set_view.

(* the Producer's path composed: version state resolved by the client ([resolved_ok]: the fallback, or a table of a
   broker that implements discovery), format chosen from it, set built, request encoded with the version looked
   up for Produce: the request is grammatical, carries exactly the created messages, and the message format is
   the one of the version written in the header *)
Theorem C04_producer_request : forall orc clock eclock cid corr topic partition reqs codec acks timeout st pv mg ms w,
  oracle_gzip_ok orc ->
  resolved_ok st -> version_for st PRODUCE_KEY = Some pv -> producer_magic st = Some mg ->
  create_message_set orc clock reqs codec mg = Ok ms ->
  forallb request_ok reqs = true -> codec = CODEC_NONE \/ codec = CODEC_GZIP ->
  present topic = true ->
  encode_produce_request eclock cid corr [mkProduce topic partition ms] acks timeout pv = Ok w ->
  exists r, parse_request orc w = Some r /\
            r = mkSreq 0 (produce_header_version pv) corr (Some cid)
                       (SProduce acks timeout [(abytes topic, [(partition, created_views clock reqs codec mg ms)])]) /\
            format_matches_version r = true.
Proof. exact producer_request_conforms. Qed.
Print Assumptions C04_producer_request.

(* the same for the whole batch: any list of payloads, each built by create_message_set from its own requests
   ([built_ok]); canon = the grouped records with the views of what was created (the Producer's keys are distinct,
   C09_one_payload, but the statement does not need it) *)
Theorem C04_producer_batch : forall orc eclock cid corr bs codec acks timeout st pv mg w,
  oracle_gzip_ok orc ->
  resolved_ok st -> version_for st PRODUCE_KEY = Some pv -> producer_magic st = Some mg ->
  codec = CODEC_NONE \/ codec = CODEC_GZIP ->
  Forall (built_ok orc codec mg) bs ->
  encode_produce_request eclock cid corr (map payload_of bs) acks timeout pv = Ok w ->
  exists r, parse_request orc w = Some r /\
            r = mkSreq 0 (produce_header_version pv) corr (Some cid)
                       (SProduce acks timeout (built_views codec mg (group_by_topic_and_partition b_topic b_partition bs))) /\
            format_matches_version r = true.
Proof. exact producer_batch_conforms. Qed.
Print Assumptions C04_producer_batch.

(* ---- Fetch v0 / v1 / v2: one layout; the header carries min(api_version, 2) ---- *)
Theorem C04_fetch : forall orc cid corr payloads max_wait min_bytes v w,
  encode_fetch_request cid corr payloads max_wait min_bytes v = Ok w ->
  topics_present fe_topic payloads = true -> 0 <= v ->
  parse_request orc w = Some (mkSreq 1 (fetch_header_version v) corr (Some cid)
                                     (SFetch (-1) max_wait min_bytes (canon_fetch payloads))).
Proof. exact fetch_parses. Qed.
Print Assumptions C04_fetch.

Theorem C04_list_offsets : forall orc cid corr payloads w,
  encode_offset_request cid corr payloads = Ok w ->
  topics_present of_topic payloads = true ->
  parse_request orc w = Some (mkSreq 2 0 corr (Some cid) (SListOffsets (-1) (canon_offsets payloads))).
Proof. exact offsets_parses. Qed.
Print Assumptions C04_list_offsets.

Theorem C04_metadata : forall orc cid corr topics w,
  encode_metadata_request cid corr topics = Ok w ->
  forallb present topics = true ->
  parse_request orc w = Some (mkSreq 3 0 corr (Some cid) (SMetadata (map abytes topics))).
Proof. exact metadata_parses. Qed.
Print Assumptions C04_metadata.

Theorem C04_offset_commit : forall orc cid corr group gen consumer payloads w,
  encode_offset_commit_request cid corr group gen consumer payloads = Ok w ->
  present group = true -> present consumer = true -> topics_present co_topic payloads = true ->
  parse_request orc w = Some (mkSreq 8 1 corr (Some cid)
                                     (SOffsetCommit (abytes group) gen (abytes consumer) (canon_commit payloads))).
Proof. exact offset_commit_parses. Qed.
Print Assumptions C04_offset_commit.

Theorem C04_offset_fetch : forall orc cid corr group payloads w,
  encode_offset_fetch_request cid corr group payloads = Ok w ->
  present group = true -> topics_present og_topic payloads = true ->
  parse_request orc w = Some (mkSreq 9 1 corr (Some cid) (SOffsetFetch (abytes group) (canon_ofetch payloads))).
Proof. exact offset_fetch_parses. Qed.
Print Assumptions C04_offset_fetch.

Theorem C04_find_coordinator : forall orc cid corr group w,
  encode_consumermetadata_request cid corr group = Ok w ->
  present group = true ->
  parse_request orc w = Some (mkSreq 10 0 corr (Some cid) (SFindCoordinator (abytes group))).
Proof. exact find_coordinator_parses. Qed.
Print Assumptions C04_find_coordinator.

Theorem C04_join_group : forall orc cid corr p w,
  encode_join_group_request cid corr p = Ok w ->
  present (jg_group p) = true -> present (jg_member_id p) = true -> present (jg_protocol_type p) = true ->
  protocols_present (jg_protocols p) = true ->
  parse_request orc w = Some (mkSreq 11 0 corr (Some cid)
    (SJoinGroup (ubytes (jg_group p)) (jg_session_timeout p) (ubytes (jg_member_id p)) (ubytes (jg_protocol_type p))
                (map (fun gp => (abytes (fst gp), obytes_val (snd gp))) (jg_protocols p)))).
Proof. exact join_group_parses. Qed.
Print Assumptions C04_join_group.

Theorem C04_heartbeat : forall orc cid corr group gen member w,
  encode_heartbeat_request cid corr group gen member = Ok w ->
  present group = true -> present member = true ->
  parse_request orc w = Some (mkSreq 12 0 corr (Some cid) (SHeartbeat (ubytes group) gen (ubytes member))).
Proof. exact heartbeat_parses. Qed.
Print Assumptions C04_heartbeat.

Theorem C04_leave_group : forall orc cid corr group member w,
  encode_leave_group_request cid corr group member = Ok w ->
  present group = true -> present member = true ->
  parse_request orc w = Some (mkSreq 13 0 corr (Some cid) (SLeaveGroup (ubytes group) (ubytes member))).
Proof. exact leave_group_parses. Qed.
Print Assumptions C04_leave_group.

Theorem C04_sync_group : forall orc cid corr p w,
  encode_sync_group_request cid corr p = Ok w ->
  present (sg_group p) = true -> present (sg_member_id p) = true ->
  protocols_present (sg_assignment p) = true ->
  parse_request orc w = Some (mkSreq 14 0 corr (Some cid)
    (SSyncGroup (ubytes (sg_group p)) (sg_generation_id p) (ubytes (sg_member_id p))
                (map (fun ma => (ubytes (fst ma), obytes_val (snd ma))) (sg_assignment p)))).
Proof. exact sync_group_parses. Qed.
Print Assumptions C04_sync_group.

(* the consumer-protocol structures carried as BYTES by JoinGroup / SyncGroup *)
Theorem C04_subscription : forall version subs ud w,
  encode_join_group_protocol_metadata version subs ud = Ok w ->
  forallb present subs = true ->
  parse_subscription w = Some (version, map ubytes subs, ud).
Proof. exact subscription_parses. Qed.
Print Assumptions C04_subscription.

Theorem C04_assignment : forall version asg ud w,
  encode_sync_group_member_assignment version asg ud = Ok w ->
  forallb (fun tp => present (fst tp)) asg = true ->
  parse_assignment w = Some (version, map (fun tp : text * list Z => (abytes (fst tp), snd tp)) asg, ud).
Proof. exact assignment_parses. Qed.
Print Assumptions C04_assignment.

(* ApiVersions v0 is the header and nothing else; the header carries the key and version of the
   ApiVersionRequest that was passed in *)
Theorem C04_api_versions : forall orc cid corr w,
  encode_api_versions_request cid corr API_VERSIONS_KEY 0 = Ok w ->
  parse_request orc w = Some (mkSreq 18 0 corr (Some cid) SApiVersions).
Proof. exact api_versions_parses. Qed.
Print Assumptions C04_api_versions.

Theorem C04_api_versions_header : forall cid corr key ver w,
  encode_api_versions_request cid corr key ver = Ok w ->
  p_header w = Some ((key, ver, corr, Some cid), []).
Proof. exact api_versions_header. Qed.
Print Assumptions C04_api_versions_header.

(* ---- canon: what grouping does to a payload list (any payload type) ---- *)
Theorem C04_group_topic_order : forall {Pl} (topic : Pl -> text) (part : Pl -> Z) ps,
  map fst (group_by_topic_and_partition topic part ps) = first_seen text_eqb (map topic ps).
Proof. intros Pl. exact (@group_topic_order Pl). Qed.
Print Assumptions C04_group_topic_order.

Theorem C04_group_partition_order : forall {Pl} (topic : Pl -> text) (part : Pl -> Z) ps t,
  match aget text_eqb t (group_by_topic_and_partition topic part ps) with
  | Some inner => map fst inner = first_seen Z.eqb (map part (filter (for_topic topic t) ps))
  | None => filter (for_topic topic t) ps = []
  end.
Proof. intros Pl. exact (@group_partition_order Pl). Qed.
Print Assumptions C04_group_partition_order.

Theorem C04_group_last_wins : forall {Pl} (topic : Pl -> text) (part : Pl -> Z) ps t p,
  lookup2 t p (group_by_topic_and_partition topic part ps) = last_match (for_key topic part t p) ps.
Proof. intros Pl. exact (@group_last_wins Pl). Qed.
Print Assumptions C04_group_last_wins.

Theorem C04_group_sound : forall {Pl} (topic : Pl -> text) (part : Pl -> Z) ps t inner p x,
  In (t, inner) (group_by_topic_and_partition topic part ps) -> In (p, x) inner ->
  In x ps /\ topic x = t /\ part x = p.
Proof. intros Pl. exact (@group_sound Pl). Qed.
Print Assumptions C04_group_sound.

(* ---- the requests ARE emitted: well-formed arguments -> the encoder returns AND the bytes parse ----
   The theorems above are conditional on `encode = Ok w`.  The boolean predicates of Proofs/ReqWf.v say when that
   holds - every integer inside the range struct.pack accepts for its wire field ([in_i16] / [in_i32] / [in_i64] /
   [in_u8]), the client id at most 32767 bytes, every string encodable (ASCII resp. UTF-8) to at most 32767 bytes and,
   for the fields the grammar types STRING / BYTES (not the NULLABLE ones), PRESENT ([astr_wf], [ustr_wf], [bytes_wf] are
   false on None), counts and sizes at most 2^31-1.  At the level of a single writer the predicates are exact
   (PrimFacts.pack_ok_iff, write_short_bytes_ok_iff, ReqWf.astr_ok_iff, ustr_ok_iff).
   None for a non-nullable string is NOT rejected by afkak's encoders: they emit length -1, which is not a request of
   the grammar (Example null_string_not_grammatical); the public entry points never pass one (KafkaClient coerces
   topics and groups with _coerce_topic / _coerce_consumer_group, which raise TypeError on None; checked at run time). *)
Theorem C04_api_versions_wf : forall orc cid corr, hdr_wf cid corr = true ->
  exists w, encode_api_versions_request cid corr API_VERSIONS_KEY 0 = Ok w /\
            parse_request orc w = Some (mkSreq 18 0 corr (Some cid) SApiVersions).
Proof. exact api_versions_conforms. Qed.
Print Assumptions C04_api_versions_wf.

Theorem C04_produce_wf : forall orc clock cid corr ps acks timeout v,
  clock_wf clock -> produce_plain_wf cid corr ps acks timeout v = true ->
  exists w, encode_produce_request clock cid corr ps acks timeout v = Ok w /\
            parse_request orc w = Some (mkSreq 0 (produce_header_version v) corr (Some cid)
                                               (SProduce acks timeout (canon_produce clock ps))).
Proof. exact produce_conforms. Qed.
Print Assumptions C04_produce_wf.

Theorem C04_fetch_wf : forall orc cid corr ps max_wait min_bytes v, fetch_wf cid corr ps max_wait min_bytes v = true ->
  exists w, encode_fetch_request cid corr ps max_wait min_bytes v = Ok w /\
            parse_request orc w = Some (mkSreq 1 (fetch_header_version v) corr (Some cid)
                                               (SFetch (-1) max_wait min_bytes (canon_fetch ps))).
Proof. exact fetch_conforms. Qed.
Print Assumptions C04_fetch_wf.

Theorem C04_list_offsets_wf : forall orc cid corr ps, offsets_wf cid corr ps = true ->
  exists w, encode_offset_request cid corr ps = Ok w /\
            parse_request orc w = Some (mkSreq 2 0 corr (Some cid) (SListOffsets (-1) (canon_offsets ps))).
Proof. exact offsets_conforms. Qed.
Print Assumptions C04_list_offsets_wf.

Theorem C04_metadata_wf : forall orc cid corr topics, metadata_wf cid corr topics = true ->
  exists w, encode_metadata_request cid corr topics = Ok w /\
            parse_request orc w = Some (mkSreq 3 0 corr (Some cid) (SMetadata (map abytes topics))).
Proof. exact metadata_conforms. Qed.
Print Assumptions C04_metadata_wf.

Theorem C04_offset_commit_wf : forall orc cid corr group gen consumer ps, commit_wf cid corr group gen consumer ps = true ->
  exists w, encode_offset_commit_request cid corr group gen consumer ps = Ok w /\
            parse_request orc w = Some (mkSreq 8 1 corr (Some cid)
                                               (SOffsetCommit (abytes group) gen (abytes consumer) (canon_commit ps))).
Proof. exact offset_commit_conforms. Qed.
Print Assumptions C04_offset_commit_wf.

Theorem C04_offset_fetch_wf : forall orc cid corr group ps, ofetch_wf cid corr group ps = true ->
  exists w, encode_offset_fetch_request cid corr group ps = Ok w /\
            parse_request orc w = Some (mkSreq 9 1 corr (Some cid) (SOffsetFetch (abytes group) (canon_ofetch ps))).
Proof. exact offset_fetch_conforms. Qed.
Print Assumptions C04_offset_fetch_wf.

Theorem C04_find_coordinator_wf : forall orc cid corr group, hdr_wf cid corr && astr_wf group = true ->
  exists w, encode_consumermetadata_request cid corr group = Ok w /\
            parse_request orc w = Some (mkSreq 10 0 corr (Some cid) (SFindCoordinator (abytes group))).
Proof. exact find_coordinator_conforms. Qed.
Print Assumptions C04_find_coordinator_wf.

Theorem C04_join_group_wf : forall orc cid corr p, join_wf cid corr p = true ->
  exists w, encode_join_group_request cid corr p = Ok w /\
            parse_request orc w = Some (mkSreq 11 0 corr (Some cid)
              (SJoinGroup (ubytes (jg_group p)) (jg_session_timeout p) (ubytes (jg_member_id p)) (ubytes (jg_protocol_type p))
                          (map (fun gp => (abytes (fst gp), obytes_val (snd gp))) (jg_protocols p)))).
Proof. exact join_group_conforms. Qed.
Print Assumptions C04_join_group_wf.

Theorem C04_sync_group_wf : forall orc cid corr p, sync_wf cid corr p = true ->
  exists w, encode_sync_group_request cid corr p = Ok w /\
            parse_request orc w = Some (mkSreq 14 0 corr (Some cid)
              (SSyncGroup (ubytes (sg_group p)) (sg_generation_id p) (ubytes (sg_member_id p))
                          (map (fun ma => (ubytes (fst ma), obytes_val (snd ma))) (sg_assignment p)))).
Proof. exact sync_group_conforms. Qed.
Print Assumptions C04_sync_group_wf.

Theorem C04_heartbeat_wf : forall orc cid corr group gen member,
  hdr_wf cid corr && ustr_wf group && in_i32 gen && ustr_wf member = true ->
  exists w, encode_heartbeat_request cid corr group gen member = Ok w /\
            parse_request orc w = Some (mkSreq 12 0 corr (Some cid) (SHeartbeat (ubytes group) gen (ubytes member))).
Proof. exact heartbeat_conforms. Qed.
Print Assumptions C04_heartbeat_wf.

Theorem C04_leave_group_wf : forall orc cid corr group member,
  hdr_wf cid corr && ustr_wf group && ustr_wf member = true ->
  exists w, encode_leave_group_request cid corr group member = Ok w /\
            parse_request orc w = Some (mkSreq 13 0 corr (Some cid) (SLeaveGroup (ubytes group) (ubytes member))).
Proof. exact leave_group_conforms. Qed.
Print Assumptions C04_leave_group_wf.

Theorem C04_subscription_wf : forall version subs ud, subscription_wf version subs ud = true ->
  exists w, encode_join_group_protocol_metadata version subs ud = Ok w /\
            parse_subscription w = Some (version, map ubytes subs, ud).
Proof. exact subscription_conforms. Qed.
Print Assumptions C04_subscription_wf.

Theorem C04_assignment_wf : forall version asg ud, assignment_wf version asg ud = true ->
  exists w, encode_sync_group_member_assignment version asg ud = Ok w /\
            parse_assignment w = Some (version, map (fun tp : text * list Z => (abytes (fst tp), snd tp)) asg, ud).
Proof. exact assignment_conforms. Qed.
Print Assumptions C04_assignment_wf.

(* ---- payload lists with repeated (topic, partition) ----
   With distinct keys nothing is lost: every payload of the list is stored (and hence encoded) under its own key. *)
Theorem C04_group_complete : forall {Pl} (topic : Pl -> text) (part : Pl -> Z) ps x,
  keys_distinct topic part ps -> In x ps ->
  lookup2 (topic x) (part x) (group_by_topic_and_partition topic part ps) = Some x.
Proof. intros Pl. exact (@group_complete Pl). Qed.
Print Assumptions C04_group_complete.

(* WITHOUT distinct keys canon is not injective: the messages of an earlier payload for the same (topic, partition)
   never reach the wire (C04_group_last_wins) - two payload lists that differ in a message are encoded to the same
   bytes.  This is the encoder's documented dict semantics (_util.py:209-213); it is outside what afkak's own callers
   do: the Producer builds ONE payload per topic-partition (Props/C09.v, C09_one_payload: NoDup (map fst v)) and the
   Consumer sends one payload.  A direct caller of send_produce_request passing duplicates loses the earlier one. *)
Theorem C04_duplicate_keys_injective_refuted :
  pr_messages dup_first <> pr_messages dup_second /\
  exists w, encode_produce_request (fun _ => 0) [99] 1 [dup_first; dup_second] 1 1000 0 = Ok w /\
            encode_produce_request (fun _ => 0) [99] 1 [dup_second] 1 1000 0 = Ok w.
Proof. exact duplicate_keys_lose_messages. Qed.
Print Assumptions C04_duplicate_keys_injective_refuted.

(* ---- version negotiation ----
   [outs] = the outcomes of the successive ApiVersions attempts.  For every sequence in which each table
   answered with error code 0 comes from a broker that implements discovery ([table_ok]: Produce and Fetch
   advertised with minimum <= 0 and maximum >= 2), the resolved combination uses versions afkak implements,
   decodes replies with the layout of the version written in the request header, builds messages in the format of
   the produce version, and is either the all-zero fallback or lies inside the advertised [min, max]. *)
Theorem C04_negotiation : forall discovery outs c,
  (forall t, In (Answer 0 t) outs -> table_ok t = true) ->
  negotiate discovery outs = Some c ->
  implemented (ch_produce_header c) = true /\ implemented (ch_fetch_header c) = true /\
  ch_produce_decoder c = Some (ch_produce_header c) /\ ch_fetch_decoder c = Some (ch_fetch_header c) /\
  ch_magic c = (if (ch_produce_header c =? 2) then 1 else 0) /\
  (c = fallback_choice \/
   exists t, discovery = true /\ In (Answer 0 t) outs /\
             broker_supports t PRODUCE_KEY (ch_produce_header c) = true /\
             broker_supports t FETCH_KEY (ch_fetch_header c) = true).
Proof. exact negotiation_sound. Qed.
Print Assumptions C04_negotiation.

(* discovery failure (no answer with error code 0) selects version 0 for both, layouts 0, message format 0 *)
Theorem C04_negotiation_failure_selects_0 : forall discovery outs c,
  no_good_answer outs = true -> negotiate discovery outs = Some c -> c = fallback_choice.
Proof. exact negotiation_failure_selects_0. Qed.
Print Assumptions C04_negotiation_failure_selects_0.

Theorem C04_three_unavailable_selects_0 : forall rest,
  negotiate true (Unavailable :: Unavailable :: Unavailable :: rest) = Some fallback_choice.
Proof. exact three_unavailable_selects_0. Qed.
Print Assumptions C04_three_unavailable_selects_0.

Theorem C04_error_answer_selects_0 : forall code t rest,
  code <> 0 -> negotiate true (Answer code t :: rest) = Some fallback_choice.
Proof. exact error_answer_selects_0. Qed.
Print Assumptions C04_error_answer_selects_0.

Theorem C04_discovery_disabled_selects_0 : forall outs, negotiate false outs = Some fallback_choice.
Proof. exact discovery_disabled_selects_0. Qed.
Print Assumptions C04_discovery_disabled_selects_0.

(* overlapping lookups, any interleaving of calls and replies: at every instant the combination read off
   KafkaClient._api_versions is one of the two consistent ones *)
Theorem C04_choice_consistent_always : forall discovery evs c,
  (forall t, In t (answered_tables evs) -> table_ok t = true) ->
  choose (cell (run_events discovery evs)) = Some c ->
  implemented (ch_produce_header c) = true /\ implemented (ch_fetch_header c) = true /\
  ch_produce_decoder c = Some (ch_produce_header c) /\ ch_fetch_decoder c = Some (ch_fetch_header c) /\
  ch_magic c = (if (ch_produce_header c =? 2) then 1 else 0).
Proof. exact choice_consistent_always. Qed.
Print Assumptions C04_choice_consistent_always.

(* once resolved, the cell is FINAL, whatever calls, answers (tables or error codes) and failures of overlapping
   lookups follow (the first lookup to finish decides: fixes 276cfa2 / 8e462bd for findings F-C04-4 / F-C04-5): the
   format the Producer chose stays the format of the version the client writes, also for retries of the same payloads *)
Theorem C04_resolved_state_final : forall discovery a b,
  is_unknown (cell (run_events discovery a)) = false ->
  cell (run_events discovery (a ++ b)) = cell (run_events discovery a).
Proof. exact resolved_state_final. Qed.
Print Assumptions C04_resolved_state_final.

(* ---- non-vacuity ---- *)
Definition ex_cid : list Z := [97; 102; 107].                      (* b"afk" *)
Definition ex_topic : text := Some [116; 49].                      (* "t1" *)
Definition ex_fetch := [mkFetch ex_topic 3 100 4096; mkFetch (Some [116; 50]) 0 0 1; mkFetch ex_topic 1 7 9;
                        mkFetch ex_topic 3 101 5].
(* each Example: the encoder returns bytes, the hypotheses of the theorem hold, and the parse is the expected one
   (closed computations by vm_compute, no existential variables) *)
Example fetch_nonvacuous :
  topics_present fe_topic ex_fetch = true /\
  match encode_fetch_request ex_cid 77 ex_fetch 100 4096 2 with
  | Ok w => parse_request marker_oracle w =
              Some (mkSreq 1 2 77 (Some ex_cid)
                     (SFetch (-1) 100 4096 [([116; 49], [(3, 101, 5); (1, 7, 9)]); ([116; 50], [(0, 0, 1)])]))
  | Err _ => False
  end.
Proof. split; [vm_compute; reflexivity|]. vm_compute. reflexivity. Qed.

Example commit_nonvacuous :
  match encode_offset_commit_request ex_cid (-5) (Some [103]) 4 (Some [99; 49])
          [mkCommit ex_topic 0 10 (-1) None; mkCommit ex_topic 1 11 5 (Some [])] with
  | Ok w => parse_request marker_oracle w =
              Some (mkSreq 8 1 (-5) (Some ex_cid)
                     (SOffsetCommit [103] 4 [99; 49] [([116; 49], [(0, 10, -1, None); (1, 11, 5, Some [])])]))
  | Err _ => False
  end.
Proof. vm_compute. reflexivity. Qed.

Example join_nonvacuous :
  match encode_join_group_request ex_cid 1 (mkJoin (Some [103; 233]) 30000 (Some []) (Some [99])
          [(Some [114; 114], Some [0; 0; 0; 0; 0; 0; 255; 255; 255; 255])]) with
  | Ok w => parse_request marker_oracle w =
              Some (mkSreq 11 0 1 (Some ex_cid)
                     (SJoinGroup [103; 195; 169] 30000 [] [99] [([114; 114], [0; 0; 0; 0; 0; 0; 255; 255; 255; 255])]))
  | Err _ => False
  end.
Proof. vm_compute. reflexivity. Qed.

Definition ex_table : table := [mkEntry 18 0 0; mkEntry 1 0 5; mkEntry 0 0 3; mkEntry 3 0 2].
Example negotiation_nonvacuous :
  table_ok ex_table = true /\
  negotiate true [Unavailable; Answer 0 ex_table] = Some (mkChoice 3 2 (Some 2) 5 2 (Some 2) 1) /\
  negotiate true [Unavailable; Unavailable; Answer 35 []] = Some fallback_choice /\
  negotiate true [Unavailable; Unavailable] = None.
Proof. split; [vm_compute; reflexivity|]. split; [vm_compute; reflexivity|]. split; vm_compute; reflexivity. Qed.

(* Produce: both formats, null and empty keys/values, a format-1 message without timestamp (clock reading 1000),
   attribute bits outside the codec field, two partitions of one topic and a second topic *)
Definition ex_msgs0 := [mkMessage 0 0 None (Some [118]) None; mkMessage 0 8 (Some []) None None].
Definition ex_msgs1 := [mkMessage 1 0 (Some [107]) (Some []) (Some 1500000000123); mkMessage 1 0 None (Some [1; 255]) None].
Definition ex_produce := [mkProduce ex_topic 0 ex_msgs0; mkProduce (Some [116; 50]) 7 []; mkProduce ex_topic 1 ex_msgs1].
Example produce_nonvacuous :
  all_uncompressed ex_produce = true /\ topics_present pr_topic ex_produce = true /\
  match encode_produce_request (fun k => 1000 + Z.of_nat k) ex_cid 5 ex_produce 1 1000 2 with
  | Ok w => parse_request marker_oracle w =
              Some (mkSreq 0 2 5 (Some ex_cid) (SProduce 1 1000
                [([116; 49], [(0, [SPlain (mkPmsg 0 0 0 None None (Some [118])); SPlain (mkPmsg 0 0 8 None (Some []) None)]);
                              (1, [SPlain (mkPmsg 0 1 0 (Some 1500000000123) (Some [107]) (Some []));
                                   SPlain (mkPmsg 0 1 0 (Some 1000) None (Some [1; 255]))])]);
                 ([116; 50], [(7, [])])]))
  | Err _ => False
  end.
Proof. split; [vm_compute; reflexivity|]. split; [vm_compute; reflexivity|]. vm_compute. reflexivity. Qed.

(* the Producer's path with a gzip wrapper (marker oracle), format 1, version state = an advertised table *)
Definition ex_reqs : list send_request := [(Some [107], [Some [97]; None]); (None, [Some []])].
Example producer_nonvacuous :
  oracle_gzip_ok marker_oracle /\ resolved_ok (VTable ex_table) /\ forallb request_ok ex_reqs = true /\
  version_for (VTable ex_table) PRODUCE_KEY = Some 3 /\ producer_magic (VTable ex_table) = Some 1 /\
  match create_message_set marker_oracle (fun k => 50 + Z.of_nat k) ex_reqs CODEC_GZIP 1 with
  | Ok ms =>
      match encode_produce_request (fun _ => 0) ex_cid 9 [mkProduce ex_topic 4 ms] 1 1000 3 with
      | Ok w =>
          match parse_request marker_oracle w with
          | Some r => s_version r = 2 /\ format_matches_version r = true /\
                      match s_body r with
                      | SProduce 1 1000 [([116; 49], [(4, [SWrap wm inner])])] =>
                          p_magic wm = 1 /\ p_attr wm = 1 /\ p_ts wm = Some 53 /\
                          inner = [mkPmsg 0 1 0 (Some 50) (Some [107]) (Some [97]);
                                   mkPmsg 0 1 0 (Some 51) (Some [107]) None;
                                   mkPmsg 0 1 0 (Some 52) None (Some [])]
                      | _ => False
                      end
          | None => False
          end
      | Err _ => False
      end
  | Err _ => False
  end.
Proof.
  split; [exact marker_oracle_ok|]. split; [right; exists ex_table; split; vm_compute; reflexivity|].
  split; [vm_compute; reflexivity|]. split; [vm_compute; reflexivity|]. split; [vm_compute; reflexivity|].
  vm_compute. repeat split; reflexivity.
Qed.

(* the histories of findings F-C04-4 / F-C04-5 as regression vectors *)
Example race_nonvacuous :
  is_unknown (cell (run_events true race_prefix)) = false /\
  choose (cell (run_events true (race_prefix ++ [Reply 0 Unavailable]))) = Some (mkChoice 7 2 (Some 2) 10 2 (Some 2) 1) /\
  choose (cell (run_events true (race_prefix ++ [Reply 0 (Answer 35 [])]))) = Some (mkChoice 7 2 (Some 2) 10 2 (Some 2) 1).
Proof. split; [vm_compute; reflexivity|]. split; vm_compute; reflexivity. Qed.

(* None where the grammar has a non-nullable STRING: the encoder returns, the bytes (length -1) are not a request *)
Example null_string_not_grammatical :
  metadata_wf ex_cid 1 [None] = false /\
  match encode_metadata_request ex_cid 1 [None] with
  | Ok w => w = [0; 3; 0; 0; 0; 0; 0; 1; 0; 3; 97; 102; 107; 0; 0; 0; 1; 255; 255] /\ parse_request marker_oracle w = None
  | Err _ => False
  end.
Proof. split; [reflexivity|]. vm_compute. split; reflexivity. Qed.

(* well-formedness is satisfiable, also at the boundaries *)
Example wf_nonvacuous :
  fetch_wf ex_cid 2147483647 ex_fetch (-2147483648) 0 32767 = true /\
  produce_plain_wf ex_cid (-1) ex_produce (-1) 2147483647 2 = true /\
  clock_wf (fun _ => 1000) /\
  commit_wf [] 0 (Some []) (-1) (Some []) [mkCommit ex_topic 0 9223372036854775807 (-1) None] = true /\
  join_wf ex_cid 1 (mkJoin (Some [103; 233]) 30000 (Some []) (Some [99]) [(Some [114], Some [])]) = true /\
  fetch_wf ex_cid 2147483648 ex_fetch 0 0 0 = false /\
  metadata_wf ex_cid 1 [Some [233]] = false.
Proof.
  split; [vm_compute; reflexivity|]. split; [vm_compute; reflexivity|]. split; [intros k; reflexivity|].
  split; [vm_compute; reflexivity|]. split; [vm_compute; reflexivity|]. split; vm_compute; reflexivity.
Qed.

(* literal wire bytes, independent of every shared function: a non-BMP code point in a UTF-8 STRING field
   (U+1F600 = F0 9F 98 80) and the CRC-32 check value 0xCBF43926 of "123456789" *)
Example literal_utf8_heartbeat :
  encode_heartbeat_request [] 0 (Some [128512]) 7 (Some [233])
  = Ok [0; 12; 0; 0; 0; 0; 0; 0; 0; 0;  0; 4; 240; 159; 152; 128;  0; 0; 0; 7;  0; 2; 195; 169].
Proof. vm_compute. reflexivity. Qed.
Example literal_crc_check_value : Crc.crc32 [49; 50; 51; 52; 53; 54; 55; 56; 57] = 0xCBF43926.
Proof. vm_compute. reflexivity. Qed.
