(* C10 - After a connection drop, unanswered requests are re-sent once, in order.
   Theorem statements only; proofs live in Proofs/.  Never weaken a statement here.

   Vocabulary (Model/BrokerClient.v, Proofs/BrokerClientC10.v):
     writes / connects / scheds outs   the OWrite (handle, id) / OConnect addr / OSched k outputs of a trace, in order
     OSched k                          reactor.callLater(retryPolicy(k), ..): k is the failure count handed to the policy
     pending s                         handles of the Deferreds that have not fired, ascending = issue order
     lost_reqs / live                  what _connectionLost keeps: not cancelled entries, marked unsent
     quiet e                           events that cannot touch the table while no connection is up
                                       (connect failure, timer, disconnect(), updateMetadata, and the disabled ones)
     CInv                              invariant of every reachable state (C10_reachable) *)
From AV Require Import Base.Util Model.Framing Model.BrokerClient Model.BrokerClientHook Model.BrokerClientSync Model.BrokerClientWrite
  Proofs.BrokerClientTbl Proofs.BrokerClientInv Proofs.BrokerClientC06 Proofs.BrokerClientC10 Proofs.BrokerClientExtra Proofs.BrokerClientHook Proofs.BrokerClientGaps Proofs.BrokerClientSync Proofs.BrokerClientWrite.

Theorem C10_reachable : forall evs, CInv (fst (run init evs)).
Proof. exact reachable_inv. Qed.
Print Assumptions C10_reachable.

(* Whenever a connection comes up (from ANY reachable state with an attempt pending - after one loss or many, after
   failed attempts, with cancellations, new requests, updateMetadata in between): what is written on it is exactly the
   table, which is exactly the set of Deferreds that have not fired (unanswered, not cancelled, not completed without
   reply, not failed), in issue order, each once; requests that expect no reply complete right there; afterwards the
   table holds the reply-expecting ones, all marked sent; the failure counter is reset. *)
Theorem C10_resend : forall s, CInv s -> s_connector s = CAttempt ->
  exists s', step s EConnOk = (s', sq_outs (t_reqs (s_t s)))
    /\ writes (sq_outs (t_reqs (s_t s))) = map (fun r => (r_h r, r_id r)) (t_reqs (s_t s))
    /\ map r_h (t_reqs (s_t s)) = pending s
    /\ NoDup (map r_h (t_reqs (s_t s)))
    /\ t_reqs (s_t s') = sq_reqs (t_reqs (s_t s)) /\ s_proto s' = true /\ s_failures s' = 0%nat.
Proof. exact resend. Qed.
Print Assumptions C10_resend.

(* In the words of the property: take any connected state, lose the connection, let the environment do anything that
   is not an API call (failed attempts, timers - any number), then connect: the writes are exactly the entries that
   were not cancelled when the connection was lost (answered ones and no-reply ones are not in the table at all:
   CInv), in table = issue order, no handle twice; nothing was written in between. *)
Theorem C10_resend_at_loss : forall s s1 o1 mid s2 o2, CInv s -> s_proto s = true -> s_down s = DNone ->
  step s ELost = (s1, o1) -> Forall (fun e => quiet e = true) mid -> run s1 mid = (s2, o2) ->
  s_connector s2 = CAttempt ->
  exists s3 o3, step s2 EConnOk = (s3, o3)
    /\ writes o3 = map (fun r => (r_h r, r_id r)) (filter live (t_reqs (s_t s)))
    /\ NoDup (map fst (writes o3))
    /\ writes o1 = [] /\ writes o2 = [].
Proof. exact resend_at_loss. Qed.
Print Assumptions C10_resend_at_loss.

(* Never re-sent: once a Deferred fired (answered, cancelled, written without reply, failed by close) its request is
   never written again, on this or any later connection. *)
Theorem C10_never_resent : forall evs s outs a h oc b, run init evs = (s, outs) -> outs = a ++ ODef h oc :: b ->
  forall rid, ~ In (OWrite h rid) b.
Proof. exact never_resent. Qed.
Print Assumptions C10_never_resent.

(* Once per connection: over any stretch of events without a connection loss (from any reachable state), every
   request is written at most once; it is written only if it was still unwritten (or not yet made), and then it is
   no longer writable. *)
Theorem C10_once_per_connection : forall evs s s' o h, CInv s -> Forall (fun e => e <> ELost) evs ->
  run s evs = (s', o) ->
  (wcount h o <= 1)%nat
  /\ (wcount h o = 1%nat -> writable s h /\ ~ writable s' h)
  /\ (writable s' h -> writable s h).
Proof. exact write_once. Qed.
Print Assumptions C10_once_per_connection.

(* Once per connection, lower bound, at the level of traces (C10_table_shape only speaks about the flag r_sent): every
   run that ends connected splits at the point where the connection that is up was established (an enabled EConnOk),
   the connection was never lost afterwards, and every entry of the final table was WRITTEN - an OWrite with its handle
   and id - at or after that point. *)
Theorem C10_written_on_current_connection : forall evs s outs, run init evs = (s, outs) -> s_proto s = true ->
  exists evs1 evs2 s1 o1 s2 oc o2, evs = evs1 ++ EConnOk :: evs2 /\ run init evs1 = (s1, o1)
    /\ s_connector s1 = CAttempt /\ step s1 EConnOk = (s2, oc) /\ stays_up s2 evs2 /\ run s2 evs2 = (s, o2)
    /\ outs = o1 ++ oc ++ o2
    /\ forall r, In r (t_reqs (s_t s)) -> In (OWrite (r_h r) (r_id r)) (oc ++ o2).
Proof. exact written_on_current_connection. Qed.
Print Assumptions C10_written_on_current_connection.

(* every write carries the id its request was made with *)
Theorem C10_write_own_id : forall evs s outs h rid, run init evs = (s, outs) -> In (OWrite h rid) outs ->
  nth_error (t_dlog (s_t s)) h = Some rid.
Proof. exact write_own_id. Qed.
Print Assumptions C10_write_own_id.

(* Reconnect iff pending.  A dropped connection (client not closed): if any request is left that was not cancelled, a
   new attempt starts at once, to the current address, with the failure count reset; otherwise nothing happens and the
   client is idle with an empty table. *)
Theorem C10_reconnect_iff_pending : forall s s' o, CInv s -> s_proto s = true -> s_down s = DNone ->
  step s ELost = (s', o) ->
  t_reqs (s_t s') = lost_reqs (t_reqs (s_t s)) /\ s_proto s' = false /\
  ((exists r, In r (t_reqs (s_t s)) /\ r_cancelled r = false) ->
     o = [OConnect (s_addr s)] /\ s_connector s' = CAttempt /\ s_failures s' = 0%nat) /\
  ((forall r, In r (t_reqs (s_t s)) -> r_cancelled r = true) ->
     o = [] /\ (s_proto s' = false /\ s_connector s' = CNone /\ s_down s' = DNone) /\ t_reqs (s_t s') = []).
Proof. exact reconnect_on_loss. Qed.
Print Assumptions C10_reconnect_iff_pending.

(* Re-established WHENEVER unanswered requests remain - not only at the moment of the loss: in every reachable state of
   a client that is not closed, if the table is non-empty and no connection is up then an attempt or a back-off timer is
   pending (whatever sequence of losses, failures, cancels and requests led there). *)
Theorem C10_never_stuck : forall evs s outs, run init evs = (s, outs) ->
  s_down s = DNone -> s_proto s = false -> t_reqs (s_t s) <> [] ->
  s_connector s = CAttempt \/ s_connector s = CTimer.
Proof. exact never_stuck. Qed.
Print Assumptions C10_never_stuck.

(* never an attempt or a timer while a connection is up (so never a second connection) *)
Theorem C10_one_connection : forall evs s outs, run init evs = (s, outs) -> s_proto s = true -> s_connector s = CNone.
Proof. exact one_connection. Qed.
Print Assumptions C10_one_connection.

(* what the table holds: with a connection up only requests written on it that expect a reply (answered, no-reply and
   unwritten-cancelled ones are gone); with none up nothing is marked written and there is no tombstone - so what the
   next connection writes (C10_resend: the whole table) contains no cancelled, answered or no-reply request *)
Theorem C10_table_shape : forall evs s outs, run init evs = (s, outs) ->
  (s_proto s = true -> Forall (fun r => r_sent r = true /\ r_expect r = true) (t_reqs (s_t s)))
  /\ (s_proto s = false -> Forall (fun r => r_sent r = false /\ r_cancelled r = false) (t_reqs (s_t s))).
Proof. exact table_shape. Qed.
Print Assumptions C10_table_shape.

(* What "idle" does NOT cover.  C10_reconnect_iff_pending speaks about the moment of the loss, and "idle" means: no
   connection, no attempt, no timer.  A client whose requests were all cancelled WHILE an attempt or timer was pending is
   not idle: cancel() removes the request but does not stop the connect loop (brokerclient.py has no such code), so the
   timer still fires, the attempt is still made, and - if it fails again - the loop goes on with an empty table (Example
   cancelled_during_backoff_keeps_connecting below).  The property's sentence is "re-established WHENEVER unanswered
   requests remain" (a sufficient condition, proved: C10_never_stuck) and "an idle dropped connection is re-opened only
   on the next request" (about a connection that dropped with nothing pending, proved: C10_reconnect_iff_pending second
   half + C10_idle_connects_on_request); it does not say that attempts stop when requests are cancelled during back-off.
   Read as not a violation; recorded here so that nobody reads the theorems as saying more. *)

(* ... and an idle client opens a connection on the next request and on nothing else: every other event leaves it
   idle without any connection attempt (close ends it, also without one). *)
Theorem C10_idle_connects_on_request : forall s e s' o, CInv s ->
  (s_proto s = false /\ s_connector s = CNone /\ s_down s = DNone) -> step s e = (s', o) ->
  match e with
  | EMake rid ex => o = [OConnect (s_addr s)] /\ s_connector s' = CAttempt /\ s_failures s' = 0%nat
                    /\ t_reqs (s_t s') = [mkReq rid (length (t_dlog (s_t s))) ex false false]
  | EClose => connects o = []
  | _ => connects o = [] /\ (s_proto s' = false /\ s_connector s' = CNone /\ s_down s' = DNone)
  end.
Proof. exact idle_connects. Qed.
Print Assumptions C10_idle_connects_on_request.

(* Back-off.  A failed attempt arms a timer with policy(failures + 1) and nothing else; the timer starts the next
   attempt; over any stretch of events while connecting (no close, no success - API calls and anything else allowed)
   the timer indices are consecutive integers, so the k-th failure in a row waits policy(k); success (C10_resend) and
   every fresh connect (C10_reconnect_iff_pending, C10_idle_connects_on_request) reset the count to 0. *)
Theorem C10_backoff_fail : forall s, CInv s -> s_connector s = CAttempt ->
  step s EConnFail = (with_connector (with_failures s (S (s_failures s))) CTimer, [OSched (S (s_failures s))]).
Proof. exact backoff_fail. Qed.
Print Assumptions C10_backoff_fail.

Theorem C10_backoff_fire : forall s, s_connector s = CTimer ->
  step s EFire = (with_connector s CAttempt, [OConnect (s_addr s)]).
Proof. exact backoff_fire. Qed.
Print Assumptions C10_backoff_fire.

Theorem C10_backoff : forall evs s s' o, CInv s -> (s_connector s = CAttempt \/ s_connector s = CTimer) ->
  Forall (fun e => e <> EClose /\ e <> EConnOk) evs -> run s evs = (s', o) ->
  (s_connector s' = CAttempt \/ s_connector s' = CTimer) /\ (s_failures s <= s_failures s')%nat
  /\ scheds o = seq (S (s_failures s)) (s_failures s' - s_failures s).
Proof. exact backoff_run. Qed.
Print Assumptions C10_backoff.

(* Back-off BETWEEN attempts: while an attempt or a back-off timer is pending nothing but the timer firing starts a
   connection attempt - not makeRequest, not cancel, not the failure of the pending attempt, not updateMetadata. *)
Theorem C10_no_early_attempt : forall s e, CInv s -> (s_connector s = CAttempt \/ s_connector s = CTimer) ->
  connects (snd (step s e)) = []
  \/ (e = EFire /\ s_connector s = CTimer /\ snd (step s e) = [OConnect (s_addr s)]).
Proof. exact no_early_attempt. Qed.
Print Assumptions C10_no_early_attempt.

(* Close.  At close(): every Deferred that had not fired fails with ClientError (newest first), so none is left
   pending; a pending attempt / back-off timer is cancelled, a live transport is asked to close (then the close
   Deferred waits for the loss, otherwise it fires at once); nothing is written, no attempt, no timer. *)
Theorem C10_close : forall s s' o, CInv s -> s_down s = DNone -> step s EClose = (s', o) ->
  s_down s' <> DNone /\ t_reqs (s_t s') = []
  /\ (forall h, (h < length (t_dlog (s_t s)))%nat -> In h (t_fired (s_t s')))
  /\ defs o = map (fun r => ODef (r_h r) FailClosed) (filter live (rev (t_reqs (s_t s))))
  /\ writes o = [] /\ connects o = [] /\ scheds o = []
  /\ (s_proto s = true -> In OLose o /\ s_down s' = DPending /\ ~ In OCloseFired o)
  /\ (s_proto s = false -> In OCloseFired o /\ s_down s' = DFired)
  /\ (s_connector s = CAttempt -> In OCancelAttempt o)
  /\ (s_connector s = CTimer -> In OCancelTimer o)
  /\ ~ (s_connector s' = CAttempt \/ s_connector s' = CTimer).
Proof. exact close_step. Qed.
Print Assumptions C10_close.

(* ... and for EVERY continuation after that: never a write, a connection attempt or a timer again; the only
   Deferreds that fire are those of new makeRequest calls, with ClientError. *)
Theorem C10_closed_forever : forall evs s s' o, CInv s -> s_down s <> DNone -> run s evs = (s', o) ->
  s_down s' <> DNone /\ writes o = [] /\ connects o = [] /\ scheds o = []
  /\ (forall h oc, In (ODef h oc) o -> oc = FailClosed).
Proof. exact closed_forever. Qed.
Print Assumptions C10_closed_forever.

(* the close Deferred fires exactly when there is no transport left: never twice (no OErr: C06_exactly_once) *)

(* ------------------------------------------------------------------ user code inside the two loops (finding F-C10-1)
   Model/BrokerClientHook.v: in exactly two places a Deferred of the class fires while a method is still looping over
   the request table - _sendQueued (callback of a no-reply request) and close() (errback of every pending request).
   IConnOk inter / IClose inter take the calls user code makes there (cancel of any request, makeRequest, disconnect,
   close - any number, in any order, per Deferred) as a parameter, so "for all inter" is "whatever user callbacks do".
   Everywhere else a Deferred fires in tail position and a call from its callback is the next event.
   [irun true] is the code as it is now (commit 7c12cf4). *)

(* every state reachable with such callbacks satisfies the same invariant, so every step-level theorem above applies *)
Theorem C10_reentrant_reachable : forall evs, CInv (fst (irun true init evs)).
Proof. exact reachable_inv_i. Qed.
Print Assumptions C10_reentrant_reachable.

(* a request whose Deferred fired - in particular one failed by a close() or cancelled from inside a loop - is never
   written, on this or any later connection *)
Theorem C10_reentrant_never_resent : forall evs s outs a h oc b,
  irun true init evs = (s, outs) -> outs = a ++ ODef h oc :: b -> forall rid, ~ In (OWrite h rid) b.
Proof. exact never_resent_i. Qed.
Print Assumptions C10_reentrant_never_resent.

(* close() leaves no Deferred pending and no table entry, whatever user errbacks do inside its loop *)
Theorem C10_reentrant_close_all_fired : forall inter s s' o, CInv s -> s_down s = DNone -> close_i inter s = (s', o) ->
  t_reqs (s_t s') = [] /\ s_down s' <> DNone
  /\ forall h, (h < length (t_dlog (s_t s')))%nat -> In h (t_fired (s_t s')).
Proof. exact close_i_all_fired. Qed.
Print Assumptions C10_reentrant_close_all_fired.

(* with no user code in the loops the extended machine is the machine of Model/BrokerClient.v *)
Theorem C10_reentrant_conservative : forall evs s, CInv s -> irun true s (map plain evs) = run s evs.
Proof. exact irun_conservative. Qed.
Print Assumptions C10_reentrant_conservative.

(* the loop of _sendQueued as it was before the repair (`if tReq.sent is None` only; an approximation of the old code
   for detached no-reply entries, see the model header - the run-time probe in harness/props/C10.py is what ties this
   to the code): close() from the callback of a no-reply request, and the request queued behind it is written after
   close() failed its Deferred *)
Theorem C10_unguarded_flush_refuted : exists evs s outs a h oc b rid,
  irun false init evs = (s, outs) /\ outs = a ++ ODef h oc :: b /\ In (OWrite h rid) b.
Proof. exact unguarded_flush_refuted. Qed.
Print Assumptions C10_unguarded_flush_refuted.

(* ------------------------------------------------------------------ a write that raises (Model/BrokerClientWrite.v)
   sendString / transport.write raising inside _sendRequest (brokerclient.py:370-373): the entry is deleted and the
   Deferred errbacks with the exception (WFail h).  Every reachable state still satisfies the invariant, and a request
   whose Deferred fired - in particular one whose WRITE FAILED - is never written again, on that or any later connection
   (the ghost re-send of seeded change C06-m5); nor is a completed request ever failed by a write. *)
Theorem C10_write_failure_reachable : forall evs, CInv (w_s (fst (wrun winit evs))).
Proof. exact reachable_inv_w. Qed.
Print Assumptions C10_write_failure_reachable.

Theorem C10_write_failure_never_resent : forall evs ws outs a x h b, wrun winit evs = (ws, outs) -> outs = a ++ x :: b ->
  (x = WFail h \/ exists oc, x = WO (ODef h oc)) ->
  forall y, In y b -> y <> WFail h /\ (forall oc, y <> WO (ODef h oc)) /\ (forall rid, y <> WO (OWrite h rid)).
Proof. exact never_resent_w. Qed.
Print Assumptions C10_write_failure_never_resent.

(* ------------------------------------------------------------------ connect() completing synchronously
   Model/BrokerClientSync.v transcribes tryConnect (brokerclient.py:421-429) for an endpoint whose connect() returns an
   ALREADY fired Deferred: `self.connector = d` is assigned first, then addCallback(cbConnect) / addErrback(ebConnect) run
   the callback at once.  [sstep s e m]: the step with the connect mode m of the attempt it may start (None pending,
   Some true succeeded inside the call, Some false failed inside the call). *)

(* THE SIMULATION, for every reachable state, every event, every mode: the synchronous step IS the asynchronous step
   followed at once by the outcome event - if the step started an attempt at all; otherwise the mode is irrelevant.
   There is no exception to list: the three callers of tryConnect call it as their last statement. *)
Theorem C10_sync_step_simulation : forall s e m, CInv s ->
  sstep s e m =
  match m with
  | Some b => if existsb is_connect (snd (step s e))
              then (fst (step (fst (step s e)) (outcome_ev b)), snd (step s e) ++ snd (step (fst (step s e)) (outcome_ev b)))
              else step s e
  | None => step s e
  end.
Proof. exact sstep_sim. Qed.
Print Assumptions C10_sync_step_simulation.

(* whole histories: a history with synchronous outcomes is the asynchronous history [expand] of Model/BrokerClient.v, so
   EVERY theorem above about runs and reachable states holds for it; the ones the property names are restated *)
Theorem C10_sync_run_is_async_run : forall evs s, CInv s -> srun s evs = run s (expand s evs).
Proof. exact srun_expand. Qed.
Print Assumptions C10_sync_run_is_async_run.

Theorem C10_sync_reachable : forall evs, CInv (fst (srun init evs)).
Proof. exact reachable_inv_sync. Qed.
Print Assumptions C10_sync_reachable.

Theorem C10_sync_never_resent : forall evs s outs a h oc b, srun init evs = (s, outs) -> outs = a ++ ODef h oc :: b ->
  forall rid, ~ In (OWrite h rid) b.
Proof. exact never_resent_sync. Qed.
Print Assumptions C10_sync_never_resent.

(* close() - also during the back-off that followed a SYNCHRONOUS failure (seeded change C10-m8) - and then for every
   continuation, whatever the connect modes: never a write, an attempt or a timer again *)
Theorem C10_sync_closed_forever : forall evs s s' o, CInv s -> s_down s <> DNone -> srun s evs = (s', o) ->
  s_down s' <> DNone /\ writes o = [] /\ connects o = [] /\ scheds o = []
  /\ (forall h oc, In (ODef h oc) o -> oc = FailClosed).
Proof. exact closed_forever_sync. Qed.
Print Assumptions C10_sync_closed_forever.

(* ------------------------------------------------------------------ non-vacuity *)
(* a connected state with an answered (id 3), a cancelled-but-written (id 1), a no-reply (id 4) and two live
   requests (ids 2, 5): lost, two failed attempts, then connected - exactly 2 and 5 are written, in that order *)
Example resend_nonvacuous :
  let pre := [EMake 1 true; EMake 2 true; EMake 3 true; EConnOk; EMake 4 false; ECancel 0; EFrame [0;0;0;3]; EMake 5 true] in
  let s := fst (run init pre) in
  s_proto s = true /\ s_down s = DNone
  /\ map (fun r => (r_id r, r_cancelled r)) (t_reqs (s_t s)) = [(1, true); (2, false); (5, false)]
  /\ snd (run s [ELost; EConnFail; EFire; EConnFail; EFire; EConnOk])
     = [OConnect 0; OSched 1; OConnect 0; OSched 2; OConnect 0; OWrite 1 2; OWrite 4 5].
Proof. vm_compute. repeat split. Qed.

(* idle after a loss with only a tombstone left; the next request reconnects *)
Example idle_nonvacuous :
  let s := fst (run init [EMake 1 true; EConnOk; ECancel 0; ELost]) in
  (s_proto s = false /\ s_connector s = CNone /\ s_down s = DNone)
  /\ snd (run init [EMake 1 true; EConnOk; ECancel 0; ELost]) = [OConnect 0; OWrite 0 1; ODef 0 FailCancelled]
  /\ snd (step s (EMake 7 true)) = [OConnect 0].
Proof. vm_compute. repeat split. Qed.

(* F-C10-1 witness on the current loop: request 1 (no reply) is written, its callback closes the client, request 2 is
   failed and NOT written.  A callback that cancels request 2 and re-issues id 2: the old request 2 is skipped, the new
   one was written at once.  An errback inside close() that cancels the oldest request: it ends cancelled, not closed. *)
Example reentrant_nonvacuous :
  snd (irun true init [IEv (EMake 1 false); IEv (EMake 2 true); IConnOk [(0%nat, [C0 CClose0])]])
  = [OConnect 0; OWrite 0 1; ODef 0 SuccNone; OLose; ODef 1 FailClosed]
  /\ snd (irun true init [IEv (EMake 1 false); IEv (EMake 2 true); IEv (EMake 3 true);
                          IConnOk [(0%nat, [C0 (CCancel 1); C0 (CMake 2 true)])]])
  = [OConnect 0; OWrite 0 1; ODef 0 SuccNone; ODef 1 FailCancelled; OWrite 3 2; OWrite 2 3]
  /\ snd (irun true init [IEv (EMake 1 true); IEv (EMake 2 true); IClose [(1%nat, [CCancel 0; CMake 3 true; CClose0])]])
  = [OConnect 0; OCancelAttempt; OCloseFired; ODef 1 FailClosed; ODef 0 FailCancelled; ODef 2 FailClosed; ORaised 2].
Proof. vm_compute. repeat split. Qed.

Example cancelled_during_backoff_keeps_connecting :
  snd (run init [EMake 1 true; EConnFail; ECancel 0; EFire; EConnFail; EFire])
  = [OConnect 0; OSched 1; ODef 0 FailCancelled; OConnect 0; OSched 2; OConnect 0]
  /\ t_reqs (s_t (fst (run init [EMake 1 true; EConnFail; ECancel 0; EFire]))) = [].
Proof. vm_compute. split; reflexivity. Qed.

(* connect() fails inside makeRequest; close() during that back-off cancels the timer, fires, fails the request; the
   timer event afterwards does nothing.  Then: synchronous success inside makeRequest writes the request at once. *)
Example sync_nonvacuous :
  snd (srun init [(EMake 1 true, Some false); (EClose, None); (EFire, None)])
  = [OConnect 0; OSched 1; OCancelTimer; OCloseFired; ODef 0 FailClosed]
  /\ snd (srun init [(EMake 1 true, Some true); (ELost, Some false); (EFire, Some true)])
  = [OConnect 0; OWrite 0 1; OConnect 0; OSched 1; OConnect 0; OWrite 0 1]
  /\ expand init [(EMake 1 true, Some true); (ELost, Some false); (EFire, Some true)]
  = [EMake 1 true; EConnOk; ELost; EConnFail; EFire; EConnOk].
Proof. vm_compute. repeat split. Qed.

(* close while backing off, with two requests waiting; later events do nothing *)
Example close_nonvacuous :
  snd (run init [EMake 1 true; EMake 2 true; EConnFail; EClose; EFire; EConnOk; EMake 3 true; EFrame [0;0;0;1]])
  = [OConnect 0; OSched 1; OCancelTimer; OCloseFired; ODef 1 FailClosed; ODef 0 FailClosed; ODef 2 FailClosed].
Proof. vm_compute. reflexivity. Qed.
