(* C05 - Responses and message sets decode to exactly what was encoded.
   Theorem statements only; proofs live in Proofs/Resp{Prim,RoundTrip,MsgSet,C05}.v.  Never weaken a statement here.

   Vocabulary
     Model.KafkaSpecResp   enc_<api>    the INDEPENDENT encoder: the response grammar of the Kafka protocol guide
                           enc_kforest  message sets (formats 0 and 1) as trees of plain messages and compressed
                                        wrappers; log_of = what a consumer must see, by the protocol's offset rules
     Model.Responses       decode_*     afkak's decoders (kafkacodec.py), Model.MsgSet.dec_set = _decode_message_set_iter
     Model.RespView        wf_<api>     boolean well-formedness: every integer in the range of its wire type, STRING
                                        <= 32767 bytes and valid ASCII (topic / host names) or UTF-8 (group protocol,
                                        member ids), BYTES / ARRAY <= 2^31-1; NO other bound: any number of topics,
                                        partitions, members, offsets, any error code, any value, null vs empty kept
                           view_<api>   the value the decoder must return, field for field
   Generators (produce, fetch, offsets, offset commit, offset fetch) are modelled by (items yielded, outcome);
   outcome [Ok []] = exhausted normally with the whole buffer consumed.  Every statement is for ALL responses. *)
From AV Require Import Base.Util Model.Prim Model.Crc Model.MsgSet Model.KafkaSpecResp Model.Responses Model.RespView
     Proofs.Truncation Proofs.RespPrim Proofs.RespRoundTrip Proofs.RespMsgSet Proofs.RespAfkakSet Proofs.RespC05.

(* ================================================================== 1. responses, one theorem per API / version *)

(* response header: the correlation id comes back whatever follows it *)
Theorem C05_correlation_id : forall corr rest,
  i32 corr = true -> get_response_correlation_id (INT32 corr ++ rest) = Ok corr.
Proof. exact c05_correlation. Qed.
Print Assumptions C05_correlation_id.

Theorem C05_api_versions : forall r,
  wf_apiversions r = true -> decode_api_versions_response (enc_apiversions r) = Ok (view_apiversions r).
Proof. exact apiversions_rt. Qed.
Print Assumptions C05_api_versions.

Theorem C05_produce_v0 : forall r,
  wf_produce r = true -> decode_produce_response 0 (enc_produce 0 r) = Some (view_produce r, Ok []).
Proof. exact c05_produce_v0. Qed.
Print Assumptions C05_produce_v0.

(* api_version >= 2 selects the version-2 layout (afkak sends Produce v2 for every negotiated version >= 2) *)
Theorem C05_produce_v2 : forall ver r,
  2 <= ver -> wf_produce r = true -> decode_produce_response ver (enc_produce 2 r) = Some (view_produce r, Ok []).
Proof. exact c05_produce_v2. Qed.
Print Assumptions C05_produce_v2.

(* Fetch: every field of every partition; the record set (null = empty) goes to the message-set decoder unchanged,
   for ANY bytes, oracle and depth budget (section 2 says what that decoder yields on encoded message sets) *)
Theorem C05_fetch_v0 : forall depth orc r,
  wf_fetch r = true -> decode_fetch_response 0 depth orc (enc_fetch 0 r) = (view_fetch depth orc r, Ok []).
Proof. exact c05_fetch_v0. Qed.
Print Assumptions C05_fetch_v0.

Theorem C05_fetch_v2 : forall ver depth orc r,
  2 <= ver -> wf_fetch r = true ->
  decode_fetch_response ver depth orc (enc_fetch 2 r) = (view_fetch depth orc r, Ok []).
Proof. exact c05_fetch_v2. Qed.
Print Assumptions C05_fetch_v2.

Theorem C05_list_offsets : forall r,
  wf_offsets r = true -> decode_offset_response (enc_offsets r) = (view_offsets r, Ok []).
Proof. exact c05_offsets. Qed.
Print Assumptions C05_list_offsets.

(* brokers / topics / partitions become dicts (a repeated key keeps its first position and its last value);
   at most MAX_BROKERS = 1024 brokers is part of wf_metadata (afkak refuses more) *)
Theorem C05_metadata : forall r,
  wf_metadata r = true -> decode_metadata_response (enc_metadata r) = Ok (view_metadata r).
Proof. exact c05_metadata. Qed.
Print Assumptions C05_metadata.

(* with distinct node ids, topic names and (per topic) partition ids nothing is merged: every broker, topic and
   partition of the response, in order ([plain_metadata] = plain maps over the response, no dict function) *)
Theorem C05_metadata_unique_keys : forall r,
  wf_metadata r = true ->
  NoDup (map sb_node (sm_brokers r)) -> NoDup (map smt_name (sm_topics r)) ->
  (forall t, In t (sm_topics r) -> NoDup (map smp_index (smt_parts t))) ->
  decode_metadata_response (enc_metadata r) = Ok (plain_metadata r).
Proof. exact c05_metadata_unique. Qed.
Print Assumptions C05_metadata_unique_keys.

Theorem C05_offset_commit : forall r,
  wf_commit r = true -> decode_offset_commit_response (enc_commit r) = (view_commit r, Ok []).
Proof. exact c05_commit. Qed.
Print Assumptions C05_offset_commit.

(* metadata is a NULLABLE_STRING: null stays None, empty stays b"" *)
Theorem C05_offset_fetch : forall r,
  wf_ofetch r = true -> decode_offset_fetch_response (enc_ofetch r) = (view_ofetch r, Ok []).
Proof. exact c05_ofetch. Qed.
Print Assumptions C05_offset_fetch.

Theorem C05_find_coordinator : forall r,
  wf_coordinator r = true -> decode_consumermetadata_response (enc_coordinator r) = Ok (view_coordinator r).
Proof. exact c05_coordinator. Qed.
Print Assumptions C05_find_coordinator.

Theorem C05_join_group : forall r,
  wf_join r = true -> decode_join_group_response (enc_join r) = Ok (view_join r).
Proof. exact c05_join. Qed.
Print Assumptions C05_join_group.

Theorem C05_heartbeat : forall r,
  wf_errcode r = true -> decode_heartbeat_response (enc_heartbeat r) = Ok (se_error r).
Proof. exact c05_heartbeat. Qed.
Print Assumptions C05_heartbeat.

Theorem C05_leave_group : forall r,
  wf_errcode r = true -> decode_leave_group_response (enc_leave r) = Ok (se_error r).
Proof. exact c05_leave. Qed.
Print Assumptions C05_leave_group.

Theorem C05_sync_group : forall r,
  wf_sync r = true -> decode_sync_group_response (enc_sync r) = Ok (ss_error r, Some (ss_assignment r)).
Proof. exact c05_sync. Qed.
Print Assumptions C05_sync_group.

(* the consumer protocol's structures carried inside JoinGroup metadata / SyncGroup assignment *)
Theorem C05_join_protocol_metadata : forall r,
  wf_subscription r = true -> decode_join_group_protocol_metadata (enc_subscription r) = Ok (view_subscription r).
Proof. exact c05_subscription. Qed.
Print Assumptions C05_join_protocol_metadata.

Theorem C05_sync_member_assignment : forall r,
  wf_assignment r = true -> decode_sync_group_member_assignment (enc_assignment r) = Ok (view_assignment r).
Proof. exact c05_assignment. Qed.
Print Assumptions C05_sync_member_assignment.

Theorem C05_sync_member_assignment_unique_keys : forall r,
  wf_assignment r = true -> NoDup (map sas_topic (asg_topics r)) ->
  decode_sync_group_member_assignment (enc_assignment r) = Ok (plain_assignment r).
Proof. exact c05_assignment_unique. Qed.
Print Assumptions C05_sync_member_assignment_unique_keys.

(* bytes after the response are ignored *)
Theorem C05_trailing_bytes_ignored : forall r rest,
  wf_metadata r = true -> decode_metadata_response (enc_metadata r ++ rest) = Ok (view_metadata r).
Proof. exact c05_trailing_metadata. Qed.
Print Assumptions C05_trailing_bytes_ignored.

(* ================================================================== 2. message sets *)

(* trees of ANY nesting depth (the property asks for 2), both formats, null / empty / any keys and values, any
   offsets, timestamps and attribute bits outside the codec mask; the codec is an oracle: [gz] compressed, [orc]
   decompresses, the only hypothesis is the round-trip law *)
Theorem C05_msgset_roundtrip : forall gz orc,
  (forall x, gz_dec orc (gz x) = Ok x) ->
  forall d ts, (kdepth_forest ts < d)%nat -> forallb (wf_ktree gz) ts = true ->
  dec_set_all d orc (enc_kforest gz ts) = Ok (view_log (log_of_forest ts)).
Proof. exact c05_msgset. Qed.
Print Assumptions C05_msgset_roundtrip.

(* the same as seen by a consumer of the generator: exactly these pairs are yielded, then normal exhaustion *)
Theorem C05_msgset_roundtrip_lazy : forall gz orc,
  (forall x, gz_dec orc (gz x) = Ok x) ->
  forall d ts, (kdepth_forest ts < d)%nat -> forallb (wf_ktree gz) ts = true ->
  dec_set d orc (enc_kforest gz ts) = (view_log (log_of_forest ts), None).
Proof. exact c05_msgset_lazy. Qed.
Print Assumptions C05_msgset_roundtrip_lazy.

(* the same for snappy wrappers (codec bits 2) where python-snappy is installed ([sn_avail]); all wrappers of one
   tree use one codec *)
Theorem C05_msgset_roundtrip_snappy : forall sn orc,
  sn_avail orc = true -> (forall x, sn_dec orc (sn x) = Ok x) ->
  forall d ts, (kdepth_forest ts < d)%nat -> forallb (wf_ktree_c CODEC_SNAPPY sn) ts = true ->
  dec_set_all d orc (enc_kforest sn ts) = Ok (view_log (log_of_forest ts)).
Proof. exact c05_msgset_snappy. Qed.
Print Assumptions C05_msgset_roundtrip_snappy.

(* offsets inside a wrapper.  Format 0: as stored. *)
Theorem C05_wrapper_offsets_v0 : forall gz orc,
  (forall x, gz_dec orc (gz x) = Ok x) ->
  forall d off attr ts key kids,
  (kdepth (KWrap off 0 attr ts key kids) < d)%nat -> wf_ktree gz (KWrap off 0 attr ts key kids) = true ->
  dec_set d orc (enc_ktree gz (KWrap off 0 attr ts key kids)) = (view_log (log_of_forest kids), None).
Proof. exact wrapper_v0. Qed.
Print Assumptions C05_wrapper_offsets_v0.

(* Format 1: wrapper_offset - last_inner + inner ([relocate], spelled out by the next two theorems) *)
Theorem C05_wrapper_offsets_v1 : forall gz orc,
  (forall x, gz_dec orc (gz x) = Ok x) ->
  forall d off attr ts key kids,
  (kdepth (KWrap off 1 attr ts key kids) < d)%nat -> wf_ktree gz (KWrap off 1 attr ts key kids) = true ->
  dec_set d orc (enc_ktree gz (KWrap off 1 attr ts key kids))
  = (view_log (relocate off (log_of_forest kids)), None).
Proof. exact wrapper_v1. Qed.
Print Assumptions C05_wrapper_offsets_v1.

(* [relocate] (and with it the decoder) pinned down without its formula: the inner offsets are shifted uniformly (every
   difference between two inner offsets is kept, gaps included), the messages are untouched, and the last one lands
   exactly on the wrapper's offset.  These facts determine the result. *)
Theorem C05_relocate_characterised : forall (W : Z) (l : list (Z * kmsg)),
  l <> [] ->
  exists c, relocate W l = map (fun om => (fst om + c, snd om)) l /\ last_off (relocate W l) = Some W.
Proof. exact (@relocate_characterised kmsg). Qed.
Print Assumptions C05_relocate_characterised.

(* KIP-31 DERIVED from the broker's side (Model.KafkaSpecResp.broker_batch_v1 = the protocol's definition: the log
   gives the messages absolute offsets a_i; the compressed format-1 batch stores r_i = a_i - base for the base the
   batch was written at and puts a_k, the LAST absolute offset, on the wrapper): the decoder reports exactly the a_i,
   for ANY offsets (dense, gaps left by compaction, first survivor not at the base) and any base *)
Theorem C05_kip31_batch_recovered : forall gz orc,
  (forall x, gz_dec orc (gz x) = Ok x) ->
  forall d base attr ts key abs,
  (1 < d)%nat -> wf_ktree gz (broker_batch_v1 base attr ts key abs) = true ->
  dec_set d orc (enc_ktree gz (broker_batch_v1 base attr ts key abs)) = (view_log abs, None).
Proof. exact broker_batch_v1_recovered. Qed.
Print Assumptions C05_kip31_batch_recovered.

(* format 0: the batch stores the absolute offsets themselves *)
Theorem C05_v0_batch_recovered : forall gz orc,
  (forall x, gz_dec orc (gz x) = Ok x) ->
  forall d attr ts key abs,
  (1 < d)%nat -> wf_ktree gz (broker_batch_v0 attr ts key abs) = true ->
  dec_set d orc (enc_ktree gz (broker_batch_v0 attr ts key abs)) = (view_log abs, None).
Proof. exact broker_batch_v0_recovered. Qed.
Print Assumptions C05_v0_batch_recovered.

(* a broker numbers the inner messages 0..n-1: a wrapper stored at W yields W-n+1 .. W *)
Theorem C05_relocate_broker : forall (W : Z) (l : list (Z * kmsg)),
  map fst l = map Z.of_nat (seq 0 (length l)) ->
  map fst (relocate W l) = map (fun i => W - Z.of_nat (length l) + 1 + Z.of_nat i) (seq 0 (length l)).
Proof. exact (@relocate_broker kmsg). Qed.
Print Assumptions C05_relocate_broker.

(* end to end: a Fetch response whose record sets are encoded message-set trees decodes to every partition's
   fields and, per partition, exactly the log of its record set *)
Theorem C05_fetch_sets_v0 : forall gz orc,
  (forall x, gz_dec orc (gz x) = Ok x) ->
  forall depth r, wf_t_fetch gz depth r = true ->
  decode_fetch_response 0 depth orc (enc_fetch 0 (spec_fetch gz r)) = (view_t_fetch r, Ok []).
Proof. exact fetch_sets_v0. Qed.
Print Assumptions C05_fetch_sets_v0.

Theorem C05_fetch_sets_v2 : forall gz orc,
  (forall x, gz_dec orc (gz x) = Ok x) ->
  forall ver depth r, 2 <= ver -> wf_t_fetch gz depth r = true ->
  decode_fetch_response ver depth orc (enc_fetch 2 (spec_fetch gz r)) = (view_t_fetch r, Ok []).
Proof. exact fetch_sets_v2. Qed.
Print Assumptions C05_fetch_sets_v2.

(* ================================================================== 3. afkak's own encoder, then its decoder:
   the identity on messages.  (Model.MsgSet.encode_message_set_from = KafkaCodec._encode_message_set,
   create_gzip_message; [expected] = the messages handed to the encoder as they look on the wire - format 0 has no
   timestamp, format 1 the producer's or the clock's - paired with the offsets written; [plain] = codec bits 0,
   key and value byte strings or null.) *)

(* uncompressed sets (this is Proofs.Truncation.complete_set, shared with C12) *)
Theorem C05_afkak_plain_roundtrip : forall d orc clock k msgs offset incr magic bs,
  forallb plain msgs = true ->
  encode_message_set_from clock k msgs offset incr magic = Ok bs ->
  dec_set (S d) orc bs = (expected clock k msgs offset incr, None).
Proof. exact complete_set. Qed.
Print Assumptions C05_afkak_plain_roundtrip.

(* create_gzip_message + _encode_message_set + decode: every message comes back ([map snd (expected ..)] = the
   messages as they look on the wire, [all_at o ms] = every one of them at offset o).  afkak stores every inner
   message at offset 0: a format-0 wrapper passes that through, a format-1 wrapper at [off] reports them at [off] *)
Theorem C05_afkak_gzip_roundtrip : forall orc,
  (forall x z, bytes_ok x = true -> gz_enc orc x = Ok z -> gz_dec orc z = Ok x /\ bytes_ok z = true) ->
  forall d clock k k' msgs magic w off incr mg bs,
  forallb plain msgs = true ->
  create_gzip_message orc clock k msgs magic = Ok w ->
  encode_message_set_from clock k' [w] off incr mg = Ok bs ->
  dec_set (S (S d)) orc bs = (all_at (if (magic =? 0) then 0 else off) (map snd (expected clock k msgs 0 0)), None).
Proof. exact gzip_set_roundtrip_at. Qed.
Print Assumptions C05_afkak_gzip_roundtrip.

(* a wrapper of a wrapper (nesting depth 2), any combination of the two formats: the OUTER format decides *)
Theorem C05_afkak_gzip_nested_roundtrip : forall orc,
  (forall x z, bytes_ok x = true -> gz_enc orc x = Ok z -> gz_dec orc z = Ok x /\ bytes_ok z = true) ->
  forall d clock k k1 k2 msgs magic1 w1 magic2 w2 off incr mg bs,
  forallb plain msgs = true ->
  create_gzip_message orc clock k msgs magic1 = Ok w1 ->
  create_gzip_message orc clock k1 [w1] magic2 = Ok w2 ->
  encode_message_set_from clock k2 [w2] off incr mg = Ok bs ->
  dec_set (S (S (S d))) orc bs = (all_at (if (magic2 =? 0) then 0 else off) (map snd (expected clock k msgs 0 0)), None).
Proof. exact gzip_nested_roundtrip_at. Qed.
Print Assumptions C05_afkak_gzip_nested_roundtrip.

(* the producer's path: create_message_set(requests, codec, magic) -> _encode_message_set -> decode.
   [flatten_requests] = the (SendRequest.key, payload) pairs in order; [kv_ok] = byte strings or null.
   What create_message_set builds from them: *)
Theorem C05_producer_messages : forall clock reqs magic,
  create_messages clock reqs magic
  = map (fun ikp => mkMessage (if (magic =? 1) then 1 else 0) 0 (fst (snd ikp)) (snd (snd ikp))
                              (if (magic =? 1) then Some (clock (fst ikp)) else None))
        (combine (seq 0 (length (flatten_requests reqs))) (flatten_requests reqs)).
Proof. exact create_messages_spec. Qed.
Print Assumptions C05_producer_messages.

(* uncompressed: exactly those messages (format, attributes, key, payload, timestamp), numbered off, off+incr, ... *)
Theorem C05_producer_plain_roundtrip : forall d orc clock reqs magic ws k' off incr mg bs,
  forallb kv_ok (flatten_requests reqs) = true ->
  create_message_set orc clock reqs CODEC_NONE magic = Ok ws ->
  encode_message_set_from clock k' ws off incr mg = Ok bs ->
  dec_set (S d) orc bs = (numbered off incr (create_messages clock reqs magic), None).
Proof. exact producer_plain_roundtrip. Qed.
Print Assumptions C05_producer_plain_roundtrip.

(* gzip: exactly those messages, all at the wrapper's offset (format 1) or at the stored inner offset 0 (format 0) *)
Theorem C05_producer_gzip_roundtrip : forall d orc clock reqs magic ws k' off incr mg bs,
  (forall x z, bytes_ok x = true -> gz_enc orc x = Ok z -> gz_dec orc z = Ok x /\ bytes_ok z = true) ->
  forallb kv_ok (flatten_requests reqs) = true ->
  create_message_set orc clock reqs CODEC_GZIP magic = Ok ws ->
  encode_message_set_from clock k' ws off incr mg = Ok bs ->
  dec_set (S (S d)) orc bs = (all_at (if (magic =? 0) then 0 else off) (create_messages clock reqs magic), None).
Proof. exact producer_gzip_roundtrip. Qed.
Print Assumptions C05_producer_gzip_roundtrip.

(* ================================================================== 3b. Message.timestamp_type (common.py:660).
   The sixth field of Message is documented "always 0" (common.py:650); the codec neither writes nor reads it
   (Model.RespView: py_encode_message ignores it, py_decoded leaves the default 0) and no afkak code sets it.
   [wf_pymessage] = that documented invariant, a well-formedness conjunct of "identity on messages": with it the
   identity holds for the whole Python object, field included ... *)
Theorem C05_timestamp_type_roundtrip : forall d orc now pm bs off,
  wf_pymessage pm = true -> plain (pm_msg pm) = true ->
  py_encode_message now pm = Ok bs ->
  py_decoded_set (dec_message (dec_set d orc) orc (Some bs) off)
  = [(off, mk_pymessage (wire_view now (pm_msg pm)) (pm_tstype pm))].
Proof. exact c05_tstype_roundtrip. Qed.
Print Assumptions C05_timestamp_type_roundtrip.

(* ... and the conjunct is needed (documentation, not a defect of the documented type):
   Message(1, 0, b"k", b"v", 5, timestamp_type=1) comes back with timestamp_type 0 *)
Theorem C05_timestamp_type_refuted :
  wf_pymessage tstype_witness = false /\ plain (pm_msg tstype_witness) = true /\
  exists bs, py_encode_message 0 tstype_witness = Ok bs /\
             py_decoded_set (dec_message (dec_set 1 marker_oracle) marker_oracle (Some bs) 7)
             = [(7, mk_pymessage (pm_msg tstype_witness) 0)] /\
             mk_pymessage (pm_msg tstype_witness) 0 <> tstype_witness.
Proof. exact c05_tstype_refuted. Qed.
Print Assumptions C05_timestamp_type_refuted.

(* towards the protocol (attributes bit 3 of a format-1 message is its timestamp type, [k_tstype]): afkak does not
   surface it as timestamp_type - a LogAppendTime message decodes with the documented timestamp_type 0 ... *)
Theorem C05_timestamp_type_spec_refuted :
  wf_kmsg tstype_log_append = true /\ k_tstype tstype_log_append = 1 /\
  map (fun op => pm_tstype (snd op))
      (py_decoded_set (dec_message (dec_set 1 marker_oracle) marker_oracle (Some (enc_kmsg tstype_log_append)) 7)) = [0].
Proof. exact c05_tstype_spec_refuted. Qed.
Print Assumptions C05_timestamp_type_spec_refuted.

(* ... what IS kept for every message: the bit stays readable in Message.attributes *)
Theorem C05_timestamp_type_partial : forall rec orc m off,
  wf_kmsg m = true ->
  exists dm, dec_message rec orc (Some (enc_kmsg m)) off = ([(off, dm)], None) /\
             (if (m_magic dm =? 1) then (m_attr dm / 8) mod 2 else 0) = k_tstype m.
Proof. exact c05_tstype_attr_kept. Qed.
Print Assumptions C05_timestamp_type_partial.

(* ================================================================== 4. outside the supported versions
   afkak supports Produce / Fetch versions 0 and 2 only (kafkacodec.py:559 "we only support 2 versions"); a
   negotiated version >= 2 is sent as 2.  The version-1 layouts are NOT decoded: recorded here so that the boundary
   of the theorems above is explicit (harness/props/C05.py replays both on the real code as notes). *)
Theorem C05_produce_v1_refuted :
  wf_produce produce_v1_witness = true /\
  decode_produce_response 1 (enc_produce 1 produce_v1_witness) = Some ([], Err Underflow).
Proof. exact c05_produce_v1_refuted. Qed.
Print Assumptions C05_produce_v1_refuted.

Theorem C05_fetch_v1_refuted : forall depth orc r,
  decode_fetch_response 1 depth orc (enc_fetch 1 r) = ([], Err NameErr).
Proof. exact c05_fetch_v1_refuted. Qed.
Print Assumptions C05_fetch_v1_refuted.

(* ================================================================== non-vacuity *)
Definition ex_topic : list Z := [116; 111; 112; 105; 99].          (* "topic" *)
Definition ex_cafe : list Z := [99; 97; 102; 195; 169].            (* "café" in UTF-8 *)

Example ex_produce_wf :
  wf_produce (mk_s_produce (-2147483648) [mk_s_produce_topic ex_topic
     [mk_s_produce_part 0 0 9223372036854775807 (-1); mk_s_produce_part 2147483647 (-32768) (-9223372036854775808) 5];
     mk_s_produce_topic [] []] 2147483647) = true.
Proof. vm_compute. reflexivity. Qed.

Example ex_ofetch_null_vs_empty :
  let r := mk_s_ofetch 1 [mk_s_ofetch_topic ex_topic
             [mk_s_ofetch_part 0 5 None 0; mk_s_ofetch_part 1 6 (Some []) 3; mk_s_ofetch_part 2 7 (Some [255; 254]) 119]] in
  wf_ofetch r = true /\
  map gi_metadata (fst (decode_offset_fetch_response (enc_ofetch r))) = [None; Some []; Some [255; 254]].
Proof. split; vm_compute; reflexivity. Qed.

Example ex_metadata_wf :
  wf_metadata (mk_s_metadata 3 [mk_s_broker 1 [104] 9092; mk_s_broker 2 [] (-1)]
     [mk_s_meta_topic 3 ex_topic [mk_s_meta_part 5 0 1 [1; 2] []; mk_s_meta_part 0 1 (-1) [] [2]]]) = true.
Proof. vm_compute. reflexivity. Qed.

Example ex_join_wf :
  wf_join (mk_s_join 9 27 4 ex_cafe ex_cafe [] [mk_s_member ex_cafe [0; 1; 255]; mk_s_member [] []]) = true.
Proof. vm_compute. reflexivity. Qed.

(* the compression oracle hypothesis is satisfiable (an "identity with a marker byte" codec) *)
Definition ex_gz (b : list Z) : list Z := 0x1F :: b.
Example ex_oracle_roundtrip : forall x, gz_dec marker_oracle (ex_gz x) = Ok x.
Proof. reflexivity. Qed.

(* a log segment as a broker stores it: a format-1 wrapper at offset 102 holding relative offsets 0,1,2, the third
   entry itself a format-0 wrapper (nesting depth 2); null and empty keys / values; timestamps *)
Definition ex_forest : list ktree :=
  [KLeaf 99 (mk_kmsg 0 0 0 None (Some [98]));
   KWrap 102 1 1 9 None
     [KLeaf 0 (mk_kmsg 1 0 1500000000000 (Some [107]) (Some []));
      KLeaf 1 (mk_kmsg 1 8 (-1) (Some []) None);
      KWrap 2 0 1 0 None [KLeaf 2 (mk_kmsg 0 0 0 None (Some [118]))]];
   KLeaf 103 (mk_kmsg 1 0 7 None None)].

Example ex_forest_wf : forest_ok ex_gz 3 ex_forest = true.
Proof. vm_compute. reflexivity. Qed.

Example ex_forest_offsets :
  map fst (fst (dec_set 3 marker_oracle (enc_kforest ex_gz ex_forest))) = [99; 100; 101; 102; 103].
Proof. vm_compute. reflexivity. Qed.

Example ex_fetch_sets_wf :
  wf_t_fetch ex_gz 3 (mk_t_fetch 1 0 [mk_t_fetch_topic ex_topic
     [mk_t_fetch_part 0 0 104 (Some ex_forest); mk_t_fetch_part 1 1 (-1) None; mk_t_fetch_part 2 0 0 (Some [])]]) = true.
Proof. vm_compute. reflexivity. Qed.

(* afkak's own encoder with the marker codec: two format-1 messages (one without a timestamp: the clock's reading
   is used), gzip-wrapped by create_gzip_message, stored at offset 500 *)
Definition ex_clock : nat -> Z := fun k => 1600000000000 + Z.of_nat k.
Definition ex_msgs : list message :=
  [mkMessage 1 0 (Some [107]) (Some [1; 2; 3]) None; mkMessage 1 0 None None (Some (-1))].

Example ex_marker_oracle_law : forall x z,
  bytes_ok x = true -> gz_enc marker_oracle x = Ok z -> gz_dec marker_oracle z = Ok x /\ bytes_ok z = true.
Proof. intros x z Hx [= <-]. split; [reflexivity|]. cbn [bytes_ok forallb]. exact Hx. Qed.

Example ex_afkak_gzip :
  forallb plain ex_msgs = true /\
  (do w <- create_gzip_message marker_oracle ex_clock 0 ex_msgs 1;
   do bs <- encode_message_set_from ex_clock 2 [w] 500 1 1;
   Ok (dec_set 2 marker_oracle bs))
  = Ok ([(500, mkMessage 1 0 (Some [107]) (Some [1; 2; 3]) (Some 1600000000000));
         (500, mkMessage 1 0 None None (Some (-1)))], None).
Proof. split; vm_compute; reflexivity. Qed.

(* a compacted format-1 batch: written at base 100 with 6 messages, the survivors are those at 102, 103 and 107 *)
Definition ex_compacted : ktree :=
  broker_batch_v1 100 1 0 None [(102, mk_kmsg 1 0 1 None (Some [97])); (103, mk_kmsg 1 0 2 (Some [107]) None);
                                (107, mk_kmsg 1 8 3 None (Some []))].
Example ex_compacted_wf : wf_ktree ex_gz ex_compacted = true /\
  (match ex_compacted with KWrap off _ _ _ _ kids => (off, map (fun t => match t with KLeaf o _ => o | _ => -1 end) kids) | _ => (0, []) end)
  = (107, [2; 3; 7]).
Proof. split; vm_compute; reflexivity. Qed.
Example ex_compacted_offsets :
  map fst (fst (dec_set 2 marker_oracle (enc_ktree ex_gz ex_compacted))) = [102; 103; 107].
Proof. vm_compute. reflexivity. Qed.

Example ex_pymessage_wf :
  wf_pymessage (mk_pymessage (mkMessage 1 8 (Some [107]) None (Some 1500000000000)) 0) = true /\
  plain (mkMessage 1 8 (Some [107]) None (Some 1500000000000)) = true.
Proof. split; reflexivity. Qed.
