(* C05 - stub while the proofs are being written *)
From AV Require Import Base.Util Model.Prim Model.Crc Model.MsgSet Model.KafkaSpecResp Model.Responses Model.RespView Model.RespRun.
Theorem C05_stub : True. Proof. exact I. Qed.
Print Assumptions C05_stub.
