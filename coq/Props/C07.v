(* C07 - Requests reach the responsible broker; results return in payload order.
   (client.py line numbers as of /repo commit b8d6557.)
   Theorem statements only; proofs live in Proofs/ClientRoute*.v.
   Model: Model/ClientRoute.v over the cache of Model/ClientMeta.v (afkak/client.py:996-1029 resolution,
   1109-1238 broker-agnostic requests, 1240-1371 _send_broker_aware_request, 1373-1403
   _send_request_to_coordinator, 1406-1454 _normalize_hosts).  [aware st group expect ps loads outs] is one
   call of _send_broker_aware_request in cache state [st] for payloads [ps] (to the coordinator of [group] if
   given); [loads] scripts the metadata / coordinator lookups it has to make (any try sequence, any response),
   [outs] says for each per-broker request whether it failed or what the broker answered.  Its result
   records the cache state at every resolution ([a_resolved]), the requests sent ([a_reqs]) and what the
   caller gets ([a_res]: SOk responses | SFailed responses failed_payloads | SErr e).

   Vocabulary from Proofs/ClientRouteFacts.v (all computable or first-order):
     fanout s            = Some (responses, failed) when the call got as far as sending requests
     ok_part reqs os     = payloads of the requests that were answered,  failed_part: of those that failed
     answers reqs os     = all responses received, in request order
     honest reqs os      = every broker that answers, answers for exactly the partitions it was asked (any order)
   The statements are GENERIC over the request kind: a payload is (topic, partition, tag), the encoder/decoder are
   parameters of the code and do not occur in the model; send_produce/fetch/offset/offset_fetch/offset_commit_request
   are all [send_public] = (API-version lookup, not modelled: the client is driven with discovery off) +
   [aware] + _handle_responses, so C07_routing / C07_order / C07_accounting apply to send_fetch_request as they
   stand (its wrapper is tied by the same correspondence and monitors: the driver issues real Fetch v0 requests).
   Duplicate (topic, partition) payloads in one call are outside the order/accounting statements (hypothesis
   NoDup (map p_key ps)): the response dictionary keeps one answer per key (client.py:1357). *)
From AV Require Import Base.Util Model.ClientMeta Model.ClientRoute Proofs.ClientMetaDict Proofs.ClientMetaFacts
  Proofs.ClientRouteWF Proofs.ClientRouteFacts Proofs.ClientRouteAddr Proofs.ClientRouteFallback Proofs.ClientRouteHosts
  Proofs.ClientRouteNoKeyError.
From Coq Require Import Permutation Sorted.

(* Routing.  Whenever requests are sent: the payloads were resolved in order, each to the node the cache named
   as leader of its partition (coordinator of the group) AT THE MOMENT OF ITS RESOLUTION - i.e. after any
   metadata load that resolution needed; there is ONE request per node; the request for node n carries
   exactly the payloads resolved to n, in payload order, and is never empty; every payload's node gets a
   request; all requests together carry each payload exactly once. *)
Theorem C07_routing : forall st group expect ps loads outs rs failed,
  let r := aware st group expect ps loads outs in
  fanout (a_res r) = Some (rs, failed) ->
  map rs_payload (a_resolved r) = ps /\
  Forall (fun x => match group with
                   | None => exists a, leader_of (rs_state x) (p_key (rs_payload x)) = Some (Some (rs_node x, a))
                   | Some g => exists a, zget g (s_g2c (rs_state x)) = Some (rs_node x, a)
                   end) (a_resolved r) /\
  NoDup (map rq_node (a_reqs r)) /\
  (forall q, In q (a_reqs r) ->
     rq_payloads q <> [] /\
     rq_payloads q = map rs_payload (filter (fun x => rs_node x =? rq_node q) (a_resolved r))) /\
  (forall x, In x (a_resolved r) -> exists q, In q (a_reqs r) /\ rq_node q = rs_node x) /\
  Permutation (concat (map rq_payloads (a_reqs r))) ps.
Proof. exact aware_routing. Qed.
Print Assumptions C07_routing.

(* "Current metadata" is the cache at the moment each payload is resolved: all payloads are resolved first
   (client.py: the for loop over payloads), then the requests are sent.  A lookup made for a LATER payload can
   move the cached leader of an EARLIER one; the earlier payload keeps the node it was resolved to (see the
   Example ex_stale_earlier_payload below - real code behaviour, the next call uses the new leader). *)

(* The address: each request travels over its node's live connection if the client had one when the resolution
   of the payloads ended (state st1), otherwise it is dialled at the address the cache has for the node then
   (by C08_merge_exact the address the latest response naming the node gave). *)
Theorem C07_request_address : forall st group expect ps loads outs st1 evs resolved,
  WF st -> resolve_loop st group ps loads [] [] = (st1, evs, inl resolved) ->
  forall q, In q (a_reqs (aware st group expect ps loads outs)) ->
    match zget (rq_node q) (s_clients st1) with
    | Some c => match c_conn c with
                | Some x => rq_addr q = x
                | None => zget (rq_node q) (s_brokers st1) = Some (rq_addr q)
                end
    | None => zget (rq_node q) (s_brokers st1) = Some (rq_addr q)
    end.
Proof. exact aware_addr. Qed.
Print Assumptions C07_request_address.

(* All or nothing: if some payload cannot be resolved (no leader, unknown partition, coordinator or metadata
   not available, empty payload list ...) NOTHING is sent.  The only other error exits are close() / a broker
   address missing in the middle of the fan-out (the latter impossible from reachable states, C07_no_keyerror),
   after a prefix of the requests. *)
Theorem C07_all_or_nothing : forall st group expect ps loads outs e,
  let r := aware st group expect ps loads outs in
  a_res r = SErr e ->
  (a_reqs r = [] /\ a_resolved r = []) \/
  ((e = EClientError \/ e = EScript \/ e = EKeyErrorBroker) /\
   exists k, map req_view (a_reqs r) = firstn k (group_by_node (resolved_pairs (a_resolved r)))).
Proof. exact aware_error_exits. Qed.
Print Assumptions C07_all_or_nothing.

(* _send_request_to_coordinator: the single request goes to the coordinator the cache names at that moment *)
Theorem C07_coordinator_request : forall st g p loads o r st' res q,
  send_coord st g p loads o = (r, st', res) -> In q (a_reqs r) ->
  a_reqs r = [q] /\ rq_payloads q = [p] /\
  exists x, a_resolved r = [x] /\ rs_payload x = p /\ rs_node x = rq_node q /\
            exists a, zget g (s_g2c (rs_state x)) = Some (rs_node x, a).
Proof. exact send_coord_routing. Qed.
Print Assumptions C07_coordinator_request.

(* Order.  A successful call returns only responses it received, their keys are the payload keys in payload
   order restricted to the answered ones (for ANY answers, in whatever order brokers replied: the model, like
   the DeferredList, is insensitive to it); with honest brokers and a duplicate-free payload list the result
   is exactly one response per payload, in payload order. *)
Theorem C07_order : forall st group ps loads outs rs,
  let r := aware st group true ps loads outs in
  let reqs := map rq_payloads (a_reqs r) in
  let os := map to_outcome outs in
  a_res r = SOk rs ->
  failed_part reqs os = [] /\
  (forall x, In x rs -> In x (answers reqs os)) /\
  map r_key rs = filter (fun k => existsb (tp_eqb k) (map r_key (answers reqs os))) (map p_key ps) /\
  (honest reqs os -> NoDup (map p_key ps) -> map r_key rs = map p_key ps).
Proof. exact aware_order. Qed.
Print Assumptions C07_order.

(* acks=0 (no decoder): a successful call returns no responses *)
Theorem C07_order_acks0 : forall st group ps loads outs rs,
  a_res (aware st group false ps loads outs) = SOk rs -> rs = [].
Proof. exact aware_noexpect_ok. Qed.
Print Assumptions C07_order_acks0.

(* Accounting on partial failure.  FailedPayloadsError(responses, failed): failed is non-empty and is the
   concatenation, in request order, of the payload lists of the requests that failed (each in payload order
   by C07_routing); with acks=0 there are no responses; otherwise responses were all received, and with honest
   brokers and a duplicate-free payload list they are the answered payloads' responses in payload order and
   responses ++ failed account for every payload exactly once. *)
Theorem C07_accounting : forall st group expect ps loads outs rs failed,
  let r := aware st group expect ps loads outs in
  let reqs := map rq_payloads (a_reqs r) in
  let os := map to_outcome outs in
  a_res r = SFailed rs failed ->
  failed <> [] /\ failed = failed_part reqs os /\
  (expect = false -> rs = []) /\
  (expect = true ->
     (forall x, In x rs -> In x (answers reqs os)) /\
     (honest reqs os -> NoDup (map p_key ps) ->
        map r_key rs = filter (fun k => existsb (tp_eqb k) (map p_key (ok_part reqs os))) (map p_key ps) /\
        Permutation (map r_key rs ++ map p_key failed) (map p_key ps))).
Proof. exact aware_accounting. Qed.
Print Assumptions C07_accounting.

(* NB: the two Permutation conjuncts below are the model's script guards (the shuffled lists the environment
   supplies must be permutations of the known brokers / the bootstrap hosts, otherwise the result is UScript);
   that the code shuffles exactly `list(self._brokers)` / `self._bootstrap_hosts` is tied by the monitor
   (the shuffled lists are read back from the implementation). *)
(* Fallback order of a broker-agnostic request (metadata, coordinator lookup) on an open client, for every
   script of shuffles and try outcomes the environment can produce:
   - the known brokers are considered connected-first, in shuffle order within each class;
   - the tries are a prefix of that order followed by a prefix of the shuffled bootstrap hosts, and no
     bootstrap host is tried before every known broker was;
   - every try but the last failed; success means the last try was answered;
   - KafkaUnavailable is reported only after EVERY known broker and EVERY bootstrap host was tried and failed
     (and nobody closed the client meanwhile). *)
Theorem C07_fallback_order : forall st u st' log r,
  unaware st u = (st', log, r) -> s_closed st = false -> r <> UScript ->
  let order := fallback_order st (u_shuf u) in
  order = filter (connected st) (u_shuf u) ++ filter (fun n => negb (connected st n)) (u_shuf u) /\
  Permutation (u_shuf u) (map fst (s_brokers st)) /\
  exists k b,
    (k <= length order)%nat /\ (b <= length (u_bshuf u))%nat /\
    map (fun e => tkey (fst e)) log = map inl (firstn k order) ++ map inr (firstn b (u_bshuf u)) /\
    (b <> 0%nat -> k = length order) /\
    (forall e, In e (removelast log) -> try_failed (snd e) = true) /\
    (r = UOk -> exists pre t o, log = pre ++ [(t, o)] /\ try_failed o = false) /\
    (r = UUnavailable ->
       k = length order /\ b = length (u_bshuf u) /\ Permutation (u_bshuf u) (s_boot st) /\
       (forall e, In e log -> try_failed (snd e) = true /\ try_closed (snd e) = false) /\ s_closed st' = false).
Proof. exact unaware_fallback. Qed.
Print Assumptions C07_fallback_order.

(* From every reachable state (Proofs/ClientRouteWF.v: [reach] is closed under every client operation with
   arbitrary scripts, [reach_WF : reach st -> WF st]) the node a payload resolves to and every node the
   fallback order names has a known address: KeyError at client.py:915 (self._brokers[node_id]) cannot
   happen, neither in the fan-out nor in a broker-agnostic request. *)
Theorem C07_no_keyerror : forall st group expect ps loads outs,
  reach st -> a_res (aware st group expect ps loads outs) <> SErr EKeyErrorBroker.
Proof. intros st group expect ps loads outs H. apply aware_no_keyerror. apply reach_WF. exact H. Qed.
Print Assumptions C07_no_keyerror.
Theorem C07_no_keyerror_agnostic : forall st u st' log r,
  reach st -> unaware st u = (st', log, r) -> r <> UKeyError.
Proof. intros st u st' log r H. apply unaware_no_keyerror. apply reach_WF. exact H. Qed.
Print Assumptions C07_no_keyerror_agnostic.

(* _normalize_hosts on "host", "host:port" strings and (host, port) tuples: the result is strictly increasing
   (sorted by host then port AND duplicate free), has exactly the normalised items as members, does not depend
   on the order or multiplicity of the input, and normalising it again changes nothing. *)
Theorem C07_normalize_hosts_sorted : forall items,
  StronglySorted (fun a b => hp_leb str_leb zlist_eqb a b && negb (hp_eqb zlist_eqb a b) = true) (normalize_hosts_str items).
Proof. exact hosts_str_sorted. Qed.
Print Assumptions C07_normalize_hosts_sorted.
Theorem C07_normalize_hosts_dedup : forall items, NoDup (normalize_hosts_str items).
Proof. exact hosts_str_nodup. Qed.
Print Assumptions C07_normalize_hosts_dedup.
Theorem C07_normalize_hosts_members : forall x items,
  In x (normalize_hosts_str items) <-> In x (map (norm_item str_strip) items).
Proof. exact hosts_str_in. Qed.
Print Assumptions C07_normalize_hosts_members.
Theorem C07_normalize_hosts_idempotent : forall items,
  normalize_hosts_str (map (fun hp => HTuple (fst hp) (snd hp)) (normalize_hosts_str items)) = normalize_hosts_str items.
Proof. exact hosts_str_idem. Qed.
Print Assumptions C07_normalize_hosts_idempotent.
Theorem C07_normalize_hosts_order_irrelevant : forall items items',
  Permutation items items' -> normalize_hosts_str items = normalize_hosts_str items'.
Proof. exact hosts_str_order_irrelevant. Qed.
Print Assumptions C07_normalize_hosts_order_irrelevant.

(* ---- non-vacuity -------------------------------------------------------------------------------- *)
(* three brokers; t0/0,t0/2 led by 1, t0/1 by 2, t1/0 by 3 *)
Definition ex_raw : rawresp :=
  {| rr_brokers := [(1, (101, 9092)); (2, (102, 9092)); (3, (103, 9092))];
     rr_topics := [{| rt_err := 0; rt_id := 0; rt_parts := [(0, 0, 1); (0, 1, 2); (0, 2, 1)] |};
                   {| rt_err := 0; rt_id := 1; rt_parts := [(0, 0, 3)] |}] |}.
Definition ex_st := fst (fst (merge (init_state [(9, 9092)]) (norm_resp ex_raw) true)).
Definition pl t p g := {| p_topic := t; p_part := p; p_tag := g |}.
Definition rp t p g := {| r_topic := t; r_part := p; r_err := 0; r_tag := g |}.
Definition ex_ps := [pl 1 0 1; pl 0 1 2; pl 0 0 3; pl 0 2 4].

(* all answer (broker 1 in reverse order): one response per payload in payload order *)
Example ex_all_ok :
  let r := aware ex_st None true ex_ps [] [ROk [rp 1 0 1]; ROk [rp 0 1 2]; ROk [rp 0 2 4; rp 0 0 3]] in
  map (fun q => (rq_node q, map p_tag (rq_payloads q))) (a_reqs r) = [(3, [1]); (2, [2]); (1, [3; 4])] /\
  a_res r = SOk [rp 1 0 1; rp 0 1 2; rp 0 0 3; rp 0 2 4] /\
  honest (map rq_payloads (a_reqs r)) (map to_outcome [ROk [rp 1 0 1]; ROk [rp 0 1 2]; ROk [rp 0 2 4; rp 0 0 3]]) /\
  NoDup (map p_key ex_ps).
Proof.
  split; [vm_compute; reflexivity|]. split; [vm_compute; reflexivity|]. split.
  - vm_compute. repeat constructor.
  - vm_compute. repeat constructor; simpl; intuition discriminate.
Qed.
(* broker 2 fails: its payload is reported failed, the others' responses stay in payload order, cache emptied *)
Example ex_partial_failure :
  let r := aware ex_st None true ex_ps [] [ROk [rp 1 0 1]; RFail; ROk [rp 0 0 3; rp 0 2 4]] in
  a_res r = SFailed [rp 1 0 1; rp 0 0 3; rp 0 2 4] [pl 0 1 2] /\ s_t2b (a_state r) = [].
Proof. vm_compute. split; reflexivity. Qed.
(* an uncached partition is resolved through a metadata load first; the load's tries follow the fallback order *)
Example ex_load_then_route :
  let u := {| u_shuf := [2; 1; 3]; u_kouts := [KFail; KResp]; u_bshuf := []; u_bouts := [] |} in
  let st0 := reset_topic ex_st 1 in
  let r := aware st0 None true [pl 0 0 1; pl 1 0 2] [LoadMeta u ex_raw] [ROk [rp 0 0 1]; ROk [rp 1 0 2]] in
  map (fun e => map (fun t => tkey (fst t)) (le_log e)) (a_loads r) = [[inl 2; inl 1]] /\
  map rq_node (a_reqs r) = [1; 3] /\ a_res r = SOk [rp 0 0 1; rp 1 0 2].
Proof. vm_compute. repeat split. Qed.
(* every known broker and every bootstrap host fails: only then Unavailable *)
Example ex_unavailable :
  let u := {| u_shuf := [3; 1; 2]; u_kouts := [KFail; KFail; KFail]; u_bshuf := [(9, 9092)]; u_bouts := [BConnFail] |} in
  match unaware ex_st u with
  | (_, log, UUnavailable) => map (fun t => tkey (fst t)) log = [inl 3; inl 1; inl 2; inr (9, 9092)]
  | _ => False
  end.
Proof. vm_compute. reflexivity. Qed.
Example ex_hosts :
  normalize_hosts_str [HStr [32; 98; 32] None; HTuple [97] 9092; HStr [98] (Some 9092); HStr [97] (Some 1)]
  = [([97], 1); ([97], 9092); ([98], 9092)].
Proof. vm_compute. reflexivity. Qed.

(* the "leader at resolution time" corner: t0/0 is cached on node 1; t0/3 is not cached, its lookup returns a
   response that moves t0/0 to node 2: the request for t0/0 still goes to node 1 (resolved before the lookup) *)
Example ex_stale_earlier_payload :
  let u := {| u_shuf := [1; 2; 3]; u_kouts := [KResp]; u_bshuf := []; u_bouts := [] |} in
  let moved := {| rr_brokers := [(1, (101, 9092)); (2, (102, 9092)); (3, (103, 9092))];
                  rr_topics := [{| rt_err := 0; rt_id := 0; rt_parts := [(0, 0, 2); (0, 3, 3)] |}] |} in
  let r := aware ex_st None true [pl 0 0 1; pl 0 3 2] [LoadMeta u moved] [ROk [rp 0 0 1]; ROk [rp 0 3 2]] in
  map (fun q => (rq_node q, map p_tag (rq_payloads q))) (a_reqs r) = [(1, [1]); (3, [2])] /\
  leader_of (a_state r) (0, 0) = Some (Some (2, (102, 9092))).
Proof. vm_compute. split; reflexivity. Qed.
(* an unresolvable payload: nothing is sent *)
Example ex_all_or_nothing :
  let u := {| u_shuf := [1; 2; 3]; u_kouts := [KResp]; u_bshuf := []; u_bouts := [] |} in
  let r := aware ex_st None true [pl 0 0 1; pl 3 0 2] [LoadMeta u ex_raw] [] in
  a_res r = SErr EPartitionUnavailable /\ a_reqs r = [].
Proof. vm_compute. split; reflexivity. Qed.
(* a reachable state in which the coordinator of group 5 is a broker no metadata response ever named *)
Example ex_reach_coordinator :
  exists st, reach st /\ zget 5 (s_g2c st) = Some (7, (107, 9092)) /\
    a_res (aware st (Some 5) true [pl 0 0 1] [] [ROk [rp 0 0 1]]) = SOk [rp 0 0 1].
Proof.
  eexists. split; [|split].
  - eapply (R_coord (init_state [(9, 9092)]) 5
              {| u_shuf := []; u_kouts := []; u_bshuf := [(9, 9092)]; u_bouts := [BResp] |} (0, (7, (107, 9092))));
      [apply R_init|vm_compute; reflexivity].
  - vm_compute. reflexivity.
  - vm_compute. reflexivity.
Qed.
