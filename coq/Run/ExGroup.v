Require Import Extraction ExtrOcamlBasic ZArith.
From AV Require Import Model.Group Model.GroupObs.
Extraction "group.ml" GroupObs.run_case Z.add Z.mul Z.opp Z.abs Z.div_eucl.
