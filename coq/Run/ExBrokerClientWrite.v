Require Import Extraction ExtrOcamlBasic ZArith.
From AV Require Import Model.BrokerClientWrite.
Extraction "brokerclientwrite.ml" run_case Z.add Z.mul Z.opp Z.abs Z.div_eucl.
