(* Generic line driver, appended textually to each extracted model file.
   stdin: one case per line, space separated decimal integers.
   stdout: one line per case, space separated decimal integers of (run_case case). *)
let z_of_int (n : int) : z =
  let rec pos n = if n = 1 then XH else if n land 1 = 0 then XO (pos (n lsr 1)) else XI (pos (n lsr 1)) in
  if n = 0 then Z0 else if n > 0 then Zpos (pos n) else Zneg (pos (- n))
let ten = z_of_int 10
let z_of_string (s : string) : z =
  let neg = String.length s > 0 && s.[0] = '-' in
  let acc = ref Z0 in
  String.iteri (fun i c -> if not (i = 0 && neg) then
      acc := Z.add (Z.mul !acc ten) (z_of_int (Char.code c - 48))) s;
  if neg then Z.opp !acc else !acc
let rec int_of_pos = function XH -> 1 | XO p -> 2 * int_of_pos p | XI p -> 2 * int_of_pos p + 1
let int_of_z = function Z0 -> 0 | Zpos p -> int_of_pos p | Zneg p -> - (int_of_pos p)
let rec pos_bits = function XH -> 1 | XO p | XI p -> 1 + pos_bits p
let string_of_z (x : z) : string =
  let small = match x with Z0 -> true | Zpos p | Zneg p -> pos_bits p < 60 in
  if small then string_of_int (int_of_z x) else begin
    let neg = (match x with Zneg _ -> true | _ -> false) in
    let v = ref (Z.abs x) and digs = Buffer.create 32 in
    let chunk = z_of_int 1000000000 in
    let parts = ref [] in
    while (match !v with Z0 -> false | _ -> true) do
      let (q, r) = Z.div_eucl !v chunk in
      parts := int_of_z r :: !parts; v := q
    done;
    (match !parts with
     | [] -> Buffer.add_string digs "0"
     | p :: rest -> Buffer.add_string digs (string_of_int p);
                    List.iter (fun p -> Buffer.add_string digs (Printf.sprintf "%09d" p)) rest);
    (if neg then "-" else "") ^ Buffer.contents digs
  end
let () =
  let out = Buffer.create 65536 in
  (try
    while true do
      let line = input_line stdin in
      let toks = List.filter (fun s -> s <> "") (String.split_on_char ' ' line) in
      let res = run_case (List.map z_of_string toks) in
      Buffer.add_string out (String.concat " " (List.map string_of_z res));
      Buffer.add_char out '\n';
      if Buffer.length out > 60000 then (print_string (Buffer.contents out); Buffer.clear out)
    done
  with End_of_file -> ());
  print_string (Buffer.contents out)
