Require Import Extraction ExtrOcamlBasic ZArith.
From AV Require Import Model.BrokerClient.
Extraction "brokerclient.ml" run_case Z.add Z.mul Z.opp Z.abs Z.div_eucl.
