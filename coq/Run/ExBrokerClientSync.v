Require Import Extraction ExtrOcamlBasic ZArith.
From AV Require Import Model.BrokerClientSync.
Extraction "brokerclientsync.ml" run_case Z.add Z.mul Z.opp Z.abs Z.div_eucl.
