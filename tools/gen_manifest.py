#!/usr/bin/env python3
"""Regenerates /verif/MANIFEST.json from harness/registry.json (one entry per claimed property).
Properties in properties.jsonl that have no registry entry are listed under not_applicable."""
import json, os
ROOT = os.path.dirname(os.path.dirname(os.path.abspath(__file__)))
reg = json.load(open(os.path.join(ROOT, "harness", "registry.json")))
import glob
hold_file = os.path.join(ROOT, "harness", "registry.d", "HOLD")   # ids (one per line) whose check does not pass yet
hold = set(open(hold_file).read().split()) if os.path.exists(hold_file) else set()
for f in sorted(glob.glob(os.path.join(ROOT, "harness", "registry.d", "C*.json"))):
    if os.path.basename(f)[:-5] not in hold:
        reg["checks"][os.path.basename(f)[:-5]] = json.load(open(f))
props = [json.loads(l) for l in open(os.path.join(ROOT, "properties.jsonl"))]
checks, na = [], []
for p in props:
    pid = p["id"]
    r = reg["checks"].get(pid)
    if not r:
        na.append({"property_id": pid, "reason": reg["not_claimed"].get(pid, "check not built yet (work in progress; see DESIGN.md section 5)")})
        continue
    checks.append({
        "property_id": pid,
        "quick_cmd": "./check %s quick" % pid,
        "thorough_cmd": "./check %s thorough" % pid,
        "evidence_file": "/verif/evidence/%s.json" % pid,
        "replay_cmd_template": "./check --replay {path}",
        "engine": "coq-proof+correspondence",
        "level_claimed": {"category": r.get("category", "proof"), "text": r["text"], "design_ref": r.get("design_ref", "DESIGN.md section 5 / " + pid)},
        "level_note": r["note"],
        "technique": r.get("technique", "machine-checked proof in Coq 8.16 about a hand-written Gallina model, tied to the code by a differential correspondence check run on every invocation"),
    })
m = {
    "version": 1,
    "setup_cmd": "./check --setup",
    "hooks": {"guard": "AFKAK_VERIF", "enable": "no hooks are needed: every observation goes through public APIs, injected reactors/endpoints and recording transports (guard name reserved, unused)",
              "baseline_off_cmd": "cd /repo && /venv/bin/python -m pytest -ra -q -p no:cacheprovider --timeout=900 --continue-on-collection-errors",
              "source_commits": reg.get("hook_commits", []), "add_only": True},
    "engines": [{"name": "coq-proof+correspondence", "path": "/verif/check", "serves_properties": [c["property_id"] for c in checks],
                 "kind_free_text": "Coq 8.16.1 theorems over hand-written Gallina models (coq/Model, coq/Proofs, coq/Props) + differential correspondence harness (harness/) driving the real afkak code from /repo's working tree against the extracted models"}],
    "checks": checks,
    "notes": reg.get("notes", ""),
    "not_applicable": na,
}
json.dump(m, open(os.path.join(ROOT, "MANIFEST.json"), "w"), indent=1)
print("claimed:", [c["property_id"] for c in checks], "not claimed:", [n["property_id"] for n in na])
