#!/usr/bin/env python3
"""Regenerates the seeded-change table between the GENERATED SEEDS markers of DESIGN.md from seeded/*/meta.json,
seeded/RESULTS.json (written by tools/seed_matrix.py) and seeded/HARMLESS_RESULTS.json (tools/harmless_matrix.py)."""
import glob, json, os, re
ROOT = os.path.dirname(os.path.dirname(os.path.abspath(__file__)))
res = json.load(open(os.path.join(ROOT, "seeded", "RESULTS.json"))) if os.path.exists(os.path.join(ROOT, "seeded", "RESULTS.json")) else {}
rows = []
tot = {"caught concrete": 0, "caught no-input": 0, "MISSED": 0, "superseded": 0, "not run": 0}
for d in sorted(glob.glob(os.path.join(ROOT, "seeded", "C[0-9][0-9]-m*"))):
    n = os.path.basename(d)
    try:
        m = json.load(open(os.path.join(d, "meta.json")))
    except Exception:
        m = {}
    summ = re.sub(r"\s+", " ", str(m.get("summary", "")))[:170].replace("|", "/")
    r = res.get(n, {})
    verdict = r.get("result", "not run")
    if m.get("superseded"):
        verdict = "superseded"
    elif verdict.startswith("PATCH"):
        verdict = "superseded"
    key = verdict if verdict in tot else "not run"
    tot[key] += 1
    how = ""
    mm = re.search(r"\[(.*)\]\s*$", r.get("detail", ""))
    if mm:
        how = mm.group(1)[:110].replace("|", "/")
    note = ""
    sib = m.get("caught_by_sibling")
    if sib:
        note = " (caught by %s)" % sib
    rows.append("| %s | %s | %s%s | %s |" % (n, summ, verdict, note, how))
hp = os.path.join(ROOT, "seeded", "HARMLESS_RESULTS.json")
hsum = ""
if os.path.exists(hp):
    h = json.load(open(hp))
    runs = sum(len(v) for v in h.values())
    alarms = [(n, p) for n, v in h.items() for p, r in v.items() if r != "ok" and not r.startswith("PATCH")]
    hsum = ("\nBehaviour-preserving rewrites: %d patches under `seeded/harmless/`, %d (patch, check) runs at the last campaign, "
            "%d alarms%s.\n" % (len(h), runs, len(alarms), (": " + ", ".join("%s/%s" % a for a in alarms)) if alarms else ""))
table = ("Totals over %d seeded changes (own property's quick check, last campaign): %d caught with a concrete failing input, %d caught "
         "only as `no-failing-input-found`, %d missed by their own check, %d superseded by later `fix:` commits.\n%s\n"
         "| seeded change | what was changed (from the sub-agent's meta.json) | result | first replay kinds |\n|---|---|---|---|\n" %
         (len(rows), tot["caught concrete"], tot["caught no-input"], tot["MISSED"], tot["superseded"], hsum)) + "\n".join(rows)
dp = os.path.join(ROOT, "DESIGN.md")
s = open(dp).read()
b, e = "<!-- BEGIN GENERATED SEEDS -->", "<!-- END GENERATED SEEDS -->"
if b in s and e in s:
    s = s[:s.index(b) + len(b)] + "\n" + table + "\n" + s[s.index(e):]
    open(dp, "w").write(s)
print(table[:1500])
