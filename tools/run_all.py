#!/usr/bin/env python3
"""Coordinator tool (not a registered check): run the quick (or thorough) command of every check in MANIFEST.json
(or of the ids given), validate MANIFEST.json and each evidence file against the schemas in /root/.vp, print a table.
usage: tools/run_all.py [quick|thorough] [-j N] [Cxx ...]"""
import json, os, subprocess, sys, time
from concurrent.futures import ThreadPoolExecutor
ROOT = os.path.dirname(os.path.dirname(os.path.abspath(__file__)))
args = sys.argv[1:]
tier = "quick"
jobs = 1
ids = []
while args:
    a = args.pop(0)
    if a in ("quick", "thorough"):
        tier = a
    elif a == "-j":
        jobs = int(args.pop(0))
    else:
        ids.append(a)
man = json.load(open(os.path.join(ROOT, "MANIFEST.json")))
VT = "/opt/veriftools/pyvenv/bin/python"


def validate(path, schema):
    code = ("import json,sys,jsonschema; jsonschema.validate(json.load(open(sys.argv[1])), json.load(open(sys.argv[2])))")
    p = subprocess.run([VT, "-c", code, path, schema], capture_output=True, text=True)
    return p.returncode == 0, p.stderr.strip().splitlines()[-1:] if p.returncode else ""


ok, why = validate(os.path.join(ROOT, "MANIFEST.json"), "/root/.vp/MANIFEST.schema.json")
print("MANIFEST.json valid:", ok, why)
checks = [c for c in man["checks"] if not ids or c["property_id"] in ids]
for i in ids:
    if i not in [c["property_id"] for c in checks]:
        checks.append({"property_id": i, "quick_cmd": "./check %s quick" % i, "thorough_cmd": "./check %s thorough" % i,
                       "evidence_file": "/verif/evidence/%s.json" % i})


def run(c):
    cmd = c["thorough_cmd"] if tier == "thorough" else c["quick_cmd"]
    ev = c["evidence_file"]
    if os.path.exists(ev):
        os.remove(ev)
    t0 = time.time()
    p = subprocess.run(cmd, shell=True, cwd=ROOT, capture_output=True, text=True)
    dt = time.time() - t0
    lines = [l for l in p.stdout.splitlines() if l.startswith(("VIOLATION", "KNOWN-FINDING"))]
    evok, evwhy = (False, ["missing"]) if not os.path.exists(ev) else validate(ev, "/root/.vp/EVIDENCE.schema.json")
    extra = ""
    if evok:
        e = json.load(open(ev))
        cv = e["coverage"]
        extra = "obl %s/%s eval %s distinct %s" % (cv.get("obligations"), cv.get("discharged"), cv.get("evaluations"), cv.get("distinct_nontrivial"))
    return c["property_id"], p.returncode, dt, evok, evwhy, lines, extra


with ThreadPoolExecutor(jobs) as ex:
    res = list(ex.map(run, checks))
bad = 0
for pid, rc, dt, evok, evwhy, lines, extra in res:
    flag = "OK " if rc == 0 and evok and not [l for l in lines if l.startswith("VIOLATION")] else "BAD"
    bad += flag == "BAD"
    print("%s %s rc=%d %6.1fs evidence_valid=%s %s %s" % (flag, pid, rc, dt, evok, evwhy if not evok else "", extra))
    for l in lines:
        print("     ", l[:200])
sys.exit(1 if bad else 0)
