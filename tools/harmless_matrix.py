#!/usr/bin/env python3
"""Coordinator tool: run every behaviour-preserving rewrite under seeded/harmless/ against the checks of the
properties anchored in the module it rewrites; any exit 1 is a false alarm.  Writes seeded/HARMLESS_RESULTS.json.
usage: tools/harmless_matrix.py [-j N] [name-glob]"""
import fnmatch, glob, json, os, subprocess, sys, tempfile, shutil
from concurrent.futures import ThreadPoolExecutor
ROOT = os.path.dirname(os.path.dirname(os.path.abspath(__file__)))
MAP = {"codec": "C04 C05 C12 C15 C02 C03", "broker": "C06 C10 C11 C20", "client": "C07 C08 C11 C20 C04 C01 C09 C15 C18 C03",
       "producer": "C01 C09 C19 C04 C18", "consumer": "C14 C13 C02 C03 C12 C16", "group": "C15 C16 C17", "partitioner": "C18 C01"}
args = sys.argv[1:]
jobs = 4
if args and args[0] == "-j":
    jobs = int(args[1]); args = args[2:]
pat = args[0] if args else "*"
work = []
for d in sorted(glob.glob(os.path.join(ROOT, "seeded", "harmless", "*"))):
    n = os.path.basename(d)
    if fnmatch.fnmatch(n, pat) and os.path.exists(os.path.join(d, "patch.diff")):
        for pid in MAP[n.rsplit("-h", 1)[0]].split():
            work.append((n, d, pid))


def run(w):
    n, d, pid = w
    t = tempfile.mkdtemp(prefix="harmless.", dir="/tmp")
    try:
        subprocess.run("git -C /repo archive HEAD afkak | tar -x -C %s" % t, shell=True, check=True)
        p = subprocess.run("patch -p1 -s < %s" % os.path.join(d, "patch.diff"), shell=True, cwd=t, capture_output=True, text=True)
        if p.returncode:
            return n, pid, "PATCH DOES NOT APPLY"
        q = subprocess.run(["./check", pid, "quick"], cwd=ROOT, env=dict(os.environ, VERIF_REPO=t), capture_output=True, text=True)
        v = [l for l in q.stdout.splitlines() if l.startswith("VIOLATION")]
        return n, pid, "ok" if q.returncode == 0 and not v else "ALARM rc=%d %s" % (q.returncode, v[:2])
    finally:
        shutil.rmtree(t, ignore_errors=True)


res = {}
with ThreadPoolExecutor(jobs) as ex:
    for n, pid, r in ex.map(run, work):
        res.setdefault(n, {})[pid] = r
        if r != "ok":
            print(n, pid, r, flush=True)
out = os.path.join(ROOT, "seeded", "HARMLESS_RESULTS.json")
old = json.load(open(out)) if os.path.exists(out) else {}
old.update(res)
json.dump(old, open(out, "w"), indent=1, sort_keys=True)
print("runs:", len(work), "alarms:", sum(1 for n in res for p in res[n] if res[n][p] != "ok"))
