#!/usr/bin/env python3
"""Coordinator tool: confirm the seeded changes a sub-agent left in <worktree>/_seeded/m*/ and keep the confirmed ones
as /verif/seeded/<Cxx>-m<i>/.   usage: tools/confirm_seed.py <Cxx> <worktree>
For each m<i>: clean tree -> demo must PASS; apply patch -> suite counts must equal the baseline, demo must FAIL; clean again."""
import json, os, re, shutil, subprocess, sys
pid, wt = sys.argv[1], sys.argv[2]
ROOT = os.path.dirname(os.path.dirname(os.path.abspath(__file__)))
PY = "/venv/bin/python"


def sh(cmd, cwd=wt, timeout=1200):
    p = subprocess.run(cmd, shell=True, cwd=cwd, capture_output=True, text=True, timeout=timeout)
    return p.returncode, (p.stdout + p.stderr)


def suite():
    rc, o = sh(PY + " -m pytest -q -p no:cacheprovider --timeout=900 2>&1 | tail -3")
    m = re.search(r"(\d+) failed, (\d+) passed, (\d+) skipped", o)
    return m.group(0) if m else o.strip()[-200:]


def demo(d):
    rc, o = sh("%s %s" % (PY, os.path.join(d, "demo.py")), timeout=600)
    return rc, o.strip().splitlines()[-1][:200] if o.strip() else ""


sh("git checkout -- afkak")
for d in sorted(os.listdir(os.path.join(wt, "_seeded"))):
    sd = os.path.join(wt, "_seeded", d)
    if not (d.startswith("m") and os.path.exists(os.path.join(sd, "patch.diff"))):
        continue
    sh("git checkout -- afkak")
    rc0, l0 = demo(sd)
    rca, oa = sh("git apply %s" % os.path.join(sd, "patch.diff"))
    if rca:
        print(pid, d, "PATCH DOES NOT APPLY", oa[-300:])
        continue
    st = suite()
    rc1, l1 = demo(sd)
    sh("git checkout -- afkak")
    ok = rc0 == 0 and rc1 != 0 and st.startswith("1 failed, 310 passed")
    print("%s %s confirmed=%s clean_demo=(%d,%s) mutant_demo=(%d,%s) suite=%s" % (pid, d, ok, rc0, l0, rc1, l1, st))
    if ok:
        dst = os.path.join(ROOT, "seeded", "%s-%s" % (pid, d))
        if os.path.exists(dst):
            shutil.rmtree(dst)
        shutil.copytree(sd, dst)
        mp = os.path.join(dst, "meta.json")
        try:
            meta = json.load(open(mp))
        except Exception as e:
            meta = {"property": pid, "meta_unreadable": repr(e)}
        meta["confirmed_by_coordinator"] = {"suite_with_patch": st, "demo_with_patch": "exit %d: %s" % (rc1, l1),
                                            "demo_without_patch": "exit %d: %s" % (rc0, l0),
                                            "repo_head": subprocess.run("git -C /repo rev-parse --short HEAD", shell=True, capture_output=True, text=True).stdout.strip()}
        json.dump(meta, open(mp, "w"), indent=1)
