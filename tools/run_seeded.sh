#!/bin/bash
# usage: tools/run_seeded.sh <patch.diff> <Cxx> [tier]   -- runs ./check against a scratch copy of /repo HEAD with the patch applied
set -e
P=$(readlink -f "$1"); PID=$2; TIER=${3:-quick}
D=$(mktemp -d /tmp/seedrun.XXXXXX)
git -C /repo archive HEAD afkak | tar -x -C "$D"
( cd "$D" && git apply --unsafe-paths --directory="$D" "$P" 2>/dev/null || patch -p1 -s < "$P" )
cd /verif
set +e
VERIF_REPO="$D" ./check "$PID" "$TIER" 2>/dev/null | cut -c1-220 | tail -8
RC=${PIPESTATUS[0]}
rm -rf "$D"
echo "exit=$RC"
