#!/usr/bin/env python3
"""Regenerates the status table between the GENERATED markers of DESIGN.md from what is on disk:
Props/*.v theorem counts, evidence/*.json of the last run against /repo, seeded/RESULTS.json, known_findings.txt."""
import glob, json, os, re
ROOT = os.path.dirname(os.path.dirname(os.path.abspath(__file__)))
props = [json.loads(l) for l in open(os.path.join(ROOT, "properties.jsonl"))]
res = {}
rp = os.path.join(ROOT, "seeded", "RESULTS.json")
if os.path.exists(rp):
    res = json.load(open(rp))
kf = open(os.path.join(ROOT, "known_findings.txt")).read().splitlines()
rows = []
for p in props:
    pid = p["id"]
    nthm = nref = npart = 0
    for f in [os.path.join(ROOT, "coq", "Props", pid + ".v")] + sorted(glob.glob(os.path.join(ROOT, "coq", "Props", pid + "gen*.v"))) + \
            sorted(glob.glob(os.path.join(ROOT, "coq", "Props", pid + "bridge*.v"))) + \
            sorted(glob.glob(os.path.join(ROOT, "coq", "Props", pid + "all*.v"))) + \
            sorted(glob.glob(os.path.join(ROOT, "coq", "Props", pid + "callers*.v"))):
        if os.path.exists(f):
            txt = re.sub(r"\(\*.*?\*\)", "", open(f).read(), flags=re.S)     # comments removed (non-nested is enough here)
            names = re.findall(r"^\s*Theorem\s+([\w']+)", txt, re.M)
            nthm += len(names)
            nref += sum(1 for n in names if n.endswith("_refuted") or "_refuted_" in n)
            npart += sum(1 for n in names if n.endswith("_partial"))
    ev = {}
    ep = os.path.join(ROOT, "evidence", pid + ".json")
    if os.path.exists(ep):
        try:
            ev = json.load(open(ep))
        except Exception:
            ev = {}
    cv = ev.get("coverage", {})
    tie = cv.get("translator_tie")
    if isinstance(tie, dict):
        per = {}
        for k, v in tie.items():
            if k.startswith("per_") and isinstance(v, dict):
                per.update(v)
        vals = [str(v.get("status", v) if isinstance(v, dict) else v) for v in per.values()]
        tie = ("%d/%d functions intact" % (sum(1 for v in vals if v.startswith("intact")), len(vals))) if vals else str(tie.get("state", "?"))[:40]
    elif tie is None:
        tie = "-"
    else:
        tie = str(tie)[:40]
    seeds = {k: v for k, v in res.items() if k.startswith(pid + "-")}
    sc = sum(1 for v in seeds.values() if v["result"].startswith("caught concrete"))
    sn = sum(1 for v in seeds.values() if v["result"].startswith("caught no-input"))
    sm = sum(1 for v in seeds.values() if v["result"].startswith("MISSED"))
    known = [re.search(r"F-C\d+-\d+", l).group(0) for l in kf if l.startswith("known:") and ("property=%s " % pid) in l]
    fixed = [re.search(r"F-C\d+-\d+", l).group(0) for l in kf if l.startswith("fixed:") and ("property=%s " % pid) in l]
    rows.append("| %s | %d (%d refuted-witness, %d partial) | %s/%s | %s | %s | %s | %d / %d / %d | %s | %s |" % (
        pid, nthm, nref, npart, cv.get("discharged", "?"), cv.get("obligations", "?"), tie, cv.get("evaluations", "?"),
        ev.get("wall_s", "?"), sc, sn, sm, ", ".join(known) or "-", len(fixed)))
table = ("| id | theorems in Props (Cxx.v + Cxxgen*/bridge/all/callers.v) | obligations discharged (last run) | translator tie | cases (quick) | wall s | "
         "seeded: concrete / no-input / missed by own check | known findings | fixed findings |\n|---|---|---|---|---|---|---|---|---|\n" + "\n".join(rows))
dp = os.path.join(ROOT, "DESIGN.md")
s = open(dp).read()
b, e = "<!-- BEGIN GENERATED STATUS -->", "<!-- END GENERATED STATUS -->"
if b in s and e in s:
    s = s[:s.index(b) + len(b)] + "\n" + table + "\n" + s[s.index(e):]
    open(dp, "w").write(s)
print(table)
