#!/usr/bin/env python3
"""Prints the prompt given to a fresh mutation sub-agent for property <id> with scratch worktree <dir>.
The prompt contains ONLY the property text and the worktree path (nothing from /verif)."""
import json, sys
pid, wt = sys.argv[1], sys.argv[2]
n = sys.argv[3] if len(sys.argv) > 3 else "2"
for l in open('/verif/properties.jsonl'):
    p = json.loads(l)
    if p['id'] == pid:
        break
else:
    sys.exit("unknown property")
txt = json.dumps({k: p[k] for k in ('id', 'title', 'statement', 'quantifier', 'why_tests_cant', 'anchors')}, indent=1)
print(f"""You are a test engineer probing a verification tool that you cannot see. You have a scratch git worktree of the Python library ciena/afkak (a Twisted-based Apache Kafka client) at {wt} (branch detached at the current HEAD). Work ONLY inside {wt}; never touch /repo or /verif and do not read anything under /verif.

Below is one semantic property that the library is supposed to satisfy. Produce {n} DIFFERENT realistic code changes ("mutants") to the library source under {wt}/afkak (not the tests) such that, for each one:
 1. the library still imports and the existing test suite still passes exactly as before: run `cd {wt} && /venv/bin/python -m pytest -q -p no:cacheprovider --timeout=900 2>&1 | tail -3` — the baseline is `1 failed, 310 passed, 47 skipped` (the one failure, test_consumer_stop_during_initial_proc_call, is pre-existing); a mutant must give the same counts;
 2. the property below is genuinely violated by the changed code;
 3. the violation needs something SPECIFIC to manifest — a particular interleaving, a fault at a particular point, a multi-step sequence of operations, an unusual input, or two cooperating sites that each look fine alone — not something ordinary use would expose at once. Prefer the kind of mistake a maintainer could plausibly make in a refactoring or an "optimisation" (off-by-one, a dropped or weakened guard, wrong dict key, swapped order of two statements/callbacks, `<` for `<=`, stale state not cleared, a special case forgotten), not sabotage;
 4. you write a small standalone demonstration program (plain Python run with `/venv/bin/python demo.py`, with `sys.path.insert(0, '{wt}')` at the top so that it imports the worktree's afkak; use twisted.internet.task.Clock and mocks/fakes as needed, no network) that exits 0 and prints PASS on the ORIGINAL code and exits 1 and prints FAIL on the mutated code, by observing the property's violation (not by inspecting the source).

For each mutant i (1..{n}) create a directory {wt}/_seeded/m<i>/ containing: `patch.diff` (output of `git -C {wt} diff -- afkak` for that mutant alone, applicable with `git apply` to a clean tree), `demo.py`, and `meta.json` with keys: "property" ("{pid}"), "summary" (one paragraph: what was changed and why it breaks the property), "needs" (what specific input / schedule / fault / sequence is needed for it to manifest), "ran" (the exact commands you ran and their results: test-suite counts with the mutant, demo result with and without it). Make sure the worktree's afkak/ is back to the clean state (`git -C {wt} checkout -- afkak`) between mutants and at the end (the _seeded directory stays, untracked). Verify every claim by actually running the commands. Final answer: a short list of the mutants with their summaries.

THE PROPERTY:
{txt}
""")
