#!/usr/bin/env python3
"""Coordinator tool: run a set of checks against a scratch copy of /repo HEAD with a patch applied.
usage: tools/run_patch.py <patch.diff> [-j N] [--tier quick] Cxx [Cyy ...]
Prints one line per check: id, exit code, number of VIOLATION lines (and how many carry a concrete input).
Evidence files of the unchanged tree are NOT touched (the run writes to a scratch evidence dir via VERIF_EVIDENCE_DIR
if the framework supports it; otherwise they are saved and restored)."""
import os, shutil, subprocess, sys, tempfile
from concurrent.futures import ThreadPoolExecutor
ROOT = os.path.dirname(os.path.dirname(os.path.abspath(__file__)))
args = sys.argv[1:]
patch = os.path.abspath(args.pop(0))
jobs, tier, ids = 2, "quick", []
while args:
    a = args.pop(0)
    if a == "-j":
        jobs = int(args.pop(0))
    elif a == "--tier":
        tier = args.pop(0)
    else:
        ids.append(a)
d = tempfile.mkdtemp(prefix="patchrun.", dir="/tmp")
try:
    subprocess.run("git -C /repo archive HEAD afkak | tar -x -C %s" % d, shell=True, check=True)
    p = subprocess.run("patch -p1 -s < %s" % patch, shell=True, cwd=d, capture_output=True, text=True)
    if p.returncode:
        print("PATCH DOES NOT APPLY", p.stdout[-300:], p.stderr[-300:])
        sys.exit(2)
    saved = tempfile.mkdtemp(prefix="evsave.", dir="/tmp")
    for i in ids:
        f = os.path.join(ROOT, "evidence", i + ".json")
        if os.path.exists(f):
            shutil.copy(f, saved)

    def run(i):
        env = dict(os.environ, VERIF_REPO=d)
        q = subprocess.run(["./check", i, tier], cwd=ROOT, env=env, capture_output=True, text=True)
        v = [l for l in q.stdout.splitlines() if l.startswith("VIOLATION")]
        conc = [l for l in v if "no-failing-input-found" not in l]
        return i, q.returncode, len(v), len(conc)
    with ThreadPoolExecutor(jobs) as ex:
        for i, rc, nv, nc in ex.map(run, ids):
            print("%s rc=%d violations=%d concrete=%d" % (i, rc, nv, nc))
    for i in ids:
        f = os.path.join(saved, i + ".json")
        if os.path.exists(f):
            shutil.copy(f, os.path.join(ROOT, "evidence", i + ".json"))
    shutil.rmtree(saved)
finally:
    shutil.rmtree(d, ignore_errors=True)
