#!/usr/bin/env python3
"""Coordinator tool: run seeded changes against their property's quick check and print one line per seed.
usage: tools/seed_matrix.py [-j N] <glob of seeded dirs, e.g. 'seeded/C0[1-9]-m[456]'> ..."""
import glob, os, subprocess, sys, tempfile, shutil
from concurrent.futures import ThreadPoolExecutor
ROOT = os.path.dirname(os.path.dirname(os.path.abspath(__file__)))
args = sys.argv[1:]
jobs = 3
if args and args[0] == "-j":
    jobs = int(args[1]); args = args[2:]
dirs = []
for a in args:
    dirs += sorted(glob.glob(os.path.join(ROOT, a)))
dirs = [d for d in dirs if os.path.exists(os.path.join(d, "patch.diff")) and "harmless" not in d]


def run(d):
    name = os.path.basename(d)
    pid = name.split("-")[0]
    t = tempfile.mkdtemp(prefix="seedrun.", dir="/tmp")
    try:
        subprocess.run("git -C /repo archive HEAD afkak | tar -x -C %s" % t, shell=True, check=True)
        p = subprocess.run("patch -p1 -s < %s" % os.path.join(d, "patch.diff"), shell=True, cwd=t, capture_output=True, text=True)
        if p.returncode:
            return name, "PATCH DOES NOT APPLY"
        q = subprocess.run(["./check", pid, "quick"], cwd=ROOT, env=dict(os.environ, VERIF_REPO=t), capture_output=True, text=True)
        v = [l for l in q.stdout.splitlines() if l.startswith("VIOLATION")]
        conc = [l for l in v if "no-failing-input-found" not in l]
        kinds = []
        for l in v[:5]:
            rp = l.split("replay=")[1].split()[0]
            try:
                import json
                r = json.load(open(rp))
                kinds.append(str(r.get("monitor") or r.get("kind") or r.get("what") or r.get("theorem") or "")[:60])
            except Exception:
                pass
        verdict = "MISSED" if q.returncode == 0 else ("caught concrete" if conc else "caught no-input")
        return name, "%s rc=%d violations=%d concrete=%d %s" % (verdict, q.returncode, len(v), len(conc), sorted(set(kinds))[:3])
    finally:
        shutil.rmtree(t, ignore_errors=True)


import json
respath = os.path.join(ROOT, "seeded", "RESULTS.json")
results = json.load(open(respath)) if os.path.exists(respath) else {}
head = subprocess.run("git -C /repo rev-parse --short HEAD", shell=True, capture_output=True, text=True).stdout.strip()
vhead = subprocess.run("git -C %s rev-parse --short HEAD" % ROOT, shell=True, capture_output=True, text=True).stdout.strip()
with ThreadPoolExecutor(jobs) as ex:
    for name, res in ex.map(run, dirs):
        print(name, res, flush=True)
        results[name] = {"result": res.split(" rc=")[0], "detail": res, "repo": head, "verif": vhead}
json.dump(results, open(respath, "w"), indent=1, sort_keys=True)
