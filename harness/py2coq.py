# Fail-closed translator from a small subset of Python (integer arithmetic over byte-array arguments)
# to Gallina.  Used to translate afkak/partitioner.py:pure_murmur2 (and the module-level helpers and
# constants it uses) on every run, so that the theorem `gen_pure_murmur2 = pure_murmur2`
# (Proofs/MurmurGenTac.v, instantiated per run in coq/Run/out/gen/) is re-checked against what the
# source says now.  The committed coq/Model/MurmurGen.v is a SNAPSHOT of the translation of /repo; it is
# only rewritten by `refresh_snapshot` (./check --setup) after the proof about the new text has compiled.
#
# What is translated (everything else raises Untranslatable: tie (A) is then "unavailable"):
#   module level   NAME = <constant integer expression>   (bound exactly once in the module, no `global`)
#                  def helper(p1, ..): ...                 (called from the translated function; acyclic)
#   statements     x = e      a, b = e1, e2      a, b = divmod(e, c)      x op= e   (+ - * // % & | ^ << >>)
#                  for i in range(e) / range(e1, e2) / range(e1, e2, c): body   (no break/continue/else/return)
#                  if / elif / else (a branch may `return`; not inside a loop)       return e        pass
#                  docstrings;   y = bytearray(x) / bytes(x) / memoryview(x) / x / coerce(x)   for an array x (alias;
#                  coerce = a helper that returns its argument, bytearray(arg) or bytes(arg), or raises, under type tests)
#                  type guards on an array argument, dropped (the model's inputs ARE byte arrays):
#                      if not isinstance(x, bytearray): raise ...     if type(x) is not bytearray: raise ...
#                      (also with a tuple of byte-array types) and a statement call `check(x)` of a helper whose
#                      body consists of such guards only
#   expressions    int literals, names, + - * // % & | ^ << >> ~ unary-, `e1 if c else e2`, len(x), x[e],
#                  min/max/abs/int, helper calls; any variable-free sub-expression is folded by evaluating it in
#                  Python (so 2**32 - 1, 1 << 32 are fine)
#   conditions     comparisons (chained too), and/or/not, an integer used as a truth value (e != 0)
# Restrictions that keep Python's and Z's meaning identical: the divisor of // and % and the step of range are
# non-zero integer constants; shift counts are non-negative constants; x[e] is translated by py_index (negative
# e counts from the end, as in Python; an out-of-range index, which raises in Python, reads 0); True/False,
# floats, strings, attribute access, while, try, with, assert, lambda, comprehensions are refused.
import ast
import hashlib
import os

HERE = os.path.dirname(os.path.abspath(__file__))
ROOT = os.path.dirname(HERE)
COQ = os.path.join(ROOT, "coq")
SNAPSHOT = os.path.join(COQ, "Model", "MurmurGen.v")


class Untranslatable(Exception):
    pass


BINOPS = {
    ast.Add: "Z.add", ast.Sub: "Z.sub", ast.Mult: "Z.mul", ast.FloorDiv: "Z.div", ast.Mod: "Z.modulo",
    ast.BitAnd: "Z.land", ast.BitOr: "Z.lor", ast.BitXor: "Z.lxor", ast.LShift: "Z.shiftl", ast.RShift: "Z.shiftr",
}
CMPOPS = {ast.Eq: "Z.eqb", ast.Lt: "Z.ltb", ast.LtE: "Z.leb", ast.Gt: "Z.gtb", ast.GtE: "Z.geb"}
ARRAY_TYPES = ("bytearray", "bytes", "memoryview")
MAX_SHIFT = 4096


def zlit(v):
    return "(%d)" % v


def py_fold(op, a, b):
    """Python's own arithmetic on constants (the ground truth for the constant folding)."""
    if isinstance(op, ast.Add):
        return a + b
    if isinstance(op, ast.Sub):
        return a - b
    if isinstance(op, ast.Mult):
        return a * b
    if isinstance(op, (ast.FloorDiv, ast.Mod)):
        if b == 0:
            raise Untranslatable("constant division by zero")
        return a // b if isinstance(op, ast.FloorDiv) else a % b
    if isinstance(op, ast.BitAnd):
        return a & b
    if isinstance(op, ast.BitOr):
        return a | b
    if isinstance(op, ast.BitXor):
        return a ^ b
    if isinstance(op, (ast.LShift, ast.RShift)):
        if not 0 <= b <= MAX_SHIFT:
            raise Untranslatable("constant shift count out of range")
        return a << b if isinstance(op, ast.LShift) else a >> b
    if isinstance(op, ast.Pow):
        if not 0 <= b <= MAX_SHIFT or abs(a) > 1 << 64:
            raise Untranslatable("constant power out of range")
        return a ** b
    raise Untranslatable("constant operator " + type(op).__name__)


class Module:
    """One parsed source file: its top-level functions and integer constants."""

    def __init__(self, source):
        self.tree = ast.parse(source)
        self.funcs = {}
        dup = set()
        for node in self.tree.body:
            if isinstance(node, ast.FunctionDef):
                if node.name in self.funcs:
                    dup.add(node.name)
                self.funcs[node.name] = node
        self.dup_funcs = dup
        # how often is each name bound at module level (outside def/class bodies), or declared global anywhere
        self.bind_count = {}
        self.const_expr = {}
        for node in self.tree.body:
            self._count_bindings(node, top=True)
        for node in ast.walk(self.tree):
            if isinstance(node, (ast.Global, ast.Nonlocal)):
                for n in node.names:
                    self.bind_count[n] = self.bind_count.get(n, 0) + 2
        self._const_cache = {}

    def _bump(self, name):
        self.bind_count[name] = self.bind_count.get(name, 0) + 1

    def _count_bindings(self, node, top):
        if isinstance(node, (ast.FunctionDef, ast.AsyncFunctionDef, ast.ClassDef)):
            self._bump(node.name)
            return
        if isinstance(node, (ast.Import, ast.ImportFrom)):
            for a in node.names:
                self._bump((a.asname or a.name).split(".")[0])
            return
        if top and isinstance(node, ast.Assign) and len(node.targets) == 1 and isinstance(node.targets[0], ast.Name):
            self._bump(node.targets[0].id)
            self.const_expr[node.targets[0].id] = node.value
            return
        if top and isinstance(node, ast.AnnAssign) and isinstance(node.target, ast.Name) and node.value is not None:
            self._bump(node.target.id)
            self.const_expr[node.target.id] = node.value
            return
        # anything else at module level (try/if/for/with/augmented assignment ...): every name stored inside is "not constant"
        for sub in ast.walk(node):
            if isinstance(sub, ast.Name) and isinstance(sub.ctx, (ast.Store, ast.Del)):
                self._bump(sub.id)
                self._bump(sub.id)
            elif isinstance(sub, (ast.FunctionDef, ast.ClassDef)) and sub is not node:
                self._bump(sub.name)
                self._bump(sub.name)
            elif isinstance(sub, ast.ExceptHandler) and sub.name:
                self._bump(sub.name)
                self._bump(sub.name)
            elif isinstance(sub, (ast.Import, ast.ImportFrom)):
                for a in sub.names:
                    self._bump((a.asname or a.name).split(".")[0])
                    self._bump((a.asname or a.name).split(".")[0])

    def constant(self, name, stack=()):
        """value of a module-level integer constant, or None"""
        if name in self._const_cache:
            return self._const_cache[name]
        if self.bind_count.get(name) != 1 or name not in self.const_expr or name in stack:
            return None
        try:
            v = const_eval(self.const_expr[name], lambda n: self.constant(n, stack + (name,)))
        except Untranslatable:
            v = None
        self._const_cache[name] = v
        return v


def const_eval(e, lookup):
    """Evaluate a variable-free integer expression with Python's own arithmetic; None if it is not one."""
    if isinstance(e, ast.Constant):
        if isinstance(e.value, int) and not isinstance(e.value, bool):
            return e.value
        return None
    if isinstance(e, ast.Name):
        return lookup(e.id)
    if isinstance(e, ast.BinOp):
        a = const_eval(e.left, lookup)
        if a is None:
            return None
        b = const_eval(e.right, lookup)
        if b is None:
            return None
        if isinstance(e.op, ast.Div):
            return None
        return py_fold(e.op, a, b)
    if isinstance(e, ast.UnaryOp):
        a = const_eval(e.operand, lookup)
        if a is None:
            return None
        if isinstance(e.op, ast.Invert):
            return ~a
        if isinstance(e.op, ast.USub):
            return -a
        if isinstance(e.op, ast.UAdd):
            return a
        return None
    return None


def is_docstring(s):
    return isinstance(s, ast.Expr) and isinstance(s.value, ast.Constant) and isinstance(s.value.value, str)


def stores(stmts):
    """names bound (Store) anywhere in these statements, with multiplicity"""
    out = {}
    for s in stmts:
        for n in ast.walk(s):
            if isinstance(n, ast.Name) and isinstance(n.ctx, ast.Store):
                out[n.id] = out.get(n.id, 0) + 1
    return out


def contains_return(stmts):
    return any(isinstance(n, ast.Return) for s in stmts for n in ast.walk(s))


class FnTr:
    """Translation of one function.  Arrays are Gallina `list Z` named a_<x>; integers are Z named v_<x>."""

    def __init__(self, tr, fn):
        self.tr, self.mod, self.fn = tr, tr.mod, fn
        a = fn.args
        if a.vararg or a.kwarg or a.kwonlyargs or getattr(a, "posonlyargs", []) or fn.decorator_list:
            raise Untranslatable("signature of %s" % fn.name)
        self.params = [x.arg for x in a.args]
        if len(set(self.params)) != len(self.params):
            raise Untranslatable("duplicate parameter")
        self.body = [s for s in fn.body]
        self.store_count = stores(self.body)
        for s in ast.walk(fn):
            if isinstance(s, (ast.Global, ast.Nonlocal, ast.Lambda, ast.FunctionDef, ast.ClassDef, ast.Yield,
                              ast.YieldFrom, ast.Await)) and s is not fn:
                raise Untranslatable("%s inside %s" % (type(s).__name__, fn.name))
        self.locals = set(self.params) | set(self.store_count)
        self.arrays = None           # set of array-typed local names, computed by kinds()
        self.local_const = {}        # locals bound exactly once, at the top level of the body, to a constant
        self.defaults = {}
        nd = len(a.defaults)
        for p, d in zip(self.params[len(self.params) - nd:], a.defaults):
            v = const_eval(d, self.mod.constant)
            if v is None:
                raise Untranslatable("default value of %s is not an integer constant" % p)
            self.defaults[p] = v

    # ---- kinds: which locals are byte arrays
    def kinds(self):
        if self.arrays is not None:
            return self.arrays
        arr = set()
        changed = True
        while changed:
            changed = False
            for n in ast.walk(self.fn):
                new = None
                if isinstance(n, ast.Subscript) and isinstance(n.value, ast.Name):
                    new = n.value.id
                elif isinstance(n, ast.Call) and isinstance(n.func, ast.Name) and n.func.id not in self.locals:
                    f = n.func.id
                    builtin = self.mod.bind_count.get(f, 0) == 0
                    if builtin and f == "len" and len(n.args) == 1 and isinstance(n.args[0], ast.Name):
                        new = n.args[0].id
                    elif (builtin and f == "isinstance" and len(n.args) == 2 and isinstance(n.args[0], ast.Name)
                          and self.is_array_type_expr(n.args[1])):
                        new = n.args[0].id
                    elif f in self.mod.funcs and f != self.fn.name and self.tr.coercion(f):
                        if len(n.args) == 1 and isinstance(n.args[0], ast.Name):
                            new = n.args[0].id
                    elif f in self.mod.funcs and f != self.fn.name:
                        callee = self.tr.fn(f)
                        for p, arg in zip(callee.params, n.args):
                            if p in callee.kinds() and isinstance(arg, ast.Name) and arg.id not in arr and arg.id in self.locals:
                                arr.add(arg.id)
                                changed = True
                elif (isinstance(n, ast.Compare) and len(n.ops) == 1 and isinstance(n.ops[0], (ast.Is, ast.IsNot, ast.Eq, ast.NotEq))
                      and isinstance(n.left, ast.Call) and isinstance(n.left.func, ast.Name) and n.left.func.id == "type"
                      and "type" not in self.locals and self.mod.bind_count.get("type", 0) == 0
                      and len(n.left.args) == 1 and isinstance(n.left.args[0], ast.Name)
                      and self.is_array_type_expr(n.comparators[0])):
                    new = n.left.args[0].id
                if new is not None and new in self.locals and new not in arr:
                    arr.add(new)
                    changed = True
            # aliases  y = x / bytearray(x)  with x an array
            for n in ast.walk(self.fn):
                if isinstance(n, ast.Assign) and len(n.targets) == 1 and isinstance(n.targets[0], ast.Name):
                    src = self.alias_source(n.value, arr)
                    if src is not None and n.targets[0].id not in arr:
                        arr.add(n.targets[0].id)
                        changed = True
        self.arrays = arr
        return arr

    def is_coercion_helper(self):
        """a one-parameter helper that, on a byte array, returns the array (itself or as bytearray/bytes) or raises:
        only docstrings, pass, raise, `return p | bytearray(p, ..) | bytes(p)`, and if/elif/else whose tests are
        isinstance / type tests on the parameter"""
        if len(self.params) != 1 or self.defaults:
            return False
        p = self.params[0]

        def ret_ok(v):
            if isinstance(v, ast.Name):
                return v.id == p
            return (isinstance(v, ast.Call) and isinstance(v.func, ast.Name) and v.func.id in ARRAY_TYPES
                    and self.mod.bind_count.get(v.func.id, 0) == 0 and v.args and isinstance(v.args[0], ast.Name)
                    and v.args[0].id == p and all(isinstance(a, ast.Constant) for a in v.args[1:]) and not v.keywords)

        def test_ok(t):
            if isinstance(t, ast.UnaryOp) and isinstance(t.op, ast.Not):
                return test_ok(t.operand)
            if isinstance(t, ast.BoolOp):
                return all(test_ok(v) for v in t.values)
            if isinstance(t, ast.Call) and isinstance(t.func, ast.Name) and t.func.id == "isinstance" and len(t.args) == 2:
                return isinstance(t.args[0], ast.Name) and t.args[0].id == p
            if isinstance(t, ast.Compare) and len(t.ops) == 1 and isinstance(t.ops[0], (ast.Is, ast.IsNot, ast.Eq, ast.NotEq)):
                c = t.left
                return (isinstance(c, ast.Call) and isinstance(c.func, ast.Name) and c.func.id == "type" and len(c.args) == 1
                        and isinstance(c.args[0], ast.Name) and c.args[0].id == p)
            return False

        def stmts_ok(stmts):
            for s in stmts:
                if is_docstring(s) or isinstance(s, (ast.Pass, ast.Raise)):
                    continue
                if isinstance(s, ast.Return) and s.value is not None and ret_ok(s.value):
                    continue
                if isinstance(s, ast.If) and test_ok(s.test) and stmts_ok(s.body) and stmts_ok(s.orelse):
                    continue
                return False
            return True
        return stmts_ok(self.body) and contains_return(self.body)

    def alias_source(self, e, arr):
        if isinstance(e, ast.Name) and e.id in arr:
            return e.id
        if (isinstance(e, ast.Call) and isinstance(e.func, ast.Name) and e.func.id in self.mod.funcs
                and e.func.id not in self.locals and self.mod.bind_count.get(e.func.id) == 1 and e.func.id != self.fn.name
                and len(e.args) == 1 and not e.keywords and isinstance(e.args[0], ast.Name) and e.args[0].id in arr
                and e.func.id not in self.tr._active and self.tr.coercion(e.func.id)):
            return e.args[0].id
        if (isinstance(e, ast.Call) and isinstance(e.func, ast.Name) and e.func.id in ARRAY_TYPES
                and e.func.id not in self.locals and self.mod.bind_count.get(e.func.id, 0) == 0
                and len(e.args) == 1 and not e.keywords and isinstance(e.args[0], ast.Name) and e.args[0].id in arr):
            return e.args[0].id
        return None

    # ---- guards
    def is_array_type_expr(self, e):
        def ok(n):
            return (isinstance(n, ast.Name) and n.id in ARRAY_TYPES and n.id not in self.locals
                    and self.mod.bind_count.get(n.id, 0) == 0)
        if ok(e):
            return True
        return isinstance(e, ast.Tuple) and e.elts and all(ok(x) for x in e.elts)

    def is_type_guard(self, s):
        """`if <x is not a byte array>: raise ...` for an array x (no else)"""
        if not (isinstance(s, ast.If) and not s.orelse and len(s.body) == 1 and isinstance(s.body[0], ast.Raise)):
            return False
        t = s.test
        arr = self.kinds()
        if isinstance(t, ast.UnaryOp) and isinstance(t.op, ast.Not):
            c = t.operand
            return (isinstance(c, ast.Call) and isinstance(c.func, ast.Name) and c.func.id == "isinstance"
                    and "isinstance" not in self.locals and self.mod.bind_count.get("isinstance", 0) == 0
                    and len(c.args) == 2 and not c.keywords and isinstance(c.args[0], ast.Name) and c.args[0].id in arr
                    and self.is_array_type_expr(c.args[1]))
        if isinstance(t, ast.Compare) and len(t.ops) == 1 and isinstance(t.ops[0], (ast.IsNot, ast.NotEq)):
            c = t.left
            return (isinstance(c, ast.Call) and isinstance(c.func, ast.Name) and c.func.id == "type"
                    and "type" not in self.locals and self.mod.bind_count.get("type", 0) == 0
                    and len(c.args) == 1 and isinstance(c.args[0], ast.Name) and c.args[0].id in arr
                    and self.is_array_type_expr(t.comparators[0]) and not isinstance(t.comparators[0], ast.Tuple))
        return False

    def is_guard_only(self):
        """a helper whose body is docstring + type guards (+ pass / return None) only"""
        for s in self.body:
            if is_docstring(s) or isinstance(s, ast.Pass) or self.is_type_guard(s):
                continue
            if isinstance(s, ast.Return) and (s.value is None or (isinstance(s.value, ast.Constant) and s.value.value is None)):
                continue
            return False
        return True

    # ---- constants
    def cval(self, e, env):
        """constant value of an expression (module constants, and locals bound once to a constant that are in scope)"""
        def lookup(name):
            if name in self.locals:
                return self.local_const.get(name) if name in env else None
            return self.mod.constant(name)
        return const_eval(e, lookup)

    # ---- expressions
    def expr(self, e, env):
        v = None
        if not (isinstance(e, ast.Name) and e.id in self.locals):
            v = self.cval(e, env)
        if v is not None and not isinstance(e, ast.Name):
            return zlit(v)
        if isinstance(e, ast.Constant):
            raise Untranslatable("constant %r" % (e.value,))
        if isinstance(e, ast.Name):
            if e.id in self.locals:
                if e.id in self.kinds():
                    raise Untranslatable("array %s used as a number" % e.id)
                if e.id not in env:
                    raise Untranslatable("%s may be unbound here" % e.id)
                return "v_" + e.id
            if v is not None:
                return zlit(v)
            raise Untranslatable("name %s is not a local or a module integer constant" % e.id)
        if isinstance(e, ast.BinOp) and type(e.op) in BINOPS:
            if isinstance(e.op, (ast.FloorDiv, ast.Mod)):
                d = self.cval(e.right, env)
                if d is None or d == 0:
                    raise Untranslatable("divisor is not a non-zero constant")
            if isinstance(e.op, (ast.LShift, ast.RShift)):
                d = self.cval(e.right, env)
                if d is None or not 0 <= d <= MAX_SHIFT:
                    raise Untranslatable("shift count is not a small non-negative constant")
            return "(%s %s %s)" % (BINOPS[type(e.op)], self.expr(e.left, env), self.expr(e.right, env))
        if isinstance(e, ast.UnaryOp) and isinstance(e.op, ast.Invert):
            return "(Z.lnot %s)" % self.expr(e.operand, env)
        if isinstance(e, ast.UnaryOp) and isinstance(e.op, ast.USub):
            return "(Z.opp %s)" % self.expr(e.operand, env)
        if isinstance(e, ast.UnaryOp) and isinstance(e.op, ast.UAdd):
            return self.expr(e.operand, env)
        if isinstance(e, ast.IfExp):
            return "(if %s then %s else %s)" % (self.cond(e.test, env), self.expr(e.body, env), self.expr(e.orelse, env))
        if isinstance(e, ast.Subscript):
            if not (isinstance(e.value, ast.Name) and e.value.id in self.kinds()):
                raise Untranslatable("subscript of a non-array")
            if isinstance(e.slice, (ast.Slice, ast.Tuple)):
                raise Untranslatable("slice")
            return "(py_index %s %s)" % (self.arr(e.value.id, env), self.expr(e.slice, env))
        if isinstance(e, ast.Call) and isinstance(e.func, ast.Name) and not e.keywords:
            f = e.func.id
            if f in self.locals:
                raise Untranslatable("call of a local")
            builtin = self.mod.bind_count.get(f, 0) == 0
            if builtin and f == "len" and len(e.args) == 1 and isinstance(e.args[0], ast.Name) and e.args[0].id in self.kinds():
                return "(Z.of_nat (length %s))" % self.arr(e.args[0].id, env)
            if builtin and f in ("min", "max") and len(e.args) >= 2 and not any(isinstance(a, ast.Starred) for a in e.args):
                out = self.expr(e.args[0], env)
                for a in e.args[1:]:
                    out = "(Z.%s %s %s)" % (f, out, self.expr(a, env))
                return out
            if builtin and f == "abs" and len(e.args) == 1:
                return "(Z.abs %s)" % self.expr(e.args[0], env)
            if builtin and f == "int" and len(e.args) == 1:
                return self.expr(e.args[0], env)
            if f in self.mod.funcs and not builtin:
                return self.call(f, e.args, env)
        raise Untranslatable("expression " + ast.dump(e)[:120])

    def arr(self, name, env):
        if name not in env:
            raise Untranslatable("array %s may be unbound here" % name)
        return "a_" + name

    def call(self, f, args, env):
        if f in self.mod.dup_funcs or self.mod.bind_count.get(f) != 1:
            raise Untranslatable("function %s is bound more than once" % f)
        callee = self.tr.fn(f)
        if any(isinstance(a, ast.Starred) for a in args):
            raise Untranslatable("starred argument")
        if len(args) > len(callee.params):
            raise Untranslatable("too many arguments for %s" % f)
        out = []
        for i, p in enumerate(callee.params):
            if i < len(args):
                a = args[i]
                if p in callee.kinds():
                    if not (isinstance(a, ast.Name) and a.id in self.kinds()):
                        raise Untranslatable("array argument of %s must be an array name" % f)
                    out.append(self.arr(a.id, env))
                else:
                    out.append(self.expr(a, env))
            elif p in callee.defaults:
                out.append(zlit(callee.defaults[p]))
            else:
                raise Untranslatable("missing argument %s of %s" % (p, f))
        self.tr.need(f)
        return "(%s %s)" % (self.tr.coqname(f), " ".join(out))

    def cond(self, e, env):
        if isinstance(e, ast.Compare):
            parts, left = [], e.left
            for op, right in zip(e.ops, e.comparators):
                l, r = self.expr(left, env), self.expr(right, env)
                if type(op) in CMPOPS:
                    parts.append("(%s %s %s)" % (CMPOPS[type(op)], l, r))
                elif isinstance(op, ast.NotEq):
                    parts.append("(negb (Z.eqb %s %s))" % (l, r))
                else:
                    raise Untranslatable("comparison " + type(op).__name__)
                left = right
            out = parts[0]
            for p in parts[1:]:
                out = "(andb %s %s)" % (out, p)
            return out
        if isinstance(e, ast.BoolOp):
            f = "andb" if isinstance(e.op, ast.And) else "orb"
            out = self.cond(e.values[0], env)
            for v in e.values[1:]:
                out = "(%s %s %s)" % (f, out, self.cond(v, env))
            return out
        if isinstance(e, ast.UnaryOp) and isinstance(e.op, ast.Not):
            return "(negb %s)" % self.cond(e.operand, env)
        # an integer as a truth value
        return "(negb (Z.eqb %s (0)))" % self.expr(e, env)

    # ---- statements
    @staticmethod
    def assigned(stmts):
        """int/array names bound by these statements (in order of first binding), without loop variables' bodies excluded"""
        out = []

        def add(n):
            if n not in out:
                out.append(n)
        for s in stmts:
            if isinstance(s, (ast.Assign, ast.AugAssign, ast.AnnAssign)):
                for n in ast.walk(s):
                    if isinstance(n, ast.Name) and isinstance(n.ctx, ast.Store):
                        add(n.id)
            elif isinstance(s, ast.If):
                for v in FnTr.assigned(s.body) + FnTr.assigned(s.orelse):
                    add(v)
            elif isinstance(s, ast.For):
                if isinstance(s.target, ast.Name):
                    add(s.target.id)
                for v in FnTr.assigned(s.body):
                    add(v)
        return out

    @staticmethod
    def must_assign(stmts):
        """names certainly bound when these statements fall through"""
        out = set()
        for s in stmts:
            if isinstance(s, (ast.Assign, ast.AnnAssign)):
                for n in ast.walk(s):
                    if isinstance(n, ast.Name) and isinstance(n.ctx, ast.Store):
                        out.add(n.id)
            elif isinstance(s, ast.If):
                out |= FnTr.must_assign(s.body) & FnTr.must_assign(s.orelse)
        return out

    def tuple_of(self, names):
        if not names:
            return "tt"
        if len(names) == 1:
            return "v_" + names[0]
        return "(" + ", ".join("v_" + n for n in names) + ")"

    def pattern_of(self, names):
        if not names:
            return "_"
        if len(names) == 1:
            return "v_" + names[0]
        return "'(" + ", ".join("v_" + n for n in names) + ")"

    def block(self, stmts, env, fall, ind, top=False, in_loop=False):
        """Translate stmts; `fall(env)` gives the text used where control falls off the end."""
        pad = "  " * ind
        if not stmts:
            return pad + fall(env)
        s, rest = stmts[0], stmts[1:]
        nxt = lambda env2: self.block(rest, env2, fall, ind, top, in_loop)
        if is_docstring(s) or isinstance(s, ast.Pass):
            return nxt(env)
        if self.is_type_guard(s):
            if in_loop or not top:
                raise Untranslatable("type guard not at the top level of the function")
            return nxt(env)
        if isinstance(s, ast.Expr) and isinstance(s.value, ast.Call) and isinstance(s.value.func, ast.Name):
            f = s.value.func.id
            if (top and f in self.mod.funcs and f not in self.locals and self.mod.bind_count.get(f) == 1
                    and f not in self.mod.dup_funcs and not s.value.keywords):
                callee = self.tr.fn(f)
                if (callee.is_guard_only() and len(s.value.args) == len(callee.params)
                        and all(isinstance(a, ast.Name) and a.id in self.kinds() and a.id in env for a in s.value.args)
                        and all(p in callee.kinds() for p in callee.params)):
                    return nxt(env)
            raise Untranslatable("expression statement")
        if isinstance(s, ast.AnnAssign) and isinstance(s.target, ast.Name) and s.value is not None:
            s = ast.Assign(targets=[s.target], value=s.value)
        if isinstance(s, ast.Assign):
            if len(s.targets) != 1:
                raise Untranslatable("chained assignment")
            t = s.targets[0]
            if isinstance(t, ast.Name):
                name = t.id
                if name in self.kinds():
                    src = self.alias_source(s.value, self.kinds())
                    if src is None or in_loop or not top:
                        raise Untranslatable("array assignment form")
                    return "%slet a_%s := %s in\n%s" % (pad, name, self.arr(src, env), nxt(env | {name}))
                val = self.expr(s.value, env)
                if top and not in_loop and self.store_count.get(name) == 1 and name not in self.params:
                    v = self.cval(s.value, env)
                    if v is not None:
                        self.local_const[name] = v
                return "%slet v_%s := %s in\n%s" % (pad, name, val, nxt(env | {name}))
            if isinstance(t, ast.Tuple) and all(isinstance(x, ast.Name) for x in t.elts):
                names = [x.id for x in t.elts]
                if len(set(names)) != len(names) or any(n in self.kinds() for n in names):
                    raise Untranslatable("tuple assignment targets")
                v = s.value
                if isinstance(v, ast.Tuple) and len(v.elts) == len(names) and not any(isinstance(x, ast.Starred) for x in v.elts):
                    vals = [self.expr(x, env) for x in v.elts]
                elif (isinstance(v, ast.Call) and isinstance(v.func, ast.Name) and v.func.id == "divmod"
                      and "divmod" not in self.locals and self.mod.bind_count.get("divmod", 0) == 0
                      and len(v.args) == 2 and not v.keywords and len(names) == 2):
                    d = self.cval(v.args[1], env)
                    if d is None or d == 0:
                        raise Untranslatable("divmod divisor is not a non-zero constant")
                    a, b = self.expr(v.args[0], env), self.expr(v.args[1], env)
                    vals = ["(Z.div %s %s)" % (a, b), "(Z.modulo %s %s)" % (a, b)]
                else:
                    raise Untranslatable("tuple assignment value")
                return "%slet %s := (%s) in\n%s" % (pad, self.pattern_of(names), ", ".join(vals), nxt(env | set(names)))
            raise Untranslatable("assignment target")
        if isinstance(s, ast.AugAssign):
            if not isinstance(s.target, ast.Name) or type(s.op) not in BINOPS:
                raise Untranslatable("augmented assignment form")
            name = s.target.id
            if name in self.kinds():
                raise Untranslatable("augmented assignment to an array")
            e = self.expr(ast.BinOp(left=ast.Name(id=name, ctx=ast.Load()), op=s.op, right=s.value), env)
            return "%slet v_%s := %s in\n%s" % (pad, name, e, nxt(env))
        if isinstance(s, ast.If):
            if contains_return([s]):
                if in_loop:
                    raise Untranslatable("return inside a loop")
                # control flow:  if c: A else: B ; rest   ==   if c: (A ; rest) else: (B ; rest)
                a = self.block(list(s.body) + rest, set(env), fall, ind + 1, False, in_loop)
                b = self.block(list(s.orelse) + rest, set(env), fall, ind + 1, False, in_loop)
                return "%sif %s then\n%s\n%selse\n%s" % (pad, self.cond(s.test, env), a, pad, b)
            names = self.assigned(s.body) + [v for v in self.assigned(s.orelse) if v not in self.assigned(s.body)]
            if any(n in self.kinds() for n in names):
                raise Untranslatable("array assignment inside a branch")
            both = self.must_assign(s.body) & self.must_assign(s.orelse)
            carried = [v for v in names if v in env or v in both]
            ta = self.block(s.body, set(env), lambda e2: self.tuple_checked(carried, e2), ind + 2, False, in_loop)
            tb = self.block(s.orelse, set(env), lambda e2: self.tuple_checked(carried, e2), ind + 2, False, in_loop)
            env2 = (env | set(carried))
            return "%slet %s :=\n%s  if %s then\n%s\n%s  else\n%s in\n%s" % (
                pad, self.pattern_of(carried), pad, self.cond(s.test, env), ta, pad, tb, nxt(env2))
        if isinstance(s, ast.For):
            if s.orelse or not isinstance(s.target, ast.Name) or contains_return(s.body):
                raise Untranslatable("for form")
            ivar = s.target.id
            if ivar in self.kinds():
                raise Untranslatable("loop variable is an array")
            it = s.iter
            if not (isinstance(it, ast.Call) and isinstance(it.func, ast.Name) and it.func.id == "range"
                    and "range" not in self.locals and self.mod.bind_count.get("range", 0) == 0
                    and 1 <= len(it.args) <= 3 and not it.keywords and not any(isinstance(a, ast.Starred) for a in it.args)):
                raise Untranslatable("for iterable is not range(...)")
            if len(it.args) == 1:
                start, stop, step = "(0)", self.expr(it.args[0], env), "(1)"
            else:
                start, stop = self.expr(it.args[0], env), self.expr(it.args[1], env)
                step = "(1)"
                if len(it.args) == 3:
                    d = self.cval(it.args[2], env)
                    if d is None or d == 0:
                        raise Untranslatable("range step is not a non-zero constant")
                    step = zlit(d)
            body_names = self.assigned(s.body)
            if any(n in self.kinds() for n in body_names):
                raise Untranslatable("array assignment inside a loop")
            carried = [v for v in body_names if v in env and v != ivar]
            tup = self.tuple_of(carried)
            body = self.block(s.body, set(env) | {ivar}, lambda e2: self.tuple_checked(carried, e2), ind + 2, False, True)
            # after the loop: the loop variable and names first bound inside the body are treated as unbound
            env_after = set(env) - {ivar}
            return ("%slet %s :=\n%s  fold_left (fun acc v_%s => let %s := acc in\n%s)\n%s    (py_range %s %s %s) %s in\n%s" % (
                pad, self.pattern_of(carried), pad, ivar, self.pattern_of(carried), body, pad, start, stop, step, tup,
                nxt(env_after)))
        if isinstance(s, ast.Return):
            if in_loop:
                raise Untranslatable("return inside a loop")
            if s.value is None:
                raise Untranslatable("return without a value")
            return pad + self.expr(s.value, env)
        raise Untranslatable("statement " + ast.dump(s)[:100])

    def tuple_checked(self, names, env):
        for n in names:
            if n not in env:
                raise Untranslatable("%s may be unbound at the end of a block" % n)
        return self.tuple_of(names)

    def definition(self):
        arr = self.kinds()

        def nofall(env):
            raise Untranslatable("%s can fall off its end without a return" % self.fn.name)
        text = self.block(self.body, set(self.params), nofall, 1, top=True)
        params = " ".join(("(a_%s : list Z)" % p) if p in arr else ("(v_%s : Z)" % p) for p in self.params)
        return "Definition %s %s : Z :=\n%s.\n" % (self.tr.coqname(self.fn.name), params, text)


class Translator:
    def __init__(self, source, main, main_coqname):
        self.mod = Module(source)
        self.main, self.main_coqname = main, main_coqname
        self._fn = {}
        self.order = []          # helpers in dependency order
        self._active = []

    def coqname(self, f):
        if f == self.main:
            return self.main_coqname
        return "gen_h_" + f

    def fn(self, f):
        if f not in self._fn:
            if f in self._active:
                raise Untranslatable("recursive helper " + f)
            if f not in self.mod.funcs:
                raise Untranslatable("function %s not found" % f)
            if f in self.mod.dup_funcs:
                raise Untranslatable("function %s defined twice" % f)
            self._active.append(f)
            try:
                t = FnTr(self, self.mod.funcs[f])
                self._fn[f] = t
                t.kinds()
            finally:
                self._active.pop()
        return self._fn[f]

    def coercion(self, f):
        """is module function f a byte-array coercion helper (identity on byte arrays)?"""
        try:
            return FnTr(self, self.mod.funcs[f]).is_coercion_helper()
        except Untranslatable:
            return False

    def need(self, f):
        if f in self._active:
            raise Untranslatable("recursive helper " + f)
        if f not in [n for n, _ in self.order]:
            self._active.append(f)
            try:
                text = self.fn(f).definition()
            finally:
                self._active.pop()
            self.order.append((f, text))

    def run(self):
        if self.mod.bind_count.get(self.main) != 1:
            raise Untranslatable("function %s not found (or bound more than once)" % self.main)
        t = self.fn(self.main)
        self._active.append(self.main)
        text = t.definition()
        self._active.pop()
        if not t.params or t.params[0] not in t.kinds() or any(p in t.kinds() for p in t.params[1:]):
            raise Untranslatable("signature: first parameter must be the byte array, the others integers")
        return t, text


PRELUDE = "From AV Require Import Model.MurmurPy.\nFrom Coq Require Import ZArith List.\nImport ListNotations.\nOpen Scope Z_scope.\n\n"


def translate_source(source, fname="pure_murmur2", coqname="gen_pure_murmur2"):
    """Returns (Gallina text of the whole generated module, message).  Raises Untranslatable."""
    tr = Translator(source, fname, coqname)
    t, main_text = tr.run()
    if len(t.params) != 2:
        raise Untranslatable("signature: expected (byte_array, seed)")
    seed = t.defaults.get(t.params[1])
    if seed is None:
        raise Untranslatable("seed default missing")
    names = [tr.coqname(f) for f, _ in tr.order] + [coqname]
    body = ("(* GENERATED by harness/py2coq.py from afkak/partitioner.py pure_murmur2 - do not edit. *)\n" + PRELUDE
            + "".join(text + "\n" for _, text in tr.order) + main_text
            + "\nDefinition gen_seed : Z := (%d).\n" % seed
            + "\nCreate HintDb gen_defs.\n#[export] Hint Unfold %s gen_seed : gen_defs.\n" % " ".join(names))
    return body, "translated" + ((" (helpers inlined: %s)" % ", ".join(f for f, _ in tr.order)) if tr.order else "")


def translate_repo(repo):
    """(ok, text-or-None, message) for <repo>/afkak/partitioner.py"""
    try:
        src = open(os.path.join(repo, "afkak", "partitioner.py")).read()
        text, msg = translate_source(src)
        return True, text, msg
    except (Untranslatable, SyntaxError, OSError, RecursionError) as e:
        return False, None, "%s: %s" % (type(e).__name__, str(e)[:300])


def text_id(text):
    return hashlib.sha1(text.encode()).hexdigest()[:16]


def generate_murmur(repo, out_path):
    """Kept for harness/main.py (--setup): refresh the committed SNAPSHOT coq/Model/MurmurGen.v from /repo.
    Never writes a failed translation, never writes the translation of a scratch copy (VERIF_REPO), and replaces
    the snapshot only after the theorems about the new text have compiled in coq/Run/out/gen/."""
    return refresh_snapshot(repo, out_path)


def refresh_snapshot(repo="/repo", out_path=SNAPSHOT):
    if os.path.abspath(repo) != "/repo":
        return True, "snapshot kept (VERIF_REPO run)"
    ok, text, msg = translate_repo(repo)
    if not ok:
        return False, "snapshot kept; /repo not translatable: " + msg
    old = open(out_path).read() if os.path.exists(out_path) else None
    if old == text:
        return True, "snapshot up to date"
    if old is not None:
        try:
            import murmur_tie
            good, log = murmur_tie.prove_in_scratch(text, need_base=True)
        except Exception as e:      # noqa: BLE001 - keep the old snapshot on any failure
            good, log = False, repr(e)
        if not good:
            return False, "snapshot kept; the proof about the new translation does not compile: " + log[-300:]
    tmp = out_path + ".tmp%d" % os.getpid()
    with open(tmp, "w") as f:
        f.write(text)
    os.replace(tmp, out_path)
    return True, "snapshot refreshed"


if __name__ == "__main__":
    import sys
    if len(sys.argv) > 1 and sys.argv[1] == "--print":
        ok, text, msg = translate_repo(sys.argv[2] if len(sys.argv) > 2 else "/repo")
        print(text if ok else "FAILED: " + msg)
    else:
        print(refresh_snapshot(sys.argv[1] if len(sys.argv) > 1 else "/repo"))
