# Fail-closed translator from a small subset of Python (integer arithmetic over one byte-array
# argument) to Gallina.  Used to REGENERATE coq/Model/MurmurGen.v from afkak/partitioner.py on
# every run, so that the theorem `gen_pure_murmur2 = pure_murmur2` (Proofs/MurmurGenEq.v) is
# re-checked against what the source says now.
#
# Supported statements: `x = e`, `x op= e` (op in * & ^ + - | << >>), `for i in range(e): body`,
# `if cmp: body` (no else/elif), `return x`, docstrings, comments, and exactly one guard of the form
# `if not isinstance(<arg>, bytearray): raise TypeError(...)` which is dropped (the model's inputs
# are byte lists).  Supported expressions: int literals, names, + - * // % & | ^ << >> ~,
# `len(<arg>)`, `<arg>[e]`, comparisons == != < <= > >= between two expressions.
# Anything else raises Untranslatable: the check then reports the obligation as broken.
import ast


class Untranslatable(Exception):
    pass


BINOPS = {
    ast.Add: "Z.add", ast.Sub: "Z.sub", ast.Mult: "Z.mul", ast.FloorDiv: "Z.div", ast.Mod: "Z.modulo",
    ast.BitAnd: "Z.land", ast.BitOr: "Z.lor", ast.BitXor: "Z.lxor", ast.LShift: "Z.shiftl", ast.RShift: "Z.shiftr",
}
CMPOPS = {ast.Eq: "Z.eqb", ast.Lt: "Z.ltb", ast.LtE: "Z.leb", ast.Gt: "Z.gtb", ast.GtE: "Z.geb"}


class Tr:
    def __init__(self, arg):
        self.arg = arg

    def expr(self, e):
        if isinstance(e, ast.Constant) and isinstance(e.value, int) and not isinstance(e.value, bool):
            return "(%d)" % e.value
        if isinstance(e, ast.Name):
            if e.id == self.arg:
                raise Untranslatable("bare use of the array argument")
            return "v_" + e.id
        if isinstance(e, ast.BinOp) and type(e.op) in BINOPS:
            return "(%s %s %s)" % (BINOPS[type(e.op)], self.expr(e.left), self.expr(e.right))
        if isinstance(e, ast.UnaryOp) and isinstance(e.op, ast.Invert):
            return "(Z.lnot %s)" % self.expr(e.operand)
        if isinstance(e, ast.UnaryOp) and isinstance(e.op, ast.USub):
            return "(Z.opp %s)" % self.expr(e.operand)
        if (isinstance(e, ast.Call) and isinstance(e.func, ast.Name) and e.func.id == "len" and len(e.args) == 1
                and not e.keywords and isinstance(e.args[0], ast.Name) and e.args[0].id == self.arg):
            return "(Z.of_nat (length a_%s))" % self.arg
        if isinstance(e, ast.Subscript) and isinstance(e.value, ast.Name) and e.value.id == self.arg:
            return "(nth (Z.to_nat %s) a_%s 0)" % (self.expr(e.slice), self.arg)
        raise Untranslatable("expression " + ast.dump(e)[:120])

    def cond(self, e):
        if isinstance(e, ast.Compare) and len(e.ops) == 1 and type(e.ops[0]) in CMPOPS:
            return "(%s %s %s)" % (CMPOPS[type(e.ops[0])], self.expr(e.left), self.expr(e.comparators[0]))
        if isinstance(e, ast.Compare) and len(e.ops) == 1 and isinstance(e.ops[0], ast.NotEq):
            return "(negb (Z.eqb %s %s))" % (self.expr(e.left), self.expr(e.comparators[0]))
        raise Untranslatable("condition " + ast.dump(e)[:120])

    @staticmethod
    def assigned(stmts):
        out = []
        for s in stmts:
            if isinstance(s, ast.Assign):
                for t in s.targets:
                    if not isinstance(t, ast.Name):
                        raise Untranslatable("assignment target")
                    if t.id not in out:
                        out.append(t.id)
            elif isinstance(s, ast.AugAssign):
                if not isinstance(s.target, ast.Name):
                    raise Untranslatable("augmented assignment target")
                if s.target.id not in out:
                    out.append(s.target.id)
            elif isinstance(s, (ast.For, ast.If)):
                for v in Tr.assigned(s.body):
                    if v not in out:
                        out.append(v)
        return out

    def block(self, stmts, defined, result, ind):
        """Translate stmts followed by the expression `result` (a string); `defined` = names in scope."""
        pad = "  " * ind
        if not stmts:
            return pad + result
        s, rest = stmts[0], stmts[1:]
        if isinstance(s, ast.Expr) and isinstance(s.value, ast.Constant) and isinstance(s.value.value, str):
            return self.block(rest, defined, result, ind)           # docstring
        if isinstance(s, ast.Assign):
            if len(s.targets) != 1 or not isinstance(s.targets[0], ast.Name):
                raise Untranslatable("assignment form")
            name = s.targets[0].id
            return "%slet v_%s := %s in\n%s" % (pad, name, self.expr(s.value), self.block(rest, defined | {name}, result, ind))
        if isinstance(s, ast.AugAssign):
            if not isinstance(s.target, ast.Name) or type(s.op) not in BINOPS:
                raise Untranslatable("augmented assignment form")
            name = s.target.id
            if name not in defined:
                raise Untranslatable("augmented assignment to undefined " + name)
            e = "(%s v_%s %s)" % (BINOPS[type(s.op)], name, self.expr(s.value))
            return "%slet v_%s := %s in\n%s" % (pad, name, e, self.block(rest, defined, result, ind))
        if isinstance(s, ast.If):
            if s.orelse:
                raise Untranslatable("else branch")
            carried = [v for v in self.assigned(s.body) if v in defined]
            local = [v for v in self.assigned(s.body) if v not in defined]
            # names first assigned inside the branch must not be used after it
            tup = self.tuple_of(carried)
            body = self.block(s.body, set(defined), tup, ind + 2)
            return "%slet %s :=\n%s  if %s then\n%s\n%s  else %s in\n%s" % (
                pad, self.pattern_of(carried), pad, self.cond(s.test), body, pad, tup,
                self.block(rest, defined - set(local), result, ind))
        if isinstance(s, ast.For):
            if s.orelse or not isinstance(s.target, ast.Name):
                raise Untranslatable("for form")
            it = s.iter
            if not (isinstance(it, ast.Call) and isinstance(it.func, ast.Name) and it.func.id == "range"
                    and len(it.args) == 1 and not it.keywords):
                raise Untranslatable("for iterable")
            carried = [v for v in self.assigned(s.body) if v in defined]
            ivar = s.target.id
            tup = self.tuple_of(carried)
            body = self.block(s.body, set(defined) | {ivar}, tup, ind + 2)
            return ("%slet %s :=\n%s  fold_left (fun acc v_%s => let %s := acc in\n%s)\n%s    (map Z.of_nat (seq 0 (Z.to_nat %s))) %s in\n%s" % (
                pad, self.pattern_of(carried), pad, ivar, self.pattern_of(carried), body, pad, self.expr(it.args[0]), tup,
                self.block(rest, defined, result, ind)))
        if isinstance(s, ast.Return):
            if rest:
                raise Untranslatable("statements after return")
            return pad + self.expr(s.value)
        raise Untranslatable("statement " + ast.dump(s)[:120])

    @staticmethod
    def tuple_of(names):
        if not names:
            return "tt"
        if len(names) == 1:
            return "v_" + names[0]
        return "(" + ", ".join("v_" + n for n in names) + ")"

    @staticmethod
    def pattern_of(names):
        if not names:
            return "_"
        if len(names) == 1:
            return "v_" + names[0]
        return "'(" + ", ".join("v_" + n for n in names) + ")"


def translate_function(source, fname, coqname):
    """Returns Gallina text `Definition <coqname> (a_<arg> : list Z) (v_<p2> ... : Z) : Z := ...`"""
    tree = ast.parse(source)
    fn = None
    for node in tree.body:
        if isinstance(node, ast.FunctionDef) and node.name == fname:
            fn = node
    if fn is None:
        raise Untranslatable("function %s not found" % fname)
    args = [a.arg for a in fn.args.args]
    if fn.args.vararg or fn.args.kwarg or fn.args.kwonlyargs or len(args) < 1:
        raise Untranslatable("signature")
    arr = args[0]
    body = list(fn.body)
    # drop the documented type guard (exact shape only)
    kept = []
    for s in body:
        if (isinstance(s, ast.If) and isinstance(s.test, ast.UnaryOp) and isinstance(s.test.op, ast.Not)
                and isinstance(s.test.operand, ast.Call) and getattr(s.test.operand.func, "id", None) == "isinstance"
                and len(s.body) == 1 and isinstance(s.body[0], ast.Raise) and not s.orelse
                and getattr(s.test.operand.args[0], "id", None) == arr
                and getattr(s.test.operand.args[1], "id", None) == "bytearray"):
            continue
        kept.append(s)
    if not kept or not isinstance(kept[-1], ast.Return):
        raise Untranslatable("function must end with return")
    tr = Tr(arr)
    text = tr.block(kept, set(args[1:]), "", 1)
    params = " ".join("(v_%s : Z)" % a for a in args[1:])
    defaults = {}
    nd = len(fn.args.defaults)
    for a, d in zip(args[len(args) - nd:], fn.args.defaults):
        if isinstance(d, ast.Constant) and isinstance(d.value, int):
            defaults[a] = d.value
        else:
            raise Untranslatable("default value")
    return ("Definition %s (a_%s : list Z) %s : Z :=\n%s.\n" % (coqname, arr, params, text)), defaults


def generate_murmur(repo, out_path):
    """Writes coq/Model/MurmurGen.v; returns (ok, message)."""
    import os
    src = open(os.path.join(repo, "afkak", "partitioner.py")).read()
    try:
        text, defaults = translate_function(src, "pure_murmur2", "gen_pure_murmur2")
        seed = defaults.get("seed")
        if seed is None:
            raise Untranslatable("seed default missing")
        body = ("(* GENERATED by harness/py2coq.py from afkak/partitioner.py pure_murmur2 - do not edit. *)\n"
                "From Coq Require Import ZArith List.\nImport ListNotations.\nOpen Scope Z_scope.\n\n"
                + text + "\nDefinition gen_seed : Z := (%d).\n" % seed)
        ok, msg = True, "translated"
    except (Untranslatable, SyntaxError) as e:
        # fail closed: a definition that cannot be proved equal to the hand model
        body = ("(* GENERATED: translation FAILED: %s *)\nFrom Coq Require Import ZArith List.\nOpen Scope Z_scope.\n"
                "Definition gen_pure_murmur2 (a : list Z) (s : Z) : Z := -1.\nDefinition gen_seed : Z := -1.\n" % str(e).replace("*)", "* )"))
        ok, msg = False, str(e)
    old = open(out_path).read() if os.path.exists(out_path) else None
    if old != body:
        open(out_path, "w").write(body)
    return ok, msg


if __name__ == "__main__":
    import sys
    print(generate_murmur(sys.argv[1] if len(sys.argv) > 1 else "/repo", "/verif/coq/Model/MurmurGen.v"))
