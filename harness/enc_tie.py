# Translator tie of C04 (tie A of DESIGN.md 10.2b), per-run part.
#   1. harness/py2enc.py translates afkak/kafkacodec.py of the tree under test to encoder-language terms gen_X;
#   2. they are written to a scratch directory coq/Run/out/gen/c04-<hash>/EncGen.v and compiled;
#   3. for every translated encoder Coq checks  gen_X = ast_X  (the committed term of coq/Model/EncAst.v, about which
#      Props/C04gen.v proves  run ast_X args = Model.Requests.encode_X args  for all args).
# Status per encoder:  "intact" | "refused: <construct>" (translator does not understand the source as it is now) |
# "differs" (translated, but not the committed term) | "machinery: ..." (scratch compile impossible).
# Nothing here raises a VIOLATION: by the two-ties rule a tie that is not intact is recorded, and the byte-equality
# correspondence (tie B) has to carry the encoder alone.
import fcntl
import hashlib
import json
import os
import re

import py2enc
import vlib

GEN = os.path.join(vlib.COQ, "Run", "out", "gen")
ALL = py2enc.ENCODERS + py2enc.VALUE_FNS


def _coqc(cwd, fn):
    cmd = "ulimit -v 8000000; timeout 300 coqc -Q %s AV -Q . C04Gen -w -notation-overridden,-deprecated %s" % (vlib.COQ, fn)
    return vlib.sh("bash -c '%s'" % cmd, 330, cwd=cwd)


def eq_file(names):
    out = ["From Coq Require Import String.", "From AV Require Import Base.Util Model.Prim Model.EncDSL Model.EncDSLV Model.EncAst.",
           "From C04Gen Require Import EncGen.", ""]
    for fn in names:
        n = fn.lstrip("_")
        out.append("Theorem gen_%s_is_ast : gen_%s = ast_%s.\nProof. vm_compute. reflexivity. Qed.\nPrint Assumptions gen_%s_is_ast.\n" % (n, n, n, n))
    return "\n".join(out)


def check(repo):
    """-> dict(status = {encoder: status}, notes = {encoder: [...]}, dir = scratch dir, intact = [...])"""
    res = py2enc.translate_repo(repo)
    status, notes = {}, {}
    for fn in ALL:
        r = res[fn]
        if r[0] == "ok":
            notes[fn] = r[3]
        else:
            status[fn] = "refused: " + re.sub(r" \(line [0-9?]+\)$", "", r[1])
    text = py2enc.emit_gallina(res)
    translated = [fn for fn in ALL if res[fn][0] == "ok"]
    h = hashlib.sha1((text + "".join(open(os.path.join(vlib.COQ, "Model", f)).read() for f in ("EncAst.v", "EncDSL.v", "EncDSLV.v"))).encode()).hexdigest()[:16]
    d = os.path.join(GEN, "c04-" + h)
    os.makedirs(d, exist_ok=True)
    cache = os.path.join(d, "status.json")
    if os.path.exists(cache):
        try:
            status.update(json.load(open(cache)))
            return {"status": status, "notes": notes, "dir": d, "cached": True}
        except ValueError:
            pass
    lock = open(os.path.join(vlib.COQ, ".lock"), "w")
    fcntl.flock(lock, fcntl.LOCK_EX)
    try:
        open(os.path.join(d, "EncGen.v"), "w").write(text)
        rc, o = _coqc(d, "EncGen.v")
        if rc:
            for fn in translated:
                status[fn] = "machinery: generated file does not compile: " + o.strip().splitlines()[-1][:200] if o.strip() else "machinery"
            return {"status": status, "notes": notes, "dir": d, "cached": False, "log": o[-1500:]}
        open(os.path.join(d, "EqAll.v"), "w").write(eq_file(translated))
        rc, o = _coqc(d, "EqAll.v")
        mine = {}
        if rc == 0 and o.count("Closed under the global context") == len(translated):
            for fn in translated:
                mine[fn] = "intact"
        else:
            for fn in translated:
                name = "Eq_" + fn.lstrip("_") + ".v"
                open(os.path.join(d, name), "w").write(eq_file([fn]))
                rc1, o1 = _coqc(d, name)
                if rc1 == 0 and "Closed under the global context" in o1:
                    mine[fn] = "intact"
                elif "Unable to unify" in o1 or "not convertible" in o1 or "Error: Tactic failure" in o1:
                    mine[fn] = "differs"
                else:
                    mine[fn] = "machinery: " + (o1.strip().splitlines()[-1][:200] if o1.strip() else "no output")
        if not any(v.startswith("machinery") for v in mine.values()):
            json.dump(mine, open(cache, "w"))
        status.update(mine)
        return {"status": status, "notes": notes, "dir": d, "cached": False}
    finally:
        fcntl.flock(lock, fcntl.LOCK_UN)
        lock.close()
