"""simnet - a simulated reactor clock and network for driving afkak's Twisted objects without sockets.

Shared by the checks of the connection-level properties (C06, C10) and meant to be reused by the
client-level ones (C11, C20).  Nothing here imports afkak or afkak's test helpers.

Every component appends tuples to ONE shared list, `log`, in the order things happen, so a driver can
drain it after each stimulus and obtain the ordered list of observable effects of that stimulus:

    ("sched", call_id, delay)          reactor.callLater(delay, ...)            (SimClock)
    ("cancel_timer", call_id)          DelayedCall.cancel()                     (SimClock)
    ("connect", attempt_id, host, port) endpointFactory(reactor, host, port).connect(factory)   (SimNet)
    ("cancel_attempt", attempt_id)     the connect Deferred was cancelled       (SimNet)
    ("write", conn_id, bytes)          transport.write(bytes)                   (RecordingTransport)
    ("lose", conn_id)                  transport.loseConnection()  - a REQUEST only
    ("abort", conn_id)                 transport.abortConnection() - a REQUEST only

The three kinds of puppet strings the driver pulls:

    SimClock   = twisted.internet.task.Clock + recording.  `clock.pending()` lists the armed DelayedCalls in
                 deadline order, `clock.fire_next()` advances virtual time exactly to the earliest one.
    SimNet     = endpoint factory `net(reactor, host, port)` -> endpoint whose connect() returns a Deferred
                 that stays pending until the driver calls `attempt.accept()` or `attempt.fail(reason)`.
                 `net.pending()` lists the attempts that are still open (not accepted / failed / cancelled).
                 With `net.sync = "ok" | "fail"` the next connect() completes synchronously instead.
    RecordingTransport  returned by `attempt.accept()`.  `loseConnection()` only records the request: the
                 connection stays up (data can still be delivered and written, as with TLS transports)
                 until the driver calls `transport.report_lost()`, which delivers `connectionLost` to the
                 protocol.  `transport.deliver(data)` calls `protocol.dataReceived(data)`.
                 `transport.live` is True between accept() and report_lost().
"""
from twisted.internet import defer
from twisted.internet.interfaces import IAddress, IStreamClientEndpoint, ITransport
from twisted.internet.protocol import connectionDone
from twisted.internet.task import Clock
from twisted.python.failure import Failure
from twisted.internet.error import ConnectionRefusedError
from zope.interface import implementer


class SimClock(Clock):
    """task.Clock that records callLater / cancel into `log` and can fire one timer at a time."""

    def __init__(self, log):
        Clock.__init__(self)
        self.log = log
        self._ids = 0

    def callLater(self, delay, callable, *args, **kw):
        dc = Clock.callLater(self, delay, callable, *args, **kw)
        self._ids += 1
        dc.sim_id = self._ids
        dc.sim_delay = delay
        orig = dc.canceller

        def cancelling(call, orig=orig):
            self.log.append(("cancel_timer", call.sim_id))
            orig(call)
        dc.canceller = cancelling
        self.log.append(("sched", dc.sim_id, delay))
        return dc

    def pending(self):
        """armed DelayedCalls, earliest deadline first (ties: scheduling order)"""
        return sorted(self.getDelayedCalls(), key=lambda c: (c.getTime(), c.sim_id))

    def fire_next(self):
        """advance virtual time exactly to the earliest armed timer; returns it (None if none armed)"""
        p = self.pending()
        if not p:
            return None
        self.advance(max(0.0, p[0].getTime() - self.seconds()))
        return p[0]

    def fire(self, call):
        """advance virtual time to the deadline of `call` (every timer due earlier fires first)"""
        if call.active():
            self.advance(max(0.0, call.getTime() - self.seconds()))


@implementer(IAddress)
class SimAddress(object):
    def __init__(self, host, port):
        self.host, self.port = host, port

    def __repr__(self):
        return "SimAddress(%r, %r)" % (self.host, self.port)


@implementer(ITransport)
class RecordingTransport(object):
    """In-memory transport.  Writes are recorded (also after loseConnection was requested, as a real TCP
    transport still accepts them); loseConnection / abortConnection only record the request."""

    def __init__(self, net, conn_id, protocol, peer):
        self.net, self.conn_id, self.protocol, self.peer = net, conn_id, protocol, peer
        self.live = True            # between accept() and report_lost()
        self.disconnecting = False  # loseConnection() was requested
        self.lose_requests = 0
        self.abort_requests = 0
        self.written = []           # list of bytes objects, one per write() call

    # --- ITransport, as far as afkak uses it
    def write(self, data):
        self.written.append(bytes(data))
        self.net.log.append(("write", self.conn_id, bytes(data)))

    def writeSequence(self, seq):
        self.write(b"".join(seq))

    def loseConnection(self):
        self.disconnecting = True
        self.lose_requests += 1
        self.net.log.append(("lose", self.conn_id))

    def abortConnection(self):
        self.disconnecting = True
        self.abort_requests += 1
        self.net.log.append(("abort", self.conn_id))

    def getPeer(self):
        return self.peer

    def getHost(self):
        return SimAddress("client", 0)

    # producers are accepted and ignored (no flow control in the simulation)
    def registerProducer(self, producer, streaming):
        pass

    def unregisterProducer(self):
        pass

    # --- driver side
    def deliver(self, data):
        """the peer's bytes arrive: protocol.dataReceived(data); exceptions propagate to the driver
        (a real reactor would log them and drop the connection)"""
        assert self.live, "deliver() on a connection already reported lost"
        self.protocol.dataReceived(bytes(data))

    def report_lost(self, reason=None):
        """the connection is gone: protocol.connectionLost(reason)"""
        assert self.live, "report_lost() twice"
        self.live = False
        self.protocol.connectionLost(reason if reason is not None else connectionDone)


class Attempt(object):
    """One endpoint.connect(factory) call."""

    def __init__(self, net, attempt_id, host, port, factory):
        self.net, self.attempt_id, self.host, self.port, self.factory = net, attempt_id, host, port, factory
        self.state = "pending"      # pending / accepted / failed / cancelled
        self.transport = None
        self.d = defer.Deferred(self._cancelled)

    def _cancelled(self, d):
        # like real endpoints: record, and let Deferred.cancel() errback CancelledError itself
        self.state = "cancelled"
        self.net.log.append(("cancel_attempt", self.attempt_id))

    def accept(self):
        """the connection is established: buildProtocol, makeConnection, fire the connect Deferred"""
        assert self.state == "pending"
        self.state = "accepted"
        peer = SimAddress(self.host, self.port)
        proto = self.factory.buildProtocol(peer)
        assert proto is not None
        self.net._conns += 1
        self.transport = RecordingTransport(self.net, self.net._conns, proto, peer)
        self.net.transports.append(self.transport)
        proto.makeConnection(self.transport)
        self.d.callback(proto)
        return self.transport

    def fail(self, reason=None):
        assert self.state == "pending"
        self.state = "failed"
        self.d.errback(reason if reason is not None else Failure(ConnectionRefusedError()))


@implementer(IStreamClientEndpoint)
class PuppetEndpoint(object):
    def __init__(self, net, host, port):
        self.net, self.host, self.port = net, host, port

    def connect(self, factory):
        net = self.net
        net._attempts += 1
        a = Attempt(net, net._attempts, self.host, self.port, factory)
        net.attempts.append(a)
        net.log.append(("connect", a.attempt_id, self.host, self.port))
        mode, net.sync = net.sync, None
        if mode == "ok":
            a.accept()
        elif mode == "fail":
            a.fail()
        return a.d


class SimNet(object):
    """Endpoint factory: pass the instance wherever afkak wants `endpointFactory(reactor, host, port)`."""

    def __init__(self, log):
        self.log = log
        self.attempts = []      # every Attempt ever made, in order
        self.transports = []    # every RecordingTransport ever created, in order
        self.calls = []         # (host, port) per endpoint construction
        self.sync = None        # "ok"/"fail": complete the NEXT connect() synchronously
        self._attempts = 0
        self._conns = 0

    def __call__(self, reactor, host, port):
        self.calls.append((host, port))
        return PuppetEndpoint(self, host, port)

    def pending(self):
        return [a for a in self.attempts if a.state == "pending"]

    def live(self):
        return [t for t in self.transports if t.live]


def frame(body):
    """Kafka framing of one message: 4-byte big-endian length + body"""
    import struct
    return struct.pack(">I", len(body)) + bytes(body)


def chunkings(data, rnd, max_chunks=6):
    """a random split of `data` into 1..max_chunks pieces (pieces may be empty)"""
    n = rnd.randint(1, max_chunks)
    cuts = sorted(rnd.randint(0, len(data)) for _ in range(n - 1))
    out, prev = [], 0
    for c in cuts + [len(data)]:
        out.append(data[prev:c])
        prev = c
    return out
