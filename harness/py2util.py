# Fail-closed translator from the SOURCE of afkak/_util.py (the wire readers and writers every codec model rests on)
# to terms of the little language coq/Model/UtilDSL.v.  Translator tie of property C12 (DESIGN.md 10.2b, tie A): on every
# run the source under VERIF_REPO is translated again and Coq checks that the terms are the committed ones
# (coq/Model/UtilAst.v), for which coq/Proofs/UtilDSLSound.v proves  run ast_f args = Model.Prim.<f> args.
#
# The translation is a SYMBOLIC EXECUTION of the function body, not a statement-by-statement mapping, so that the shape
# of the source does not matter, only what it computes and in which order it can fail:
#   * parameters are LEVELS 0, 1, ...; every operation that can raise (struct.pack with non-constant arguments,
#     struct.unpack, bytes.decode, str.encode) is a TBind node at its point of evaluation and gets the next level;
#     everything pure (len, +, -, slices, tuples, None, struct.calcsize, locals, `x += e`, module constants) is
#     substituted into the places where it is used - local names never appear;
#   * calls to other functions of the module are INLINED (helpers introduced or removed by a rewrite are invisible);
#   * integer expressions are kept as canonical linear forms  c + sum k_i * atom_i  (atoms sorted), comparisons as
#     "0 < linear form" / "linear form = 0", so `len(data) < cur + 2`, `available < end` and `cur + 2 > len(data)` are the
#     same term; if/elif/else, early returns and flattened branches all become the same decision tree;
#   * struct.pack of constants is folded to a byte-string literal (a module constant _NULL_X = struct.pack(..) and the
#     inline call give the same term);
#   * `isinstance(..)` tests are taken to be true (argument TYPES are outside the model, as in Model/Prim.v), the
#     arguments of exception constructors (messages) are not looked at.
# Anything else raises Refused(construct): the tie is then "unavailable" for that function, never a wrong term.
#
#   translate_repo(repo) -> {name: ("ok", gallina_term_text, notes) | ("refused", reason)}
#   python3 harness/py2util.py --snapshot     rewrites coq/Model/UtilAst.v (the committed terms) from /repo
import ast
import os
import struct
import sys

FMT = {"b": "Fb", "B": "FB", "h": "Fh", "H": "FH", "i": "Fi", "I": "FI", "q": "Fq"}
FUNCTIONS = ["write_int_string", "write_short_bytes", "write_short_ascii", "write_short_text",
             "read_short_bytes", "read_int_string", "read_short_ascii", "read_short_text", "relative_unpack",
             "group_by_topic_and_partition"]
EXCS = {"BufferUnderflowError": "Underflow", "ProtocolError": "Protocol", "TypeError": "TypeErr", "ValueError": "TypeErr",
        "struct.error": "StructErr", "ChecksumError": "Checksum", "InvalidMessageError": "InvalidMessage"}
CODECS = {"ascii": "Ascii", "utf-8": "Utf8", "utf8": "Utf8", "UTF-8": "Utf8"}
MAX_INLINE = 6
MAX_NODES = 400


class Refused(Exception):
    pass


def refuse(node, what):
    raise Refused("%s (line %s)" % (what, getattr(node, "lineno", "?")))


# ---------------------------------------------------------------- symbolic values
# ("var", level) ("none",) ("bytes", tuple) ("fmt", tuple of F-names) ("lin", c, ((k, atom), ...)) ("slice", v, lo, hi)
# ("cat", a, b) ("tup", (v, ...)) ("opaque",) ("exc", kind) ("str", text) ("len", v) ("calc", v) ("idx", v, i)
def lin(c, terms=()):
    acc = {}
    for k, a in terms:
        acc[a] = acc.get(a, 0) + k
    ts = tuple(sorted(((k, a) for a, k in acc.items() if k != 0), key=lambda ka: repr(ka[1])))
    return ("lin", c, ts)


def as_lin(v, node=None):
    """an integer-valued symbolic value as a linear form"""
    if v[0] == "lin":
        return v
    if v[0] in ("var", "len", "calc", "idx"):
        return lin(0, [(1, v)])
    refuse(node, "integer expected, got %s" % v[0])


def lin_add(a, b, sign=1):
    return lin(a[1] + sign * b[1], list(a[2]) + [(sign * k, t) for k, t in b[2]])


def lin_const(v):
    return v[1] if v[0] == "lin" and not v[2] else None


def sym_len(v, node):
    if v[0] == "bytes":
        return lin(len(v[1]))
    if v[0] == "cat":
        return lin_add(sym_len(v[1], node), sym_len(v[2], node))
    if v[0] in ("var", "slice"):
        return lin(0, [(1, ("len", v))])
    refuse(node, "len() of %s" % v[0])


class State:
    """per-path state: environment of locals, number of levels in use, levels known not to be None"""

    def __init__(self, env, nlev, nonnull, depth):
        self.env, self.nlev, self.nonnull, self.depth = env, nlev, nonnull, depth

    def with_env(self, env):
        return State(env, self.nlev, self.nonnull, self.depth)

    def bind(self):
        return ("var", self.nlev), State(self.env, self.nlev + 1, self.nonnull | {self.nlev}, self.depth)


class Translator:
    def __init__(self, module):
        self.funcs, self.consts = {}, {}
        self.nodes = 0
        for st in module.body:
            if isinstance(st, ast.FunctionDef):
                self.funcs[st.name] = st
            elif isinstance(st, ast.Assign) and len(st.targets) == 1 and isinstance(st.targets[0], ast.Name):
                self.consts[st.targets[0].id] = st.value
        self.notes = []

    # ------------------------------------------------------------ trees
    def node(self, t):
        self.nodes += 1
        if self.nodes > MAX_NODES:
            raise Refused("decision tree larger than %d nodes" % MAX_NODES)
        return t

    # ------------------------------------------------------------ expressions (CPS: k(value, state) -> tree)
    def ev(self, e, st, k):
        if isinstance(e, ast.Constant):
            v = e.value
            if v is None:
                return k(("none",), st)
            if isinstance(v, bool):
                return k(("bool", v), st)
            if isinstance(v, int):
                return k(lin(v), st)
            if isinstance(v, bytes):
                return k(("bytes", tuple(v)), st)
            if isinstance(v, str):
                return k(("str", v), st)
            refuse(e, "constant %r" % (v,))
        if isinstance(e, ast.Name):
            if e.id in st.env:
                return k(st.env[e.id], st)
            if e.id in self.consts:      # module constant: evaluated where used (it must be pure or foldable)
                return self.ev(self.consts[e.id], State({}, st.nlev, st.nonnull, st.depth),
                               lambda v, s2: self._const_result(e, v, s2, st, k))
            refuse(e, "unknown name %s" % e.id)
        if isinstance(e, ast.JoinedStr):
            return k(("opaque",), st)
        if isinstance(e, ast.UnaryOp) and isinstance(e.op, ast.USub):
            return self.ev(e.operand, st, lambda v, s: k(lin_add(lin(0), as_lin(v, e), -1), s))
        if isinstance(e, ast.BinOp):
            if isinstance(e.op, ast.Mod) and isinstance(e.left, ast.Constant) and isinstance(e.left.value, str):
                return k(("opaque",), st)
            return self.ev(e.left, st, lambda a, s: self.ev(e.right, s, lambda b, s2: k(self.binop(e, a, b), s2)))
        if isinstance(e, ast.Tuple):
            return self.ev_list(e.elts, st, lambda vs, s: k(("tup", tuple(vs)), s))
        if isinstance(e, ast.Subscript):
            if isinstance(e.slice, ast.Slice):
                if e.slice.step is not None or e.slice.lower is None or e.slice.upper is None:
                    refuse(e, "slice form")
                return self.ev(e.value, st, lambda v, s: self.ev(e.slice.lower, s, lambda lo, s2: self.ev(
                    e.slice.upper, s2, lambda hi, s3: k(("slice", v, as_lin(lo, e), as_lin(hi, e)), s3))))
            refuse(e, "subscript")
        if isinstance(e, ast.Call):
            return self.ev_call(e, st, k)
        if isinstance(e, ast.Attribute):
            refuse(e, "attribute %s" % ast.unparse(e))
        refuse(e, "expression %s" % type(e).__name__)

    def _const_result(self, e, v, s2, st, k):
        if s2.nlev != st.nlev:
            refuse(e, "module constant %s is not a pure expression" % e.id)
        return k(v, st)

    def ev_list(self, es, st, k, acc=()):
        if not es:
            return k(list(acc), st)
        return self.ev(es[0], st, lambda v, s: self.ev_list(es[1:], s, k, acc + (v,)))

    def binop(self, e, a, b):
        if isinstance(e.op, ast.Add):
            if a[0] in ("bytes", "cat", "var", "slice") and b[0] in ("bytes", "cat", "slice") or \
               a[0] in ("bytes", "cat", "slice") and b[0] in ("bytes", "cat", "var", "slice"):
                if a[0] == "bytes" and b[0] == "bytes":
                    return ("bytes", a[1] + b[1])
                return ("cat", a, b)
            if a[0] == "var" and b[0] == "var" and (a[1] in self._bytes_levels or b[1] in self._bytes_levels):
                return ("cat", a, b)
            return lin_add(as_lin(a, e), as_lin(b, e))
        if isinstance(e.op, ast.Sub):
            return lin_add(as_lin(a, e), as_lin(b, e), -1)
        if isinstance(e.op, ast.Mult):
            ca, cb = lin_const(as_lin(a, e)), lin_const(as_lin(b, e))
            if ca is not None:
                la = as_lin(b, e)
                return lin(ca * la[1], [(ca * k, t) for k, t in la[2]])
            if cb is not None:
                la = as_lin(a, e)
                return lin(cb * la[1], [(cb * k, t) for k, t in la[2]])
        refuse(e, "operator %s" % type(e.op).__name__)

    def fmt_of(self, v, node):
        if v[0] == "str":
            s = v[1]
            if not s.startswith(">") or any(c not in FMT for c in s[1:]):
                refuse(node, "struct format %r" % s)
            return ("fmt", tuple(FMT[c] for c in s[1:]))
        if v[0] == "var":
            return v
        refuse(node, "struct format expression")

    def ev_call(self, e, st, k):
        f = e.func
        name = ast.unparse(f)
        if e.keywords:
            refuse(e, "keyword arguments in call to %s" % name)
        if name == "len" and len(e.args) == 1:
            return self.ev(e.args[0], st, lambda v, s: k(sym_len(v, e), s))
        if name == "isinstance":
            self.notes.append("isinstance test at line %d taken to hold" % e.lineno)
            return k(("bool", True), st)
        if name == "struct.calcsize" and len(e.args) == 1:
            def calc(v, s):
                fm = self.fmt_of(v, e)
                if fm[0] == "fmt":
                    return k(lin(sum({"Fb": 1, "FB": 1, "Fh": 2, "FH": 2, "Fi": 4, "FI": 4, "Fq": 8}[x] for x in fm[1])), s)
                return k(lin(0, [(1, ("calc", fm))]), s)
            return self.ev(e.args[0], st, calc)
        if name == "struct.pack" and e.args:
            def pack(vs, s):
                fm = self.fmt_of(vs[0], e)
                if fm[0] != "fmt" or len(fm[1]) != len(vs) - 1:
                    refuse(e, "struct.pack with a computed format or a wrong number of arguments")
                ls = [as_lin(v, e) for v in vs[1:]]
                if all(lin_const(x) is not None for x in ls):
                    try:
                        raw = struct.pack(">" + "".join({v: c for c, v in FMT.items()}[x] for x in fm[1]), *[lin_const(x) for x in ls])
                        return k(("bytes", tuple(raw)), s)
                    except struct.error:
                        pass
                v, s2 = s.bind()
                self._bytes_levels.add(v[1])
                return self.node(("bind", ("pack", tuple(zip(fm[1], ls))), k(v, s2)))
            return self.ev_list(e.args, st, pack)
        if name == "struct.unpack" and len(e.args) == 2:
            def unpack(vs, s):
                fm = self.fmt_of(vs[0], e)
                v, s2 = s.bind()
                return self.node(("bind", ("unpack", fm, vs[1]), k(v, s2)))
            return self.ev_list(e.args, st, unpack)
        if isinstance(f, ast.Attribute) and f.attr in ("encode", "decode") and len(e.args) == 1:
            def code(vs, s):
                if vs[1][0] != "str" or vs[1][1] not in CODECS:
                    refuse(e, "codec %r" % (vs[1],))
                v, s2 = s.bind()
                if f.attr == "encode":
                    self._bytes_levels.add(v[1])
                return self.node(("bind", (f.attr, CODECS[vs[1][1]], vs[0]), k(v, s2)))
            return self.ev_list([f.value, e.args[0]], st, code)
        if isinstance(f, ast.Attribute) and f.attr == "format":
            return k(("opaque",), st)       # message text: the arguments of exception constructors are not looked at
        if name in EXCS:
            return k(("exc", EXCS[name]), st)
        if isinstance(f, ast.Name) and f.id in self.funcs:
            return self.inline(e, self.funcs[f.id], e.args, st, k)
        refuse(e, "call to %s" % name)

    def inline(self, e, fn, args, st, k):
        if st.depth >= MAX_INLINE:
            refuse(e, "call depth")
        params = [a.arg for a in fn.args.args]
        if len(params) != len(args) or fn.args.vararg or fn.args.kwarg or fn.args.kwonlyargs or fn.args.defaults:
            refuse(e, "call signature of %s" % fn.name)

        def go(vs, s):
            inner = State(dict(zip(params, vs)), s.nlev, s.nonnull, s.depth + 1)
            return self.block(fn.body, inner, lambda v, s2: k(v, State(s.env, s2.nlev, s2.nonnull, s.depth)),
                              lambda s2: k(("none",), State(s.env, s2.nlev, s2.nonnull, s.depth)))
        # arguments that are only used inside messages may be unintelligible: evaluate them leniently
        return self.ev_args(args, st, go)

    def ev_args(self, es, st, k, acc=()):
        if not es:
            return k(list(acc), st)
        try:
            mark = self.nodes
            return self.ev(es[0], st, lambda v, s: self.ev_args(es[1:], s, k, acc + (v,)))
        except Refused:
            if isinstance(es[0], (ast.Call, ast.BinOp, ast.JoinedStr)) and self.nodes == mark:
                return self.ev_args(es[1:], st, k, acc + (("opaque",),))
            raise

    # ------------------------------------------------------------ conditions -> ("static", bool) | ("pos", lin) | ("zero", lin) | ("isnone", v) , negated flag
    def cond(self, t, st, k):
        """k(kind, payload, negated, state)"""
        if isinstance(t, ast.UnaryOp) and isinstance(t.op, ast.Not):
            return self.cond(t.operand, st, lambda kind, p, neg, s: k(kind, p, not neg, s))
        if isinstance(t, ast.Compare) and len(t.ops) == 1:
            op = t.ops[0]
            if isinstance(op, (ast.Is, ast.IsNot)) and isinstance(t.comparators[0], ast.Constant):
                cv = t.comparators[0].value
                if cv is None:
                    def isnone(v, s):
                        neg = isinstance(op, ast.IsNot)
                        if v[0] == "none":
                            return k("static", True, neg, s)
                        if v[0] == "var" and v[1] not in s.nonnull:
                            return k("isnone", v, neg, s)
                        return k("static", False, neg, s)
                    return self.ev(t.left, st, isnone)
                if cv in (True, False):
                    def isbool(v, s):
                        if v[0] != "bool":
                            refuse(t, "`is %r` on a non-constant" % cv)
                        return k("static", v[1] is cv, isinstance(op, ast.IsNot), s)
                    return self.ev(t.left, st, isbool)
            if isinstance(op, (ast.Lt, ast.Gt, ast.LtE, ast.GtE, ast.Eq, ast.NotEq)):
                def cmp(a, s):
                    def cmp2(b, s2):
                        la, lb = as_lin(a, t), as_lin(b, t)
                        if isinstance(op, ast.Lt):          # a < b   <=>  0 < b - a
                            kind, d, neg = "pos", lin_add(lb, la, -1), False
                        elif isinstance(op, ast.Gt):
                            kind, d, neg = "pos", lin_add(la, lb, -1), False
                        elif isinstance(op, ast.LtE):       # a <= b  <=>  not (0 < a - b)
                            kind, d, neg = "pos", lin_add(la, lb, -1), True
                        elif isinstance(op, ast.GtE):
                            kind, d, neg = "pos", lin_add(lb, la, -1), True
                        else:
                            d = lin_add(la, lb, -1)
                            if d[2] and d[2][0][0] < 0:
                                d = lin(-d[1], [(-kk, tt) for kk, tt in d[2]])
                            kind, neg = "zero", isinstance(op, ast.NotEq)
                        c = lin_const(d)
                        if c is not None:
                            return k("static", (c > 0) if kind == "pos" else (c == 0), neg, s2)
                        return k(kind, d, neg, s2)
                    return self.ev(t.comparators[0], s, cmp2)
                return self.ev(t.left, st, cmp)
        if isinstance(t, ast.Call) or isinstance(t, ast.Constant) or isinstance(t, ast.Name):
            def truth(v, s):
                if v[0] == "bool":
                    return k("static", v[1], False, s)
                refuse(t, "truth value of %s" % v[0])
            return self.ev(t, st, truth)
        refuse(t, "condition %s" % ast.unparse(t))

    # ------------------------------------------------------------ statements
    def block(self, stmts, st, kret, kfall):
        """tree of executing stmts; kret(value, state) on return, kfall(state) when the block ends"""
        if not stmts:
            return kfall(st)
        s0, rest = stmts[0], stmts[1:]
        nxt = lambda s: self.block(rest, s, kret, kfall)
        if isinstance(s0, ast.Expr) and isinstance(s0.value, ast.Constant):
            return nxt(st)                                   # docstring
        if isinstance(s0, ast.Pass):
            return nxt(st)
        if isinstance(s0, ast.Return):
            if s0.value is None:
                return kret(("none",), st)
            return self.ev(s0.value, st, kret)
        if isinstance(s0, ast.Raise):
            if s0.exc is None:
                refuse(s0, "bare raise")

            def raised(v, s):
                if v[0] != "exc":
                    refuse(s0, "raise of something that is not a known exception")
                return self.node(("raise", v[1]))
            return self.ev(s0.exc, st, raised)
        if isinstance(s0, ast.Assign) and len(s0.targets) == 1:
            return self.ev(s0.value, st, lambda v, s: nxt(s.with_env(self.assign(s0.targets[0], v, dict(s.env), s0))))
        if isinstance(s0, ast.AugAssign) and isinstance(s0.target, ast.Name):
            fake = ast.BinOp(left=ast.Name(id=s0.target.id, ctx=ast.Load()), op=s0.op, right=s0.value)
            ast.copy_location(fake, s0)
            ast.fix_missing_locations(fake)
            return self.ev(fake, st, lambda v, s: nxt(s.with_env(dict(s.env, **{s0.target.id: v}))))
        if isinstance(s0, ast.If):
            def branch(kind, p, neg, s):
                a = lambda: self.block(s0.body, s, kret, nxt)
                b = lambda: self.block(s0.orelse, s, kret, nxt)
                if kind == "static":
                    return a() if (p != neg) else b()
                ta, tb = (b(), a()) if neg else (a(), b())
                return self.node(("if", (kind, p), ta, tb))
            return self.cond(s0.test, st, branch)
        if isinstance(s0, ast.Assert):
            self.notes.append("assert at line %d dropped" % s0.lineno)
            return nxt(st)
        refuse(s0, "statement %s" % type(s0).__name__)

    def assign(self, target, v, env, node):
        if isinstance(target, ast.Name):
            env[target.id] = v
            return env
        if isinstance(target, (ast.Tuple, ast.List)):
            n = len(target.elts)
            if v[0] == "tup":
                if len(v[1]) != n:
                    refuse(node, "tuple arity")
                for t, x in zip(target.elts, v[1]):
                    self.assign(t, x, env, node)
                return env
            if v[0] == "var":        # the tuple struct.unpack returned
                for i, t in enumerate(target.elts):
                    self.assign(t, ("idx", v, i), env, node)
                return env
        refuse(node, "assignment target")

    # ------------------------------------------------------------ one function
    def function(self, name):
        fn = self.funcs.get(name)
        if fn is None:
            raise Refused("function %s not found" % name)
        if name == "group_by_topic_and_partition":
            return self.group_by(fn)
        self.nodes, self.notes, self._bytes_levels = 0, [], set()
        params = [a.arg for a in fn.args.args]
        if fn.args.vararg or fn.args.kwarg or fn.args.kwonlyargs or fn.args.defaults:
            raise Refused("signature of %s" % name)
        st = State({p: ("var", i) for i, p in enumerate(params)}, len(params), frozenset(), 0)
        tree = self.block(fn.body, st, lambda v, s: self.node(("ret", v)), lambda s: self.node(("ret", ("none",))))
        return emit_tree(tree), list(dict.fromkeys(self.notes))

    def group_by(self, fn):
        """the one function that is a loop over a dict of dicts: recognised as a whole or refused"""
        body = [s for s in fn.body if not (isinstance(s, ast.Expr) and isinstance(s.value, ast.Constant))]
        params = [a.arg for a in fn.args.args]
        try:
            a0, loop, ret = body
            out = a0.targets[0].id
            assert ast.unparse(a0.value) in ("collections.defaultdict(dict)", "defaultdict(dict)")
            assert isinstance(loop, ast.For) and ast.unparse(loop.iter) == params[0] and len(loop.body) == 1 and not loop.orelse
            t = loop.target.id
            asg = loop.body[0]
            tgt = asg.targets[0]
            assert ast.unparse(asg.value) == t
            assert isinstance(tgt, ast.Subscript) and isinstance(tgt.value, ast.Subscript) and ast.unparse(tgt.value.value) == out
            k1, k2 = ast.unparse(tgt.value.slice), ast.unparse(tgt.slice)
            assert k1.startswith(t + ".") and k2.startswith(t + ".")
            assert isinstance(ret, ast.Return) and ast.unparse(ret.value) == out
        except (AssertionError, ValueError, AttributeError, IndexError):
            raise Refused("group_by_topic_and_partition is not the dict-of-dicts loop")
        return 'UGroupBy "%s" "%s"' % (k1[len(t) + 1:], k2[len(t) + 1:]), []


# ---------------------------------------------------------------- Gallina text
def zt(z):
    return "(%d)" % z if z < 0 else "%d" % z


def emit_ex(v):
    k = v[0]
    if k == "var":
        return "(EVar %d)" % v[1]
    if k == "none":
        return "ENone"
    if k == "bytes":
        return "(EBytes [%s])" % "; ".join(str(b) for b in v[1])
    if k == "fmt":
        return "(EFmt [%s])" % "; ".join(v[1])
    if k == "lin":
        return "(ELin %s [%s])" % (zt(v[1]), "; ".join("(%s, %s)" % (zt(c), emit_ex(a)) for c, a in v[2]))
    if k == "len":
        return "(ELen %s)" % emit_ex(v[1])
    if k == "calc":
        return "(ECalc %s)" % emit_ex(v[1])
    if k == "idx":
        return "(EIdx %s %d)" % (emit_ex(v[1]), v[2])
    if k == "slice":
        return "(ESlice %s %s %s)" % (emit_ex(v[1]), emit_ex(v[2]), emit_ex(v[3]))
    if k == "cat":
        return "(ECat %s %s)" % (emit_ex(v[1]), emit_ex(v[2]))
    if k == "tup":
        return "(ETup [%s])" % "; ".join(emit_ex(x) for x in v[1])
    raise Refused("a value of kind %s is returned or used where a wire value is needed" % k)


def emit_tree(t, ind=1):
    pad = "  " * ind
    k = t[0]
    if k == "ret":
        return pad + "TRet %s" % emit_ex(t[1])
    if k == "raise":
        return pad + "TRaise %s" % t[1]
    if k == "if":
        kind, p = t[1]
        c = {"pos": "CPos %s", "zero": "CZero %s", "isnone": "CIsNone %s"}[kind] % emit_ex(p)
        return pad + "TIf (%s)\n%s\n%s" % (c, emit_tree_p(t[2], ind + 1), emit_tree_p(t[3], ind + 1))
    if k == "bind":
        o = t[1]
        if o[0] == "pack":
            op = "OPack [%s]" % "; ".join("(%s, %s)" % (f, emit_ex(e)) for f, e in o[1])
        elif o[0] == "unpack":
            op = "OUnpack %s %s" % (emit_ex(o[1]), emit_ex(o[2]))
        elif o[0] == "encode":
            op = "OEncode %s %s" % (o[1], emit_ex(o[2]))
        else:
            op = "ODecode %s %s" % (o[1], emit_ex(o[2]))
        return pad + "TBind (%s)\n%s" % (op, emit_tree_p(t[2], ind + 1))
    raise Refused("tree node %s" % k)


def emit_tree_p(t, ind):
    s = emit_tree(t, ind)
    pad = "  " * ind
    return pad + "(" + s[len(pad):] + ")"


def translate_source(text):
    tr = Translator(ast.parse(text))
    out = {}
    for fn in FUNCTIONS:
        try:
            term, notes = tr.function(fn)
            out[fn] = ("ok", term, notes)
        except Refused as e:
            out[fn] = ("refused", str(e))
        except RecursionError:
            out[fn] = ("refused", "recursion while inlining")
    return out


def translate_repo(repo):
    return translate_source(open(os.path.join(repo, "afkak", "_util.py")).read())


def emit_gallina(results, prefix="gen", header=None):
    out = [header or "(* generated by harness/py2util.py from afkak/_util.py - do not edit *)",
           "From Coq Require Import String.", "From AV Require Import Base.Util Model.Prim Model.UtilDSL.",
           "Open Scope string_scope.", ""]
    for fn in FUNCTIONS:
        r = results[fn]
        if r[0] != "ok":
            out.append("(* %s: %s *)\n" % (fn, r[1]))
            continue
        ty = "gprog" if fn == "group_by_topic_and_partition" else "tree"
        out.append("Definition %s_%s : %s :=\n%s.\n" % (prefix, fn, ty, r[1] if ty == "tree" else "  " + r[1]))
    return "\n".join(out)


if __name__ == "__main__":
    root = os.path.dirname(os.path.dirname(os.path.abspath(__file__)))
    repo = os.environ.get("VERIF_REPO", "/repo")
    res = translate_repo(repo)
    if "--snapshot" in sys.argv:
        bad = [f for f in FUNCTIONS if res[f][0] != "ok"]
        if bad:
            print("refused:", {f: res[f][1] for f in bad})
            sys.exit(1)
        hdr = ("(* The committed terms of the _util.py tie (property C12, DESIGN.md 10.2b): what harness/py2util.py makes of\n"
               "   afkak/_util.py at the commit the soundness proofs (Proofs/UtilDSLSound.v) were written against.\n"
               "   Regenerate with  python3 harness/py2util.py --snapshot  ONLY together with those proofs. *)")
        open(os.path.join(root, "coq", "Model", "UtilAst.v"), "w").write(emit_gallina(res, "ast", hdr))
        print("wrote coq/Model/UtilAst.v")
    else:
        for f in FUNCTIONS:
            print(f, res[f][0], res[f][1] if res[f][0] != "ok" else "")
            if res[f][0] == "ok":
                print(res[f][1])
