"""Driver for the real afkak._protocol.KafkaProtocol / KafkaBootstrapProtocol (model M6, coq/Model/Framing.v).

Case lines of Model.Framing.run_case:
    1 <lp chunk>*        raw receiver: the real KafkaProtocol fed the chunks; its factory is a stand-in whose
                         handleResponse extracts the correlation id with the real
                         KafkaCodec.get_response_correlation_id (raises on a frame shorter than 4 bytes)
                         trace per chunk: 0, per packet handed to stringReceived 1 <lp packet>,
                         then 2 (normal end) | 3 (lengthLimitExceeded -> loseConnection) | 4 (exception left dataReceived)
    2 <events>           the real KafkaBootstrapProtocol; events 1 <lp request> | 2 <lp chunk> | 3 (connectionLost) |
                         4 h (.cancel() of the h-th Deferred request() returned: what KafkaClient's addTimeout does)
                         trace per event: 0, then 1 h <lp request> (sendString) | 2 h 1 <lp frame> (Deferred h succeeded) |
                         2 h 2 (Deferred h failed with the loss reason) | 2 h 3 (CancelledError) | 3 (loseConnection) |
                         4 kind (raised)
    3 <lp body>          sendString(body): the bytes written
"""
import struct

from vlib import lp

MAXLEN = 2 ** 31 - 1


class Transport(object):
    """in-memory transport: records writes and loseConnection requests into `log`"""
    disconnecting = False

    def __init__(self, log):
        self.log = log

    def write(self, data):
        self.log.append(("write", bytes(data)))

    def writeSequence(self, seq):
        self.write(b"".join(seq))

    def loseConnection(self):
        self.log.append(("lose",))

    def abortConnection(self):
        self.log.append(("abort",))

    def getPeer(self):
        return "peer"

    def getHost(self):
        return "host"


def frame(body):
    return struct.pack(">I", len(body)) + bytes(body)


# ------------------------------------------------------------------ op 1: raw receiver
class _Factory(object):
    """stand-in for _KafkaBrokerClient: records the packet, then does what handleResponse does first"""

    def __init__(self, log):
        self.log = log

    def handleResponse(self, response):
        from afkak.kafkacodec import KafkaCodec
        self.log.append(("packet", bytes(response)))
        KafkaCodec.get_response_correlation_id(response)

    def _connectionLost(self, reason):
        self.log.append(("lost",))


def impl_receiver(chunks):
    """returns (trace, per-call records [(packets, end)]) with end in 'more' | 'limit' | 'raised'"""
    from afkak._protocol import KafkaProtocol
    from afkak.common import BufferUnderflowError
    log = []
    p = KafkaProtocol()
    p.factory = _Factory(log)
    p.makeConnection(Transport(log))
    trace, calls = [], []
    for c in chunks:
        del log[:]
        end = "more"
        try:
            p.dataReceived(bytes(c))
        except BufferUnderflowError:
            end = "raised"
        except Exception:
            end = "raised-other"
        pk = [e[1] for e in log if e[0] == "packet"]
        if any(e[0] == "lose" for e in log):
            end = "limit" if end == "more" else "raised+lose"
        trace.append(0)
        for x in pk:
            trace += [1] + lp(x)
        trace.append({"more": 2, "limit": 3, "raised": 4}.get(end, 98))
        calls.append((pk, end))
    return trace, calls


def case_receiver(chunks):
    c = [1]
    for ch in chunks:
        c += lp(ch)
    return c


def impl_send(body):
    from afkak._protocol import KafkaProtocol
    log = []
    p = KafkaProtocol()
    p.makeConnection(Transport(log))
    p.sendString(bytes(body))
    out = b"".join(e[1] for e in log if e[0] == "write")
    return list(out)


# ------------------------------------------------------------------ op 2: bootstrap protocol
def impl_bootstrap(events, hooks=None):
    """events: ("req", bytes) | ("data", bytes) | ("lost",) | ("cancel", h).  returns (trace, per-event outputs,
    requests per handle).  hooks: handle -> request bytes: when the Deferred of that handle FAILS, its errback
    calls protocol.request(bytes) re-entrantly (e.g. from inside connectionLost's loop); the new Deferred gets the next
    handle.  Hooked histories are only monitored, not compared with the model."""
    from afkak._protocol import KafkaBootstrapProtocol
    from twisted.internet.error import ConnectionLost
    from twisted.python.failure import Failure
    log = []
    p = KafkaBootstrapProtocol()
    p.makeConnection(Transport(log))
    reason = Failure(ConnectionLost("sim"))
    reqs = []
    handles = []
    trace, per_event = [], []
    hooks = hooks or {}
    from twisted.internet.defer import CancelledError

    def watch(d, h):
        def cb(r):
            log.append(("def", h, 1, bytes(r)) if isinstance(r, bytes) else ("def", h, 99, None))

        def eb(f):
            log.append(("def", h, 2, None) if f is reason else (("def", h, 3, None) if f.check(CancelledError) else ("def", h, 99, None)))
            if h in hooks:          # user errback that issues another request at once
                try:
                    d2 = p.request(bytes(hooks[h]))
                    h2 = len(reqs)
                    reqs.append(bytes(hooks[h]))
                    handles.append(d2)
                    watch(d2, h2)
                except Exception:
                    log.append(("raised", 99))
        d.addCallbacks(cb, eb)

    for ev in events:
        del log[:]
        k = ev[0]
        try:
            if k == "req":
                d = p.request(bytes(ev[1]))
                h = len(reqs)
                reqs.append(bytes(ev[1]))
                handles.append(d)
                watch(d, h)
            elif k == "data":
                p.dataReceived(bytes(ev[1]))
            elif k == "cancel":
                if 0 <= ev[1] < len(handles):
                    handles[ev[1]].cancel()
            else:
                p.connectionLost(reason)
        except AssertionError:
            log.append(("raised", 1))
        except AttributeError:
            log.append(("raised", 2))
        except Exception:          # anything else (AlreadyCalledError, KeyError ..) is an observable no legal behaviour has
            log.append(("raised", 99))
        outs = []
        for e in log:
            if e[0] == "write":
                data = e[1]
                if len(data) >= 4 and struct.unpack(">I", data[:4])[0] == len(data) - 4:
                    outs.append(("write", len(reqs) - 1 if k == "req" else -1, data[4:]))
                else:
                    outs.append(("write", -1, data))
            elif e[0] == "lose":
                outs.append(("lose",))
            elif e[0] == "abort":
                outs.append(("abort",))
            else:
                outs.append(e)
        # request(): the write precedes the creation of the handle; a raising request() creates none
        if k == "req":
            outs = [(("write", len(reqs) - 1, o[2]) if o[0] == "write" else o) for o in outs]
        per_event.append(outs)
        trace.append(0)
        for o in outs:
            if o[0] == "write":
                trace += [1, o[1]] + lp(o[2])
            elif o[0] == "def":
                trace += [2, o[1], o[2]] + (lp(o[3]) if o[2] == 1 else [])
            elif o[0] == "lose":
                trace.append(3)
            elif o[0] == "raised":
                trace += [4, o[1]]
            else:
                trace.append(97)
    return trace, per_event, reqs


def case_bootstrap(events):
    c = [2]
    for ev in events:
        if ev[0] == "req":
            c += [1] + lp(ev[1])
        elif ev[0] == "data":
            c += [2] + lp(ev[1])
        elif ev[0] == "cancel":
            c += [4, ev[1]]
        else:
            c.append(3)
    return c


# ------------------------------------------------------------------ generators
def gen_body(rnd, ids=None):
    r = rnd.random()
    if ids and r < 0.6:
        head = struct.pack(">i", rnd.choice(ids))
    elif r < 0.8:
        head = struct.pack(">i", rnd.choice([0, 1, -1, 2 ** 31 - 1, -2 ** 31, rnd.randint(-2 ** 31, 2 ** 31 - 1)]))
    else:
        head = bytes(rnd.randint(0, 255) for _ in range(4))
    n = rnd.choice([0, 0, 1, 2, 3, 5, 9, 17, 40]) if rnd.random() < 0.9 else rnd.randint(41, 300)
    return head + bytes(rnd.randint(0, 255) for _ in range(n))


def chunkings(data, rnd):
    """a random split of data (pieces may be empty); styles: whole, byte-wise, cuts near frame heads, random"""
    r = rnd.random()
    if r < 0.1:
        return [data]
    if r < 0.2 and len(data) <= 80:
        return [data[i:i + 1] for i in range(len(data))]
    n = rnd.randint(1, 7)
    cuts = sorted(rnd.randint(0, len(data)) for _ in range(n))
    out, prev = [], 0
    for c in cuts + [len(data)]:
        out.append(data[prev:c])
        prev = c
    if rnd.random() < 0.2:
        out.insert(rnd.randint(0, len(out)), b"")
    return out


def gen_receiver_case(rnd):
    """returns (kind, chunks, frames, info).  kinds: good (frames + incomplete tail), limit (frames + bad prefix + tail),
    short (contains a frame shorter than an id), garbage (random bytes)"""
    r = rnd.random()
    nfr = rnd.choice([0, 1, 1, 2, 3, 4, 6])
    frames = [gen_body(rnd) for _ in range(nfr)]
    stream = b"".join(frame(f) for f in frames)
    if r < 0.55:
        # incomplete tail: strict prefix of another frame (possibly empty, possibly announcing MAXLEN)
        t = rnd.random()
        if t < 0.3:
            tail = b""
        elif t < 0.5:
            tail = struct.pack(">I", rnd.choice([MAXLEN, MAXLEN - 1, 5, 1000]))[:rnd.randint(1, 4)]
        elif t < 0.7:
            tail = struct.pack(">I", rnd.choice([MAXLEN, 2 ** 30, 70000])) + bytes(rnd.randint(0, 255) for _ in range(rnd.randint(0, 12)))
        else:
            fr = frame(gen_body(rnd))
            tail = fr[:rnd.randint(0, len(fr) - 1)]
        return "good", chunkings(stream + tail, rnd), frames, {"tail": tail}
    if r < 0.8:
        ln = rnd.choice([2 ** 31, 2 ** 31 + 1, 2 ** 32 - 1, rnd.randint(2 ** 31, 2 ** 32 - 1)])
        tail = b"".join(frame(gen_body(rnd)) for _ in range(rnd.randint(0, 2))) + bytes(rnd.randint(0, 255) for _ in range(rnd.randint(0, 9)))
        return "limit", chunkings(stream + struct.pack(">I", ln) + tail, rnd), frames, {"len": ln, "tail": tail}
    if r < 0.92:
        short = bytes(rnd.randint(0, 255) for _ in range(rnd.randint(0, 3)))
        more = b"".join(frame(gen_body(rnd)) for _ in range(rnd.randint(0, 2)))
        return "short", chunkings(stream + frame(short) + more, rnd), frames, {"short": short}
    data = bytes(rnd.choice([0, 0, 0, 1, 4, 127, 128, 255, rnd.randint(0, 255)]) for _ in range(rnd.randint(0, 40)))
    return "garbage", chunkings(data, rnd), [], {}


def gen_bootstrap_case(rnd):
    events, ids, wire = [], [], b""
    nxt = rnd.choice([1, 7, 2 ** 31 - 2, -5])
    nreq = 0
    for _ in range(rnd.randint(1, 14)):
        r = rnd.random()
        if r < 0.12 and nreq:
            events.append(("cancel", rnd.randint(0, nreq)))      # a timed-out request; its late response may still come
            continue
        if r < 0.35:
            nreq += 1
            if ids and rnd.random() < 0.1:
                cid = rnd.choice(ids)            # duplicate id: AssertionError while it is pending
            else:
                cid, nxt = nxt, nxt + 1
                if nxt > 2 ** 31 - 1:
                    nxt = -2 ** 31
            ids.append(cid)
            hdr = bytes(rnd.randint(0, 255) for _ in range(4)) + struct.pack(">i", cid)
            if rnd.random() < 0.05:
                hdr = hdr[:rnd.randint(0, 7)]    # request shorter than a header
            events.append(("req", hdr + bytes(rnd.randint(0, 255) for _ in range(rnd.choice([0, 2, 9])))))
        elif r < 0.6:
            x = rnd.random()
            if x < 0.8 and ids:
                wire += frame(gen_body(rnd, ids))
            elif x < 0.9:
                wire += frame(bytes(rnd.randint(0, 255) for _ in range(rnd.randint(0, 3))))
            elif x < 0.95:
                wire += struct.pack(">I", rnd.choice([2 ** 31, 2 ** 32 - 1]))
            else:
                wire += frame(gen_body(rnd))
        elif r < 0.93:
            if wire:
                n = len(wire) if rnd.random() < 0.4 else rnd.randint(0, len(wire))
                events.append(("data", wire[:n]))
                wire = wire[n:]
        else:
            events.append(("lost",))
    if rnd.random() < 0.5:
        events.append(("lost",))
    return events


# ------------------------------------------------------------------ monitors (theorem statements over implementation traces)
def monitor_receiver(kind, chunks, frames, info, calls):
    """C06_reassembly / C06_length_limit restated over what the real receiver did"""
    bad = []
    if any(e not in ("more", "limit", "raised") for _, e in calls):
        bad.append(("C06_reassembly", "dataReceived raised an exception other than the short-frame BufferUnderflowError, or raised and lost the connection"))
    delivered = [p for pk, _ in calls for p in pk]
    if kind == "good":
        if delivered != frames:
            bad.append(("C06_reassembly", "delivered %d packets, sent %d frames (first difference at %d)" % (
                len(delivered), len(frames), next((i for i, (a, b) in enumerate(zip(delivered, frames)) if a != b), min(len(delivered), len(frames))))))
        if any(e != "more" for _, e in calls):
            bad.append(("C06_reassembly", "a call ended abnormally on well-formed data: %r" % [e for _, e in calls]))
    elif kind == "limit":
        ends = [e for _, e in calls]
        if "limit" not in ends:
            bad.append(("C06_length_limit", "length %d > 2^31-1 did not terminate the connection" % info["len"]))
        else:
            i = ends.index("limit")
            pre = [p for pk, _ in calls[:i] for p in pk] + calls[i][0]
            if pre != frames:
                bad.append(("C06_length_limit", "frames delivered up to the bad prefix differ from the frames sent before it"))
            if any(e != "more" for e in ends[:i]):
                bad.append(("C06_length_limit", "abnormal end before the bad prefix"))
            for pk, e in calls[i + 1:]:
                if e != "limit" or pk != calls[i][0]:
                    bad.append(("C06_length_limit", "after the limit was hit a later call delivered %d packets (end %s); only a repeat of that call's packets is possible" % (len(pk), e)))
                    break
    return bad


def monitor_bootstrap(events, per_event, reqs):
    bad = []
    fired = {}
    lost = False
    for ev, outs in zip(events, per_event):
        for o in outs:
            if o == ("raised", 99):
                bad.append(("C06_bootstrap_pairing", "event %r raised an exception no legal behaviour includes (AlreadyCalledError, KeyError ..)" % (ev[0],)))
            if o[0] == "def":
                h = o[1]
                if h in fired:
                    bad.append(("C06_bootstrap_pairing", "Deferred %d fired twice" % h))
                fired[h] = o[2]
                if o[2] == 99:
                    bad.append(("C06_bootstrap_pairing", "Deferred %d fired with an unexpected value" % h))
                if o[2] == 1 and (h >= len(reqs) or o[3][:4] != reqs[h][4:8]):
                    bad.append(("C06_bootstrap_pairing", "Deferred %d got a frame whose id bytes are not request[4:8]" % h))
        if ev[0] == "lost":
            lost = True
    # no crosstalk: the connection is dropped ONLY for a length prefix over the limit or a frame whose id is in nobody's
    # table entry; the entry of a cancelled request stays until its (late) response came, so that response drops nothing
    table, buf, aborted, gone = set(), b"", False, False
    for ev, outs in zip(events, per_event):
        if ev[0] == "req" and any(o[0] == "write" for o in outs):
            table.add(bytes(ev[1][4:8]))
        elif ev[0] == "lost":
            gone = True
        elif ev[0] == "data" and not gone:
            justified = aborted
            if not aborted:
                buf += bytes(ev[1])
                while len(buf) >= 4:
                    ln = struct.unpack(">I", buf[:4])[0]
                    if ln > MAXLEN:
                        aborted = justified = True
                        break
                    if len(buf) - 4 < ln:
                        break
                    cid = buf[4:4 + ln][:4]
                    buf = buf[4 + ln:]
                    if cid in table:
                        table.discard(cid)
                    else:
                        justified = True
            if ("lose",) in outs and not justified:
                bad.append(("C06_bootstrap_no_crosstalk", "the connection was dropped although every received frame carried the id of a request in the table (pending or cancelled) and no length was over the limit"))
    if lost:
        left = [h for h in range(len(reqs)) if h not in fired]
        if left:
            bad.append(("C06_bootstrap_pairing", "after connectionLost Deferreds %r never fired" % left))
    return bad
