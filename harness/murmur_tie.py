# C18, tie (A): this run's translation of afkak/partitioner.py:pure_murmur2 (harness/py2coq.py) is proved equal
# to the hand-written model, and hence to Java's murmur2, in a scratch directory coq/Run/out/gen/<id>/ (untracked).
# Nothing tracked is written.  The scratch files are the TRACKED proof/statement files with the import of the
# snapshot Model.MurmurGen replaced by the run's module:
#     MurmurGenRun.v    = the translation
#     MurmurGenRunEq.v  = Proofs/MurmurGenEq.v + Proofs/MurmurGenJava.v   (proofs: the generic tactic gen_eq_tac)
#     C18genRun.v       = Props/C18gen.v                                   (statements + Print Assumptions)
import fcntl
import glob
import hashlib
import os
import re
import shutil
import time

import vlib

GEN = os.path.join(vlib.OUT, "gen")
BASE_TARGETS = ["Proofs/MurmurGenTac.vo", "Proofs/MurmurJava.vo", "Model/MurmurPy.vo", "Model/Partitioner.vo"]
SNAP_MODULES = r"(Model\.MurmurGen|Proofs\.MurmurGenEq|Proofs\.MurmurGenJava)\b"


def _retarget(text, run_imports):
    """drop the snapshot modules from the `From AV Require Import` lines, import the run's modules instead"""
    lines, done = [], False
    for line in text.splitlines():
        if line.startswith("From AV Require Import"):
            line = re.sub(r"\s+" + SNAP_MODULES, "", line)
            lines.append(line)
            if not done:
                lines.append("From AVRun Require Import %s." % " ".join(run_imports))
                done = True
        else:
            lines.append(line)
    if not done:
        raise vlib.CheckAbort("tracked proof file without a `From AV Require Import` line")
    return "\n".join(lines) + "\n"


def scratch_texts(translation):
    rd = lambda rel: open(os.path.join(vlib.COQ, rel)).read()
    eq = _retarget(rd("Proofs/MurmurGenEq.v"), ["MurmurGenRun"])
    jv = rd("Proofs/MurmurGenJava.v")
    jv = "\n".join(l for l in jv.splitlines() if not l.startswith("From AV Require Import")) + "\n"
    eq = eq.replace("Proofs.MurmurGenTac.", "Proofs.MurmurGenTac Model.Partitioner Proofs.MurmurJava.", 1) + jv
    props = _retarget(rd("Props/C18gen.v"), ["MurmurGenRun", "MurmurGenRunEq"])
    return {"MurmurGenRun.v": translation, "MurmurGenRunEq.v": eq, "C18genRun.v": props}


def statements(text):
    """{theorem name: normalised statement} of a Props-style file"""
    txt = vlib.comment_free(text)
    out = {}
    for m in re.finditer(r"^\s*Theorem\s+([\w']+)\s*:(.*?)\.\s*\n\s*Proof\.", txt, re.M | re.S):
        out[m.group(1)] = " ".join(m.group(2).split())
    return out


def _prune(keep):
    for d in glob.glob(os.path.join(GEN, "*")):
        try:
            if os.path.isdir(d) and os.path.basename(d) != keep and time.time() - os.path.getmtime(d) > 86400:
                shutil.rmtree(d, ignore_errors=True)
        except OSError:
            pass


def make_base(jobs=8):
    """the tracked files the scratch proof needs (never the snapshot)"""
    lock = open(os.path.join(vlib.COQ, ".lock"), "w")
    fcntl.flock(lock, fcntl.LOCK_EX)
    try:
        files = vlib.vfiles()
        proj = "-Q . AV\n-arg -w -arg -notation-overridden,-deprecated,-non-recursive\n" + "\n".join(files) + "\n"
        pj = os.path.join(vlib.COQ, "_CoqProject")
        if not os.path.exists(pj) or open(pj).read() != proj or not os.path.exists(os.path.join(vlib.COQ, "Makefile")):
            open(pj, "w").write(proj)
            vlib.sh("coq_makefile -f _CoqProject -o Makefile", 120, cwd=vlib.COQ)
        rc, o = vlib.sh("timeout 900 make -j%d %s 2>&1" % (jobs, " ".join(BASE_TARGETS)), 1000, cwd=vlib.COQ)
        return rc == 0, o[-3000:]
    finally:
        fcntl.flock(lock, fcntl.LOCK_UN)
        lock.close()


def prove_in_scratch(translation, need_base=False):
    """(ok, log) - compile the three scratch files for this translation.  Used by py2coq.refresh_snapshot."""
    if need_base:
        ok, log = make_base()
        if not ok:
            return False, "base build failed: " + log
    r = compile_scratch(translation)
    return r["ok"], r["log"]


def compile_scratch(translation):
    """Compile (cached per text) the run's translation and its proofs; ALWAYS re-compiles the statements file
    afresh and parses its Print Assumptions output.
    Returns {ok, log, dir, theorems:[{name, axioms, accepted}], obligations, discharged, cmd, stage}"""
    texts = scratch_texts(translation)
    ident = hashlib.sha1("\0".join(texts[k] for k in sorted(texts)).encode()).hexdigest()[:16]
    d = os.path.join(GEN, ident)
    os.makedirs(d, exist_ok=True)
    _prune(ident)
    rel = os.path.relpath(d, vlib.COQ)
    res = {"ok": False, "log": "", "dir": d, "theorems": [], "obligations": 0, "discharged": 0, "stage": "", "cmd": ""}
    thms = re.findall(r"^\s*Theorem\s+([\w']+)", vlib.comment_free(texts["C18genRun.v"]), re.M)
    prints = re.findall(r"^\s*Print\s+Assumptions\s+([\w']+)", vlib.comment_free(texts["C18genRun.v"]), re.M)
    res["obligations"] = len(thms)
    if set(thms) - set(prints):
        raise vlib.CheckAbort("Props/C18gen.v: theorems without Print Assumptions")
    lock = open(os.path.join(d, ".lock"), "w")
    fcntl.flock(lock, fcntl.LOCK_EX)
    try:
        for name, text in texts.items():
            p = os.path.join(d, name)
            if not os.path.exists(p) or open(p).read() != text:
                open(p, "w").write(text)
        base_vo = [os.path.join(vlib.COQ, t) for t in BASE_TARGETS]
        newest = max(os.path.getmtime(f) for f in base_vo if os.path.exists(f))
        flags = "-Q . AV -Q %s AVRun -w -notation-overridden,-deprecated" % rel
        for name, tmo in (("MurmurGenRun", 120), ("MurmurGenRunEq", 600)):
            vo = os.path.join(d, name + ".vo")
            if os.path.exists(vo) and os.path.getmtime(vo) >= newest and os.path.getmtime(vo) >= os.path.getmtime(os.path.join(d, name + ".v")):
                continue
            try:
                os.remove(vo)
            except OSError:
                pass
            cmd = "timeout %d coqc %s %s/%s.v" % (tmo, flags, rel, name)
            rc, out = vlib.sh(cmd, tmo + 30, cwd=vlib.COQ)
            if rc or not os.path.exists(vo):
                res["stage"] = name
                res["log"] = ("%s does not compile (%s)\n" % (name, "the translation is not well-formed Gallina" if name == "MurmurGenRun"
                              else "the generic proof gen_eq_tac does not establish generated = model")) + out[-2500:]
                return res
        cmd = "timeout 300 coqc %s %s/C18genRun.v" % (flags, rel)
        res["cmd"] = "cd /verif/coq && " + cmd
        rc, out = vlib.sh(cmd, 330, cwd=vlib.COQ)
        if rc:
            res["stage"] = "C18genRun"
            res["log"] = "C18genRun.v does not compile\n" + out[-2500:]
            return res
        blocks = vlib.parse_assumptions(out)
        if len(blocks) != len(prints):
            res["stage"] = "C18genRun"
            res["log"] = "Print Assumptions blocks %d != expected %d\n%s" % (len(blocks), len(prints), out[-1500:])
            return res
        good = True
        for name, ax in zip(prints, blocks):
            okax = all(a in vlib.STDLIB_AXIOMS or a.split(".")[-1] in vlib.STDLIB_AXIOMS for a in ax)
            res["theorems"].append({"name": name + " (this run's translation)", "axioms": ax, "accepted": okax})
            if name in thms:
                if okax:
                    res["discharged"] += 1
                else:
                    good = False
                    res["log"] += "theorem %s depends on non-stdlib axioms %r\n" % (name, ax)
        res["ok"] = good and res["discharged"] == len(thms)
        return res
    finally:
        fcntl.flock(lock, fcntl.LOCK_UN)
        lock.close()
