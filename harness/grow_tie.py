# Translator tie of C12/C14 for the consumer's pure arithmetic in afkak/consumer.py (tie A of DESIGN.md 10.2b), per-run part.
#   1. harness/py2grow.py symbolically executes the buffer-growth handler and the retry-delay update of the tree under test
#      into terms gen_growth / gen_delay / gen_resets of Model/GrowDSL.v;
#   2. they are written to a scratch directory coq/Run/out/gen/c12grow-<hash>/GrowGen.v and compiled;
#   3. for every translated function Coq checks  gen_f = ast_f  (the committed term of coq/Model/GrowAst.v, about which
#      Props/C12gen.v proves what it computes: FetchGrow.grow / min(d*F, max) / the reset sites).
# Status per function:  "intact" | "refused: <construct>" (the translator does not understand the source as it is now) |
# "differs" (translated, but not the committed term) | "machinery: ..." (scratch compile impossible).
# Nothing here raises a VIOLATION: by the two-ties rule a tie that is not intact is recorded, and the correspondence
# (tie B: the real Consumer vs Model.FetchGrow in harness/props/C12.py; the delays in C14) has to carry the part alone.
import fcntl
import hashlib
import json
import os
import re

import py2grow
import vlib

GEN = os.path.join(vlib.COQ, "Run", "out", "gen")


def _coqc(cwd, fn):
    cmd = "ulimit -v 8000000; timeout 300 coqc -Q %s AV -Q . C12Grow -w -notation-overridden,-deprecated %s" % (vlib.COQ, fn)
    return vlib.sh("bash -c '%s'" % cmd, 330, cwd=cwd)


def eq_file(names):
    out = ["From Coq Require Import String QArith.", "From AV Require Import Base.Util Model.GrowDSL Model.GrowAst.",
           "From C12Grow Require Import GrowGen.", ""]
    for fn in names:
        out.append("Theorem gen_%s_is_ast : gen_%s = ast_%s.\nProof. vm_compute. reflexivity. Qed.\nPrint Assumptions gen_%s_is_ast.\n" % (fn, fn, fn, fn))
    return "\n".join(out)


def check(repo):
    """-> dict(status = {function: status}, notes = {function: [...]}, dir = scratch dir)"""
    res = py2grow.translate_repo(repo)
    status, notes = {}, {}
    for fn in py2grow.PARTS:
        r = res[fn]
        if r[0] == "ok":
            notes[fn] = r[2]
        else:
            status[fn] = "refused: " + re.sub(r" \(line [0-9?]+\)$", "", r[1])
    text = py2grow.emit_gallina(res)
    translated = [fn for fn in py2grow.PARTS if res[fn][0] == "ok"]
    h = hashlib.sha1((text + open(os.path.join(vlib.COQ, "Model", "GrowAst.v")).read()
                      + open(os.path.join(vlib.COQ, "Model", "GrowDSL.v")).read()).encode()).hexdigest()[:16]
    d = os.path.join(GEN, "c12grow-" + h)
    os.makedirs(d, exist_ok=True)
    cache = os.path.join(d, "status.json")
    if os.path.exists(cache):
        try:
            status.update(json.load(open(cache)))
            return {"status": status, "notes": notes, "dir": d, "cached": True}
        except ValueError:
            pass
    if not translated:
        return {"status": status, "notes": notes, "dir": d, "cached": False}
    lock = open(os.path.join(vlib.COQ, ".lock"), "w")
    fcntl.flock(lock, fcntl.LOCK_EX)
    try:
        open(os.path.join(d, "GrowGen.v"), "w").write(text)
        rc, o = _coqc(d, "GrowGen.v")
        if rc:
            for fn in translated:
                status[fn] = "machinery: generated file does not compile: " + (o.strip().splitlines()[-1][:200] if o.strip() else "no output")
            return {"status": status, "notes": notes, "dir": d, "cached": False, "log": o[-1500:]}
        open(os.path.join(d, "EqAll.v"), "w").write(eq_file(translated))
        rc, o = _coqc(d, "EqAll.v")
        mine = {}
        if rc == 0 and o.count("Closed under the global context") == len(translated):
            for fn in translated:
                mine[fn] = "intact"
        else:
            for fn in translated:
                name = "Eq_" + fn + ".v"
                open(os.path.join(d, name), "w").write(eq_file([fn]))
                rc1, o1 = _coqc(d, name)
                if rc1 == 0 and "Closed under the global context" in o1:
                    mine[fn] = "intact"
                elif "Unable to unify" in o1 or "not convertible" in o1 or "Error: Tactic failure" in o1:
                    mine[fn] = "differs"
                else:
                    mine[fn] = "machinery: " + (o1.strip().splitlines()[-1][:200] if o1.strip() else "no output")
        if not any(v.startswith("machinery") for v in mine.values()):
            json.dump(mine, open(cache, "w"))
        status.update(mine)
        return {"status": status, "notes": notes, "dir": d, "cached": False}
    finally:
        fcntl.flock(lock, fcntl.LOCK_UN)
        lock.close()
