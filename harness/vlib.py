# Framework shared by every property check.  See DESIGN.md section 1.
#
#   ck = Check(pid, tier, seed)
#   ck.build(models=[...])            full incremental Coq build + extracted runners (flock-serialised)
#   ck.props()                        re-compiles coq/Props/<pid>.v, parses Print Assumptions
#   ck.model(name, cases)             runs the extracted model on case lines (lists of ints)
#   ck.correspond(name, cases, impl)  compares implementation outputs with the model, samples in Coq
#   ck.violation(...) / ck.known(...) / ck.finish()
#
# Everything fails closed: any unexpected exception ends in a VIOLATION line with
# `no-failing-input-found` and exit status 1.
import fcntl
import glob
import hashlib
import json
import os
import re
import subprocess
import sys
import time
import traceback

ROOT = os.path.dirname(os.path.dirname(os.path.abspath(__file__)))
COQ = os.path.join(ROOT, "coq")
OUT = os.path.join(COQ, "Run", "out")
REPO = os.environ.get("VERIF_REPO", "/repo")
PY = "/venv/bin/python"

FORBIDDEN = re.compile(
    r"\b(Admitted|admit|Axiom|Axioms|Parameter|Parameters|Conjecture|Conjectures|bypass_check|"
    r"Admit\s+Obligations)\b|Unset\s+Guard|Unset\s+Positivity|Unset\s+Universe\s+Checking|"
    r"type-in-type|impredicative-set|native_compute")

# axioms declared by the standard library that a theorem may depend on (named in the evidence)
STDLIB_AXIOMS = {
    "functional_extensionality_dep", "FunctionalExtensionality.functional_extensionality_dep",
    "proof_irrelevance", "ProofIrrelevance.proof_irrelevance", "classic", "Classical_Prop.classic",
    "Eqdep.Eq_rect_eq.eq_rect_eq", "eq_rect_eq", "JMeq_eq", "JMeq.JMeq_eq",
    "propositional_extensionality", "PropExtensionality.propositional_extensionality",
}


def sh(cmd, timeout, cwd=None, inp=None, env=None):
    p = subprocess.run(cmd, shell=isinstance(cmd, str), cwd=cwd, input=inp, timeout=timeout,
                       stdout=subprocess.PIPE, stderr=subprocess.STDOUT, env=env)
    return p.returncode, p.stdout.decode("utf-8", "replace")


class CheckAbort(Exception):
    pass


def comment_free(text):
    # strip (* ... *) comments (nested) so that words inside comments do not trip the gate
    out, depth, i = [], 0, 0
    while i < len(text):
        if text.startswith("(*", i):
            depth += 1
            i += 2
        elif text.startswith("*)", i) and depth:
            depth -= 1
            i += 2
        else:
            if not depth:
                out.append(text[i])
            i += 1
    return "".join(out)


def vfiles():
    fs = []
    for d in ("Base", "Model", "Proofs", "Props"):
        fs += sorted(glob.glob(os.path.join(COQ, d, "*.v")))
    return [os.path.relpath(f, COQ) for f in fs]


def gate():
    """grep gate over every .v file of the development; returns list of offending (file, word)"""
    bad = []
    for f in vfiles() + [os.path.relpath(x, COQ) for x in glob.glob(os.path.join(COQ, "Run", "*.v"))]:
        try:
            txt = comment_free(open(os.path.join(COQ, f)).read())
        except FileNotFoundError:      # a scratch file that vanished between the glob and the open
            continue
        for m in FORBIDDEN.finditer(txt):
            bad.append((f, m.group(0)))
        # Variable/Hypothesis outside a section
        depth = 0
        for line in txt.splitlines():
            s = line.strip()
            if re.match(r"Section\s+\w+\s*\.", s):
                depth += 1
            elif re.match(r"End\s+\w+\s*\.", s) and depth:
                depth -= 1  # also closes modules; modules are not opened with Section so depth>=0
            elif depth == 0 and re.match(r"(Variable|Variables|Hypothesis|Hypotheses|Context)\b", s):
                bad.append((f, s.split()[0] + " outside section"))
    return bad


def build_all(models=None, targets=None, jobs=16):
    """Full .vo build (never -vos) + extraction + ocamlopt for the requested models (all if None)."""
    os.makedirs(OUT, exist_ok=True)
    lock = open(os.path.join(COQ, ".lock"), "w")
    fcntl.flock(lock, fcntl.LOCK_EX)
    try:
        files = vfiles()
        proj = "-Q . AV\n-arg -w -arg -notation-overridden,-deprecated,-non-recursive\n" + "\n".join(files) + "\n"
        pj = os.path.join(COQ, "_CoqProject")
        if not os.path.exists(pj) or open(pj).read() != proj or not os.path.exists(os.path.join(COQ, "Makefile")):
            open(pj, "w").write(proj)
            rc, o = sh("coq_makefile -f _CoqProject -o Makefile", 120, cwd=COQ)
            if rc:
                raise CheckAbort("coq_makefile failed:\n" + o)
        # targets=None: the full development (setup); otherwise only what the property needs, so that a
        # half-edited file of another property cannot break this one
        tg = "" if targets is None else " ".join(targets)
        tmo = 2400 if targets is None else 900      # full development vs one property's cone
        rc, o = sh("timeout %d make -j%d %s 2>&1" % (tmo, jobs, tg), tmo + 100, cwd=COQ)
        if rc and "No rule to make target" in o:
            # a .v file listed in the Makefile vanished (somebody's scratch file): regenerate from a fresh glob, once
            files = vfiles()
            proj = "-Q . AV\n-arg -w -arg -notation-overridden,-deprecated,-non-recursive\n" + "\n".join(files) + "\n"
            open(pj, "w").write(proj)
            for stale in (".Makefile.d", "Makefile", "Makefile.conf"):
                try:
                    os.remove(os.path.join(COQ, stale))
                except OSError:
                    pass
            sh("coq_makefile -f _CoqProject -o Makefile", 120, cwd=COQ)
            rc, o = sh("timeout %d make -j%d %s 2>&1" % (tmo, jobs, tg), tmo + 100, cwd=COQ)
        if rc:
            raise CheckAbort("coq build failed:\n" + o[-4000:])
        exs = sorted(glob.glob(os.path.join(COQ, "Run", "Ex*.v")))
        for ex in exs:
            name = os.path.basename(ex)[2:-2].lower()
            if models is not None and name not in [m.lower() for m in models]:
                continue
            exe = os.path.join(OUT, "run_" + name)
            if targets is not None:   # make sure the model the Ex file needs is compiled
                need = re.findall(r"\b(Model\.\w+|Base\.\w+)", open(ex).read())
                rc, o = sh("timeout 1500 make -j%d %s 2>&1" % (jobs, " ".join(n.replace(".", "/") + ".vo" for n in need)), 1600, cwd=COQ)
                if rc:
                    raise CheckAbort("coq build of %s failed:\n%s" % (need, o[-4000:]))
            deps = [ex, os.path.join(COQ, "Run", "driver.ml")] + [os.path.join(COQ, f[:-2] + ".vo") for f in files if f.startswith(("Model", "Base"))]
            if os.path.exists(exe) and all(os.path.getmtime(d) <= os.path.getmtime(exe) for d in deps if os.path.exists(d)):
                continue
            rc, o = sh("timeout 600 coqc -Q ../.. AV -w -extraction ../%s" % os.path.basename(ex), 650, cwd=OUT)
            if rc:
                raise CheckAbort("extraction of %s failed:\n%s" % (name, o[-3000:]))
            ml = os.path.join(OUT, name + ".ml")
            with open(os.path.join(OUT, "main_%s.ml" % name), "w") as f:
                f.write(open(ml).read())
                f.write("\n")
                f.write(open(os.path.join(COQ, "Run", "driver.ml")).read())
            rc, o = sh("timeout 600 ocamlfind ocamlopt -O2 -w -a main_%s.ml -o run_%s 2>&1 || timeout 600 ocamlfind ocamlopt -w -a main_%s.ml -o run_%s" % (name, name, name, name), 1300, cwd=OUT)
            if rc or not os.path.exists(exe):
                raise CheckAbort("ocamlopt of %s failed:\n%s" % (name, o[-3000:]))
    finally:
        fcntl.flock(lock, fcntl.LOCK_UN)
        lock.close()


def parse_assumptions(out):
    """Parse coqc output of a Props file: sequence of Print Assumptions blocks in file order.
    Returns list of lists of axiom names ([] = closed)."""
    blocks = []
    lines = out.splitlines()
    i = 0
    while i < len(lines):
        l = lines[i]
        if l.startswith("Closed under the global context"):
            blocks.append([])
        elif l.startswith("Axioms:"):
            ax = []
            i += 1
            while i < len(lines) and lines[i] and not lines[i].startswith(("Closed under", "Axioms:")):
                m = re.match(r"^([A-Za-z_][\w.']*)\s*(:|$)", lines[i])
                if m and not lines[i].startswith(" "):
                    ax.append(m.group(1))
                i += 1
            blocks.append(ax)
            continue
        i += 1
    return blocks


def encode_line(c):
    return " ".join(str(int(x)) for x in c)


def lp(xs):
    """length-prefixed list, the convention of Base/Util.v take_lp"""
    xs = list(xs)
    return [len(xs)] + xs


class Check:
    def __init__(self, pid, tier, seed):
        self.pid, self.tier, self.seed = pid, tier, seed
        self.t0 = time.time()
        self.violations = []      # (replay_path, no_input)
        self.known_printed = []
        self.cov = {"evaluations": 0, "distinct_nontrivial": 0, "rule": "", "samples": [],
                    "obligations": 0, "discharged": 0, "checker_cmd": "", "trusted_base": [],
                    "theorems": [], "correspondence": {}, "known_findings": [], "histogram": {}}
        self.assumptions = []
        self._distinct = set()
        self._nreplay = 0
        self.level = "proof"

    # ------------------------------------------------------------------ build / proofs
    def build(self, models):
        bad = gate()
        if bad:
            raise CheckAbort("forbidden construct in Coq development: %r" % bad[:5])
        build_all(models, targets=["Props/%s.vo" % self.pid])
        self.models = models

    def make_soft(self, target):
        """Build one more target of the Coq development; returns (ok, log) instead of aborting.
        For obligations that depend on files REGENERATED from /repo (translator output)."""
        lock = open(os.path.join(COQ, ".lock"), "w")
        fcntl.flock(lock, fcntl.LOCK_EX)
        try:
            files = vfiles()
            proj = "-Q . AV\n-arg -w -arg -notation-overridden,-deprecated,-non-recursive\n" + "\n".join(files) + "\n"
            pj = os.path.join(COQ, "_CoqProject")
            if open(pj).read() != proj:
                open(pj, "w").write(proj)
                sh("coq_makefile -f _CoqProject -o Makefile", 120, cwd=COQ)
            rc, o = sh("timeout 1500 make -j8 %s 2>&1" % target, 1600, cwd=COQ)
            return rc == 0, o[-3000:]
        finally:
            fcntl.flock(lock, fcntl.LOCK_UN)
            lock.close()

    def props(self, name=None, soft=False):
        """Compile Props/<name or pid>.v afresh; every Theorem there is an obligation.
        soft=True: a failure is remembered (self.soft_broken) instead of reported at once, so that the
        check can first search for a concrete failing input; call resolve_soft() at the end."""
        name = name or self.pid
        if soft:
            real_broken = self.broken_obligation
            self.soft_broken = getattr(self, "soft_broken", [])
            self.broken_obligation = lambda what, detail="": self.soft_broken.append((what, detail))
            try:
                return self._props(name)
            finally:
                self.broken_obligation = real_broken
        return self._props(name)

    def resolve_soft(self):
        """After the search for a failing input: a broken (soft) obligation with no concrete violation
        found is still a violation, reported with no-failing-input-found."""
        for what, detail in getattr(self, "soft_broken", []):
            if not self.violations:
                self.broken_obligation(what, detail)
            else:
                self.cov.setdefault("broken_obligations_with_input_found", []).append(what)

    def _props(self, name):
        src = os.path.join(COQ, "Props", name + ".v")
        txt = comment_free(open(src).read())
        thms = re.findall(r"^\s*Theorem\s+([\w']+)", txt, re.M)
        prints = re.findall(r"^\s*Print\s+Assumptions\s+([\w']+)", txt, re.M)
        body_ok = True
        # the Props file may contain only Theorem ... Proof. exact ... Qed. and Print Assumptions (+ imports, Examples)
        if set(thms) - set(prints):
            raise CheckAbort("Props/%s.v: theorems without Print Assumptions: %s" % (name, sorted(set(thms) - set(prints))))
        cmd = "timeout 600 coqc -Q . AV -w -notation-overridden,-deprecated Props/%s.v -o Run/out/chk/%s.vo" % (name, name)
        os.makedirs(os.path.join(OUT, "chk"), exist_ok=True)
        rc, out = sh(cmd, 650, cwd=COQ)
        self.cov["checker_cmd"] = (self.cov["checker_cmd"] + " ; " if self.cov["checker_cmd"] else "cd /verif/coq && make (full .vo build, coqc 8.16.1) && ") + cmd
        self.cov["obligations"] += len(thms)
        if rc:
            self.broken_obligation("Props/%s.v does not compile (theorems %s no longer check)" % (name, ", ".join(thms)), out[-3000:])
            return False
        blocks = parse_assumptions(out)
        if len(blocks) != len(prints):
            self.broken_obligation("Print Assumptions blocks %d != expected %d" % (len(blocks), len(prints)), out[-3000:])
            return False
        disc = 0
        axioms_used = set()
        for thm, ax in zip(prints, blocks):
            okax = all(a in STDLIB_AXIOMS or a.split(".")[-1] in STDLIB_AXIOMS for a in ax)
            self.cov["theorems"].append({"name": thm, "axioms": ax, "accepted": okax})
            axioms_used.update(ax)
            if thm in thms:
                if okax:
                    disc += 1
                else:
                    self.broken_obligation("theorem %s depends on non-stdlib axioms %r" % (thm, ax), out[-2000:])
        self.cov["discharged"] += disc
        self.cov["trusted_base"] += [
            "Coq 8.16.1 kernel (coqc; vm_compute used in refutation witnesses / sample re-evaluation; no native_compute)",
            "axioms reported by Print Assumptions (Props/%s.v): " % name + (", ".join(sorted(axioms_used)) if axioms_used else "none (all theorems closed under the global context)"),
        ]
        return disc == len(thms)

    def coqchk(self, libs):
        cmd = "timeout 1500 coqchk -silent -o -Q . AV " + " ".join(libs)
        # hold the build lock: a concurrent rebuild of shared .vo files would make coqchk see inconsistent libraries
        lock = open(os.path.join(COQ, ".lock"), "w")
        fcntl.flock(lock, fcntl.LOCK_EX)
        try:
            sh("timeout 1500 make -j8 %s 2>&1" % " ".join(l.replace("AV.", "").replace(".", "/") + ".vo" for l in libs), 1600, cwd=COQ)
            rc, out = sh(cmd, 1600, cwd=COQ)
        finally:
            fcntl.flock(lock, fcntl.LOCK_UN)
            lock.close()
        self.cov["coqchk"] = {"cmd": cmd, "rc": rc, "tail": out[-1500:]}
        if rc:
            self.broken_obligation("coqchk failed", out[-3000:])

    def broken_obligation(self, what, detail=""):
        path = self.write_replay({"kind": "broken-proof-obligation", "what": what, "detail": detail})
        self.violations.append((path, True))

    # ------------------------------------------------------------------ model execution
    def model(self, name, cases, timeout=600):
        exe = os.path.join(OUT, "run_" + name.lower())
        inp = "\n".join(encode_line(c) for c in cases) + "\n"
        p = subprocess.run([exe], input=inp.encode(), stdout=subprocess.PIPE, stderr=subprocess.PIPE, timeout=timeout)
        if p.returncode:
            raise CheckAbort("model runner %s failed: %s" % (name, p.stderr.decode()[-2000:]))
        lines = p.stdout.decode().split("\n")
        if lines and lines[-1] == "":
            lines.pop()
        if len(lines) != len(cases):
            raise CheckAbort("model runner %s: %d outputs for %d cases" % (name, len(lines), len(cases)))
        return [[int(t) for t in l.split()] for l in lines]

    def coq_sample(self, name, module, pairs, budget=20000):
        """Re-evaluate a sample of (case, expected) inside Coq with vm_compute; returns #bad."""
        sel, size = [], 0
        for c, o in pairs:
            s = len(encode_line(c)) + len(encode_line(o))
            if size + s > budget:
                continue
            sel.append((c, o))
            size += s
            if len(sel) >= 200:
                break
        if not sel:
            return 0, 0

        def zl(l):
            return "[" + ";".join(("(%d)" % x) if x < 0 else str(x) for x in l) + "]"
        body = ";\n ".join("(%s,%s)" % (zl(c), zl(o)) for c, o in sel)
        fn = "Sample_%s_%s_%d" % (self.pid, name, os.getpid())     # per process: concurrent runs of one check must not collide
        src = ("From AV Require Import Base.Util %s.\nOpen Scope Z_scope.\n"
               "Definition cases : list (list Z * list Z) := [\n %s].\n"
               "Definition bad := filter (fun io => negb (zlist_eqb (run_case (fst io)) (snd io))) cases.\n"
               "Eval vm_compute in (length cases, length bad).\n" % (module, body))
        open(os.path.join(OUT, fn + ".v"), "w").write(src)
        open(os.path.join(OUT, "Sample_%s_%s.v.txt" % (self.pid, name)), "w").write(src)   # last sample, for the reader
        rc, out = sh("timeout 300 coqc -Q ../.. AV %s.v" % fn, 320, cwd=OUT)
        for ext in (".v", ".vo", ".vok", ".vos", ".glob"):
            try:
                os.remove(os.path.join(OUT, fn + ext))
            except OSError:
                pass
        try:
            os.remove(os.path.join(OUT, "." + fn + ".aux"))
        except OSError:
            pass
        m = re.search(r"=\s*\((\d+)(?:%nat)?,\s*(\d+)(?:%nat)?\)", out)
        if rc or not m:
            raise CheckAbort("in-Coq sample evaluation failed:\n" + out[-2000:])
        return int(m.group(1)), int(m.group(2))

    def correspond(self, name, module, cases, impl_outs, label, nontrivial=None, describe=None):
        """Compare implementation outputs with the extracted model; returns list of differing indices."""
        mo = self.model(name, cases)
        diffs = [i for i, (a, b) in enumerate(zip(impl_outs, mo)) if list(a) != list(b)]
        n, bad = self.coq_sample(name, module, [(c, o) for c, o in zip(cases, mo)])
        if bad:
            raise CheckAbort("extracted model and vm_compute disagree on %d of %d sampled cases (%s)" % (bad, n, label))
        st = self.cov["correspondence"].setdefault(label, {"cases": 0, "differences": 0, "in_coq_sample": 0})
        st["cases"] += len(cases)
        st["differences"] += len(diffs)
        st["in_coq_sample"] += n
        self.cov["evaluations"] += len(cases)
        for i, c in enumerate(cases):
            if nontrivial is None or nontrivial(c, impl_outs[i]):
                self._distinct.add(hashlib.sha1(encode_line(c).encode()).digest()[:8])
        if cases and len(self.cov["samples"]) < 6:
            k = min(len(cases) - 1, 3)
            self.cov["samples"].append({"correspondence": label,
                                        "case": (describe(cases[k]) if describe else cases[k][:60]),
                                        "impl": list(impl_outs[k])[:40], "model": mo[k][:40]})
        return diffs, mo

    def hist(self, key, n=1):
        self.cov["histogram"][key] = self.cov["histogram"].get(key, 0) + n

    # ------------------------------------------------------------------ verdicts
    def write_replay(self, obj):
        os.makedirs(os.path.join(ROOT, "replays"), exist_ok=True)
        self._nreplay += 1
        tag = "" if REPO == "/repo" else "-scratch%d" % os.getpid()     # runs against a scratch copy never overwrite real replays
        path = os.path.join(ROOT, "replays", "%s-%d-%d%s.json" % (self.pid, self.seed, self._nreplay, tag))
        obj = dict(obj)
        obj.setdefault("property", self.pid)
        obj.setdefault("seed", self.seed)
        obj.setdefault("tier", self.tier)
        with open(path, "w") as f:
            json.dump(obj, f, indent=1, default=repr)
        return path

    def violation(self, replay, no_input=False):
        """replay: dict describing the concrete failing input (or the broken correspondence)"""
        self.nviol = getattr(self, "nviol", 0) + 1
        if self.nviol > 5:   # keep the output readable: first five replays are written, the rest only counted
            return
        path = self.write_replay(replay)
        self.violations.append((path, no_input))

    def finding(self, fid, observed, what, replay):
        """A defect switch probe.  observed=True: the implementation exhibits defect `fid`.
        Listed `known:` -> KNOWN-FINDING line; otherwise VIOLATION with the witness."""
        kf = load_known()
        status = kf.get((self.pid, fid))
        self.cov["known_findings"].append({"id": fid, "observed": bool(observed), "listed": status[0] if status else None, "what": what})
        if not observed:
            return
        if status and status[0] == "known":
            line = "KNOWN-FINDING: property=%s %s %s" % (self.pid, fid, what)
            print(line)
            self.known_printed.append(line)
        else:
            r = dict(replay)
            r["finding"] = fid
            r["what"] = what
            r["listed_as"] = status[0] if status else "unlisted"
            self.violation(r)

    def finish(self):
        self.cov["distinct_nontrivial"] = len(self._distinct)
        self.cov["trusted_base"] = list(dict.fromkeys(self.cov["trusted_base"]))
        ev = {"property_id": self.pid, "tier": self.tier, "seed": self.seed, "level": self.level,
              "coverage": self.cov, "assumptions": self.assumptions,
              "wall_s": round(time.time() - self.t0, 2), "violations": max(len(self.violations), getattr(self, "nviol", 0))}
        # evidence/<id>.json describes runs against /repo only; a run against a scratch copy (VERIF_REPO, used for
        # seeded changes and calibration) writes to evidence/scratch/ (not committed)
        evdir = os.path.join(ROOT, "evidence") if REPO == "/repo" else os.path.join(ROOT, "evidence", "scratch")
        os.makedirs(evdir, exist_ok=True)
        if REPO != "/repo":
            ev["repo_under_test"] = REPO
        tmp = os.path.join(evdir, "%s.json.tmp%d" % (self.pid, os.getpid()))
        with open(tmp, "w") as f:
            json.dump(ev, f, indent=1, default=repr)
        os.replace(tmp, os.path.join(evdir, self.pid + ".json"))
        for path, no_input in self.violations:
            print("VIOLATION property=%s replay=%s%s" % (self.pid, path, " no-failing-input-found" if no_input else ""))
        sys.stdout.flush()
        return 1 if self.violations else 0


_KF = None


def load_known():
    """known_findings.txt:  `known: property=Cxx F-Cxx-n <text>`  /  `fixed: property=Cxx <commit> F-Cxx-n <text>`"""
    global _KF
    if _KF is None:
        _KF = {}
        p = os.path.join(ROOT, "known_findings.txt")
        if os.path.exists(p):
            for line in open(p):
                line = line.strip()
                if not line or line.startswith("#"):
                    continue
                m = re.match(r"(known|fixed):\s+property=(C\d+)\s+(.*)$", line)
                if not m:
                    continue
                fid = re.search(r"\bF-C\d+-\d+\b", m.group(3))
                if fid:
                    _KF[(m.group(2), fid.group(0))] = (m.group(1), m.group(3))
    return _KF


def import_repo():
    """Make `import afkak` resolve to the working tree under REPO (fail closed otherwise)."""
    if REPO not in sys.path[:1]:
        sys.path.insert(0, REPO)
    import afkak
    if not os.path.abspath(afkak.__file__).startswith(os.path.abspath(REPO) + os.sep):
        raise CheckAbort("afkak imported from %s, not from %s" % (afkak.__file__, REPO))
    return afkak


def run_check(pid, tier, seed, fn):
    ck = Check(pid, tier, seed)
    try:
        fn(ck)
    except BaseException as e:  # fail closed
        if isinstance(e, KeyboardInterrupt):
            raise
        ck.violation({"kind": "check-machinery-failure", "error": repr(e), "traceback": traceback.format_exc()[-4000:]}, no_input=True)
    return ck.finish()
