# Fail-closed translator from the SOURCE of afkak/_group.py:_ConsumerProtocol._round_robin_assignment to Gallina
# function text over the vocabulary of coq/Model/Assign.v plus the Python-shaped combinators of
# coq/Model/AssignPy.v.  Translator tie (A) of property C15 (FUNCTION-text route, like harness/py2coq.py for C18):
# on every run the source under VERIF_REPO is translated again and Coq proves, in coq/Run/out/gen/<id>/, that the
# generated function equals the hand-written model Assign.round_robin (Proofs/AssignGenTac.v).
#
# Data model (that of Assign.v): str = list of code points; a dict with str keys = insertion-ordered association
# list; a set of str = duplicate-free list in SOME order (every use below is order-insensitive: membership, sorted(),
# truth value, or iteration whose result is sorted afterwards - the proof checks that); member metadata = its
# .subscriptions list; defaultdict(lambda: defaultdict(list)) = Assign.asg; itertools.cycle = (list, next index).
# Exceptions are the result monad of Assign.v (Ok / Err e): d[k] raises Err EKey, next() on an empty cycle Err EStop,
# assert Err EAssert, raise _NeedTopicPartitions(s) Err (ENeed (sorted s)).  `while` is py_while FUEL: the generated
# function takes the fuel as its first argument and the theorem holds for every fuel >= number of members (so the
# result is that of the unbounded loop).
#
# Understood (anything else raises Refused -> tie (A) "unavailable"):
#   statements   x = e;  x = [E for a in A for b in B if c] (desugared to loops appending to x);  x.update(e), x.add(e),
#                x.append(e), x.sort(), a[m][t].append(p);  assert e;  for pat in e: ..;  while c: ..;  if/elif/else;
#                try: .. except KeyError: raise _NeedTopicPartitions(s) [from None];  raise _NeedTopicPartitions(s);  raise AssertionError(..);
#                x = next(it);  return e;  pass;  docstrings;  log.<level>(...) (dropped);  a leading `x = []`/`set()`
#                inside try is hoisted out (it cannot raise)
#   expressions  names, (a, b), d[k], d.keys()/values()/items(), iterating a dict (= its keys), m.subscriptions, set(),
#                [], sorted(e), itertools.cycle(e), collections.defaultdict(lambda: collections.defaultdict(list)),
#                x in e / x not in e, a == b / a != b on strings or ints, not / and / or, truth value of a set or list
# Local names never appear in the output (variables are numbered in order of first binding): a renaming is invisible.
import ast
import os

HERE = os.path.dirname(os.path.abspath(__file__))
ROOT = os.path.dirname(HERE)
SNAPSHOT = os.path.join(ROOT, "coq", "Model", "AssignGen.v")

STR, INT, BOOL = ("str",), ("int",), ("bool",)
SET = ("set",)
META = ("meta",)
ASG = ("asg",)
BYTES = ("bytes",)
MEMBER = ("member",)          # _JoinGroupResponseMember: (member_id, member_metadata bytes)
ADICT = ("adict",)            # one member's share: topic -> [partition]
SYNCOBJ = ("syncassign",)     # what decode_sync_group_member_assignment returns: (version, assignments, user_data)
CODEC = {   # KafkaCodec functions: (Gallina term builder, parameter names, result type); their own translator ties: C04gen / C05gen
    "decode_join_group_protocol_metadata": ("dec_meta", ["data"], META),
    "decode_sync_group_member_assignment": ("dec_asg", ["data"], SYNCOBJ),
    "encode_sync_group_member_assignment": ("enc_asg", ["version", "assignments", "user_data"], BYTES),
    "encode_join_group_protocol_metadata": ("enc_meta", ["version", "subscriptions", "user_data"], BYTES),
}


def LIST(t):
    return ("list", t)


def DICT(v):
    return ("dict", v)


class Refused(Exception):
    pass


def refuse(node, what):
    raise Refused("%s (line %s)" % (what, getattr(node, "lineno", "?")))


def is_docstring(s):
    return isinstance(s, ast.Expr) and isinstance(s.value, ast.Constant) and isinstance(s.value.value, str)


def is_log_call(s):
    return (isinstance(s, ast.Expr) and isinstance(s.value, ast.Call) and isinstance(s.value.func, ast.Attribute)
            and isinstance(s.value.func.value, ast.Name) and s.value.func.value.id in ("log", "logger", "logging"))


def dotted(e):
    if isinstance(e, ast.Name):
        return e.id
    if isinstance(e, ast.Attribute):
        b = dotted(e.value)
        return None if b is None else b + "." + e.attr
    return None


MUTATORS = ("update", "add", "append", "sort", "extend")


class Fn:
    def __init__(self, fn, param_types, coqname, ret_type=ASG, class_consts=None):
        self.fn, self.coqname, self.ret_type = fn, coqname, ret_type
        self.class_consts = class_consts or {}
        self.inline = 0
        self.inline_ret = None
        a = fn.args
        if a.vararg or a.kwarg or a.kwonlyargs or getattr(a, "posonlyargs", []) or a.defaults or fn.decorator_list:
            refuse(fn, "signature")
        names = [x.arg for x in a.args]
        if not names or names[0] != "self" or len(names) - 1 != len(param_types):
            refuse(fn, "parameters")
        self.params = names[1:]
        self.levels = {}
        self.tmp = 0
        self.env0 = {}
        for n, t in zip(self.params, param_types):
            self.env0[n] = (self.var(n), t)
        for node in ast.walk(fn):
            if isinstance(node, (ast.Global, ast.Nonlocal, ast.ClassDef, ast.Yield, ast.YieldFrom, ast.Await,
                                 ast.With, ast.Delete, ast.AsyncFunctionDef)) and node is not fn:
                refuse(node, type(node).__name__)
            if isinstance(node, ast.FunctionDef) and node is not fn and node not in fn.body:
                refuse(node, "nested def below the top level of the method")

    # ---- names
    def var(self, name):
        if name not in self.levels:
            self.levels[name] = len(self.levels)
        return "v%d" % self.levels[name]

    def fresh(self):
        self.tmp += 1
        return "t%d" % self.tmp

    # ---- which names does a statement list (re)bind
    def assigned(self, stmts):
        out = []

        def add(n):
            if n not in out:
                out.append(n)

        def targets(t):
            if isinstance(t, ast.Name):
                add(t.id)
            elif isinstance(t, ast.Subscript) and isinstance(t.value, ast.Name):
                add(t.value.id)
            elif isinstance(t, (ast.Tuple, ast.List)):
                for x in t.elts:
                    targets(x)
            else:
                refuse(t, "assignment target")
        for s in stmts:
            if isinstance(s, ast.FunctionDef):
                continue
            for n in ast.walk(s):
                if isinstance(n, ast.Call) and isinstance(n.func, ast.Name) and n.func.id == "next" and n.args and isinstance(n.args[0], ast.Name):
                    add(n.args[0].id)
            if isinstance(s, ast.Assign):
                for t in s.targets:
                    targets(t)
            elif isinstance(s, (ast.AugAssign, ast.AnnAssign)):
                targets(s.target)
            elif isinstance(s, ast.Expr) and isinstance(s.value, ast.Call) and isinstance(s.value.func, ast.Attribute):
                base = s.value.func.value
                while isinstance(base, ast.Subscript):
                    base = base.value
                if isinstance(base, ast.Name) and s.value.func.attr in MUTATORS:
                    add(base.id)
            elif isinstance(s, ast.For):
                targets(s.target)
                for v in self.assigned(s.body + s.orelse):
                    add(v)
            elif isinstance(s, ast.While):
                for v in self.assigned(s.body + s.orelse):
                    add(v)
            elif isinstance(s, ast.If):
                for v in self.assigned(s.body + s.orelse):
                    add(v)
            elif isinstance(s, ast.Try):
                hs = [x for h in s.handlers for x in h.body]
                for v in self.assigned(s.body + hs + s.orelse + s.finalbody):
                    add(v)
        return out

    def by_level(self, names):
        return sorted(names, key=lambda n: self.levels.get(n, 1 << 30))

    # ---- tuples of carried variables
    def tup(self, names, env):
        if not names:
            return "tt"
        return "(" + ", ".join(env[n][0] for n in names) + ")" if len(names) > 1 else env[names[0]][0]

    def pat(self, names, env):
        if not names:
            return "_"
        if len(names) == 1:
            return env[names[0]][0]
        return "'(" + ", ".join(env[n][0] for n in names) + ")"

    def unpack(self, names, env, src):
        """`let a := <projection of src> in ...` for the components of a (left-nested) tuple: projections, not
        pattern matching, so that the generated loop bodies are syntactically functions of fst/snd"""
        if not names:
            return ""
        if len(names) == 1:
            return "let %s := %s in " % (env[names[0]][0], src)
        out = []
        n = len(names)
        for i, name in enumerate(names):
            e = src
            for _ in range(n - 1 - max(i, 1)):
                e = "(fst %s)" % e
            e = "(fst %s)" % e if i == 0 else "(snd %s)" % e
            out.append("let %s := %s in " % (env[name][0], e))
        return "".join(out)

    # ---- expressions: returns (binds, term, type); binds = [(name, monadic term)] evaluated first, in order
    def ex(self, e, env):
        if isinstance(e, ast.Name):
            if e.id not in env:
                refuse(e, "name %s is not a bound local" % e.id)
            return [], env[e.id][0], env[e.id][1]
        if isinstance(e, ast.Tuple) and len(e.elts) == 2:
            b1, t1, ty1 = self.ex(e.elts[0], env)
            b2, t2, ty2 = self.ex(e.elts[1], env)
            return b1 + b2, "(%s, %s)" % (t1, t2), ("tuple", ty1, ty2)
        if isinstance(e, ast.List) and not e.elts:
            return [], "[]", LIST(None)
        if isinstance(e, ast.List) and len(e.elts) == 1 and not isinstance(e.elts[0], ast.Starred):
            b, t, ty = self.ex(e.elts[0], env)
            return b, "[%s]" % t, LIST(ty)
        if isinstance(e, ast.Dict) and not e.keys:
            return [], "[]", DICT(None)
        if isinstance(e, ast.Constant):
            if isinstance(e.value, bytes) and e.value == b"":
                return [], "(@nil Z)", BYTES
            if isinstance(e.value, int) and not isinstance(e.value, bool):
                return [], "(%d)" % e.value, INT
            refuse(e, "constant %r" % (e.value,))
        if isinstance(e, ast.Attribute):
            if isinstance(e.value, ast.Name) and e.value.id == "self" and "self" not in env:
                if e.attr in self.class_consts:
                    return [], "[%s]" % "; ".join(str(ord(c)) for c in self.class_consts[e.attr]), STR
                refuse(e, "attribute self." + e.attr)
            b, t, ty = self.ex(e.value, env)
            if e.attr == "subscriptions" and ty == META:
                return b, t, LIST(STR)
            if e.attr == "member_id" and ty == MEMBER:
                return b, "(fst %s)" % t, STR
            if e.attr == "member_metadata" and ty == MEMBER:
                return b, "(snd %s)" % t, BYTES
            if e.attr == "assignments" and ty == SYNCOBJ:
                return b, "(snd (fst %s))" % t, ADICT
            refuse(e, "attribute ." + e.attr)
        if isinstance(e, ast.Subscript):
            if isinstance(e.slice, (ast.Slice, ast.Tuple)):
                refuse(e, "slice")
            b1, d, ty = self.ex(e.value, env)
            b2, k, tk = self.ex(e.slice, env)
            if ty[0] != "dict" or tk != STR:
                refuse(e, "subscript of a non-dict")
            tmp = self.fresh()
            return b1 + b2 + [(tmp, "py_getitem %s %s" % (d, k))], tmp, ty[1]
        if isinstance(e, ast.Call):
            name = dotted(e.func)
            if isinstance(e.func, ast.Name) and e.func.id in env and env[e.func.id][1][0] == "func":
                name = env[e.func.id][1][1]                      # a local alias of a codec function
            if any(isinstance(a, ast.Starred) for a in e.args) or any(k.arg is None for k in e.keywords):
                refuse(e, "call form")
            if name is not None and name.startswith("KafkaCodec.") and name[len("KafkaCodec."):] in CODEC:
                return self.codec_call(e, name[len("KafkaCodec."):], env)
            if isinstance(e.func, ast.Name) and e.func.id in env and env[e.func.id][1][0] == "localdef":
                return self.inline_call(e, env[e.func.id][1][1], env)
            if e.keywords:
                refuse(e, "keyword arguments")
            if name == "self._round_robin_assignment" and len(e.args) == 2:
                b1, a, ta = self.ex(e.args[0], env)
                b2, c, tc = self.ex(e.args[1], env)
                if ta != DICT(META) or tc != DICT(LIST(INT)):
                    refuse(e, "argument types of _round_robin_assignment")
                tmp = self.fresh()
                return b1 + b2 + [(tmp, "gen_round_robin fuel %s %s" % (a, c))], tmp, ASG
            if name in ("_SyncGroupRequestMember", "_JoinGroupRequestProtocol") and len(e.args) == 2:
                b1, a, ta = self.ex(e.args[0], env)
                b2, c, tc = self.ex(e.args[1], env)
                if (ta, tc) != (STR, BYTES):
                    refuse(e, "argument types of " + name)
                return b1 + b2, "(%s, %s)" % (a, c), ("tuple", STR, BYTES)
            if isinstance(e.func, ast.Attribute) and e.func.attr == "get" and len(e.args) == 2:
                b1, d, td = self.ex(e.func.value, env)
                b2, k, tk = self.ex(e.args[0], env)
                if td == ASG and tk == STR and isinstance(e.args[1], ast.Dict) and not e.args[1].keys:
                    return b1 + b2, "(asg_get %s %s)" % (d, k), ADICT
                refuse(e, ".get() of this form")
            if name == "set" and not e.args:
                return [], "[]", SET
            if name == "sorted" and len(e.args) == 1:
                b, t, ty = self.iterable(e.args[0], env)
                if ty == LIST(STR):
                    return b, "(str_sort %s)" % t, LIST(STR)
                if ty == LIST(("tuple", STR, INT)):
                    return b, "(tp_sort %s)" % t, ty
                refuse(e, "sorted() of this element type")
            if name in ("itertools.cycle", "cycle") and len(e.args) == 1:
                b, t, ty = self.iterable(e.args[0], env)
                return b, "(py_cycle %s)" % t, ("cycle", ty[1])
            if name in ("list", "tuple") and len(e.args) == 1:
                b, t, ty = self.iterable(e.args[0], env)
                return b, t, ty
            if name in ("collections.defaultdict", "defaultdict") and len(e.args) == 1:
                lam = e.args[0]
                if (isinstance(lam, ast.Lambda) and not lam.args.args and isinstance(lam.body, ast.Call)
                        and dotted(lam.body.func) in ("collections.defaultdict", "defaultdict") and len(lam.body.args) == 1
                        and isinstance(lam.body.args[0], ast.Name) and lam.body.args[0].id == "list"):
                    return [], "(@nil (str * adict))", ASG
                refuse(e, "defaultdict factory")
            if isinstance(e.func, ast.Attribute) and not e.args and e.func.attr in ("keys", "values", "items"):
                b, t, ty = self.ex(e.func.value, env)
                if ty[0] != "dict":
                    refuse(e, ".%s() of a non-dict" % e.func.attr)
                if e.func.attr == "keys":
                    return b, "(map fst %s)" % t, LIST(STR)
                if e.func.attr == "values":
                    return b, "(map snd %s)" % t, LIST(ty[1])
                return b, t, LIST(("tuple", STR, ty[1]))
            refuse(e, "call of %s" % (name or "?"))
        refuse(e, "expression " + type(e).__name__)

    def codec_call(self, e, fname, env):
        kind, params, rty = CODEC[fname]
        vals = {}
        for p, a in zip(params, e.args):
            vals[p] = a
        if len(e.args) > len(params):
            refuse(e, "too many arguments")
        for k in e.keywords:
            if k.arg not in params or k.arg in vals:
                refuse(e, "keyword argument " + str(k.arg))
            vals[k.arg] = k.value
        if set(vals) != set(params):
            refuse(e, "arguments of KafkaCodec." + fname)
        binds, terms = [], {}
        for p in params:                          # evaluation order = order of appearance; the arguments used here cannot raise
            b, t, ty = self.ex(vals[p], env)
            if b:
                refuse(vals[p], "an argument that can raise")
            terms[p] = (t, ty)
        want = {"data": BYTES, "version": INT, "assignments": ADICT, "user_data": BYTES, "subscriptions": LIST(STR)}
        for p in params:
            if terms[p][1] != want[p]:
                refuse(vals[p], "type of argument %s of KafkaCodec.%s" % (p, fname))
        tmp = self.fresh()
        if kind == "dec_meta":
            m = "py_decode_metadata %s" % terms["data"][0]
        elif kind == "dec_asg":
            m = "dec_assignment %s" % terms["data"][0]
        elif kind == "enc_asg":
            m = "enc_assignment %s %s (Some %s)" % (terms["version"][0], terms["assignments"][0], terms["user_data"][0])
        else:
            m = "enc_metadata %s %s (Some %s)" % (terms["version"][0], terms["subscriptions"][0], terms["user_data"][0])
        return [(tmp, m)], tmp, rty

    def inline_call(self, e, fdef, env):
        """call of a def nested in the method (a closure over the method's locals): its body, with the parameters bound"""
        a = fdef.args
        if a.vararg or a.kwarg or a.kwonlyargs or a.defaults or getattr(a, "posonlyargs", []) or e.keywords or fdef.decorator_list:
            refuse(e, "form of the local function")
        params = [x.arg for x in a.args]
        if len(params) != len(e.args) or self.inline > 3:
            refuse(e, "arguments of the local function")
        binds, env2, lets = [], dict(env), ""
        for pn, arg in zip(params, e.args):
            b, t, ty = self.ex(arg, env)
            binds += b
            env2[pn] = (self.var(pn), ty)
            lets += "let %s := %s in " % (env2[pn][0], t)
        self.inline += 1
        saved = self.inline_ret
        self.inline_ret = None

        def nofall(e2):
            refuse(fdef, "local function can fall off its end")
        body = self.block(list(fdef.body), env2, nofall, False)
        rty = self.inline_ret
        self.inline_ret = saved
        self.inline -= 1
        if rty is None:
            refuse(fdef, "local function without return")
        tmp = self.fresh()
        return binds + [(tmp, lets + "\n" + body)], tmp, rty

    def iterable(self, e, env):
        """what iterating e yields, as a list: (binds, term, ("list", T))"""
        b, t, ty = self.ex(e, env)
        if ty[0] == "dict":
            return b, "(map fst %s)" % t, LIST(STR)
        if ty == SET:
            return b, t, LIST(STR)
        if ty == META:
            refuse(e, "iteration over member metadata")
        if ty[0] == "list":
            return b, t, ty
        refuse(e, "iteration over " + ty[0])

    def cond(self, e, env):
        """(binds, boolean term)"""
        if isinstance(e, ast.UnaryOp) and isinstance(e.op, ast.Not):
            b, t = self.cond(e.operand, env)
            return b, "(negb %s)" % t
        if isinstance(e, ast.BoolOp):
            # `and` / `or` short-circuit: operands after the first must not be able to raise
            f = "andb" if isinstance(e.op, ast.And) else "orb"
            b, out = self.cond(e.values[0], env)
            for v in e.values[1:]:
                b2, t2 = self.cond(v, env)
                if b2:
                    refuse(v, "an operand of and/or that can raise")
                out = "(%s %s %s)" % (f, out, t2)
            return b, out
        if isinstance(e, ast.Compare) and len(e.ops) == 1:
            op = e.ops[0]
            b1, l, tl = self.ex(e.left, env)
            if isinstance(op, (ast.In, ast.NotIn)):
                b2, r, tr = self.ex(e.comparators[0], env)
                if tl != STR:
                    refuse(e, "membership of a non-string")
                if tr[0] == "dict":
                    r = "(map fst %s)" % r
                elif tr not in (SET, LIST(STR)):
                    refuse(e, "membership in " + tr[0])
                t = "(str_mem %s %s)" % (l, r)
                return b1 + b2, t if isinstance(op, ast.In) else "(negb %s)" % t
            if isinstance(op, (ast.Eq, ast.NotEq)):
                b2, r, tr = self.ex(e.comparators[0], env)
                if tl == STR and tr == STR:
                    t = "(str_eqb %s %s)" % (l, r)
                elif tl == INT and tr == INT:
                    t = "(Z.eqb %s %s)" % (l, r)
                else:
                    refuse(e, "comparison of these types")
                return b1 + b2, t if isinstance(op, ast.Eq) else "(negb %s)" % t
            refuse(e, "comparison " + type(op).__name__)
        b, t, ty = self.ex(e, env)
        if ty == SET or ty[0] == "list":
            return b, "(negb (py_is_empty %s))" % t
        refuse(e, "truth value of " + ty[0])

    @staticmethod
    def wrap(binds, body):
        for name, m in reversed(binds):
            body = "bind (%s) (fun %s =>\n%s)" % (m, name, body)
        return body

    # ---- statements
    def block(self, stmts, env, k, nested):
        """text of a `result _` term; k(env) = what follows when control falls off the end"""
        if not stmts:
            return k(env)
        s, rest = stmts[0], list(stmts[1:])
        nxt = lambda env2: self.block(rest, env2, k, nested)
        if is_docstring(s) or isinstance(s, ast.Pass) or is_log_call(s):
            return nxt(env)
        if isinstance(s, ast.AnnAssign) and s.value is not None:
            s = ast.copy_location(ast.Assign(targets=[s.target], value=s.value), s)
        if isinstance(s, ast.FunctionDef):
            if nested:
                refuse(s, "nested def inside a loop or branch")
            env2 = dict(env)
            env2[s.name] = (None, ("localdef", s))
            return nxt(env2)
        if isinstance(s, ast.Return) and isinstance(s.value, ast.ListComp):
            tmpname = "__ret%d" % len(self.levels)
            new = self.desugar_comp(ast.Name(id=tmpname, ctx=ast.Store()), s.value)
            ret = ast.copy_location(ast.Return(value=ast.Name(id=tmpname, ctx=ast.Load())), s)
            return self.block(new + [ret] + rest, env, k, nested)
        if isinstance(s, ast.Assign):
            if len(s.targets) != 1:
                refuse(s, "chained assignment")
            t, v = s.targets[0], s.value
            if isinstance(v, ast.ListComp):
                return self.block(self.desugar_comp(t, v) + rest, env, k, nested)
            if isinstance(v, ast.DictComp) and isinstance(t, ast.Name):
                return self.block(self.desugar_dictcomp(t, v) + rest, env, k, nested)
            if isinstance(t, ast.Name) and dotted(v) is not None and dotted(v).startswith("KafkaCodec.") and dotted(v)[11:] in CODEC:
                env2 = dict(env)
                env2[t.id] = (None, ("func", dotted(v)))
                return nxt(env2)
            if isinstance(t, ast.Subscript) and isinstance(t.value, ast.Name) and not isinstance(t.slice, (ast.Slice, ast.Tuple)):
                d = t.value.id
                if d not in env or env[d][1][0] != "dict":
                    refuse(s, "item assignment on a non-dict")
                b1, kk, tk = self.ex(t.slice, env)
                b2, vv, tv = self.ex(v, env)
                if tk != STR or (env[d][1][1] is not None and env[d][1][1] != tv):
                    refuse(s, "types of d[k] = v")
                env2 = dict(env)
                env2[d] = (env[d][0], DICT(tv))
                return self.wrap(b1 + b2, "let %s := dict_set %s %s %s in\n%s" % (env[d][0], env[d][0], kk, vv, nxt(env2)))
            if isinstance(v, ast.Call) and isinstance(v.func, ast.Name) and v.func.id == "next" and len(v.args) == 1 \
                    and isinstance(v.args[0], ast.Name) and isinstance(t, ast.Name):
                it = v.args[0].id
                if it not in env or env[it][1][0] != "cycle":
                    refuse(s, "next() of something that is not a cycle")
                env2 = dict(env)
                env2[t.id] = (self.var(t.id), env[it][1][1])
                return "bind (py_next %s) (fun r => let %s := fst r in let %s := snd r in\n%s)" % (env[it][0], env2[t.id][0], env[it][0], nxt(env2))
            if isinstance(t, ast.Name):
                b, term, ty = self.ex(v, env)
                if isinstance(v, ast.Name) and ty[0] in ("list", "set", "dict", "asg", "cycle"):
                    refuse(s, "alias of a mutable object")
                env2 = dict(env)
                env2[t.id] = (self.var(t.id), ty)
                return self.wrap(b, "let %s := %s in\n%s" % (env2[t.id][0], term, nxt(env2)))
            refuse(s, "assignment form")
        if isinstance(s, ast.Expr) and isinstance(s.value, ast.Call) and isinstance(s.value.func, ast.Attribute):
            c = s.value
            meth, recv = c.func.attr, c.func.value
            if c.keywords or len(c.args) > 1:
                refuse(s, "method call form")
            # a[m][t].append(p)
            if (meth == "append" and isinstance(recv, ast.Subscript) and isinstance(recv.value, ast.Subscript)
                    and isinstance(recv.value.value, ast.Name) and len(c.args) == 1):
                a = recv.value.value.id
                if a not in env or env[a][1] != ASG:
                    refuse(s, "nested item append on something that is not the assignment dict")
                b1, m, tm = self.ex(recv.value.slice, env)
                b2, t, tt = self.ex(recv.slice, env)
                b3, p, tp = self.ex(c.args[0], env)
                if (tm, tt, tp) != (STR, STR, INT):
                    refuse(s, "types of assignment[m][t].append(p)")
                return self.wrap(b1 + b2 + b3, "let %s := asg_add %s %s %s %s in\n%s" % (env[a][0], env[a][0], m, t, p, nxt(env)))
            if isinstance(recv, ast.Name) and recv.id in env:
                x, ty = env[recv.id]
                if meth in ("update", "extend") and len(c.args) == 1:
                    b, t, te = self.iterable(c.args[0], env)
                    if ty == SET and te == LIST(STR) and meth == "update":
                        return self.wrap(b, "let %s := py_set_update %s %s in\n%s" % (x, x, t, nxt(env)))
                    if ty[0] == "list" and meth == "extend":
                        env2 = dict(env)
                        env2[recv.id] = (x, te if ty[1] is None else ty)
                        return self.wrap(b, "let %s := %s ++ %s in\n%s" % (x, x, t, nxt(env2)))
                if meth == "add" and ty == SET and len(c.args) == 1:
                    b, t, te = self.ex(c.args[0], env)
                    if te == STR:
                        return self.wrap(b, "let %s := py_set_update %s [%s] in\n%s" % (x, x, t, nxt(env)))
                if meth == "append" and ty[0] == "list" and len(c.args) == 1:
                    b, t, te = self.ex(c.args[0], env)
                    if ty[1] is not None and ty[1] != te:
                        refuse(s, "append of a different element type")
                    env2 = dict(env)
                    env2[recv.id] = (x, LIST(te))
                    return self.wrap(b, "let %s := %s ++ [%s] in\n%s" % (x, x, t, nxt(env2)))
                if meth == "sort" and not c.args:
                    if ty == LIST(STR):
                        return "let %s := str_sort %s in\n%s" % (x, x, nxt(env))
                    if ty == LIST(("tuple", STR, INT)):
                        return "let %s := tp_sort %s in\n%s" % (x, x, nxt(env))
            refuse(s, "method call .%s" % meth)
        if isinstance(s, ast.Assert):
            b, t = self.cond(s.test, env)
            return self.wrap(b, "bind (py_assert %s) (fun _ =>\n%s)" % (t, nxt(env)))
        if isinstance(s, ast.Raise):
            return self.raise_term(s, env)
        if isinstance(s, ast.Return):
            if nested:
                refuse(s, "return inside a loop, branch or try")
            if s.value is None:
                refuse(s, "return without a value")
            b, t, ty = self.ex(s.value, env)
            if self.inline:
                self.inline_ret = ty
            elif ty != self.ret_type:
                refuse(s, "return of a value of another type than the method's result")
            return self.wrap(b, "Ok %s" % t)
        if isinstance(s, ast.For):
            if s.orelse:
                refuse(s, "for-else")
            b, xs, ty = self.iterable(s.iter, env)
            env_in = dict(env)
            elem = self.bind_pattern(s.target, ty[1], env_in)
            carried = self.by_level([v for v in self.assigned(s.body) if v in env and v not in self.pattern_names(s.target)])
            body = self.block(s.body, env_in, lambda e2: "Ok %s" % self.tup_checked(carried, e2, s), True)
            env_after = self.after(env, env_in, carried, s.body)
            return self.wrap(b, "bind (py_for %s %s (fun s x => %s%s\n%s)) (fun s => %s\n%s)" % (
                xs, self.tup(carried, env), elem, self.unpack(carried, env, "s"), body, self.unpack(carried, env_after, "s"), nxt(env_after)))
        if isinstance(s, ast.While):
            if s.orelse:
                refuse(s, "while-else")
            carried = self.by_level([v for v in self.assigned(s.body) if v in env])
            cb, ct = self.cond(s.test, env)
            condt = self.wrap(cb, "Ok %s" % ct)
            body = self.block(s.body, dict(env), lambda e2: "Ok %s" % self.tup_checked(carried, e2, s), True)
            env_after = self.after(env, env, carried, s.body)
            return "bind (py_while fuel %s (fun s => %s\n%s) (fun s => %s\n%s)) (fun s => %s\n%s)" % (
                self.tup(carried, env), self.unpack(carried, env, "s"), condt, self.unpack(carried, env, "s"), body,
                self.unpack(carried, env_after, "s"), nxt(env_after))
        if isinstance(s, ast.If):
            names = self.assigned(s.body + s.orelse)
            carried = self.by_level([v for v in names if v in env])
            cb, ct = self.cond(s.test, env)
            ta = self.block(s.body, dict(env), lambda e2: "Ok %s" % self.tup_checked(carried, e2, s), True)
            tb = self.block(s.orelse, dict(env), lambda e2: "Ok %s" % self.tup_checked(carried, e2, s), True)
            env_after = self.after(env, env, carried, s.body + s.orelse)
            return self.wrap(cb, "bind (if %s then\n%s\nelse\n%s) (fun s => %s\n%s)" % (
                ct, ta, tb, self.unpack(carried, env_after, "s"), nxt(env_after)))
        if isinstance(s, ast.Try):
            if s.orelse or s.finalbody or len(s.handlers) != 1:
                refuse(s, "try form")
            h = s.handlers[0]
            if not (isinstance(h.type, ast.Name) and h.type.id == "KeyError" and h.name is None):
                refuse(s, "handler other than `except KeyError:`")
            body = list(s.body)
            hoisted = []
            while body and isinstance(body[0], ast.Assign) and len(body[0].targets) == 1 and isinstance(body[0].targets[0], ast.Name) \
                    and ((isinstance(body[0].value, ast.List) and not body[0].value.elts)
                         or (isinstance(body[0].value, ast.Call) and dotted(body[0].value.func) == "set" and not body[0].value.args)):
                hoisted.append(body.pop(0))
            if body and isinstance(body[0], ast.Assign) and isinstance(body[0].value, ast.ListComp) and len(body[0].targets) == 1:
                d = self.desugar_comp(body[0].targets[0], body[0].value)
                hoisted.append(d[0])
                body = d[1:] + body[1:]
            if hoisted:
                new_try = ast.copy_location(ast.Try(body=body or [ast.Pass()], handlers=s.handlers, orelse=[], finalbody=[]), s)
                return self.block(hoisted + [new_try] + rest, env, k, nested)
            carried = self.by_level([v for v in self.assigned(s.body) if v in env])
            tbody = self.block(s.body, dict(env), lambda e2: "Ok %s" % self.tup_checked(carried, e2, s), True)

            def must_raise(e2):
                refuse(h, "a KeyError handler that does not raise")
            thandler = self.block(h.body, dict(env), must_raise, True)
            env_after = self.after(env, env, carried, s.body)
            return "bind (py_try_key (\n%s) (\n%s)) (fun s => %s\n%s)" % (
                tbody, thandler, self.unpack(carried, env_after, "s"), nxt(env_after))
        refuse(s, "statement " + type(s).__name__)

    def after(self, env, env_in, carried, body):
        """environment after a compound statement: carried names keep their slots (types may have been refined inside,
        e.g. [] -> list of pairs); names first bound inside are unbound again"""
        env2 = dict(env)
        types = self.types_after(body, env_in)
        for v in carried:
            if v in types:
                env2[v] = (env[v][0], types[v])
        return env2

    def types_after(self, body, env):
        """element types discovered for lists appended to inside `body` (a light second pass: translate and record)"""
        found = {}

        def k(e2):
            for n, (_, ty) in e2.items():
                found[n] = ty
            return "Ok tt"
        try:
            saved_levels, saved_tmp = dict(self.levels), self.tmp
            self.block(body, dict(env), k, True)
            self.levels, self.tmp = saved_levels, saved_tmp
        except Refused:
            self.levels, self.tmp = saved_levels, saved_tmp
        return found

    def tup_checked(self, names, env, node):
        for n in names:
            if n not in env:
                refuse(node, "%s may be unbound at the end of a block" % n)
        return self.tup(names, env)

    def pattern_names(self, t):
        if isinstance(t, ast.Name):
            return [t.id]
        if isinstance(t, (ast.Tuple, ast.List)):
            return [n for x in t.elts for n in self.pattern_names(x)]
        refuse(t, "loop target")

    def bind_pattern(self, t, ty, env, src="x"):
        """binds the loop target to the element `src`; returns `let ... in ` text (projections)"""
        if isinstance(t, ast.Name):
            env[t.id] = (self.var(t.id), ty)
            return "let %s := %s in " % (env[t.id][0], src)
        if isinstance(t, (ast.Tuple, ast.List)) and len(t.elts) == 2 and ty is not None and ty[0] == "tuple":
            return (self.bind_pattern(t.elts[0], ty[1], env, "(fst %s)" % src)
                    + self.bind_pattern(t.elts[1], ty[2], env, "(snd %s)" % src))
        refuse(t, "loop target does not match the element type")

    def desugar_comp(self, target, comp):
        """x = [E for a in A for b in B if c]  ==  x = []; for a in A: for b in B: if c: x.append(E)"""
        if not isinstance(target, ast.Name):
            refuse(target, "comprehension target")
        inner = ast.Expr(value=ast.Call(func=ast.Attribute(value=ast.Name(id=target.id, ctx=ast.Load()), attr="append", ctx=ast.Load()),
                                        args=[comp.elt], keywords=[]))
        body = [inner]
        for gen in reversed(comp.generators):
            if gen.is_async:
                refuse(comp, "async comprehension")
            for c in reversed(gen.ifs):
                body = [ast.If(test=c, body=body, orelse=[])]
            body = [ast.For(target=gen.target, iter=gen.iter, body=body, orelse=[])]
        init = ast.Assign(targets=[ast.Name(id=target.id, ctx=ast.Store())], value=ast.List(elts=[], ctx=ast.Load()))
        out = [init] + body
        for n in out:
            ast.copy_location(n, comp)
            ast.fix_missing_locations(n)
        return out

    def desugar_dictcomp(self, target, comp):
        """x = {K: V for a in A ...}  ==  x = {}; for a in A: x[K] = V"""
        body = [ast.Assign(targets=[ast.Subscript(value=ast.Name(id=target.id, ctx=ast.Load()), slice=comp.key, ctx=ast.Store())], value=comp.value)]
        for gen in reversed(comp.generators):
            if gen.is_async:
                refuse(comp, "async comprehension")
            for c in reversed(gen.ifs):
                body = [ast.If(test=c, body=body, orelse=[])]
            body = [ast.For(target=gen.target, iter=gen.iter, body=body, orelse=[])]
        init = ast.Assign(targets=[ast.Name(id=target.id, ctx=ast.Store())], value=ast.Dict(keys=[], values=[]))
        out = [init] + body
        for n in out:
            ast.copy_location(n, comp)
            ast.fix_missing_locations(n)
        return out

    def raise_term(self, s, env):
        e = s.exc
        if (isinstance(e, ast.Call) and dotted(e.func) == "_NeedTopicPartitions" and len(e.args) == 1 and not e.keywords
                and (s.cause is None or (isinstance(s.cause, ast.Constant) and s.cause.value is None))):
            b, t, ty = self.iterable(e.args[0], env)
            if ty != LIST(STR):
                refuse(s, "_NeedTopicPartitions of a non-string collection")
            return self.wrap(b, "Err (ENeed (str_sort %s))" % t)
        if (isinstance(e, ast.Call) and dotted(e.func) == "AssertionError" and s.cause is None and not e.keywords
                and all(isinstance(a, ast.Constant) for a in e.args)) or (isinstance(e, ast.Name) and e.id == "AssertionError"):
            return "Err EAssert"
        refuse(s, "raise of something other than _NeedTopicPartitions(<topics>) / AssertionError")

    def definition(self):
        def nofall(env):
            refuse(self.fn, "the function can fall off its end without a return")
        body = self.block(list(self.fn.body), dict(self.env0), nofall, False)
        return body


def find_method(tree, cls, name):
    for node in tree.body:
        if isinstance(node, ast.ClassDef) and node.name == cls:
            found = [n for n in node.body if isinstance(n, ast.FunctionDef) and n.name == name]
            if len(found) == 1:
                return found[0]
    raise Refused("method %s.%s not found (or defined twice)" % (cls, name))


def indent(text):
    """cosmetic: indentation by bracket depth"""
    out, depth = [], 1
    for line in text.split("\n"):
        out.append("  " * max(depth, 1) + line.strip())
        depth += line.count("(") - line.count(")")
    return "\n".join(out)


PRELUDE = "From AV Require Import Base.Util Model.Assign Model.AssignPy.\n\n"


def translate_source(source):
    tree = ast.parse(source)
    fn = find_method(tree, "_ConsumerProtocol", "_round_robin_assignment")
    f = Fn(fn, [DICT(META), DICT(LIST(INT))], "gen_round_robin")
    body = f.definition()
    text = ("(* GENERATED by harness/py2assign.py from afkak/_group.py _ConsumerProtocol._round_robin_assignment - do not edit. *)\n"
            + PRELUDE
            + "Definition gen_round_robin (fuel : nat) (%s : mdict) (%s : tpmap) : result asg :=\n%s.\n" % (
                f.env0[f.params[0]][0], f.env0[f.params[1]][0], indent(body))
            + "\nCreate HintDb gen_assign_defs.\n#[export] Hint Unfold gen_round_robin : gen_assign_defs.\n")
    return text


def class_string_constants(tree, cls):
    out = {}
    for node in tree.body:
        if isinstance(node, ast.ClassDef) and node.name == cls:
            count = {}
            for st in node.body:
                if isinstance(st, ast.Assign) and len(st.targets) == 1 and isinstance(st.targets[0], ast.Name):
                    count[st.targets[0].id] = count.get(st.targets[0].id, 0) + 1
                    if isinstance(st.value, ast.Constant) and isinstance(st.value.value, str):
                        out[st.targets[0].id] = st.value.value
            out = {k: v for k, v in out.items() if count.get(k) == 1}
    return out


WRAP_PRELUDE = "From AV Require Import Base.Util Model.Assign Model.AssignPy Model.AssignGen.\n\n"


def translate_wrapping(source):
    """generate_assignments, decode_assignment, join_group_protocols of _ConsumerProtocol (straight-line code over the
    KafkaCodec functions, which have their own translator ties C04gen / C05gen, and over _round_robin_assignment)"""
    tree = ast.parse(source)
    consts = class_string_constants(tree, "_ConsumerProtocol")
    out = ["(* GENERATED by harness/py2assign.py from afkak/_group.py _ConsumerProtocol.generate_assignments / decode_assignment / "
           "join_group_protocols - do not edit. *)\n" + WRAP_PRELUDE]
    specs = [("generate_assignments", [LIST(MEMBER), DICT(LIST(INT))], LIST(("tuple", STR, BYTES)),
              "Definition gen_generate_assignments (fuel : nat) (%s : list (str * list Z)) (%s : tpmap) : result (list (str * list Z)) :=\n%s.\n"),
             ("decode_assignment", [BYTES], ADICT, "Definition gen_decode_assignment (%s : list Z) : result adict :=\n%s.\n"),
             ("join_group_protocols", [LIST(STR)], LIST(("tuple", STR, BYTES)),
              "Definition gen_join_group_protocols (%s : list (list Z)) : result (list (str * list Z)) :=\n%s.\n")]
    for name, ptypes, rty, template in specs:
        f = Fn(find_method(tree, "_ConsumerProtocol", name), ptypes, "gen_" + name, ret_type=rty, class_consts=consts)
        body = f.definition()
        out.append(template % tuple([f.env0[p][0] for p in f.params] + [indent(body)]))
    out.append("Create HintDb gen_assign_wrap_defs.\n#[export] Hint Unfold gen_generate_assignments gen_decode_assignment "
               "gen_join_group_protocols : gen_assign_wrap_defs.\n")
    return "\n".join(out)


def translate_repo_wrapping(repo):
    try:
        src = open(os.path.join(repo, "afkak", "_group.py")).read()
        return True, translate_wrapping(src), "translated"
    except (Refused, SyntaxError, OSError, RecursionError) as e:
        return False, None, "%s: %s" % (type(e).__name__, str(e)[:300])


def translate_repo(repo):
    try:
        src = open(os.path.join(repo, "afkak", "_group.py")).read()
        return True, translate_source(src), "translated"
    except (Refused, SyntaxError, OSError, RecursionError) as e:
        return False, None, "%s: %s" % (type(e).__name__, str(e)[:300])


if __name__ == "__main__":
    import sys
    which = translate_repo_wrapping if "--wrap" in sys.argv else translate_repo
    args = [a for a in sys.argv[1:] if a != "--wrap"]
    ok, text, msg = which(args[0] if args else "/repo")
    sys.stdout.write(text if ok else "FAILED: " + msg + "\n")
