# Fail-closed translator: Python source of afkak's response decoders  ->  terms of the decoder language
# coq/Model/DecDSL.v (type `stmt`).  Purely syntactic: one DSL constructor per statement form, locals numbered in order
# of first assignment (renaming a local is harmless), module constants inlined.  The MEANING of the constructors is the
# Gallina interpreter DecDSL.exec; nothing about Kafka or about the decoders is known here.
# Any construct outside the table below makes the decoder REFUSED (never guessed).
#
#   translate_repo(repo) -> {name: {"status": "translated", "term": <Gallina text>, "nvars": n, "vars": [...]}
#                                  | {"status": "refused", "reason": "<construct> at line N"}}
#   python3 harness/py2dsl.py --snapshot     rewrites coq/Model/DecAst.v (the committed expected terms) from /repo
import ast
import os
import sys

FMT = {"b": "Fb", "B": "FB", "h": "Fh", "H": "FH", "i": "Fi", "I": "FI", "q": "Fq"}
READERS = {"read_short_bytes": "RShortBytes", "read_short_ascii": "RShortAscii", "read_short_text": "RShortText",
           "read_int_string": "RIntString"}
CTORS = {"ApiVersion": "K_ApiVersion", "ApiVersionResponse": "K_ApiVersionResponse", "ProduceResponse": "K_ProduceResponse",
         "FetchResponse": "K_FetchResponse", "OffsetResponse": "K_OffsetResponse", "BrokerMetadata": "K_BrokerMetadata",
         "PartitionMetadata": "K_PartitionMetadata", "TopicMetadata": "K_TopicMetadata",
         "ConsumerMetadataResponse": "K_ConsumerMetadataResponse", "OffsetCommitResponse": "K_OffsetCommitResponse",
         "OffsetFetchResponse": "K_OffsetFetchResponse", "_JoinGroupProtocolMetadata": "K_JoinGroupProtocolMetadata",
         "_JoinGroupResponseMember": "K_JoinGroupResponseMember", "_JoinGroupResponse": "K_JoinGroupResponse",
         "_LeaveGroupResponse": "K_LeaveGroupResponse", "_HeartbeatResponse": "K_HeartbeatResponse",
         "_SyncGroupResponse": "K_SyncGroupResponse", "_SyncGroupMemberAssignment": "K_SyncGroupMemberAssignment"}
EXCS = {"BufferUnderflowError": "Underflow", "ChecksumError": "Checksum", "ConsumerFetchSizeTooSmall": "FetchTooSmall",
        "ProtocolError": "Protocol", "InvalidMessageError": "InvalidMessage"}
CMPS = {ast.Eq: "CEq", ast.NotEq: "CNe", ast.Gt: "CGt", ast.GtE: "CGe", ast.Lt: "CLt", ast.LtE: "CLe"}

DECODERS = ["get_response_correlation_id", "decode_api_versions_response", "decode_produce_response", "decode_fetch_response",
            "decode_offset_response", "decode_metadata_response", "decode_consumermetadata_response",
            "decode_offset_commit_response", "decode_offset_fetch_response", "decode_join_group_protocol_metadata",
            "decode_join_group_response", "decode_leave_group_response", "decode_heartbeat_response",
            "decode_sync_group_response", "decode_sync_group_member_assignment"]


class Refuse(Exception):
    pass


def refuse(node, what):
    raise Refuse("%s at line %s" % (what, getattr(node, "lineno", "?")))


def zlit(n):
    return "(%d)%%Z" % n


def lst(items):
    return "[" + "; ".join(items) + "]"


class Fn:
    """one decoder (or one nested generator function of decode_produce_response)"""

    def __init__(self, consts, param_names):
        self.consts = consts            # module-level integer constants
        self.slots = []                 # local variable names in order of first assignment
        self.params = param_names       # names of the function parameters ('data', 'cur' are special)

    def slot(self, name, node, define=False):
        if name in ("data", "cur", "cls", "api_version"):
            refuse(node, "use of %s as a value" % name)
        if name not in self.slots:
            if not define:
                # a read of a name never assigned in this function: a module constant is inlined elsewhere; here it
                # would be a global or an unbound local - keep Python's behaviour for locals assigned later in the
                # source, refuse the rest
                refuse(node, "read of unknown name %s" % name)
            self.slots.append(name)
        return self.slots.index(name)

    def predefine(self, body):
        """Python decides 'local' by any assignment in the function: number the slots in order of first assignment"""
        def visit(node):            # depth first, in source order
            if isinstance(node, ast.Name) and isinstance(node.ctx, ast.Store) and node.id != "cur":
                if node.id not in self.slots:
                    self.slots.append(node.id)
            for child in ast.iter_child_nodes(node):
                if not isinstance(child, ast.FunctionDef):
                    visit(child)
        for n in body:
            visit(n)

    # ---------------------------------------------------------------- expressions
    def atom(self, e):
        if isinstance(e, ast.Name):
            return "AVar %d" % self.slot(e.id, e)
        if isinstance(e, ast.Call) and isinstance(e.func, ast.Name) and len(e.args) == 1 and not e.keywords and isinstance(e.args[0], ast.Name):
            if e.func.id == "nativeString":
                return "ANative %d" % self.slot(e.args[0].id, e)
            if e.func.id == "tuple":
                return "ATupleOf %d" % self.slot(e.args[0].id, e)
        if (isinstance(e, ast.Call) and isinstance(e.func, ast.Attribute) and e.func.attr == "_decode_message_set_iter"
                and isinstance(e.func.value, ast.Name) and e.func.value.id in ("KafkaCodec", "cls") and len(e.args) == 1 and not e.keywords):
            a = e.args[0]
            if (isinstance(a, ast.BoolOp) and isinstance(a.op, ast.Or) and len(a.values) == 2 and isinstance(a.values[0], ast.Name)
                    and isinstance(a.values[1], ast.Constant) and a.values[1].value == b""):
                return "AMsgSetIter %d" % self.slot(a.values[0].id, e)
        refuse(e, "expression %s" % ast.dump(e)[:80])

    def expr(self, e):
        if isinstance(e, ast.List) and not e.elts:
            return "EEmptyList"
        if isinstance(e, ast.Dict) and not e.keys:
            return "EEmptyDict"
        if isinstance(e, ast.Tuple):
            return "ETuple " + lst([self.atom(x) for x in e.elts])
        if isinstance(e, ast.Call) and isinstance(e.func, ast.Name) and e.func.id in CTORS and not e.keywords:
            return "ECtor %s %s" % (CTORS[e.func.id], lst([self.atom(x) for x in e.args]))
        return "EAtom (%s)" % self.atom(e)

    def const(self, e):
        if isinstance(e, ast.Constant) and type(e.value) is int:
            return e.value
        if isinstance(e, ast.UnaryOp) and isinstance(e.op, ast.USub) and isinstance(e.operand, ast.Constant) and type(e.operand.value) is int:
            return -e.operand.value
        if isinstance(e, ast.Name) and e.id in self.consts:
            return self.consts[e.id]
        refuse(e, "non-constant comparand")

    def exc(self, node):
        x = node.exc
        if isinstance(x, ast.Call):
            x = x.func
        if isinstance(x, ast.Name) and x.id in EXCS and node.cause is None:
            return EXCS[x.id]
        refuse(node, "raise of %s" % ast.dump(node.exc)[:60])

    # ---------------------------------------------------------------- statements
    def fmt(self, node):
        if isinstance(node, ast.Constant) and isinstance(node.value, str) and node.value.startswith(">") and len(node.value) > 1 \
                and all(c in FMT for c in node.value[1:]):
            return lst([FMT[c] for c in node.value[1:]])
        refuse(node, "struct format")

    def cursor(self, node):
        if isinstance(node, ast.Constant) and node.value == 0 and type(node.value) is int:
            return "CStart"
        if isinstance(node, ast.Name) and node.id == "cur":
            return "CCur"
        refuse(node, "cursor argument")

    def read_call(self, targets, call, node):
        """(<value target>, cur) = <reader>(..., data, CUR)"""
        if not (isinstance(targets, ast.Tuple) and len(targets.elts) == 2 and isinstance(targets.elts[1], ast.Name) and targets.elts[1].id == "cur"):
            refuse(node, "reader result not bound as (value, cur)")
        vt = targets.elts[0]
        if not (isinstance(call.func, ast.Name) and not call.keywords):
            refuse(node, "call")
        f = call.func.id
        if f in READERS:
            if not (len(call.args) == 2 and isinstance(call.args[0], ast.Name) and call.args[0].id == "data" and isinstance(vt, ast.Name)):
                refuse(node, "reader arguments")
            return "SRead %s %s %d" % (self.cursor(call.args[1]), READERS[f], self.slot(vt.id, vt, True))
        if f == "relative_unpack":
            if not (len(call.args) == 3 and isinstance(call.args[1], ast.Name) and call.args[1].id == "data"):
                refuse(node, "relative_unpack arguments")
            c = self.cursor(call.args[2])
            fa = call.args[0]
            if isinstance(fa, ast.BinOp) and isinstance(fa.op, ast.Mod):      # ">%di" % n
                if not (isinstance(fa.left, ast.Constant) and fa.left.value in (">%di", ">%si") and isinstance(fa.right, ast.Name)
                        and isinstance(vt, ast.Name)):
                    refuse(node, "computed struct format")
                return "SUnpackN %s %d Fi %d" % (c, self.slot(fa.right.id, fa.right), self.slot(vt.id, vt, True))
            if isinstance(vt, ast.Tuple):
                if not all(isinstance(x, ast.Name) for x in vt.elts):
                    refuse(node, "unpack target")
                fm = self.fmt(fa)
                if fm.count(";") + 1 != len(vt.elts):
                    refuse(node, "number of targets differs from the number of fields")
                return "SUnpack %s %s %s" % (c, fm, lst([str(self.slot(x.id, x, True)) for x in vt.elts]))
            if isinstance(vt, ast.Name):
                return "SUnpackTuple %s %s %d" % (c, self.fmt(fa), self.slot(vt.id, vt, True))
        refuse(node, "call of %s" % f)

    def if_param(self, node):
        t = node.test
        if not (isinstance(t, ast.Compare) and len(t.ops) == 1 and type(t.ops[0]) in CMPS and isinstance(t.left, ast.Name)
                and t.left.id == "api_version"):
            refuse(node, "if")
        a = self.block(node.body)
        b = self.block(node.orelse) if node.orelse else "SSkip"
        return "SIfParam %s %s (%s) (%s)" % (CMPS[type(t.ops[0])], zlit(self.const(t.comparators[0])), a, b)

    def stmt(self, node):
        if isinstance(node, ast.Expr) and isinstance(node.value, ast.Constant) and isinstance(node.value.value, str):
            return None                                                        # docstring
        if isinstance(node, ast.Assign) and len(node.targets) == 1:
            t, v = node.targets[0], node.value
            if isinstance(v, ast.Call) and isinstance(v.func, ast.Name) and (v.func.id in READERS or v.func.id == "relative_unpack"):
                return self.read_call(t, v, node)
            if isinstance(t, ast.Name):
                return "SAssign %d (%s)" % (self.slot(t.id, t, True), self.expr(v))
            if isinstance(t, ast.Subscript) and isinstance(t.value, ast.Name):
                return "SSetItem %d (%s) (%s)" % (self.slot(t.value.id, t), self.atom(t.slice), self.expr(v))
            refuse(node, "assignment")
        if isinstance(node, ast.Expr):
            v = node.value
            if isinstance(v, ast.Yield) and v.value is not None:
                return "SYield (%s)" % self.expr(v.value)
            if (isinstance(v, ast.Call) and isinstance(v.func, ast.Attribute) and v.func.attr == "append" and isinstance(v.func.value, ast.Name)
                    and len(v.args) == 1 and not v.keywords):
                return "SAppend %d (%s)" % (self.slot(v.func.value.id, v), self.expr(v.args[0]))
            refuse(node, "expression statement")
        if isinstance(node, ast.For) and not node.orelse:
            it = node.iter
            if (isinstance(it, ast.Call) and isinstance(it.func, ast.Name) and it.func.id == "range" and len(it.args) == 1
                    and isinstance(it.args[0], ast.Name) and isinstance(node.target, ast.Name)):
                lv = node.target.id
                for sub in ast.walk(ast.Module(body=node.body, type_ignores=[])):
                    if isinstance(sub, ast.Name) and sub.id == lv and isinstance(sub.ctx, ast.Load):
                        refuse(node, "loop variable used in the body")
                return "SFor %d (%s)" % (self.slot(it.args[0].id, it), self.block(node.body))
            if (isinstance(it, ast.Call) and isinstance(it.func, ast.Attribute) and it.func.attr == "iter_unpack"
                    and isinstance(it.func.value, ast.Name) and it.func.value.id == "struct" and len(it.args) == 2
                    and isinstance(node.target, ast.Tuple) and all(isinstance(x, ast.Name) for x in node.target.elts)):
                sl = it.args[1]
                if not (isinstance(sl, ast.Subscript) and isinstance(sl.value, ast.Name) and sl.value.id == "data" and isinstance(sl.slice, ast.Slice)
                        and isinstance(sl.slice.lower, ast.Name) and sl.slice.lower.id == "cur" and sl.slice.upper is None and sl.slice.step is None):
                    refuse(node, "iter_unpack buffer")
                fm = self.fmt(it.args[0])
                if fm.count(";") + 1 != len(node.target.elts):
                    refuse(node, "iter_unpack targets")
                ts = lst([str(self.slot(x.id, x, True)) for x in node.target.elts])
                return "SIterUnpack %s %s (%s)" % (fm, ts, self.block(node.body))
            refuse(node, "for loop")
        if isinstance(node, ast.If):
            t = node.test
            if isinstance(t, ast.Compare) and isinstance(t.left, ast.Name) and t.left.id == "api_version":
                return self.if_param(node)
            if (isinstance(t, ast.Compare) and len(t.ops) == 1 and type(t.ops[0]) in CMPS and isinstance(t.left, ast.Name)
                    and not node.orelse and len(node.body) == 1 and isinstance(node.body[0], ast.Raise)):
                return "SIfRaise %d %s %s %s" % (self.slot(t.left.id, t.left), CMPS[type(t.ops[0])],
                                                 zlit(self.const(t.comparators[0])), self.exc(node.body[0]))
            refuse(node, "if")
        if isinstance(node, ast.Return) and node.value is not None:
            return "SReturn (%s)" % self.expr(node.value)
        if isinstance(node, ast.Raise):
            return "SRaise %s" % self.exc(node)
        refuse(node, type(node).__name__)

    def block(self, body):
        parts = [s for s in (self.stmt(n) for n in body) if s is not None]
        if not parts:
            return "SSkip"
        out = parts[-1]
        for p in reversed(parts[:-1]):
            out = "SSeq (%s) (%s)" % (p, out)
        return out


def module_consts(tree):
    out = {}
    for n in tree.body:
        if isinstance(n, ast.Assign) and len(n.targets) == 1 and isinstance(n.targets[0], ast.Name) and isinstance(n.value, ast.Constant) \
                and type(n.value.value) is int:
            out[n.targets[0].id] = n.value.value
    return out


def check_signature(fn):
    """exactly @classmethod, the only default allowed is api_version = 0 (the model's callers always pass the version)"""
    decs = [d.id if isinstance(d, ast.Name) else None for d in fn.decorator_list]
    if decs != ["classmethod"]:
        refuse(fn, "decorators %r" % decs)
    for dflt in fn.args.defaults:
        if not (isinstance(dflt, ast.Constant) and dflt.value == 0 and type(dflt.value) is int):
            refuse(fn, "default argument value")
    for sub in ast.walk(fn):
        if isinstance(sub, (ast.Global, ast.Nonlocal, ast.Lambda, ast.Try, ast.With, ast.While, ast.AugAssign, ast.NamedExpr,
                            ast.Await, ast.AsyncFor, ast.AsyncWith, ast.ListComp, ast.GeneratorExp, ast.DictComp, ast.SetComp, ast.Delete)):
            refuse(sub, type(sub).__name__)


def translate_function(fn, consts):
    args = [a.arg for a in fn.args.args]
    f = Fn(consts, args)
    if [a for a in args if a not in ("cls", "data", "api_version")] or fn.args.vararg or fn.args.kwarg or fn.args.kwonlyargs:
        refuse(fn, "parameters %r" % args)
    check_signature(fn)
    f.predefine(fn.body)
    term = f.block(fn.body)
    return {"status": "translated", "term": term, "nvars": len(f.slots), "vars": list(f.slots)}


def translate_produce(fn, consts):
    """decode_produce_response = two nested generator functions and a dispatch on api_version that returns one of them
    called on `data` (the ValueError branch is raised when the decoder is CALLED, not when it is iterated)"""
    check_signature(fn)
    if [a.arg for a in fn.args.args] != ["cls", "data", "api_version"]:
        refuse(fn, "parameters")
    defs = [n for n in fn.body if isinstance(n, ast.FunctionDef)]
    rest = [n for n in fn.body if not isinstance(n, ast.FunctionDef)
            and not (isinstance(n, ast.Expr) and isinstance(n.value, ast.Constant) and isinstance(n.value.value, str))]
    if len(rest) != 1 or not isinstance(rest[0], ast.If):
        refuse(fn, "dispatch shape")
    names = [d.name for d in defs]
    table, node = [], rest[0]
    while True:
        t = node.test
        if not (isinstance(t, ast.Compare) and len(t.ops) == 1 and type(t.ops[0]) in CMPS and isinstance(t.left, ast.Name) and t.left.id == "api_version"
                and len(node.body) == 1 and isinstance(node.body[0], ast.Return)):
            refuse(node, "dispatch branch")
        c = node.body[0].value
        if not (isinstance(c, ast.Call) and isinstance(c.func, ast.Name) and c.func.id in names and len(c.args) == 1
                and isinstance(c.args[0], ast.Name) and c.args[0].id == "data" and not c.keywords):
            refuse(node, "dispatch target")
        table.append("(%s, %s, %d)" % (CMPS[type(t.ops[0])], zlit(Fn(consts, []).const(t.comparators[0])), names.index(c.func.id)))
        if len(node.orelse) == 1 and isinstance(node.orelse[0], ast.If):
            node = node.orelse[0]
            continue
        if not (len(node.orelse) == 1 and isinstance(node.orelse[0], ast.Raise)):
            refuse(node, "dispatch else")
        x = node.orelse[0].exc
        if not (isinstance(x, ast.Call) and isinstance(x.func, ast.Name) and x.func.id == "ValueError"):
            refuse(node, "dispatch else raises something other than ValueError")
        break
    out = {}
    for d in defs:
        if [a.arg for a in d.args.args] != ["data"] or d.decorator_list or d.args.defaults:
            refuse(d, "nested function parameters")
        f = Fn(consts, ["data"])
        f.predefine(d.body)
        out["decode_produce_response__" + d.name] = {"status": "translated", "term": f.block(d.body), "nvars": len(f.slots), "vars": list(f.slots)}
    out["decode_produce_response__dispatch"] = {"status": "translated", "term": lst(table), "nvars": 0, "vars": names, "type": "list (cmp * Z * nat)"}
    return out


def translate_source(text):
    tree = ast.parse(text)
    consts = module_consts(tree)
    cls = [n for n in tree.body if isinstance(n, ast.ClassDef) and n.name == "KafkaCodec"]
    if len(cls) != 1:
        raise Refuse("class KafkaCodec not found")
    methods = {n.name: n for n in cls[0].body if isinstance(n, ast.FunctionDef)}
    out = {}
    for name in DECODERS:
        if name not in methods:
            out[name] = {"status": "refused", "reason": "method not found"}
            continue
        try:
            if name == "decode_produce_response":
                out.update(translate_produce(methods[name], consts))
            else:
                out[name] = translate_function(methods[name], consts)
        except Refuse as e:
            keys = ["decode_produce_response__v0", "decode_produce_response__v2", "decode_produce_response__dispatch"] if name == "decode_produce_response" else [name]
            for k in keys:
                out[k] = {"status": "refused", "reason": str(e)}
        except RecursionError:
            out[name] = {"status": "refused", "reason": "source too deeply nested"}
    return out


# ------------------------------------------------------------------ the readers of _util.py  (coq/Model/ReadDSL.v)
UTIL_READERS = ["read_short_bytes", "read_int_string", "relative_unpack"]
UTIL_DECODED = {"read_short_ascii": "CAscii", "read_short_text": "CUtf8"}
CODECS = {"ascii": "CAscii", "utf-8": "CUtf8"}


class RFn:
    def __init__(self, underflow_helpers, has_fmt):
        self.slots = []
        self.helpers = underflow_helpers        # names of module functions that just build a BufferUnderflowError
        self.has_fmt = has_fmt

    def slot(self, name, node, define=False):
        if name in ("data", "cur", "fmt"):
            refuse(node, "use of %s as a local" % name)
        if name not in self.slots:
            if not define:
                refuse(node, "read of unknown name %s" % name)
            self.slots.append(name)
        return self.slots.index(name)

    def iexpr(self, e):
        if isinstance(e, ast.Name):
            return "RCur" if e.id == "cur" else "RVar %d" % self.slot(e.id, e)
        if isinstance(e, ast.Constant) and type(e.value) is int:
            return "RConst %s" % zlit(e.value)
        if isinstance(e, ast.UnaryOp) and isinstance(e.op, ast.USub) and isinstance(e.operand, ast.Constant) and type(e.operand.value) is int:
            return "RConst %s" % zlit(-e.operand.value)
        if isinstance(e, ast.BinOp) and isinstance(e.op, ast.Add):
            return "RAdd (%s) (%s)" % (self.iexpr(e.left), self.iexpr(e.right))
        if (isinstance(e, ast.Call) and isinstance(e.func, ast.Name) and e.func.id == "len" and len(e.args) == 1 and not e.keywords
                and isinstance(e.args[0], ast.Name) and e.args[0].id == "data"):
            return "RLen"
        refuse(e, "integer expression")

    def cond(self, t):
        if isinstance(t, ast.Compare) and len(t.ops) == 1 and isinstance(t.ops[0], (ast.Lt, ast.Eq)):
            return "%s (%s) (%s)" % ("RLt" if isinstance(t.ops[0], ast.Lt) else "REq", self.iexpr(t.left), self.iexpr(t.comparators[0]))
        refuse(t, "condition")

    def data_slice(self, e):
        if (isinstance(e, ast.Subscript) and isinstance(e.value, ast.Name) and e.value.id == "data" and isinstance(e.slice, ast.Slice)
                and e.slice.lower is not None and e.slice.upper is not None and e.slice.step is None):
            return "(%s) (%s)" % (self.iexpr(e.slice.lower), self.iexpr(e.slice.upper))
        refuse(e, "slice")

    def rexc(self, node):
        x = node.exc
        if node.cause is not None or not isinstance(x, ast.Call) or not isinstance(x.func, ast.Name):
            refuse(node, "raise")
        if x.func.id in self.helpers:
            return "Underflow"
        if x.func.id in EXCS:
            return EXCS[x.func.id]
        refuse(node, "raise of %s" % x.func.id)

    def stmt(self, node):
        if isinstance(node, ast.Expr) and isinstance(node.value, ast.Constant) and isinstance(node.value.value, str):
            return None
        if isinstance(node, ast.If) and not node.orelse and len(node.body) == 1:
            b = node.body[0]
            if isinstance(b, ast.Raise):
                return "RIfRaise (%s) %s" % (self.cond(node.test), self.rexc(b))
            if (isinstance(b, ast.Return) and isinstance(b.value, ast.Tuple) and len(b.value.elts) == 2
                    and isinstance(b.value.elts[0], ast.Constant) and b.value.elts[0].value is None):
                return "RIfReturnNone (%s) (%s)" % (self.cond(node.test), self.iexpr(b.value.elts[1]))
            refuse(node, "if body")
        if isinstance(node, ast.AugAssign) and isinstance(node.op, ast.Add) and isinstance(node.target, ast.Name) and node.target.id == "cur":
            return "RAdvance (%s)" % self.iexpr(node.value)
        if isinstance(node, ast.Assign) and len(node.targets) == 1:
            t, v = node.targets[0], node.value
            if (isinstance(v, ast.Call) and isinstance(v.func, ast.Attribute) and isinstance(v.func.value, ast.Name) and v.func.value.id == "struct"
                    and not v.keywords):
                if v.func.attr == "unpack" and len(v.args) == 2:
                    if isinstance(v.args[0], ast.Constant):      # (x,) = struct.unpack(">h", data[a:b])
                        f = v.args[0].value
                        if not (isinstance(f, str) and len(f) == 2 and f[0] == ">" and f[1] in FMT and isinstance(t, ast.Tuple) and len(t.elts) == 1
                                and isinstance(t.elts[0], ast.Name)):
                            refuse(node, "struct.unpack form")
                        return "RUnpack1 %s %s %d" % (FMT[f[1]], self.data_slice(v.args[1]), self.slot(t.elts[0].id, t, True))
                    if isinstance(v.args[0], ast.Name) and v.args[0].id == "fmt" and self.has_fmt and isinstance(t, ast.Name):
                        return "RUnpackAll %s %d" % (self.data_slice(v.args[1]), self.slot(t.id, t, True))
                if (v.func.attr == "calcsize" and len(v.args) == 1 and isinstance(v.args[0], ast.Name) and v.args[0].id == "fmt" and self.has_fmt
                        and isinstance(t, ast.Name)):
                    return "RCalcSize %d" % self.slot(t.id, t, True)
                refuse(node, "struct call")
            if isinstance(t, ast.Name) and isinstance(v, ast.Subscript):
                return "RSlice %s %d" % (self.data_slice(v), self.slot(t.id, t, True))
            refuse(node, "assignment")
        if (isinstance(node, ast.Return) and isinstance(node.value, ast.Tuple) and len(node.value.elts) == 2
                and isinstance(node.value.elts[0], ast.Name)):
            return "RReturn %d (%s)" % (self.slot(node.value.elts[0].id, node), self.iexpr(node.value.elts[1]))
        refuse(node, type(node).__name__)


def translate_util(text):
    tree = ast.parse(text)
    fns = {n.name: n for n in tree.body if isinstance(n, ast.FunctionDef)}
    helpers = set()
    for n in fns.values():          # def helper(...): return BufferUnderflowError(...)
        body = [b for b in n.body if not (isinstance(b, ast.Expr) and isinstance(b.value, ast.Constant))]
        if (len(body) == 1 and isinstance(body[0], ast.Return) and isinstance(body[0].value, ast.Call)
                and isinstance(body[0].value.func, ast.Name) and body[0].value.func.id == "BufferUnderflowError"):
            helpers.add(n.name)
    out = {}
    for name in UTIL_READERS:
        key = "util_" + name
        try:
            fn = fns.get(name)
            if fn is None:
                refuse(tree, "function %s not found" % name)
            args = [a.arg for a in fn.args.args]
            want = ["fmt", "data", "cur"] if name == "relative_unpack" else ["data", "cur"]
            if args != want or fn.decorator_list or fn.args.defaults or fn.args.vararg or fn.args.kwarg or fn.args.kwonlyargs:
                refuse(fn, "signature")
            f = RFn(helpers, name == "relative_unpack")
            parts = [x for x in (f.stmt(n) for n in fn.body) if x is not None]
            out[key] = {"status": "translated", "term": lst(parts), "nvars": len(f.slots), "vars": list(f.slots), "type": "list rstmt"}
        except Refuse as e:
            out[key] = {"status": "refused", "reason": str(e)}
    for name, codec in UTIL_DECODED.items():
        key = "util_" + name
        try:
            fn = fns.get(name)
            if fn is None:
                refuse(tree, "function %s not found" % name)
            body = [b for b in fn.body if not (isinstance(b, ast.Expr) and isinstance(b.value, ast.Constant))]
            ok = ([a.arg for a in fn.args.args] == ["data", "cur"] and not fn.decorator_list and not fn.args.defaults and len(body) == 2
                  and isinstance(body[0], ast.Assign) and len(body[0].targets) == 1 and isinstance(body[0].targets[0], ast.Tuple)
                  and [getattr(x, "id", None) for x in body[0].targets[0].elts][1:] == ["cur"]
                  and isinstance(body[0].value, ast.Call) and isinstance(body[0].value.func, ast.Name) and body[0].value.func.id == "read_short_bytes"
                  and [getattr(a, "id", None) for a in body[0].value.args] == ["data", "cur"] and not body[0].value.keywords
                  and isinstance(body[1], ast.Return) and isinstance(body[1].value, ast.Tuple) and len(body[1].value.elts) == 2
                  and isinstance(body[1].value.elts[1], ast.Name) and body[1].value.elts[1].id == "cur")
            if not ok:
                refuse(fn, "shape of %s" % name)
            b = body[0].targets[0].elts[0]
            call = body[1].value.elts[0]
            if not (isinstance(call, ast.Call) and isinstance(call.func, ast.Attribute) and call.func.attr == "decode" and isinstance(call.func.value, ast.Name)
                    and isinstance(b, ast.Name) and call.func.value.id == b.id and len(call.args) == 1 and not call.keywords
                    and isinstance(call.args[0], ast.Constant) and call.args[0].value in CODECS):
                refuse(fn, "decode call")
            out[key] = {"status": "translated", "term": "mk_rdecoded 0 %s" % CODECS[call.args[0].value], "nvars": 0, "vars": [], "type": "rdecoded"}
        except Refuse as e:
            out[key] = {"status": "refused", "reason": str(e)}
    return out


# ------------------------------------------------------------------ _decode_message / _decode_message_set_iter
# (coq/Model/MsgDSL.v)
def _name(e, want=None):
    return isinstance(e, ast.Name) and (want is None or e.id == want)


def _is_set_iter_call(e):
    """KafkaCodec._decode_message_set_iter(<name>) -> the name, else None"""
    if (isinstance(e, ast.Call) and isinstance(e.func, ast.Attribute) and e.func.attr == "_decode_message_set_iter"
            and _name(e.func.value) and e.func.value.id in ("KafkaCodec", "cls") and len(e.args) == 1 and not e.keywords and _name(e.args[0])):
        return e.args[0].id
    return None


class MFn:
    def __init__(self, consts):
        self.consts = consts
        self.slots = ["offset"]

    def slot(self, name, node, define=False):
        if name in ("data", "cur", "cls"):
            refuse(node, "use of %s as a value" % name)
        if name not in self.slots:
            if not define:
                refuse(node, "read of unknown name %s" % name)
            self.slots.append(name)
        return self.slots.index(name)

    def const(self, e):
        if isinstance(e, ast.Constant) and type(e.value) is int:
            return e.value
        if _name(e) and e.id in self.consts:
            return self.consts[e.id]
        refuse(e, "non-constant")

    def raise_(self, node):
        x = node.exc
        if isinstance(x, ast.Call):
            x = x.func
        if _name(x) and x.id in EXCS:
            return EXCS[x.id]
        refuse(node, "raise")

    def read(self, node):
        t, v = node.targets[0], node.value
        if not (isinstance(t, ast.Tuple) and len(t.elts) == 2 and _name(t.elts[1], "cur") and isinstance(v, ast.Call) and _name(v.func) and not v.keywords):
            return None
        if v.func.id == "read_int_string" and len(v.args) == 2 and _name(v.args[0], "data") and _name(v.args[1], "cur") and _name(t.elts[0]):
            return "MReadIntString %d" % self.slot(t.elts[0].id, t, True)
        if (v.func.id == "relative_unpack" and len(v.args) == 3 and _name(v.args[1], "data") and isinstance(t.elts[0], ast.Tuple)
                and all(_name(x) for x in t.elts[0].elts) and isinstance(v.args[0], ast.Constant) and isinstance(v.args[0].value, str)):
            f = v.args[0].value
            if not (f.startswith(">") and len(f) - 1 == len(t.elts[0].elts) and all(c in FMT for c in f[1:])):
                refuse(node, "struct format")
            ts = lst([str(self.slot(x.id, x, True)) for x in t.elts[0].elts])
            fm = lst([FMT[c] for c in f[1:]])
            if isinstance(v.args[2], ast.Constant) and v.args[2].value == 0 and type(v.args[2].value) is int:
                return "MUnpackStart %s %s" % (fm, ts)
            if _name(v.args[2], "cur"):
                return "MUnpack %s %s" % (fm, ts)
        return None

    def if_chain(self, node, inner_defs):
        """if v == C: A elif v == D: B else: E   ->  MIfEq v C (A) (MIfEq v D (B) (E))"""
        t = node.test
        if not (isinstance(t, ast.Compare) and len(t.ops) == 1 and isinstance(t.ops[0], ast.Eq) and _name(t.left)):
            refuse(node, "if")
        a = self.block(node.body, inner_defs)
        if len(node.orelse) == 1 and isinstance(node.orelse[0], ast.If):
            b = self.if_chain(node.orelse[0], inner_defs)
        elif node.orelse:
            b = self.block(node.orelse, inner_defs)
        else:
            b = "MSkip"
        return "MIfEq %d %s (%s) (%s)" % (self.slot(t.left.id, t.left), zlit(self.const(t.comparators[0])), a, b)

    def stmt(self, node, inner_defs):
        if isinstance(node, ast.Expr) and isinstance(node.value, ast.Constant) and isinstance(node.value.value, str):
            return None
        if isinstance(node, ast.FunctionDef):
            return None
        if isinstance(node, ast.Assign) and len(node.targets) == 1:
            r = self.read(node)
            if r:
                return r
            t, v = node.targets[0], node.value
            if _name(t) and isinstance(v, ast.BinOp) and isinstance(v.op, ast.BitAnd) and _name(v.left):
                return "MAnd %d %d %s" % (self.slot(t.id, t, True), self.slot(v.left.id, v.left), zlit(self.const(v.right)))
            if (_name(t) and isinstance(v, ast.Call) and _name(v.func) and v.func.id in ("gzip_decode", "snappy_decode") and len(v.args) == 1
                    and _name(v.args[0]) and not v.keywords):
                return "MDecompress %s %d %d" % (zlit(1 if v.func.id == "gzip_decode" else 2), self.slot(t.id, t, True), self.slot(v.args[0].id, v))
            refuse(node, "assignment")
        if isinstance(node, ast.If):
            t = node.test
            if (isinstance(t, ast.Compare) and len(t.ops) == 1 and isinstance(t.ops[0], ast.NotEq) and _name(t.left) and not node.orelse
                    and len(node.body) == 1 and isinstance(node.body[0], ast.Raise)):
                c = t.comparators[0]       # crc != zlib.crc32(data[K:]) & 0xFFFFFFFF
                ok = (isinstance(c, ast.BinOp) and isinstance(c.op, ast.BitAnd) and isinstance(c.right, ast.Constant) and c.right.value == 0xFFFFFFFF
                      and isinstance(c.left, ast.Call) and isinstance(c.left.func, ast.Attribute) and c.left.func.attr == "crc32"
                      and _name(c.left.func.value, "zlib") and len(c.left.args) == 1 and not c.left.keywords)
                if ok:
                    sl = c.left.args[0]
                    ok = (isinstance(sl, ast.Subscript) and _name(sl.value, "data") and isinstance(sl.slice, ast.Slice) and sl.slice.upper is None
                          and sl.slice.step is None and isinstance(sl.slice.lower, ast.Constant) and type(sl.slice.lower.value) is int and sl.slice.lower.value >= 0)
                if not ok:
                    refuse(node, "checksum test")
                return "MCrcCheck %d %d %s" % (self.slot(t.left.id, t.left), sl.slice.lower.value, self.raise_(node.body[0]))
            return self.if_chain(node, inner_defs)
        if isinstance(node, ast.Expr) and isinstance(node.value, ast.Yield):
            y = node.value.value     # yield offset, Message(magic, att, key, value[, timestamp])
            if (isinstance(y, ast.Tuple) and len(y.elts) == 2 and _name(y.elts[0]) and isinstance(y.elts[1], ast.Call) and _name(y.elts[1].func, "Message")
                    and not y.elts[1].keywords and len(y.elts[1].args) in (4, 5) and all(_name(a) for a in y.elts[1].args)):
                a = [self.slot(x.id, x) for x in y.elts[1].args]
                ts = "None" if len(a) == 4 else "(Some %d)" % a[4]
                return "MYieldMsg %d %d %d %d %d %s" % (self.slot(y.elts[0].id, y), a[0], a[1], a[2], a[3], ts)
            refuse(node, "yield")
        if isinstance(node, ast.For) and not node.orelse:
            t = node.target
            body = node.body
            if not (isinstance(t, ast.Tuple) and len(t.elts) == 2 and all(_name(x) for x in t.elts) and len(body) == 1
                    and isinstance(body[0], ast.Expr) and isinstance(body[0].value, ast.Yield) and isinstance(body[0].value.value, ast.Tuple)
                    and [getattr(x, "id", None) for x in body[0].value.value.elts] == [x.id for x in t.elts]):
                refuse(node, "for loop")
            for x in t.elts:
                self.slot(x.id, x, True)
            src = _is_set_iter_call(node.iter)
            if src is not None:
                return "MYieldFromSet %d" % self.slot(src, node)
            it = node.iter
            if (isinstance(it, ast.Call) and _name(it.func) and it.func.id in inner_defs and inner_defs[it.func.id] == "absolute" and len(it.args) == 2
                    and not it.keywords and _name(it.args[0]) and _is_set_iter_call(it.args[1]) is not None):
                return "MYieldFromAbs %d %d" % (self.slot(it.args[0].id, it), self.slot(_is_set_iter_call(it.args[1]), it))
            refuse(node, "for iterable")
        if isinstance(node, ast.Raise):
            return "MRaise %s" % self.raise_(node)
        if isinstance(node, ast.Return):      # return vN(data, offset, cur): the nested generator function, inlined
            c = node.value
            if (isinstance(c, ast.Call) and _name(c.func) and c.func.id in inner_defs and inner_defs[c.func.id] != "absolute" and not c.keywords
                    and [getattr(a, "id", None) for a in c.args] == ["data", "offset", "cur"]):
                return "(%s)" % self.block(inner_defs[c.func.id].body, inner_defs)
            refuse(node, "return")
        refuse(node, type(node).__name__)

    def block(self, body, inner_defs):
        parts = [x for x in (self.stmt(n, inner_defs) for n in body) if x is not None]
        if not parts:
            return "MSkip"
        out = parts[-1]
        for p in reversed(parts[:-1]):
            out = "MSeq (%s) (%s)" % (p, out)
        return out


def translate_absolute(fn):
    if [a.arg for a in fn.args.args] != ["wrapper_offset", "inner"] or fn.decorator_list or fn.args.defaults:
        refuse(fn, "absolute signature")
    slots = ["wrapper_offset", "inner"]

    def slot(name, node, define=False):
        if name not in slots:
            if not define:
                refuse(node, "read of unknown name %s" % name)
            slots.append(name)
        return slots.index(name)

    def block(body):
        parts = [stmt(n) for n in body if not (isinstance(n, ast.Expr) and isinstance(n.value, ast.Constant))]
        if not parts:
            return "ASkip"
        out = parts[-1]
        for p in reversed(parts[:-1]):
            out = "ASeq (%s) (%s)" % (p, out)
        return out

    def stmt(node):
        if isinstance(node, ast.Assign) and len(node.targets) == 1 and _name(node.targets[0]):
            t, v = node.targets[0], node.value
            if isinstance(v, ast.Call) and _name(v.func, "list") and len(v.args) == 1 and _name(v.args[0]) and v.args[0].id == t.id and not v.keywords:
                return "AListOf %d" % slot(t.id, t)
            if (isinstance(v, ast.BinOp) and isinstance(v.op, ast.Sub) and _name(v.left) and isinstance(v.right, ast.Attribute) and v.right.attr == "offset"
                    and isinstance(v.right.value, ast.Subscript) and _name(v.right.value.value)
                    and isinstance(v.right.value.slice, ast.UnaryOp) and isinstance(v.right.value.slice.op, ast.USub)
                    and isinstance(v.right.value.slice.operand, ast.Constant) and v.right.value.slice.operand.value == 1):
                w, l = slot(v.left.id, v), slot(v.right.value.value.id, v)
                return "ABase %d %d %d" % (slot(t.id, t, True), w, l)
            refuse(node, "assignment in absolute")
        if isinstance(node, ast.If) and _name(node.test) and not node.orelse:
            return "AIfNonEmpty %d (%s)" % (slot(node.test.id, node), block(node.body))
        if isinstance(node, ast.For) and not node.orelse and _name(node.iter):
            t, body = node.target, node.body
            ok = (isinstance(t, ast.Tuple) and len(t.elts) == 2 and all(_name(x) for x in t.elts) and len(body) == 1 and isinstance(body[0], ast.Expr)
                  and isinstance(body[0].value, ast.Yield) and isinstance(body[0].value.value, ast.Tuple) and len(body[0].value.value.elts) == 2)
            if ok:
                y0, y1 = body[0].value.value.elts
                ok = (isinstance(y0, ast.BinOp) and isinstance(y0.op, ast.Add) and _name(y0.left, t.elts[0].id) and _name(y0.right)
                      and _name(y1, t.elts[1].id))
            if not ok:
                refuse(node, "for loop in absolute")
            lsl = slot(node.iter.id, node)
            b = slot(y0.right.id, y0)
            slot(t.elts[0].id, t, True)
            slot(t.elts[1].id, t, True)
            return "AYieldShifted %d %d" % (lsl, b)
        refuse(node, "%s in absolute" % type(node).__name__)

    return block(fn.body)


def translate_decode_message(fn, consts):
    if [a.arg for a in fn.args.args] != ["cls", "data", "offset"] or fn.args.defaults or fn.args.vararg or fn.args.kwarg or fn.args.kwonlyargs:
        refuse(fn, "signature")
    if [d.id if _name(d) else None for d in fn.decorator_list] != ["classmethod"]:
        refuse(fn, "decorators")
    defs = {}
    for n in fn.body:
        if isinstance(n, ast.FunctionDef):
            if n.name == "absolute":
                defs[n.name] = "absolute"
            else:
                if [a.arg for a in n.args.args] != ["data", "offset", "cur"] or n.decorator_list or n.args.defaults:
                    refuse(n, "nested function signature")
                defs[n.name] = n
    for sub in ast.walk(fn):
        if isinstance(sub, (ast.Global, ast.Nonlocal, ast.Lambda, ast.Try, ast.With, ast.While, ast.AugAssign, ast.NamedExpr, ast.ListComp,
                            ast.GeneratorExp, ast.DictComp, ast.SetComp, ast.Delete, ast.YieldFrom)):
            refuse(sub, type(sub).__name__)
    absn = [n for n in fn.body if isinstance(n, ast.FunctionDef) and n.name == "absolute"]
    helper = translate_absolute(absn[0]) if absn else "ASkip"
    f = MFn(consts)
    body = f.block(fn.body, defs)
    return {"status": "translated", "term": "mk_mprog %d 0 (%s) (%s)" % (len(f.slots), body, helper), "nvars": len(f.slots), "vars": list(f.slots), "type": "mprog"}


def translate_set_iter(fn):
    if [a.arg for a in fn.args.args] != ["cls", "data"] or fn.args.defaults or [d.id if _name(d) else None for d in fn.decorator_list] != ["classmethod"]:
        refuse(fn, "signature")
    slots = []

    def slot(name, node, define=False):
        if name in ("data", "cur", "cls"):
            refuse(node, "use of %s as a value" % name)
        if name not in slots:
            if not define:
                refuse(node, "read of unknown name %s" % name)
            slots.append(name)
        return slots.index(name)

    def seq(parts):
        parts = [p for p in parts if p is not None]
        if not parts:
            return "SsSkip"
        out = parts[-1]
        for p in reversed(parts[:-1]):
            out = "SsSeq (%s) (%s)" % (p, out)
        return out

    def block(body):
        return seq([stmt(n) for n in body])

    state = {"cur0": False}

    def stmt(node):
        if isinstance(node, ast.Expr) and isinstance(node.value, ast.Constant) and isinstance(node.value.value, str):
            return None
        if isinstance(node, ast.Assign) and len(node.targets) == 1:
            t, v = node.targets[0], node.value
            if _name(t, "cur") and isinstance(v, ast.Constant) and v.value == 0 and type(v.value) is int and not state["cur0"]:
                state["cur0"] = True
                return None
            if _name(t) and isinstance(v, ast.Constant) and v.value is False:
                return "SsInit %d" % slot(t.id, t, True)
            if (isinstance(t, ast.Tuple) and len(t.elts) == 2 and _name(t.elts[1], "cur") and isinstance(v, ast.Call) and _name(v.func) and not v.keywords):
                if v.func.id == "read_int_string" and [getattr(a, "id", None) for a in v.args] == ["data", "cur"] and _name(t.elts[0]):
                    return "SsReadIntString %d" % slot(t.elts[0].id, t, True)
                if (v.func.id == "relative_unpack" and len(v.args) == 3 and _name(v.args[1], "data") and _name(v.args[2], "cur")
                        and isinstance(v.args[0], ast.Constant) and isinstance(v.args[0].value, str) and isinstance(t.elts[0], ast.Tuple)
                        and all(_name(x) for x in t.elts[0].elts)):
                    f = v.args[0].value
                    if not (f.startswith(">") and len(f) - 1 == len(t.elts[0].elts) and all(c in FMT for c in f[1:])):
                        refuse(node, "struct format")
                    return "SsUnpack %s %s" % (lst([FMT[c] for c in f[1:]]), lst([str(slot(x.id, x, True)) for x in t.elts[0].elts]))
            if (_name(t) and isinstance(v, ast.Call) and isinstance(v.func, ast.Attribute) and v.func.attr == "_decode_message" and _name(v.func.value)
                    and v.func.value.id in ("KafkaCodec", "cls") and len(v.args) == 2 and all(_name(a) for a in v.args) and not v.keywords):
                m, o = slot(v.args[0].id, v), slot(v.args[1].id, v)
                return "SsCallMessage %d %d %d" % (slot(t.id, t, True), m, o)
            refuse(node, "assignment")
        if isinstance(node, ast.While) and not node.orelse:
            t = node.test
            if not (isinstance(t, ast.Compare) and len(t.ops) == 1 and isinstance(t.ops[0], ast.Lt) and _name(t.left, "cur")
                    and isinstance(t.comparators[0], ast.Call) and _name(t.comparators[0].func, "len") and len(t.comparators[0].args) == 1
                    and _name(t.comparators[0].args[0], "data")):
                refuse(node, "while test")
            if not state["cur0"]:
                refuse(node, "cursor not initialised to 0")
            return "SsWhileData (%s)" % block(node.body)
        if isinstance(node, ast.Try) and not node.orelse and not node.finalbody and len(node.handlers) == 1:
            h = node.handlers[0]
            if not (_name(h.type, "BufferUnderflowError") and h.name is None):
                refuse(node, "except clause")
            return "SsTry (%s) (%s)" % (block(node.body), block(h.body))
        if isinstance(node, ast.For) and not node.orelse and _name(node.iter):
            t, body = node.target, node.body
            ok = (isinstance(t, ast.Tuple) and len(t.elts) == 2 and all(_name(x) for x in t.elts) and len(body) == 2
                  and isinstance(body[0], ast.Assign) and len(body[0].targets) == 1 and _name(body[0].targets[0])
                  and isinstance(body[0].value, ast.Constant) and body[0].value.value is True
                  and isinstance(body[1], ast.Expr) and isinstance(body[1].value, ast.Yield) and isinstance(body[1].value.value, ast.Call)
                  and _name(body[1].value.value.func, "OffsetAndMessage") and not body[1].value.value.keywords
                  and [getattr(a, "id", None) for a in body[1].value.value.args] == [x.id for x in t.elts])
            if not ok:
                refuse(node, "for loop")
            it = slot(node.iter.id, node)
            fl = slot(body[0].targets[0].id, node)
            for x in t.elts:
                slot(x.id, x, True)
            return "SsForYield %d %d" % (it, fl)
        if isinstance(node, ast.If):
            t = node.test
            if (isinstance(t, ast.Compare) and len(t.ops) == 1 and isinstance(t.ops[0], ast.Is) and _name(t.left)
                    and isinstance(t.comparators[0], ast.Constant) and t.comparators[0].value is False):
                return "SsIfFlagFalse %d (%s) (%s)" % (slot(t.left.id, t), block(node.body), block(node.orelse) if node.orelse else "SsSkip")
            refuse(node, "if")
        if isinstance(node, ast.Raise):
            x = node.exc.func if isinstance(node.exc, ast.Call) else node.exc
            if not (_name(x) and x.id in EXCS):
                refuse(node, "raise")
            if node.cause is not None and not (isinstance(node.cause, ast.Constant) and node.cause.value is None):
                refuse(node, "raise from")
            return "SsRaise %s" % EXCS[x.id]
        if isinstance(node, ast.Return) and node.value is None:
            return "SsReturn"
        refuse(node, type(node).__name__)

    term = block(fn.body)
    return {"status": "translated", "term": "mk_sprog %d (%s)" % (len(slots), term), "nvars": len(slots), "vars": list(slots), "type": "sprog"}


def imported_consts(tree, repo):
    """integer constants that kafkacodec.py imports by name from sibling modules (from .common import CODEC_GZIP, ...)"""
    out = {}
    for n in tree.body:
        if isinstance(n, ast.ImportFrom) and n.level == 1 and n.module and repo is not None:
            path = os.path.join(repo, "afkak", n.module + ".py")
            try:
                mc = module_consts(ast.parse(open(path).read()))
            except (OSError, SyntaxError):
                continue
            for a in n.names:
                if a.asname is None and a.name in mc:
                    out[a.name] = mc[a.name]
    return out


def translate_msgset(text, repo=None):
    tree = ast.parse(text)
    consts = imported_consts(tree, repo)
    consts.update(module_consts(tree))
    cls = [n for n in tree.body if isinstance(n, ast.ClassDef) and n.name == "KafkaCodec"]
    methods = {n.name: n for n in cls[0].body if isinstance(n, ast.FunctionDef)} if len(cls) == 1 else {}
    out = {}
    for key, name, f in (("msg__decode_message", "_decode_message", lambda m: translate_decode_message(m, consts)),
                         ("msg__decode_message_set_iter", "_decode_message_set_iter", translate_set_iter)):
        try:
            if name not in methods:
                raise Refuse("method %s not found" % name)
            out[key] = f(methods[name])
        except Refuse as e:
            out[key] = {"status": "refused", "reason": str(e)}
        except RecursionError:
            out[key] = {"status": "refused", "reason": "source too deeply nested"}
    return out


def translate_repo(repo):
    ktext = open(os.path.join(repo, "afkak", "kafkacodec.py")).read()
    out = translate_source(ktext)
    out.update(translate_msgset(ktext, repo))
    try:
        out.update(translate_util(open(os.path.join(repo, "afkak", "_util.py")).read()))
    except (SyntaxError, OSError) as e:
        for name in UTIL_READERS + list(UTIL_DECODED):
            out["util_" + name] = {"status": "refused", "reason": repr(e)[:100]}
    return out


def coq_definitions(result, prefix):
    """Gallina text of the translated decoders (module body)"""
    lines = []
    for name in sorted(result):
        r = result[name]
        if r["status"] != "translated":
            continue
        if "type" in r:
            lines.append("Definition %s%s : %s :=\n  %s." % (prefix, name, r["type"], r["term"]))
        else:
            lines.append("Definition %s%s : prog := mk_prog %d\n  (%s)." % (prefix, name, r["nvars"], r["term"]))
    return "\n".join(lines) + "\n"


HEADER = """(* GENERATED by harness/py2dsl.py --snapshot from /repo/afkak/kafkacodec.py - do not edit.
   The decoder-language terms (Model.DecDSL.stmt) of afkak's response decoders as the source read when the snapshot
   was taken.  Proofs/DecDSLSound.v proves that interpreting them is the hand-written model Model.Responses; on every
   run harness/py2dsl.py translates the source again and Props/C05gen.v is re-checked against THAT translation. *)
From AV Require Import Base.Util Model.Prim Model.DecDSL Model.ReadDSL Model.MsgDSL.
Local Open Scope nat_scope.      (* variable slots are nat; the integer constants of the source carry %Z *)
"""

if __name__ == "__main__":
    repo = os.environ.get("VERIF_REPO", "/repo")
    res = translate_repo(repo)
    for k in sorted(res):
        r = res[k]
        print("%-44s %s" % (k, r["status"] + ("" if r["status"] == "translated" else ": " + r["reason"])))
    if "--snapshot" in sys.argv:
        root = os.path.dirname(os.path.dirname(os.path.abspath(__file__)))
        p = os.path.join(root, "coq", "Model", "DecAst.v")
        open(p, "w").write(HEADER + "\n" + coq_definitions(res, "ast_"))
        print("wrote", p)
    if "--show" in sys.argv:
        print(coq_definitions(res, "gen_"))
