# C15, tie (A): this run's translation of afkak/_group.py:_round_robin_assignment (harness/py2assign.py) is proved
# equal to the hand-written model Assign.round_robin in a scratch directory coq/Run/out/gen/<id>/ (untracked).
# Nothing tracked is written.  The scratch files are the TRACKED proof/statement files with the import of the snapshot
# Model.AssignGen replaced by the run's module (same scheme as harness/murmur_tie.py for C18):
#     AssignGenRun.v    = the translation
#     AssignGenRunEq.v  = Proofs/AssignGenEq.v   (proof: the generic tactic gen_rr_tac of Proofs/AssignGenTac.v)
#     C15genRun.v       = Props/C15gen.v         (statements + Print Assumptions)
import fcntl
import glob
import hashlib
import os
import re
import shutil
import time

import vlib

GEN = os.path.join(vlib.OUT, "gen")
BASE_TARGETS = ["Proofs/AssignGenTac.vo", "Proofs/AssignWrapGenTac.vo", "Model/AssignPy.vo"]
SNAP_MODULES = r"(Model\.AssignGen|Proofs\.AssignGenEq|Model\.AssignWrapGen|Proofs\.AssignWrapGenEq)\b"
SNAPSHOT = os.path.join(vlib.COQ, "Model", "AssignGen.v")
SNAPSHOT_WRAP = os.path.join(vlib.COQ, "Model", "AssignWrapGen.v")
# part "rr": _round_robin_assignment;  part "wrap": generate_assignments / decode_assignment / join_group_protocols
# (the wrap files import the rr files: its proof uses the theorem about THIS run's gen_round_robin)
PARTS = {
    "rr": {"files": [("AssignGenRun", 120), ("AssignGenRunEq", 300)], "props": "C15genRun", "tracked_props": "Props/C15gen.v"},
    "wrap": {"files": [("AssignGenRun", 120), ("AssignGenRunEq", 300), ("AssignWrapGenRun", 120), ("AssignWrapGenRunEq", 300)],
             "props": "C15genwrapRun", "tracked_props": "Props/C15genwrap.v"},
}


def _retarget(text, run_imports):
    lines, done = [], False
    for line in text.splitlines():
        if line.startswith("From AV Require Import"):
            line = re.sub(r"\s+" + SNAP_MODULES, "", line)
            lines.append(line)
            if not done:
                lines.append("From AVRun Require Import %s." % " ".join(run_imports))
                done = True
        else:
            lines.append(line)
    if not done:
        raise vlib.CheckAbort("tracked proof file without a `From AV Require Import` line")
    return "\n".join(lines) + "\n"


def scratch_texts(translation, wrap=None):
    rd = lambda rel: open(os.path.join(vlib.COQ, rel)).read()
    out = {"AssignGenRun.v": translation,
           "AssignGenRunEq.v": _retarget(rd("Proofs/AssignGenEq.v"), ["AssignGenRun"])}
    if wrap is None:
        out["C15genRun.v"] = _retarget(rd("Props/C15gen.v"), ["AssignGenRun", "AssignGenRunEq"])
    else:
        out["AssignWrapGenRun.v"] = _retarget(wrap, ["AssignGenRun"])
        out["AssignWrapGenRunEq.v"] = _retarget(rd("Proofs/AssignWrapGenEq.v"), ["AssignGenRun", "AssignGenRunEq", "AssignWrapGenRun"])
        out["C15genwrapRun.v"] = _retarget(rd("Props/C15genwrap.v"), ["AssignGenRun", "AssignWrapGenRun", "AssignWrapGenRunEq"])
    return out


def _prune(keep):
    for d in glob.glob(os.path.join(GEN, "*")):
        try:
            if os.path.isdir(d) and os.path.basename(d) != keep and time.time() - os.path.getmtime(d) > 86400:
                shutil.rmtree(d, ignore_errors=True)
        except OSError:
            pass


def make_base(jobs=8):
    """the tracked files the scratch proof needs (never the snapshot)"""
    lock = open(os.path.join(vlib.COQ, ".lock"), "w")
    fcntl.flock(lock, fcntl.LOCK_EX)
    try:
        files = vlib.vfiles()
        proj = "-Q . AV\n-arg -w -arg -notation-overridden,-deprecated,-non-recursive\n" + "\n".join(files) + "\n"
        pj = os.path.join(vlib.COQ, "_CoqProject")
        if not os.path.exists(pj) or open(pj).read() != proj or not os.path.exists(os.path.join(vlib.COQ, "Makefile")):
            open(pj, "w").write(proj)
            vlib.sh("coq_makefile -f _CoqProject -o Makefile", 120, cwd=vlib.COQ)
        rc, o = vlib.sh("timeout 900 make -j%d %s 2>&1" % (jobs, " ".join(BASE_TARGETS)), 1000, cwd=vlib.COQ)
        return rc == 0, o[-3000:]
    finally:
        fcntl.flock(lock, fcntl.LOCK_UN)
        lock.close()


def compile_scratch(translation, wrap=None):
    """Compile (cached per text) the run's translation and its proof; ALWAYS re-compiles the statements file afresh and
    parses its Print Assumptions output.
    Returns {ok, log, dir, theorems:[{name, axioms, accepted}], obligations, discharged, cmd, stage}"""
    part = PARTS["rr" if wrap is None else "wrap"]
    pname = part["props"]
    texts = scratch_texts(translation, wrap)
    ident = ("c15_" if wrap is None else "c15w_") + hashlib.sha1("\0".join(texts[k] for k in sorted(texts)).encode()).hexdigest()[:16]
    d = os.path.join(GEN, ident)
    os.makedirs(d, exist_ok=True)
    _prune(ident)
    rel = os.path.relpath(d, vlib.COQ)
    res = {"ok": False, "log": "", "dir": d, "theorems": [], "obligations": 0, "discharged": 0, "stage": "", "cmd": ""}
    cf = vlib.comment_free(texts[pname + ".v"])
    thms = re.findall(r"^\s*Theorem\s+([\w']+)", cf, re.M)
    prints = re.findall(r"^\s*Print\s+Assumptions\s+([\w']+)", cf, re.M)
    res["obligations"] = len(thms)
    if set(thms) - set(prints):
        raise vlib.CheckAbort(part["tracked_props"] + ": theorems without Print Assumptions")
    lock = open(os.path.join(d, ".lock"), "w")
    fcntl.flock(lock, fcntl.LOCK_EX)
    try:
        for name, text in texts.items():
            p = os.path.join(d, name)
            if not os.path.exists(p) or open(p).read() != text:
                open(p, "w").write(text)
        base_vo = [os.path.join(vlib.COQ, t) for t in BASE_TARGETS]
        newest = max(os.path.getmtime(f) for f in base_vo if os.path.exists(f))
        flags = "-Q . AV -Q %s AVRun -w -notation-overridden,-deprecated" % rel
        for name, tmo in part["files"]:
            vo = os.path.join(d, name + ".vo")
            if os.path.exists(vo) and os.path.getmtime(vo) >= newest and os.path.getmtime(vo) >= os.path.getmtime(os.path.join(d, name + ".v")):
                continue
            try:
                os.remove(vo)
            except OSError:
                pass
            cmd = "timeout %d coqc %s %s/%s.v" % (tmo, flags, rel, name)
            rc, out = vlib.sh(cmd, tmo + 30, cwd=vlib.COQ)
            if rc or not os.path.exists(vo):
                res["stage"] = name
                res["log"] = ("%s does not compile (%s)\n" % (name, "the translation is not well-typed Gallina" if not name.endswith("Eq")
                              else "DIFFERS: the generic proof does not establish generated = hand-written model")) + out[-2500:]
                return res
        cmd = "timeout 300 coqc %s %s/%s.v" % (flags, rel, pname)
        res["cmd"] = "cd /verif/coq && " + cmd
        rc, out = vlib.sh(cmd, 330, cwd=vlib.COQ)
        if rc:
            res["stage"] = pname
            res["log"] = pname + ".v does not compile (DIFFERS: e.g. the non-vacuity example no longer computes)\n" + out[-2500:]
            return res
        blocks = vlib.parse_assumptions(out)
        if len(blocks) != len(prints):
            res["stage"] = pname
            res["log"] = "Print Assumptions blocks %d != expected %d\n%s" % (len(blocks), len(prints), out[-1500:])
            return res
        good = True
        for name, ax in zip(prints, blocks):
            okax = all(a in vlib.STDLIB_AXIOMS or a.split(".")[-1] in vlib.STDLIB_AXIOMS for a in ax)
            res["theorems"].append({"name": name + " (this run's translation)", "axioms": ax, "accepted": okax})
            if name in thms:
                if okax:
                    res["discharged"] += 1
                else:
                    good = False
                    res["log"] += "theorem %s depends on non-stdlib axioms %r\n" % (name, ax)
        res["ok"] = good and res["discharged"] == len(thms)
        return res
    finally:
        fcntl.flock(lock, fcntl.LOCK_UN)
        lock.close()


def translator_tie(ck):
    """tie (A) of C15.  Returns (state, reason): state in {"intact", "unavailable", "differs"}; on "intact" the two
    obligations are added to the evidence counters."""
    import py2assign
    src = os.path.join(vlib.REPO, "afkak/_group.py") + ":_ConsumerProtocol._round_robin_assignment"
    ok, text, msg = py2assign.translate_repo(vlib.REPO)
    info = {"source": src, "translated": ok, "message": msg}
    ck.cov["translator"] = info
    if not ok:
        ck.cov["translator_tie_wrapping"] = "unavailable: the tie of _round_robin_assignment, which generate_assignments calls, is unavailable"
        return "unavailable", "translation refused (%s)" % msg
    try:
        info["same_as_committed_snapshot_Model/AssignGen.v"] = (open(SNAPSHOT).read() == text)
    except OSError:
        info["same_as_committed_snapshot_Model/AssignGen.v"] = False
    okb, log = make_base()
    if not okb:
        raise vlib.CheckAbort("coq build of the generic translator proof (Proofs/AssignGenTac.v) failed:\n" + log)
    r = compile_scratch(text)
    info["scratch_dir"] = os.path.relpath(r["dir"], vlib.ROOT)
    if not r["ok"]:
        info["proof"] = r["log"][-1500:]
        first = r["log"].strip().splitlines()[0] if r["log"].strip() else r["stage"]
        ck.cov["translator_tie_wrapping"] = "unavailable: the tie of _round_robin_assignment, which generate_assignments calls, is not intact"
        return ("differs" if r["stage"] != "AssignGenRun" else "unavailable"), first
    ck.cov["obligations"] += r["obligations"]
    ck.cov["discharged"] += r["discharged"]
    ck.cov["theorems"] += r["theorems"]
    ck.cov["checker_cmd"] += " ; " + r["cmd"]
    ck.cov["trusted_base"].append("translator harness/py2assign.py (Python statements read as the combinators of Model/AssignPy.v; sets as duplicate-free lists, dicts as association lists, itertools.cycle as (list, index), `while` with explicit fuel)")
    # part 2: generate_assignments / decode_assignment / join_group_protocols (needs part 1: calls gen_round_robin)
    state, reason = wrapping_tie(ck, text)
    ck.cov["translator_tie_wrapping"] = "intact" if state == "intact" else "%s: %s" % (state, reason)
    return "intact", "intact"


def wrapping_tie(ck, rr_text):
    import py2assign
    ok, wtext, msg = py2assign.translate_repo_wrapping(vlib.REPO)
    info = {"source": os.path.join(vlib.REPO, "afkak/_group.py") + ":_ConsumerProtocol.generate_assignments/decode_assignment/join_group_protocols",
            "translated": ok, "message": msg}
    ck.cov["translator_wrapping"] = info
    if not ok:
        return "unavailable", "translation refused (%s)" % msg
    try:
        info["same_as_committed_snapshot_Model/AssignWrapGen.v"] = (open(SNAPSHOT_WRAP).read() == wtext)
    except OSError:
        info["same_as_committed_snapshot_Model/AssignWrapGen.v"] = False
    r = compile_scratch(rr_text, wrap=wtext)
    info["scratch_dir"] = os.path.relpath(r["dir"], vlib.ROOT)
    if not r["ok"]:
        info["proof"] = r["log"][-1500:]
        first = r["log"].strip().splitlines()[0] if r["log"].strip() else r["stage"]
        return ("differs" if r["stage"] not in ("AssignWrapGenRun", "AssignGenRun") else "unavailable"), first
    ck.cov["obligations"] += r["obligations"]
    ck.cov["discharged"] += r["discharged"]
    ck.cov["theorems"] += r["theorems"]
    ck.cov["checker_cmd"] += " ; " + r["cmd"]
    return "intact", "intact"


def refresh_snapshot():
    """rewrite the committed snapshot coq/Model/AssignGen.v from /repo - only after its proof compiled in scratch"""
    import py2assign
    ok, text, msg = py2assign.translate_repo("/repo")
    if not ok:
        return False, "snapshot kept; /repo not translatable: " + msg
    old = open(SNAPSHOT).read() if os.path.exists(SNAPSHOT) else None
    if old == text:
        return True, "snapshot up to date"
    okb, log = make_base()
    r = compile_scratch(text) if okb else {"ok": False, "log": log}
    if not r["ok"]:
        return False, "snapshot kept; the proof about the new translation does not compile: " + r["log"][-300:]
    tmp = SNAPSHOT + ".tmp%d" % os.getpid()
    open(tmp, "w").write(text)
    os.replace(tmp, SNAPSHOT)
    return True, "snapshot refreshed"


def refresh_snapshot_wrap():
    """the same for coq/Model/AssignWrapGen.v"""
    import py2assign
    ok, text, msg = py2assign.translate_repo("/repo")
    okw, wtext, wmsg = py2assign.translate_repo_wrapping("/repo")
    if not (ok and okw):
        return False, "snapshot kept; /repo not translatable: " + (msg if not ok else wmsg)
    old = open(SNAPSHOT_WRAP).read() if os.path.exists(SNAPSHOT_WRAP) else None
    if old == wtext:
        return True, "snapshot up to date"
    okb, log = make_base()
    r = compile_scratch(text, wrap=wtext) if okb else {"ok": False, "log": log}
    if not r["ok"]:
        return False, "snapshot kept; the proof about the new translation does not compile: " + r["log"][-300:]
    tmp = SNAPSHOT_WRAP + ".tmp%d" % os.getpid()
    open(tmp, "w").write(wtext)
    os.replace(tmp, SNAPSHOT_WRAP)
    return True, "snapshot refreshed"


_refresh_rr = refresh_snapshot


def refresh_snapshot():      # called by ./check --setup: both snapshots
    a = _refresh_rr()
    b = refresh_snapshot_wrap()
    return (a[0] and b[0]), "AssignGen.v: %s; AssignWrapGen.v: %s" % (a[1], b[1])


if __name__ == "__main__":
    print(refresh_snapshot())
