import importlib
import json
import os
import sys

sys.path.insert(0, os.path.dirname(os.path.abspath(__file__)))
import vlib  # noqa: E402


def main(argv):
    if not argv:
        print("usage: check <Cxx> quick|thorough | --replay <file> | --setup")
        return 2
    if argv[0] == "--setup":
        bad = vlib.gate()
        if bad:
            print("forbidden constructs:", bad)
            return 1
        # files regenerated from /repo by translators must exist before the full build
        import py2coq
        print("translator:", py2coq.generate_murmur(vlib.REPO, os.path.join(vlib.COQ, "Model", "MurmurGen.v")))
        vlib.build_all(None)
        print("setup ok")
        return 0
    if argv[0] == "--replay":
        rp = json.load(open(argv[1]))
        mod = importlib.import_module("props." + rp["property"])
        vlib.import_repo()
        return mod.replay(rp)
    pid = argv[0]
    tier = argv[1] if len(argv) > 1 else os.environ.get("VERIF_TIER", "quick")
    seed = int(os.environ.get("VERIF_SEED", "0"))
    mod = importlib.import_module("props." + pid)
    return vlib.run_check(pid, tier, seed, mod.run)


if __name__ == "__main__":
    sys.exit(main(sys.argv[1:]))
