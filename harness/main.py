import importlib
import json
import os
import sys

sys.path.insert(0, os.path.dirname(os.path.abspath(__file__)))
import vlib  # noqa: E402


def main(argv):
    if not argv:
        print("usage: check <Cxx> quick|thorough | --replay <file> | --setup")
        return 2
    if argv[0] == "--setup":
        bad = vlib.gate()
        if bad:
            print("forbidden constructs:", bad)
            return 1
        # files regenerated from /repo by translators must exist before the full build
        import py2coq
        print("translator:", py2coq.generate_murmur(vlib.REPO, os.path.join(vlib.COQ, "Model", "MurmurGen.v")))
        for mod in ("assign_tie", "part_tie"):      # other translator ties that keep a committed snapshot of the translation of /repo
            try:
                m = importlib.import_module(mod)
                print("translator (%s):" % mod, m.refresh_snapshot())
            except Exception as e:       # a tie that cannot refresh is reported by its check (two-ties rule), not here
                print("translator (%s): not refreshed: %r" % (mod, e))
        # Build what the claimed checks need (hard failure), then try the rest of the development (soft: a file of a
        # property that is not claimed yet must not break the set-up of the others; every check re-builds its own
        # dependency cone anyway).  VERIF_SETUP_FULL=1 makes the full build mandatory.
        man = json.load(open(os.path.join(vlib.ROOT, "MANIFEST.json")))
        claimed = [c["property_id"] for c in man.get("checks", [])]
        targets = ["Props/%s.vo" % i for i in claimed if os.path.exists(os.path.join(vlib.COQ, "Props", i + ".v"))]
        vlib.build_all([], targets=targets)
        print("claimed targets built:", " ".join(claimed))
        try:
            vlib.build_all(None)
            print("full development built")
        except vlib.CheckAbort as e:
            if os.environ.get("VERIF_SETUP_FULL"):
                raise
            print("NOTE: full build incomplete (files outside the claimed checks):", str(e)[-600:])
            for ex in sorted(os.listdir(os.path.join(vlib.COQ, "Run"))):
                if ex.startswith("Ex") and ex.endswith(".v"):
                    try:
                        vlib.build_all([ex[2:-2].lower()], targets=[])
                    except vlib.CheckAbort as e2:
                        print("NOTE: runner %s not built: %s" % (ex, str(e2)[-200:]))
        print("setup ok")
        return 0
    if argv[0] == "--replay":
        rp = json.load(open(argv[1]))
        mod = importlib.import_module("props." + rp["property"])
        vlib.import_repo()
        return mod.replay(rp)
    pid = argv[0]
    tier = argv[1] if len(argv) > 1 else os.environ.get("VERIF_TIER", "quick")
    seed = int(os.environ.get("VERIF_SEED", "0"))
    mod = importlib.import_module("props." + pid)
    return vlib.run_check(pid, tier, seed, mod.run)


if __name__ == "__main__":
    sys.exit(main(sys.argv[1:]))
