#!/usr/bin/env python3
"""Regenerates java_murmur2_vectors.json with a REAL JVM (javac/java must be installed).  Run by hand, once:
     cd /verif/harness/corpus/C18 && python3 gen_java_vectors.py
The check harness/props/C18.py only READS the JSON (no Java needed where the checks run)."""
import json
import os
import random
import subprocess
import tempfile

HERE = os.path.dirname(os.path.abspath(__file__))
NS = [1, 2, 3, 4, 5, 7, 12, 16, 31, 50, 200, 1000]


def keys():
    rnd = random.Random(180218)
    out = []
    corners = [0x00, 0x01, 0x7F, 0x80, 0x81, 0xFE, 0xFF]
    for n in range(0, 41):                       # every length 0..40, many styles
        reps = 12
        for _ in range(reps):
            out.append([rnd.randint(0, 255) for _ in range(n)])
            out.append([rnd.randint(0x80, 0xFF) for _ in range(n)])
            out.append([rnd.choice(corners) for _ in range(n)])
            out.append([rnd.randint(0x20, 0x7E) for _ in range(n)])
        out.append([0xFF] * n)
        out.append([0x80] * n)
        out.append([0x00] * n)
        out.append([0x7F] * n)
    for n in range(1, 24):                       # sign-extension corners: one high byte at each position
        for pos in range(n):
            for hb in (0x80, 0xFF):
                k = [0] * n
                k[pos] = hb
                out.append(k)
                k = [0x41] * n
                k[pos] = hb
                out.append(k)
    for n in range(1, 12):                       # the 1-3 trailing bytes: every combination of corner values
        t = n % 4
        if t == 0:
            continue
        base = [rnd.randint(0, 255) for _ in range(n - t)]
        tails = [[]]
        for _ in range(t):
            tails = [x + [c] for x in tails for c in (0x00, 0x7F, 0x80, 0xFF)]
        out.extend(base + x for x in tails)
    for n in list(range(41, 130, 3)) + [255, 256, 257, 258, 511, 600, 1000, 1021, 1022, 1023, 1024]:   # every residue, longer
        out.append([rnd.randint(0, 255) for _ in range(n)])
        out.append([rnd.randint(0x80, 0xFF) for _ in range(n)])
    for s in ["", "a", "21", "abc", "foobar", "testing", "a-little-bit-long-string", "a-little-bit-longer-string",
              "lkjh234lh9fiuh90y23oiuhsafujhadof229phr9h19h89h8", "é", "ß", "abc€", "user-é",
              "привет", "\U0001F600", "ḱ", "￿", "\U0010ffff", "key-%d" % 7]:
        out.append(list(s.encode("utf-8")))
    for i in range(200):
        out.append(list(("user-%d" % i).encode()))
    seen, uniq = set(), []
    for k in out:
        t = bytes(k)
        if t not in seen:
            seen.add(t)
            uniq.append(k)
    return uniq


def main():
    ks = keys()
    d = tempfile.mkdtemp(prefix="jref.")
    subprocess.run(["javac", "-d", d, os.path.join(HERE, "Murmur2Ref.java")], check=True)
    inp = "\n".join((bytes(k).hex() or "-") for k in ks) + "\n"
    p = subprocess.run(["java", "-cp", d, "Murmur2Ref"] + [str(n) for n in NS], input=inp, capture_output=True, text=True, check=True)
    ver = subprocess.run(["java", "-version"], capture_output=True, text=True).stderr.splitlines()[0]
    vectors = []
    for k, line in zip(ks, p.stdout.splitlines()):
        f = line.split()
        assert f[0] == (bytes(k).hex() or "-")
        vectors.append([bytes(k).hex(), int(f[1]), [int(x) for x in f[2:]]])
    assert len(vectors) == len(ks)
    # sanity: Kafka's own UtilsTest.testMurmur2 values
    ref = {b"21": -973932308, b"foobar": -790332482, b"a-little-bit-long-string": -985981536,
           b"a-little-bit-longer-string": -1486304829, b"lkjh234lh9fiuh90y23oiuhsafujhadof229phr9h19h89h8": -58897971,
           b"abc": 479470107}
    got = {bytes.fromhex(h): v for h, v, _ in vectors}
    for k, v in ref.items():
        assert got[k] == v, (k, got[k], v)
    obj = {"produced_by": "Murmur2Ref.java (verbatim org.apache.kafka.common.utils.Utils.murmur2 / toPositive) on " + ver,
           "format": "[key as hex, Utils.murmur2(key) as a Java int, [Utils.toPositive(murmur2(key)) % n for n in n_list]]",
           "n_list": NS, "vectors": vectors}
    with open(os.path.join(HERE, "java_murmur2_vectors.json"), "w") as f:
        json.dump(obj, f, separators=(",", ":"))
        f.write("\n")
    lens = sorted({len(k) for k in ks})
    print("%d vectors; lengths %d..%d; residues %s; with a byte >= 0x80: %d" % (
        len(vectors), lens[0], lens[-1], sorted({len(k) % 4 for k in ks}), sum(1 for k in ks if any(b >= 0x80 for b in k))))


if __name__ == "__main__":
    main()
