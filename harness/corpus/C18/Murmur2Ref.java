// Reference used ONCE (with a real JVM) to produce harness/corpus/C18/java_murmur2_vectors.json.
// murmur2() and toPositive() are copied verbatim from Apache Kafka,
// clients/src/main/java/org/apache/kafka/common/utils/Utils.java (the partitioning the Java producer's
// DefaultPartitioner applies to a keyed record is  Utils.toPositive(Utils.murmur2(keyBytes)) % numPartitions).
// stdin : one key per line as lower-case hex ("-" for the empty key)
// stdout: "<hex> <murmur2 as a Java int> <toPositive(murmur2) % n for each n given on the command line>"
import java.io.BufferedReader;
import java.io.InputStreamReader;

public class Murmur2Ref {
    /**
     * Generates 32 bit murmur2 hash from byte array
     * @param data byte array to hash
     * @return 32 bit hash of the given array
     */
    public static int murmur2(final byte[] data) {
        int length = data.length;
        int seed = 0x9747b28c;
        // 'm' and 'r' are mixing constants generated offline.
        // They're not really 'magic', they just happen to work well.
        final int m = 0x5bd1e995;
        final int r = 24;

        // Initialize the hash to a random value
        int h = seed ^ length;
        int length4 = length / 4;

        for (int i = 0; i < length4; i++) {
            final int i4 = i * 4;
            int k = (data[i4 + 0] & 0xff) + ((data[i4 + 1] & 0xff) << 8) + ((data[i4 + 2] & 0xff) << 16) + ((data[i4 + 3] & 0xff) << 24);
            k *= m;
            k ^= k >>> r;
            k *= m;
            h *= m;
            h ^= k;
        }

        // Handle the last few bytes of the input array
        switch (length % 4) {
            case 3:
                h ^= (data[(length & ~3) + 2] & 0xff) << 16;
            case 2:
                h ^= (data[(length & ~3) + 1] & 0xff) << 8;
            case 1:
                h ^= data[length & ~3] & 0xff;
                h *= m;
            default:
        }

        h ^= h >>> 13;
        h *= m;
        h ^= h >>> 15;

        return h;
    }

    /**
     * A cheap way to deterministically convert a number to a positive value. When the input is
     * positive, the original value is returned. When the input number is negative, the returned
     * positive value is the original value bit AND against 0x7fffffff which is not its absolutely
     * value.
     */
    public static int toPositive(int number) {
        return number & 0x7fffffff;
    }

    public static void main(String[] args) throws Exception {
        int[] ns = new int[args.length];
        for (int i = 0; i < args.length; i++) ns[i] = Integer.parseInt(args[i]);
        BufferedReader in = new BufferedReader(new InputStreamReader(System.in));
        StringBuilder out = new StringBuilder();
        String line;
        while ((line = in.readLine()) != null) {
            line = line.trim();
            if (line.isEmpty()) continue;
            String hex = line.equals("-") ? "" : line;
            byte[] data = new byte[hex.length() / 2];
            for (int i = 0; i < data.length; i++) data[i] = (byte) Integer.parseInt(hex.substring(2 * i, 2 * i + 2), 16);
            int h = murmur2(data);
            out.append(line).append(' ').append(h);
            for (int n : ns) out.append(' ').append(toPositive(h) % n);
            out.append('\n');
        }
        System.out.print(out);
    }
}
